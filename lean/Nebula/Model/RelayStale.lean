/-
C39, stale hostinfo pointers: the relay-manager entry points that allocate a relay index, invoked with a
`*HostInfo` that is no longer in the hostmap.  Core Lean only.

Where a stale pointer comes from in the Go code
* `rxContext.hostmapCache` (outside.go `QueryIndexCached`, cleared by the flusher at the end of a receive
  batch): a `CloseTunnel` followed in the same batch, on the same tunnel, by a Control message — the second
  datagram is decrypted and handled (`HandleControlMsg`) on the cached, already deleted hostinfo;
* a teardown that completes between a caller's hostinfo lookup and `AddRelay` taking the hostmap lock:
  `StartRelays` (`QueryVpnAddr(relay)` … `AddRelay(relayHostInfo, …)`), the forwarding branch of
  `handleCreateRelayRequest`, `connectionManager.migrateRelayUsed(old, new)` (pointers handed over by
  `makeTrafficDecision`).

What `unlockedDeleteHostInfo` leaves behind: the hostinfo object keeps its `relayState` (records), its
`vpnAddrs`, `remote` and `ConnectionState`; only the hostmap's maps forget it (incl. the `hm.Relays` entries
of its records).  `SNode.dead` holds those objects.  `AddRelay` on such a pointer draws index candidates
(the counter advances exactly as for a live hostinfo), fails `unlockedMakePrimary`'s membership test and
returns "relay hostinfo is no longer in the hostmap": nothing is registered, no record is inserted.
-/
import Nebula.Model.Relay

namespace Nebula.Relay
open Nebula.Gen

/-- a node together with the torn-down hostinfo objects somebody still points to. -/
structure SNode where
  node : Node
  dead : List Host := []
  deriving Repr, Inhabited

def SNode.findDead (s : SNode) (hid : Nat) : Option Host := s.dead.find? (fun h => h.id == hid)

/-- the dead object `dOld` was mutated through the pointer into `dNew`. -/
def SNode.setDead (s : SNode) (dOld dNew : Host) : SNode :=
  { s with dead := s.dead.map (fun h => if h = dOld then dNew else h) }

/-- `closeTunnel` / `DeleteHostInfo` of a live hostinfo, the pointer being kept by somebody. -/
def sDelete (s : SNode) (hid : Nat) : SNode :=
  match s.node.findHost hid with
  | none => s
  | some h => { node := deleteHost s.node hid, dead := h :: s.dead.filter (fun x => !(x.id == hid)) }

/-- the state after `AddRelay(l, hostinfo hid, …)`, whatever it returned. -/
def addRelayNode (n : Node) (c : Nat) (hid : Nat) (peer : Addr) (remoteIdx : Nat) (type state : Nat) : Node × Nat :=
  match addRelay n c hid peer remoteIdx type state with
  | (none, c') => (n, c')
  | (some (n1, _), c') => (n1, c')

/-- `AddRelay` on a hostinfo that is not in the hostmap: the counter after the index draws (the error is
returned at the first candidate that is not a key of `hm.Relays`, or after 32 occupied ones). -/
def staleAddRelay (n : Node) (c : Nat) : Nat := (allocIdx n 32 c).2

abbrev SRes := Node × Host × Nat × List Out

/-- the answer of the "target is me" branch, computed on the (dead) hostinfo object itself. -/
def staleRespond (d : Host) (v1 : Bool) (frm target : Addr) : List Out :=
  match d.byAddr frm with
  | none => []
  | some r => [Out.send d.id (mkMsg v1 nebula_NebulaControl_CreateRelayResponse r.remoteIndex r.localIndex frm target)]

/-- `handleCreateRelayRequest(v, h, f, m)` with `h` = the dead hostinfo object `d`. -/
def staleCreateRelayRequest (n : Node) (c : Nat) (d : Host) (v1 : Bool) (frm target : Addr) (initIdx : Nat) : SRes :=
  if n.myAddrs.contains frm then (n, d, c, [])
  else if n.myAddrs.contains target then
    match d.byAddr frm with
    | some ex =>
      if ex.state == nebula_Requested then
        let d' := d.mapRecs (completeIpF frm initIdx)
        (n, d', c, staleRespond d' v1 frm target)
      else if ex.state == nebula_Established then
        if ex.remoteIndex != initIdx then (n, d, c, []) else (n, d, c, staleRespond d v1 frm target)
      else if ex.state == nebula_Disestablished then
        if ex.remoteIndex != initIdx then (n, d, c, [])
        else
          let d' := d.mapRecs (setStateF frm nebula_Established)
          (n, d', c, staleRespond d' v1 frm target)
      else (n, d, c, staleRespond d v1 frm target)
    | none =>
      -- AddRelay(h, …, TerminalType, Established): "relay hostinfo is no longer in the hostmap" → logged, return
      (n, d, staleAddRelay n c, [])
  else
    if !n.amRelay then (n, d, c, [])
    else match n.queryVpnAddr target with
    | none => ({ n with pending := if n.pending.contains target then n.pending else n.pending ++ [target] }, d, c, [Out.handshake target])
    | some peer =>
      if !peer.remoteValid then (n, d, c, [])
      else
        match fwdIndex n c peer frm with
        | (none, c') => (n, d, c', [])
        | (some (n1, index), c') =>
          let n2 := n1.modHost peer.id (·.mapRecs (setStateF frm nebula_Requested))
          if v1 && !is4 (d.vpnAddrs.headD 0) then (n2, d, c', [])
          else
            let req := Out.send peer.id (mkMsg v1 nebula_NebulaControl_CreateRelayRequest index 0 (d.vpnAddrs.headD 0) target)
            match d.byAddr target with
            | some _ => (n2, d, c', [req])
            | none => (n2, d, staleAddRelay n2 c', [req])   -- AddRelay(h, …, ForwardingType, PeerRequested) fails

/-- `handleCreateRelayResponse(v, h, f, m)` with `h` dead: `EstablishRelay` completes the record on the dead
object; a Forwarding record still makes the node answer the requester's live tunnel. -/
def staleCreateRelayResponse (n : Node) (c : Nat) (d : Host) (v1 : Bool) (relayTo : Addr) (initIdx respIdx : Nat) : SRes :=
  match d.byIdx initIdx with
  | none => (n, d, c, [])
  | some r =>
    let d' := d.mapRecs (completeIdxF initIdx respIdx)
    if r.type == nebula_TerminalType then (n, d', c, [])
    else match respMiddle n c v1 r.peerAddr relayTo with
      | (n1, c1, o) => (n1, d', c1, o)

/-- `HandleControlMsg(h, d, f)` with `h` dead. -/
def staleHandleControl (n : Node) (c : Nat) (d : Host) (m : Ctl) : SRes :=
  let (v1, frm, to) := m.norm
  if m.type == nebula_NebulaControl_CreateRelayRequest || m.type == nebula_NebulaControl_CreateRelayResponse then
    match frm, to with
    | some frm, some to =>
      if m.type == nebula_NebulaControl_CreateRelayRequest then staleCreateRelayRequest n c d v1 frm to m.initIdx
      else staleCreateRelayResponse n c d v1 to m.initIdx m.respIdx
    | _, _ => (n, d, c, [])
  else (n, d, c, [])

-- ---- migrateRelayUsed(old, new) with a dead `new` (a dead `old` is `migrateLoop` over its kept records)

/-- one iteration with `newhostinfo` dead: an existing Requested record is re-requested on the dead object's
keys; a missing one goes to `AddRelay`, which fails. The node state does not change. -/
def staleMigrateOne (n : Node) (c : Nat) (dn : Host) (v1 : Bool) (r : Relay) : Nat × List Out :=
  if r.type == nebula_ForwardingType && !n.amRelay then (c, [])
  else match dn.byAddr r.peerAddr with
    | some ex =>
      if ex.state == nebula_Requested then
        (c, (migrateSend n c dn.id v1 r.type ex.localIndex ex.peerAddr (dn.vpnAddrs.headD 0)).2.2)
      else (c, [])
    | none =>
      if !n.relayUsed.contains r.localIndex then (c, [])
      else (staleAddRelay n c, [])

def staleMigrateLoop (n : Node) (dn : Host) (v1 : Bool) : List Relay → Nat → List Out → Nat × List Out
  | [], c, acc => (c, acc)
  | r :: rs, c, acc =>
    match staleMigrateOne n c dn v1 r with
    | (c1, o) => staleMigrateLoop n dn v1 rs c1 (acc ++ o)

/-- `migrateRelayUsed(old, new)` on an `SNode`: each hostinfo is taken from the hostmap if it is there,
else from the dead objects. -/
def sOldRecs (s : SNode) (oldId : Nat) : Option (List Relay) :=
  match s.node.findHost oldId with
  | some oh => some oh.recs
  | none => (s.findDead oldId).map (·.recs)

def sMigrate (s : SNode) (c : Nat) (oldId newId : Nat) (v1 : Bool) : SNode × Nat × List Out :=
  match sOldRecs s oldId with
  | none => (s, c, [])
  | some recs =>
    match s.node.findHost newId with
    | some _ =>
      match migrateLoop newId v1 recs s.node c [] with
      | (n1, c1, o) => ({ s with node := n1 }, c1, o)
    | none =>
      match s.findDead newId with
      | none => (s, c, [])
      | some dn =>
        match staleMigrateLoop s.node dn v1 recs c [] with
        | (c1, o) => (s, c1, o)

-- ---- StartRelays racing the teardown of the relay's tunnel

/-- `StartRelays(f, vpnIp, hh, stage0)` with the single relay `relay`, the relay's tunnel being torn down
between `QueryVpnAddr(relay)` and `AddRelay`'s lock. The teardown only matters on the path that reaches
`AddRelay` (no record for `vpnIp` yet): there `AddRelay` fails, the request is skipped (`continue`).
The Bool says whether that path was taken. -/
def racePlain (s : SNode) (c : Nat) (vpnIp : Addr) (v1 : Bool) (relay : Addr) : SNode × Nat × List Out × Bool :=
  match startRelays s.node c vpnIp v1 [relay] with
  | (n1, c1, o) => ({ s with node := n1 }, c1, o, false)

def raceStart (s : SNode) (c : Nat) (vpnIp : Addr) (v1 : Bool) (relay : Addr) : SNode × Nat × List Out × Bool :=
  let n := s.node
  let plain := racePlain s c vpnIp v1 relay
  if !(n.useRelaysCfg && !n.amRelay) then plain
  else if relay == vpnIp || n.myAddrs.contains relay then plain
  else match n.queryVpnAddr relay with
    | none => plain
    | some rh =>
      if !rh.remoteValid then plain
      else match rh.byAddr vpnIp with
        | some _ => plain
        | none =>
          let s' := sDelete s rh.id
          (s', staleAddRelay s'.node c, [], true)

-- ---- histories with stale pointers

inductive SOp where
  | base (op : Op)                                   -- every operation of `Relay.Op`; `.down` keeps the pointer
  | staleCtl (hid : Nat) (m : Ctl)                   -- HandleControlMsg on the dead hostinfo object `hid`
  | migrate (oldId newId : Nat) (v1 : Bool)          -- migrateRelayUsed, either pointer live or dead
  | raceStart (vpnIp : Addr) (v1 : Bool) (relay : Addr)
  | forget (hid : Nat)                               -- the last pointer to a dead object goes away
  deriving Repr

def sStep (x : SNode × Nat) (op : SOp) : SNode × Nat :=
  match op with
  | .base (.down hid) => (sDelete x.1 hid, x.2)
  | .base op => let r := step (x.1.node, x.2) op; ({ x.1 with node := r.1 }, r.2)
  | .staleCtl hid m =>
    match x.1.findDead hid with
    | none => x
    | some d =>
      match staleHandleControl x.1.node x.2 d m with
      | (n1, d1, c1, _) => (({ x.1 with node := n1 } : SNode).setDead d d1, c1)
  | .migrate o nw v1 => let r := sMigrate x.1 x.2 o nw v1; (r.1, r.2.1)
  | .raceStart vpnIp v1 relay => let r := raceStart x.1 x.2 vpnIp v1 relay; (r.1, r.2.1)
  | .forget hid => ({ x.1 with dead := x.1.dead.filter (fun h => !(h.id == hid)) }, x.2)

def sRun (x : SNode × Nat) (ops : List SOp) : SNode × Nat := ops.foldl sStep x

def sInit (myAddrs : List Addr) (amRelay : Bool) : SNode := { node := init myAddrs amRelay }

end Nebula.Relay
