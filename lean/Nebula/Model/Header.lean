/-
Model of `header/header.go`: `Encode`, `H.Parse`, `IsValidSubType`.
Fields are naturals; Go's fixed-width truncation is written out explicitly (`% 256`, `% 16`).
-/
import Nebula.Gen.Header

namespace Nebula.Header

structure H where
  version : Nat
  type : Nat
  subtype : Nat
  reserved : Nat
  remoteIndex : Nat
  counter : Nat
  deriving Repr, DecidableEq

/-- big-endian bytes of `x`, `n` of them (most significant first), as naturals `< 256`. -/
def beBytes : Nat → Nat → List Nat
  | 0, _ => []
  | n + 1, x => (x / 256 ^ n) % 256 :: beBytes n x

/-- big-endian value of a byte list. -/
def beVal : List Nat → Nat
  | [] => 0
  | b :: bs => b * 256 ^ bs.length + beVal bs

/-- `Encode(b, v, t, st, ri, c)`: `v`, `t`, `st` are `uint8`, `ri` is `uint32`, `c` is `uint64`. -/
def encode (v t st ri c : Nat) : List Nat :=
  [((v * 16) % 256) ||| (t % 256 &&& 0x0f), st % 256, 0, 0] ++ beBytes 4 (ri % 2 ^ 32) ++ beBytes 8 (c % 2 ^ 64)

/-- `H.Parse`: `none` is `ErrHeaderTooShort`. Reads exactly the first `Gen.header_Len` bytes. -/
def parse (b : List Nat) : Option H :=
  if b.length < Gen.header_Len then none else
  let b := b.take Gen.header_Len
  some {
    version := (b.getD 0 0 >>> 4) &&& 0x0f
    type := b.getD 0 0 &&& 0x0f
    subtype := b.getD 1 0
    reserved := beVal ((b.drop 2).take 2)
    remoteIndex := beVal ((b.drop 4).take 4)
    counter := beVal ((b.drop 8).take 8) }

/-- `IsValidSubType`, through the translated function. -/
def isValidSubType (t s : Nat) : Bool :=
  Gen.header_IsValidSubType (BitVec.ofNat 8 t) (BitVec.ofNat 8 s)

end Nebula.Header
