/-
Model of the consumers of a `ViaSender` that may change a hostinfo's underlay remote (C15, attribution half):
`HostInfo.SetRemoteIfPreferred` (hostmap.go; only caller: the ErrAlreadySeen path of
`handleCheckAndCompleteError`), `handleHostRoaming` (outside.go) and the two handshake-completion sites
(`handshake_manager.go`: `if !via.IsRelayed { hostinfo.SetRemote(via.UdpAddr) }`).  Core Lean only.

A relayed `ViaSender` carries the RELAY's underlay address in `UdpAddr`; every consumer must honour
`IsRelayed` so that the relay's address is never recorded as the remote of the relayed endpoint.
-/
import Nebula.Base.Net

namespace Nebula.ViaRemote
open Nebula.Net

abbrev AddrPort := Addr × Nat

structure Via where
  udp : AddrPort
  isRelayed : Bool
  deriving DecidableEq, Repr

/-- the remote-related fields of a `HostInfo`. -/
structure HostR where
  remote : Option AddrPort := none          -- `remote` (nil / invalid = none)
  lastRoamRemote : Option AddrPort := none  -- `lastRoamRemote` (set together with `lastRoam`)
  deriving DecidableEq, Repr

/-- the `for _, l := range hm.GetPreferredRanges()` loop: `none` = early `return false` because the current
remote is already preferred; `some b` = loop finished with `newIsPreferred = b`. -/
def prefLoop (cur new : Addr) : List Prefix → Bool → Option Bool
  | [], acc => some acc
  | l :: ls, acc =>
    if l.contains cur then none
    else prefLoop cur new ls (acc || l.contains new)

/-- `SetRemoteIfPreferred(hm, via)`: new state and the returned bool. -/
def setRemoteIfPreferred (pref : List Prefix) (h : HostR) (via : Via) : HostR × Bool :=
  if via.isRelayed then (h, false)
  else match h.remote with
    | none => ({ h with remote := some via.udp }, true)
    | some cur =>
      match prefLoop cur.1 via.udp.1 pref false with
      | some true => ({ remote := some via.udp, lastRoamRemote := some cur }, true)
      | _ => (h, false)

/-- `handleHostRoaming(hostinfo, via)`; `allowed` = remote allow list verdict, `recent` = the last roam
happened less than `RoamingSuppressSeconds` ago. -/
def handleHostRoaming (allowed recent : Bool) (h : HostR) (via : Via) : HostR :=
  if !via.isRelayed && h.remote != some via.udp then
    if !allowed then h
    else if recent && h.lastRoamRemote == some via.udp then h
    else { remote := some via.udp, lastRoamRemote := h.remote }
  else h

/-- handshake completion (responder `beginHandshake`, initiator `continueHandshake`): the fresh hostinfo
gets a remote only from a direct via. -/
def completeHandshake (via : Via) : HostR :=
  if !via.isRelayed then { remote := some via.udp } else {}

end Nebula.ViaRemote
