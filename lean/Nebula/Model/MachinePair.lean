/-
Two `handshake.Machine`s (one initiator, one responder) of one handshake, each with its own Noise
handshake state, and a network entirely under the adversary's control: every event is either
`Initiate` on the initiator, a *relay* of a message one side wrote to the other side, or the
*injection* of arbitrary bytes (with an arbitrary header length / subtype) into either side.

One side (`Side`): the Machine state, its Noise state, and the Result it has returned (if any).
A delivery runs `ProcessPacket` of `Model/Machine` with the answers of the Noise interface:
the read is performed exactly when the Machine's pre-checks pass; the certificate oracle
(`cert.Recombine` + verifier) is a function of the decrypted message and `PeerStatic()`; when the
Machine produces a message, its plaintext (`marshalOutgoing` through the C08 codec) is handed to
`WriteMessage` and the bytes go to that side's outbox.

Simplification (failure paths only): when `ProcessPacket` fails *after* `WriteMessage` succeeded
(`requireComplete` / asymmetric keys), the real noise state has advanced but this model's has not;
the Machine is failed then and never touches its noise state again.
-/
import Nebula.Spec.NoiseSession

namespace Nebula.MachinePair
open Nebula.Wire Nebula.Machine Nebula.Spec.NoiseSession

/-- What one node is configured with. -/
structure Env where
  cfg : Cfg
  certBytes : Nat → Bytes                  -- `cred.Bytes` for a certificate version
  certOracle : Bytes → Bytes → CertOut     -- (decrypted message, PeerStatic) ↦ Recombine / verifier answers

/-- The plaintext `marshalOutgoing` hands to noise for `x`. -/
def plaintext (E : Env) (x : Sent) : Bytes :=
  Payload.marshalPayload []
    { cert := if x.hasCert then E.certBytes x.certVersion else [], initiatorIndex := x.initiatorIndex,
      responderIndex := x.responderIndex, time := x.time, certVersion := x.certVersion }

structure Side (σ : Type) where
  st : St
  n : σ
  res : Option Result := none
  outbox : List Bytes := []

variable {σ κ β : Type}

/-- The clock: `uint64(time.Now().UnixNano())`. -/
def clock (now : Nat) : Nat := now % 2 ^ 64

/-- `Initiate` on a side. -/
def Side.initiate (N : Noise σ κ β) (E : Env) (x : Side σ) (now : Nat) : Side σ :=
  let r := Machine.initiate E.cfg x.st (clock now) (N.writeOut x.n)
  match r.2 with
  | .ok (some sent) _ =>
    let w := N.write x.n (plaintext E sent)
    { x with st := r.1, n := w.2, outbox := x.outbox ++ [w.1] }
  | _ => { x with st := r.1 }

/-- `ProcessPacket` on a side: `len` / `sub` are the packet length and subtype byte, `body` the bytes
after the header. -/
def Side.deliver (N : Noise σ κ β) (E : Env) (x : Side σ) (len sub : Nat) (body : Bytes) (now : Nat) : Side σ :=
  if reachesNoise E.cfg x.st len sub then
    let rd := N.read x.n body
    let co : CertOut := match rd.1 with
      | .ok msg _ _ ps => E.certOracle msg ps
      | .err _ => ⟨none, none⟩
    let r := processPacket E.cfg x.st len sub rd.1 co (clock now) (N.writeOut rd.2)
    match r.2 with
    | .ok (some sent) res =>
      let w := N.write rd.2 (plaintext E sent)
      { st := r.1, n := w.2, res := (match res with | some q => some q | none => x.res), outbox := x.outbox ++ [w.1] }
    | .ok none res =>
      { st := r.1, n := rd.2, res := (match res with | some q => some q | none => x.res), outbox := x.outbox }
    | .err _ => { x with st := r.1, n := rd.2 }
  else
    { x with st := (processPacket E.cfg x.st len sub (.err false) ⟨none, none⟩ (clock now) .err).1 }

/-- Both ends. -/
structure Sys (σ : Type) where
  i : Side σ
  r : Side σ

inductive Event
  | init (now : Nat)                                        -- Initiate on the initiator
  | relayToR (k : Nat) (now : Nat)                          -- deliver the k-th message the initiator wrote
  | relayToI (k : Nat) (now : Nat)                          -- deliver the k-th message the responder wrote
  | injectToR (len sub : Nat) (body : Bytes) (now : Nat)    -- anything else, to the responder
  | injectToI (len sub : Nat) (body : Bytes) (now : Nat)    -- anything else, to the initiator

def step (N : Noise σ κ β) (EI ER : Env) (s : Sys σ) : Event → Sys σ
  | .init now => { s with i := s.i.initiate N EI now }
  | .relayToR k now =>
    match s.i.outbox[k]? with
    | some body => { s with r := s.r.deliver N ER (Gen.header_Len + body.length) EI.cfg.subtype body now }
    | none => s
  | .relayToI k now =>
    match s.r.outbox[k]? with
    | some body => { s with i := s.i.deliver N EI (Gen.header_Len + body.length) ER.cfg.subtype body now }
    | none => s
  | .injectToR len sub body now => { s with r := s.r.deliver N ER len sub body now }
  | .injectToI len sub body now => { s with i := s.i.deliver N EI len sub body now }

def run (N : Noise σ κ β) (EI ER : Env) (s : Sys σ) (evs : List Event) : Sys σ := evs.foldl (step N EI ER) s

/-- A fresh side. -/
def Side.fresh (v : Nat) (n0 : σ) : Side σ := { st := { myVersion := v }, n := n0 }

/-- The actual key a Result's `EKey` / `DKey` is, in terms of that side's `Split()`. -/
def keyOf (N : Noise σ κ β) (n : σ) : KeyId → κ
  | .cs1 => (N.split n).1
  | .cs2 => (N.split n).2

end Nebula.MachinePair
