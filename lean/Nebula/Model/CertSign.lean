/-
Model of `cert/sign.go`: `TBSCertificate.SignWith` (guards, issuer, `fromTBSCertificate`+`validate`,
`marshalForSigning`, the signer lambda, P-256 `Normalize`, `setSignature`, the v2 size guard) and the `Sign` wrapper.
A to-be-signed certificate is a `Cert` whose `issuer` and `signature` are ignored.

Oracles (never proved, DESIGN.md §4.7): the signer's fingerprint, the bytes-to-sign codec, the signing
primitive and `p256.Normalize` on signature encodings. Core Lean only.
-/
import Nebula.Model.CAPool
import Nebula.Model.CertValidate

namespace Nebula.Cert
open Nebula.Net

structure SignEnv where
  /-- crypto observations (only `fingerprint` of the signer is used by signing). -/
  K : Crypto
  /-- `marshalForSigning` of the validated certificate; `none` = marshalling error. -/
  tbsBytes : Cert → Option Bytes
  /-- the `SignerLambda`; `none` = it returned an error. -/
  sign : Bytes → Option Bytes
  /-- `p256.Normalize`; `none` = unparsable signature. -/
  normalize : Bytes → Option Bytes
  /-- `len(Marshal()) > MaxCertificateSize` for the signed certificate (consulted for v2 only): the decoder
  refuses longer encodings. The codec's own function is `V2.tooLarge` (Model/CertV2.lean). -/
  tooLarge : Cert → Bool

inductive SignErr where
  | invalidCurve | keyParse
  | keyCurveMismatch | caSignedByAnother | constraint (e : CErr) | issuerFingerprint | selfSignedNotCA
  | invalid (e : InvErr) | unknownVersion | marshal | signer | normalize | emptySignature | tooLarge
  deriving DecidableEq, Repr

/-- whole seconds of an instant given in nanoseconds (`time.Unix(t.Unix(), 0)`). -/
def floorSec (t : Int) : Int := t / 1000000000 * 1000000000

/-- `fromTBSCertificate` (both versions): copy the fields, keep whole-second validity bounds, set the issuer. -/
def fromTBS (t : Cert) (issuer : String) : Cert :=
  { t with notBefore := floorSec t.notBefore, notAfter := floorSec t.notAfter, issuer := issuer, signature := [] }

/-- `SignWith(signer, curve, sp)` up to and including `setSignature`. -/
def signWithUnsized (E : SignEnv) (signer : Option Cert) (keyCurve : Nat) (t : Cert) : Except SignErr Cert :=
  if keyCurve ≠ t.curve then .error .keyCurveMismatch
  else
    let issuer : Except SignErr String :=
      match signer with
      | some s =>
        if t.isCA then .error .caSignedByAnother
        else match checkCAConstraints s t.notBefore t.notAfter t.groups t.networks t.unsafeNetworks with
          | some e => .error (.constraint e)
          | none => match E.K.fingerprint s with
            | none => .error .issuerFingerprint
            | some fp => .ok fp
      | none => if !t.isCA then .error .selfSignedNotCA else .ok ""
    match issuer with
    | .error e => .error e
    | .ok iss =>
      match validateVersion (fromTBS t iss) with
      | none => .error .unknownVersion
      | some (.error e) => .error (.invalid e)
      | some (.ok c) =>
        match E.tbsBytes c with
        | none => .error .marshal
        | some bytes =>
          match E.sign bytes with
          | none => .error .signer
          | some sig =>
            let sig' : Option Bytes := if keyCurve = curveP256 then E.normalize sig else some sig
            match sig' with
            | none => .error .normalize
            | some sig =>
              if sig.length == 0 then .error .emptySignature
              else .ok { c with signature := sig }

/-- `SignWith(signer, curve, sp)`: the above, then a v2 certificate whose encoding the decoder would refuse for
its size is not issued. -/
def signWith (E : SignEnv) (signer : Option Cert) (keyCurve : Nat) (t : Cert) : Except SignErr Cert :=
  match signWithUnsized E signer keyCurve t with
  | .error e => .error e
  | .ok c => if c.version = 2 ∧ E.tooLarge c = true then .error .tooLarge else .ok c

/-- `Sign(signer, curve, key)`: dispatch on the certificate's curve, then `SignWith`. `keyParses` is the
outcome of `ecdsa.ParseRawPrivateKey` (P-256 only). -/
def sign (E : SignEnv) (signer : Option Cert) (keyCurve : Nat) (keyParses : Bool) (t : Cert) : Except SignErr Cert :=
  if t.curve = curve25519 then signWith E signer keyCurve t
  else if t.curve = curveP256 then
    if !keyParses then .error .keyParse else signWith E signer keyCurve t
  else .error .invalidCurve

end Nebula.Cert
