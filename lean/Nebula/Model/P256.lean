/-
Scalar-level model of `cert/p256/p256.go`: `checkLowS`, `swap`, `Normalize` act on the `S` value of an ECDSA
signature. `N` is the order of the P-256 base point (`elliptic.P256().Params().N`, a standard-library
constant, tied by the `norm` ops of the `certsign` correspondence stream). Core Lean only.
-/
namespace Nebula.P256

def N : Nat := 0xffffffff00000000ffffffffffffffffbce6faada7179e84f3b9cac2fc632551

/-- `halfN = N >> 1`. -/
def halfN : Nat := N / 2

/-- `checkLowS`: `S ≤ N/2` (midpoint included). -/
def isLowS (s : Nat) : Bool := decide (s ≤ halfN)

/-- `swap`: `nMod.Nat().Sub(S, nMod)` = `N - S` for `0 ≤ S < N` (`SetBytes` rejects `S ≥ N`). -/
def swapS (s : Nat) : Nat := N - s

/-- `Normalize` on the scalar. -/
def normalizeS (s : Nat) : Nat := if isLowS s then s else swapS s

end Nebula.P256
