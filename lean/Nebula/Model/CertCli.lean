/-
Model of `cmd/nebula-cert/sign.go` `signCert` (C04): flags and input files → to-be-signed certificate →
`TBSCertificate.Sign` (the `certsign` model), in the order of the source:

  name required → `-in-pub` and `-out-key` exclusive → -ip pulled up into -networks, -networks required → -version ∈ {0,1,2}
  → ca-key read with `UnmarshalSigningPrivateKeyFromPEM` (encrypted keys: no passphrase is ever available here)
  → ca-crt read with `UnmarshalCertificateFromPEM` (the PEM model of Model/CertPem.lean) → `VerifyPrivateKey`
  → `caCert.Expired(now)` → version 0 = the CA's → duration ≤ 0 = `time.Until(ca.NotAfter) - 1s`
  → `-networks`, `-unsafe-networks` (with -subnets pulled up): `strings.Split(",")`, `strings.Trim(" ")`, empty items
    skipped, `netip.ParsePrefix`, split by `Is4()` → -groups: split, `strings.TrimSpace`, empty items skipped
  → -in-pub read with `UnmarshalPublicKeyFromPEM`, curve compared with the CA key's
  → notBefore = now, notAfter = now + duration → v1: exactly one IPv4 network, no IPv6 (unsafe) networks; v2: IPv4
    networks followed by the IPv6 ones → `Sign(caCert, curve, caKey)` → one certificate.

Oracles (as everywhere): `netip.ParsePrefix` on an item (`Env.parsePrefix`), the public half of a private key
(`Env.keyMatches` = `VerifyPrivateKey` beyond the curve comparison), the generated key pair (`Env.newPub`), the
instant `time.Now()` (`Env.now`, constant during the call), and the signing environment `SignEnv`. Not modelled:
PKCS#11, FIPS mode, -out-qr, stdin/stdout paths, refusal to overwrite existing files, encrypted CA keys beyond their
refusal, non-ASCII white space in `strings.TrimSpace`. Core Lean only.
-/
import Nebula.Model.CertSign
import Nebula.Model.CertPem
import Nebula.Model.CertKeys

namespace Nebula.CertCli
open Nebula.Net Nebula.Cert Nebula.CertPem

/-- `strings.Split(s, ",")` on bytes (a non-empty string always has at least one item). -/
def splitComma : Bytes → List Bytes
  | [] => [[]]
  | c :: t =>
    if c = 44 then [] :: splitComma t
    else match splitComma t with
      | [] => [[c]]
      | h :: r => (c :: h) :: r

/-- `strings.Trim(s, " ")`. -/
def trimSp (l : Bytes) : Bytes := ((l.dropWhile (· == 32)).reverse.dropWhile (· == 32)).reverse

/-- ASCII white space of `strings.TrimSpace` (`\t \n \v \f \r` and space). -/
def isAsciiSpace (c : UInt8) : Bool := c == 32 || (9 ≤ c.toNat && c.toNat ≤ 13)

def trimSpace (l : Bytes) : Bytes := ((l.dropWhile isAsciiSpace).reverse.dropWhile isAsciiSpace).reverse

/-- the loop over a -networks / -unsafe-networks value: `none` = an item does not parse; otherwise the IPv4
prefixes and the others (`!Is4()`), each in order of appearance. -/
def splitNets (parsePrefix : Bytes → Option Prefix) : List Bytes → Option (List Prefix × List Prefix)
  | [] => some ([], [])
  | rs :: rest =>
    let rs := trimSp rs
    if rs.isEmpty then splitNets parsePrefix rest
    else match parsePrefix rs with
      | none => none
      | some n =>
        match splitNets parsePrefix rest with
        | none => none
        | some (v4, v6) => if n.addr.fam == Fam.v4 then some (n :: v4, v6) else some (v4, n :: v6)

/-- the value of a comma separated flag: nothing to iterate over when the string is empty (`if *sf.x != ""`). -/
def flagItems (s : Bytes) : List Bytes := if s.isEmpty then [] else splitComma s

def parseGroups (s : Bytes) : List Bytes := ((flagItems s).map trimSpace).filter (fun g => !g.isEmpty)

structure Flags where
  version : Nat
  name : Bytes
  networks : Bytes
  ip : Bytes                 -- deprecated -ip
  unsafeNetworks : Bytes
  subnets : Bytes            -- deprecated -subnets
  groups : Bytes
  duration : Int             -- nanoseconds (`time.Duration`)
  inPub : Option Bytes       -- contents of the -in-pub file, if the flag is given
  outKeySet : Bool           -- -out-key given explicitly

structure Env where
  now : Int
  caCrt : Bytes                           -- contents of the -ca-crt file
  caKey : Bytes                           -- contents of the -ca-key file
  keyMatches : Bool                       -- the key's public half is the CA certificate's public key
  keyParses : Bool                        -- `ecdsa.ParseRawPrivateKey` accepts the key (P-256)
  parsePrefix : Bytes → Option Prefix     -- `netip.ParsePrefix`
  newPub : Nat → Bytes                    -- public half of the key pair `newKeypair(curve)` generates

inductive CliErr where
  | nameRequired | inPubAndOutKey | networksRequired | badVersion | caKeyEncrypted | caKeyParse | caCrtParse
  | keyMismatch | caExpired | badNetworks | badUnsafeNetworks | inPubParse | inPubCurve
  | v1Single | v1Networks6 | v1Unsafe6 | invalidVersion | sign (e : SignErr)
  deriving DecidableEq, Repr

def bannerStr (b : Bytes) : String := String.ofList (b.map (fun c => Char.ofNat c.toNat))

/-- a key reader of cert/pem.go on file contents: `pem.Decode`, then the banner / length table (Model/CertKeys). -/
def readKey (f : String → Bytes → Except CertKeys.KeyErr (Bytes × Nat)) (data : Bytes) : Option (Except CertKeys.KeyErr (Bytes × Nat)) :=
  match pemDecode data with
  | .block b _ => some (f (bannerStr b.ty) b.bytes)
  | _ => none

/-- the to-be-signed certificate of either version. -/
def tbs (version : Nat) (curve : Nat) (name : Bytes) (networks unsafeNetworks : List Prefix) (groups : List Bytes)
    (notBefore notAfter : Int) (pub : Bytes) : Cert :=
  { version := version, curve := curve, name := name, networks := networks, unsafeNetworks := unsafeNetworks,
    groups := groups, isCA := false, notBefore := notBefore, notAfter := notAfter, issuer := "", publicKey := pub,
    signature := [] }

/-- the -networks value `signCert` works with (deprecated -ip pulled up when -networks is empty). -/
def effNetworks (f : Flags) : Bytes := if f.networks.isEmpty ∧ !f.ip.isEmpty then f.ip else f.networks
/-- the -unsafe-networks value `signCert` works with (deprecated -subnets pulled up). -/
def effUnsafe (f : Flags) : Bytes := if f.unsafeNetworks.isEmpty ∧ !f.subnets.isEmpty then f.subnets else f.unsafeNetworks

/-- the public key to certify: the -in-pub file (`UnmarshalPublicKeyFromPEM`, curve compared with the CA key's) or a
fresh key pair. -/
def pickPub (env : Env) (f : Flags) (curve : Nat) : Except CliErr Bytes :=
  match f.inPub with
  | none => .ok (env.newPub curve)
  | some data =>
    match readKey CertKeys.unmarshalPublicKey data with
    | some (.ok (k, pc)) => if pc ≠ curve then .error .inPubCurve else .ok k
    | _ => .error .inPubParse

/-- `signCert`: the certificates written to -out-crt, or the refusal. -/
def signCert (E : SignEnv) (env : Env) (f : Flags) : Except CliErr (List Cert) :=
  if f.name.isEmpty then .error .nameRequired
  else if f.inPub.isSome ∧ f.outKeySet then .error .inPubAndOutKey
  else
    let networks := effNetworks f
    if networks.isEmpty then .error .networksRequired
    else if f.version ≠ 0 ∧ f.version ≠ 1 ∧ f.version ≠ 2 then .error .badVersion
    else
      match readKey CertKeys.unmarshalSigningPrivateKey env.caKey with
      | none => .error .caKeyParse
      | some (.error .encrypted) => .error .caKeyEncrypted
      | some (.error _) => .error .caKeyParse
      | some (.ok (_, curve)) =>
        match (unmarshalCertificateFromPEM env.caCrt).1 with
        | .error _ => .error .caCrtParse
        | .ok ca =>
          if curve ≠ ca.curve ∨ !env.keyMatches then .error .keyMismatch
          else if ca.expired env.now then .error .caExpired
          else
            let version := if f.version = 0 then ca.version else f.version
            let duration := if f.duration ≤ 0 then (ca.notAfter - env.now) - 1000000000 else f.duration
            match splitNets env.parsePrefix (flagItems networks) with
            | none => .error .badNetworks
            | some (v4, v6) =>
              let unsafeNetworks := effUnsafe f
              match splitNets env.parsePrefix (flagItems unsafeNetworks) with
              | none => .error .badUnsafeNetworks
              | some (u4, u6) =>
                let groups := parseGroups f.groups
                match pickPub env f curve with
                | .error e => .error e
                | .ok pub =>
                  let notBefore := env.now
                  let notAfter := env.now + duration
                  if version = 1 then
                    match v4 with
                    | [n] =>
                      if !v6.isEmpty then .error .v1Networks6
                      else if !u6.isEmpty then .error .v1Unsafe6
                      else
                        match sign E (some ca) curve env.keyParses (tbs 1 curve f.name [n] u4 groups notBefore notAfter pub) with
                        | .error e => .error (.sign e)
                        | .ok c => .ok [c]
                    | _ => .error .v1Single
                  else if version = 2 then
                    match sign E (some ca) curve env.keyParses (tbs 2 curve f.name (v4 ++ v6) (u4 ++ u6) groups notBefore notAfter pub) with
                    | .error e => .error (.sign e)
                    | .ok c => .ok [c]
                  else .error .invalidVersion

/-- the CA certificate `signCert` works with. -/
def caOf (env : Env) : Option Cert :=
  match (unmarshalCertificateFromPEM env.caCrt).1 with
  | .ok ca => some ca
  | .error _ => none

end Nebula.CertCli
