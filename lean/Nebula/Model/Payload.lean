/-
Model of `handshake/payload.go`: `MarshalPayload`, `UnmarshalPayload`, `unmarshalPayloadDetails`,
on top of `Base/Wire` (the protowire calls).  Field numbers come from the regenerated constants.

Go panics are explicit: every `b = b[n:]` goes through `Wire.sliceFrom` (`none` → `PRes.panic`), and
the `for len(b) > 0` loops run on fuel (`PRes.stuck` when it runs out); `Props/C08` proves that
neither result is reachable.
-/
import Nebula.Base.Wire
import Nebula.Gen.Handshake

namespace Nebula.Payload
open Nebula.Wire

/-- `handshake.Payload` (`uint32` / `uint64` fields as naturals; ranges are hypotheses where needed). -/
structure Payload where
  cert : Bytes := []
  initiatorIndex : Nat := 0
  responderIndex : Nat := 0
  time : Nat := 0
  certVersion : Nat := 0
  deriving DecidableEq, Repr

def fieldCert : Nat := Gen.handshake_fieldCert
def fieldInitiatorIndex : Nat := Gen.handshake_fieldInitiatorIndex
def fieldResponderIndex : Nat := Gen.handshake_fieldResponderIndex
def fieldTime : Nat := Gen.handshake_fieldTime
def fieldCertVersion : Nat := Gen.handshake_fieldCertVersion

/-- `math.MaxUint32`. -/
def maxUint32 : Nat := 2 ^ 32 - 1

/-! ### MarshalPayload -/

def marshalDetails (p : Payload) : Bytes :=
  (if p.cert.length > 0 then appendTag fieldCert BytesType ++ appendBytes p.cert else []) ++
  (if p.initiatorIndex ≠ 0 then appendTag fieldInitiatorIndex VarintType ++ appendVarint p.initiatorIndex else []) ++
  (if p.responderIndex ≠ 0 then appendTag fieldResponderIndex VarintType ++ appendVarint p.responderIndex else []) ++
  (if p.time ≠ 0 then appendTag fieldTime VarintType ++ appendVarint p.time else []) ++
  (if p.certVersion ≠ 0 then appendTag fieldCertVersion VarintType ++ appendVarint p.certVersion else [])

/-- `MarshalPayload(out, p)`. -/
def marshalPayload (out : Bytes) (p : Payload) : Bytes :=
  out ++ (appendTag 1 BytesType ++ appendBytes (marshalDetails p))

/-! ### UnmarshalPayload -/

/-- Result of `UnmarshalPayload`: the payload, `errInvalidHandshakeMessage`,
`errInvalidHandshakeDetails`, a Go panic (slice out of range), or the model's loop fuel ran out. -/
inductive PRes
  | ok (p : Payload) | errMessage | errDetails | panic | stuck
  deriving DecidableEq, Repr

/-- One of the four varint cases of `unmarshalPayloadDetails`: wire-type check, `ConsumeVarint`,
and (for the `uint32` fields) the `v > math.MaxUint32` check; then `b = b[n:]`. -/
inductive FRes
  | ok (v : Nat) (rest : Bytes) | err | panic

def varintField (typ : Nat) (b : Bytes) (limit32 : Bool) : FRes :=
  if typ ≠ VarintType then .err else
  match consumeVarint b with
  | .error _ => .err
  | .ok (v, n) =>
    if limit32 && v > maxUint32 then .err else
    match sliceFrom b n with
    | none => .panic
    | some rest => .ok v rest

/-- Outcome of one loop iteration after the tag: continue with an updated payload and the remaining
bytes, or return. -/
inductive Step
  | next (p : Payload) (rest : Bytes) | stop (r : PRes)

def ofVarintField (r : FRes) (set : Nat → Payload) : Step :=
  match r with
  | .err => .stop .errDetails
  | .panic => .stop .panic
  | .ok v rest => .next (set v) rest

/-- The `switch num` of `unmarshalPayloadDetails` (tag already consumed, `b` = bytes after the tag). -/
def detailsField (p : Payload) (num typ : Nat) (b : Bytes) : Step :=
  if num = fieldCert then
    if typ ≠ BytesType then .stop .errDetails else
    match consumeBytes b with
    | .error _ => .stop .errDetails
    | .ok (v, n) =>
      match sliceFrom b n with
      | none => .stop .panic
      | some b => .next { p with cert := v } b
  else if num = fieldInitiatorIndex then
    ofVarintField (varintField typ b true) (fun v => { p with initiatorIndex := v })
  else if num = fieldResponderIndex then
    ofVarintField (varintField typ b true) (fun v => { p with responderIndex := v })
  else if num = fieldTime then
    ofVarintField (varintField typ b false) (fun v => { p with time := v })
  else if num = fieldCertVersion then
    ofVarintField (varintField typ b true) (fun v => { p with certVersion := v })
  else
    match consumeFieldValue num typ b with
    | .error _ => .stop .errDetails
    | .ok n =>
      match sliceFrom b n with
      | none => .stop .panic
      | some b => .next p b

/-- `unmarshalPayloadDetails(p, b)`: the loop `for len(b) > 0`. -/
def detailsLoop : Nat → Payload → Bytes → PRes
  | 0, _, _ => .stuck
  | fuel + 1, p, b =>
    if b.length = 0 then .ok p else
    match consumeTag b with
    | .error _ => .errDetails
    | .ok (num, typ, n) =>
      match sliceFrom b n with
      | none => .panic
      | some b =>
        match detailsField p num typ b with
        | .stop r => r
        | .next p b => detailsLoop fuel p b

def unmarshalDetails (p : Payload) (b : Bytes) : PRes := detailsLoop (b.length + 1) p b

/-- The `switch` of `UnmarshalPayload` (tag already consumed). -/
def payloadField (p : Payload) (num typ : Nat) (b : Bytes) : Step :=
  if num = 1 ∧ typ = BytesType then
    match consumeBytes b with
    | .error _ => .stop .errMessage
    | .ok (details, n) =>
      match sliceFrom b n with
      | none => .stop .panic
      | some b =>
        match unmarshalDetails p details with
        | .ok p => .next p b
        | r => .stop r
  else
    match consumeFieldValue num typ b with
    | .error _ => .stop .errMessage
    | .ok n =>
      match sliceFrom b n with
      | none => .stop .panic
      | some b => .next p b

/-- `UnmarshalPayload(b)`: the outer loop. -/
def payloadLoop : Nat → Payload → Bytes → PRes
  | 0, _, _ => .stuck
  | fuel + 1, p, b =>
    if b.length = 0 then .ok p else
    match consumeTag b with
    | .error _ => .errMessage
    | .ok (num, typ, n) =>
      match sliceFrom b n with
      | none => .panic
      | some b =>
        match payloadField p num typ b with
        | .stop r => r
        | .next p b => payloadLoop fuel p b

def unmarshalPayload (b : Bytes) : PRes := payloadLoop (b.length + 1) {} b

end Nebula.Payload
