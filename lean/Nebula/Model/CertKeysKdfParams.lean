/-
C43, metadata binding of encrypted signing keys (`cert/crypto.go`). The GCM tag covers the ciphertext only; the
Argon2 parameters, the algorithm string and the nonce travel in clear next to it. What binds them to the key is
(1) the structural checks of `DecryptAndUnmarshalSigningPrivateKey` / `unmarshalArgon2Parameters` (algorithm
string, Argon2 version, the uint32 `Parallelism` field refused when 0 or > 255 — checked on the uint32, before
it is narrowed to the `uint8` of `Argon2Parameters`) and (2) every remaining parameter being an input of the key
derivation. This file names the decoded metadata fields of two messages that differ (the oracle of the
`kdftamper` ops) and the "ideal" crypto the driver runs the model with. Core Lean only.
-/
import Nebula.Model.CertKeys

namespace Nebula.CertKeys

/-- `uint8(params.Parallelism)`: what the derivation receives once the range check has passed. -/
def narrowParallelism (p : Nat) : Nat := p % 256

/-- names of the decoded metadata fields (algorithm, Argon2 version / memory / parallelism / iterations / salt,
nonce = first 12 bytes of the blob) in which the altered message `m` differs from the original `o`. -/
def changedFields (o m : EncData) : List String :=
  match o.metadata, m.metadata with
  | some mo, some mm =>
    (if mo.algorithm ≠ mm.algorithm then ["algorithm"] else []) ++
    (match mo.argon, mm.argon with
     | some ao, some am =>
       (if ao.version ≠ am.version then ["version"] else []) ++
       (if ao.memory ≠ am.memory then ["memory"] else []) ++
       (if ao.parallelism ≠ am.parallelism then ["parallelism"] else []) ++
       (if ao.iterations ≠ am.iterations then ["iterations"] else []) ++
       (if ao.salt ≠ am.salt then ["salt"] else [])
     | none, none => []
     | _, _ => ["argon"]) ++
    (if o.ciphertext.take nonceSize ≠ m.ciphertext.take nonceSize then ["nonce"] else [])
  | none, none => if o.ciphertext.take nonceSize ≠ m.ciphertext.take nonceSize then ["nonce"] else []
  | _, _ => ["metadata"]

/-- The crypto the `kdftamper` driver runs the model with: a key derivation that is injective in the parameters
(the key *is* the encoded parameter block) and an AEAD under which exactly the original blob opens, to the
original key — the idealisation behind `open_binds_params`. -/
def bindingCrypto (a0 : Argon) (blob0 key : Bytes) : KeyCrypto :=
  { kdf := fun _ a => encArgon a,
    aeadSeal := fun _ _ m => m,
    aeadOpen := fun k n c => if k = encArgon a0 ∧ n ++ c = blob0 then some key else none }

end Nebula.CertKeys
