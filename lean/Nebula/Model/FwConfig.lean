/-
Executable model of the configuration half of `firewall.go` (C22):
  convertRule (with the guards of the F18 fix) · parsePort · parsePortValue (= strconv.ParseUint(s, 10, 16)) ·
  AddFirewallRulesFromConfig (every guard, in source order, feeding Firewall.AddRule of Model/Firewall.lean).

A configuration value (what yaml.v3 hands to nebula: `any`) is `Y`. Unguarded Go operations that can panic are
explicit: `index0` (`v[0]`), `assertString` (`x.(string)`), `kindOf` (`reflect.TypeOf(x).Kind()` on a nil
interface) return a `panic…` error, so a missing guard shows up as a reachable panic result.
`netip.ParsePrefix` is an oracle (`String → Option Prefix`): the op line carries what the harness observed.
Core Lean only.
-/
import Nebula.Model.Conntrack

namespace Nebula.FwCfg
open Nebula.Net Nebula.Fw

inductive Y where
  | null
  | str (s : String)
  | int (i : Int)
  | float (txt : String)      -- carried as Go's `%v` rendering
  | bool (b : Bool)
  | list (l : List Y)
  | map (m : List (String × Y))

mutual
  /-- `fmt.Sprintf("%v", v)` -/
  def Y.fmt : Y → String
    | .null => "<nil>"
    | .str s => s
    | .int i => toString i
    | .float t => t
    | .bool b => if b then "true" else "false"
    | .list l => "[" ++ Y.fmtList l ++ "]"
    | .map m => "map[" ++ Y.fmtMap m ++ "]"
  def Y.fmtList : List Y → String
    | [] => ""
    | [x] => x.fmt
    | x :: xs => x.fmt ++ " " ++ Y.fmtList xs
  def Y.fmtMap : List (String × Y) → String
    | [] => ""
    | [(k, v)] => k ++ ":" ++ v.fmt
    | (k, v) :: xs => k ++ ":" ++ v.fmt ++ " " ++ Y.fmtMap xs
end

inductive ConvErr where
  | notMap          -- "could not parse rule"
  | groupMulti      -- "group should contain a single value, an array with more than one entry was provided"
  | groupEmpty      -- (F18 fix) empty `group` array
  | groupsNil       -- (F18 fix) `groups` present but null
  | groupsElem      -- (F18 fix) non-string element in `groups`
  | both            -- "only one of group or groups should be defined, both provided"
  | panicIndex      -- `v[0]` on an empty slice
  | panicAssert     -- failed `.(string)`
  | panicNilType    -- `reflect.TypeOf(nil).Kind()`
  deriving DecidableEq, Repr

def ConvErr.isPanic : ConvErr → Bool
  | .panicIndex | .panicAssert | .panicNilType => true
  | _ => false

/-- the `rule` struct -/
structure CRule where
  port : String
  code : String
  proto : String
  host : String
  groups : List String
  cidr : String
  localCidr : String
  caName : String
  caSha : String
  deriving DecidableEq, Repr

def lookup (m : List (String × Y)) (k : String) : Option Y := aget sameStr m k

/-- the `toString` closure of `convertRule` -/
def toStr (m : List (String × Y)) (k : String) : String :=
  match lookup m k with
  | none => ""
  | some v => v.fmt

/-- `v[0]` -/
def index0 (l : List Y) : Except ConvErr Y :=
  match l with
  | [] => .error .panicIndex
  | x :: _ => .ok x

/-- `x.(string)` -/
def assertString : Y → Except ConvErr String
  | .str s => .ok s
  | _ => .error .panicAssert

/-- the loop over a `groups` slice, with the element guard of the F18 fix in front of the assertion. -/
def groupsOfList : List Y → Except ConvErr (List String)
  | [] => .ok []
  | x :: xs =>
    match x with
    | .str _ =>
      match assertString x, groupsOfList xs with
      | .ok s, .ok r => .ok (s :: r)
      | .error e, _ => .error e
      | _, .error e => .error e
    | _ => .error .groupsElem

/-- `convertRule` -/
def convertRule (p : Y) : Except ConvErr CRule :=
  match p with
  | .map m =>
    -- "Make sure group isn't an array"
    let m1 : Except ConvErr (List (String × Y)) :=
      match lookup m "group" with
      | some (.list v) =>
        if v.length > 1 then .error .groupMulti
        else if v.length == 0 then .error .groupEmpty          -- F18 fix
        else match index0 v with
          | .ok x => .ok (aset sameStr m "group" x)
          | .error e => .error e
      | _ => .ok m
    match m1 with
    | .error e => .error e
    | .ok m1 =>
      let singleGroup := toStr m1 "group"
      let groups : Except ConvErr (List String) :=
        match lookup m1 "groups" with
        | none => .ok []
        | some .null => .error .groupsNil                      -- F18 fix (was reflect.TypeOf(nil).Kind())
        | some (.list l) => groupsOfList l
        | some (.str s) => .ok [s]
        | some v => .ok [v.fmt]
      match groups with
      | .error e => .error e
      | .ok groups =>
        if singleGroup ≠ "" ∧ groups.length > 0 then .error .both
        else
          .ok { port := toStr m "port", code := toStr m "code", proto := toStr m "proto", host := toStr m "host",
                groups := if singleGroup ≠ "" then [singleGroup] else groups,
                cidr := toStr m "cidr", localCidr := toStr m "local_cidr", caName := toStr m "ca_name",
                caSha := toStr m "ca_sha" }
  | _ => .error .notMap

/-! ### ports -/

inductive PortErr where
  | nan        -- "was not a number"
  | range      -- "out of range [0,65535]"
  | rangeFmt   -- "appears to be a range but could not be parsed"
  deriving DecidableEq, Repr

def digitVal (c : Char) : Option Nat :=
  if '0' ≤ c ∧ c ≤ '9' then some (c.toNat - '0'.toNat) else none

/-- the digit loop of `strconv.ParseUint(s, 10, 16)`: a non-digit is a syntax error when it is reached; the value
is checked against 65535 after every digit, so the range error comes first if it is exceeded earlier. -/
def parseUintLoop : List Char → Nat → Except PortErr Nat
  | [], n => .ok n
  | c :: cs, n =>
    match digitVal c with
    | none => .error .nan
    | some d =>
      let n1 := n * 10 + d
      if n1 > 65535 then .error .range else parseUintLoop cs n1

/-- `parsePortValue` -/
def parsePortValue (s : List Char) : Except PortErr Nat :=
  if s.isEmpty then .error .nan else parseUintLoop s 0

/-- `strings.SplitN(s, "-", 2)` for a string that contains `-`. -/
def splitDash : List Char → Option (List Char × List Char)
  | [] => none
  | c :: cs =>
    if c = '-' then some ([], cs)
    else match splitDash cs with
      | some (l, r) => some (c :: l, r)
      | none => none

/-- `strings.Trim(x, " ")` -/
def trimSpaces (s : List Char) : List Char :=
  ((s.dropWhile (· = ' ')).reverse.dropWhile (· = ' ')).reverse

/-- `parsePort` -/
def parsePort (s : String) : Except PortErr (Int × Int) :=
  if s = "any" then .ok (Gen.firewall_PortAny, Gen.firewall_PortAny)
  else if s = "fragment" then .ok (Gen.firewall_PortFragment, Gen.firewall_PortFragment)
  else
    match splitDash s.toList with
    | none =>
      match parsePortValue s.toList with
      | .ok n => .ok (n, n)
      | .error e => .error e
    | some (l, r) =>
      let l := trimSpaces l
      let r := trimSpaces r
      if l.isEmpty ∨ r.isEmpty then .error .rangeFmt
      else match parsePortValue l with
        | .error e => .error e
        | .ok a =>
          match parsePortValue r with
          | .error e => .error e
          | .ok b =>
            -- "if startPort == firewall.PortAny { endPort = firewall.PortAny }"
            if a = Gen.firewall_PortAny then .ok (a, Gen.firewall_PortAny) else .ok (a, b)

/-! ### AddFirewallRulesFromConfig -/

inductive LoadErr where
  | notArray
  | convert (e : ConvErr)
  | portAndCode
  | noSelector
  | proto
  | port (e : PortErr)
  | cidr
  | localCidr
  | addRule (e : AddErr)
  deriving DecidableEq, Repr

/-- a `cidr` / `local_cidr` string as `AddRule` will read it; `none` = `netip.ParsePrefix` fails. -/
def cidrSel (parsePrefix : String → Option Prefix) (s : String) : Option CidrSel :=
  if s = "" then some .none
  else if s = "any" then some .any
  else (parsePrefix s).map .pfx

/-- a protocol number with the result of `parsePort`. -/
def withProto (proto : Nat) (x : Except PortErr (Int × Int)) : Except LoadErr (Nat × Int × Int) :=
  match x with
  | .ok (a, b) => .ok (proto, a, b)
  | .error e => .error (.port e)

/-- the `switch r.Proto` of the loop: protocol number and `parsePort` of `port` (or `code`). -/
def protoPort (r : CRule) : Except LoadErr (Nat × Int × Int) :=
  let sPort := if r.code ≠ "" then r.code else r.port
  if r.proto = "any" then withProto Gen.firewall_ProtoAny (parsePort sPort)
  else if r.proto = "tcp" then withProto Gen.firewall_ProtoTCP (parsePort sPort)
  else if r.proto = "udp" then withProto Gen.firewall_ProtoUDP (parsePort sPort)
  else if r.proto = "icmp" then .ok (Gen.firewall_ProtoICMP, Gen.firewall_PortAny, Gen.firewall_PortAny)
  else .error .proto

/-- the body of the loop for one converted rule: every guard in source order, then the `AddRule` arguments. -/
def ruleOfConfig (parsePrefix : String → Option Prefix) (inbound : Bool) (r : CRule) : Except LoadErr Rule :=
  if r.code ≠ "" ∧ r.port ≠ "" then .error .portAndCode
  else if r.host = "" ∧ r.groups.length = 0 ∧ r.cidr = "" ∧ r.localCidr = "" ∧ r.caName = "" ∧ r.caSha = "" then
    .error .noSelector
  else
    match protoPort r with
    | .error e => .error e
    | .ok (proto, a, b) =>
      match cidrSel parsePrefix r.cidr with
      | none => .error .cidr
      | some c =>
        match cidrSel parsePrefix r.localCidr with
        | none => .error .localCidr
        | some lc =>
          .ok { incoming := inbound, proto := proto, startPort := a, endPort := b, groups := r.groups,
                host := r.host, cidr := c, localCidr := lc, caName := r.caName, caSha := r.caSha }

/-- the loop of `AddFirewallRulesFromConfig`: stops at the first error; rules before it have been added. -/
def loadList (parsePrefix : String → Option Prefix) (inbound : Bool) : List Y → Fw → Option LoadErr × Fw
  | [], fw => (none, fw)
  | t :: ts, fw =>
    match convertRule t with
    | .error e => (some (.convert e), fw)
    | .ok cr =>
      match ruleOfConfig parsePrefix inbound cr with
      | .error e => (some e, fw)
      | .ok r =>
        match fw.addRule r with
        | .error e => (some (.addRule e), fw)
        | .ok fw' => loadList parsePrefix inbound ts fw'

/-- `AddFirewallRulesFromConfig(l, inbound, c, fw)` where `v = c.Get("firewall.inbound"|"firewall.outbound")`. -/
def addRulesFromConfig (parsePrefix : String → Option Prefix) (inbound : Bool) (v : Option Y) (fw : Fw) :
    Option LoadErr × Fw :=
  match v with
  | none => (none, fw)
  | some .null => (none, fw)            -- `c.Get` returns nil for an explicit null as well
  | some (.list rs) => loadList parsePrefix inbound rs fw
  | some _ => (some .notArray, fw)

end Nebula.FwCfg
