/-
Model of `overlay/checksum/checksum_amd64.s` (`checksumAVX2`) and of the dispatch in
`checksum_amd64.go` / `checksum_fallback.go`.

The assembly is modelled instruction group by instruction group on naturals with the register widths
written out (`% 2^64` for every 64-bit add, the carry flag as `/ 2^64`).  Registers: `AX` scalar
accumulator, `R8` scratch, `Y4…Y7` four 4×u64 vector accumulators, `SI/CX` = the remaining buffer (a
`List UInt8`; the assembly only uses unaligned loads, so the start address does not occur).
Hand-written (the translator reads Go, not Plan 9 assembly); tied to the assembly by the
exhaustive-length correspondence stream `csum`.
-/
import Nebula.Base.Csum

namespace Nebula.ChecksumAVX2
open Nebula.Csum

/-- 2^64. -/
def M64 : Nat := 18446744073709551616

/-- little-endian load of the whole list (`MOVQ/MOVL/MOVWQZX/MOVBQZX (SI)` on 8/4/2/1 bytes). -/
def leLoad : List UInt8 → Nat
  | [] => 0
  | b :: r => b.toNat + 256 * leLoad r

/-- `ADDQ src, AX ; ADCQ $0, AX` — 64-bit add with end-around carry. -/
def addc (ax src : Nat) : Nat :=
  let s := ax + src
  (s % M64 + s / M64) % M64

/-- a ymm register as four u64 lanes. -/
structure Ymm where
  l0 : Nat
  l1 : Nat
  l2 : Nat
  l3 : Nat
  deriving Repr, DecidableEq

def Ymm.zero : Ymm := ⟨0, 0, 0, 0⟩

/-- `VPMOVZXDQ off(SI), Y`: 16 bytes → four little-endian u32, each zero-extended to a u64 lane. -/
def vpmovzxdq (p : List UInt8) (off : Nat) : Ymm :=
  let q := p.drop off
  ⟨leLoad (q.take 4), leLoad ((q.drop 4).take 4), leLoad ((q.drop 8).take 4), leLoad ((q.drop 12).take 4)⟩

/-- `VPADDQ`: lane-wise add modulo 2^64 (no carry between lanes, no end-around carry). -/
def vpaddq (a b : Ymm) : Ymm :=
  ⟨(a.l0 + b.l0) % M64, (a.l1 + b.l1) % M64, (a.l2 + b.l2) % M64, (a.l3 + b.l3) % M64⟩

structure Vec where
  y4 : Ymm
  y5 : Ymm
  y6 : Ymm
  y7 : Ymm

/-- `loop64`: 64 bytes per iteration into four separate accumulators. -/
def loop64 (buf : List UInt8) (v : Vec) : List UInt8 × Vec :=
  if 64 ≤ buf.length then
    loop64 (buf.drop 64)
      { y4 := vpaddq (vpmovzxdq buf 0) v.y4, y5 := vpaddq (vpmovzxdq buf 16) v.y5,
        y6 := vpaddq (vpmovzxdq buf 32) v.y6, y7 := vpaddq (vpmovzxdq buf 48) v.y7 }
  else (buf, v)
termination_by buf.length
decreasing_by simp; omega

/-- `loop32`: 32 bytes per iteration into `Y4`, `Y5`. -/
def loop32 (buf : List UInt8) (v : Vec) : List UInt8 × Vec :=
  if 32 ≤ buf.length then
    loop32 (buf.drop 32)
      { v with y4 := vpaddq (vpmovzxdq buf 0) v.y4, y5 := vpaddq (vpmovzxdq buf 16) v.y5 }
  else (buf, v)
termination_by buf.length
decreasing_by simp; omega

/-- `reduce_vec`: combine the four accumulators, then the four lanes, into `R8`. -/
def reduceVec (v : Vec) : Nat :=
  let y4 := vpaddq v.y5 v.y4
  let y6 := vpaddq v.y7 v.y6
  let y4 := vpaddq y6 y4
  -- VEXTRACTI128 $1, Y4, X5 ; VPADDQ X5, X4, X4
  let x40 := (y4.l2 + y4.l0) % M64
  let x41 := (y4.l3 + y4.l1) % M64
  -- VPSHUFD $0x4e, X4, X5 (swap the 64-bit halves) ; VPADDQ X5, X4, X4 ; VMOVQ X4, R8
  (x41 + x40) % M64

/-- `loop8`: 8 bytes at a time with end-around carry. -/
def loop8 (buf : List UInt8) (ax : Nat) : List UInt8 × Nat :=
  if 8 ≤ buf.length then loop8 (buf.drop 8) (addc ax (leLoad (buf.take 8))) else (buf, ax)
termination_by buf.length
decreasing_by simp; omega

/-- `tail4` / `tail2`: one optional 4- resp. 2-byte load. -/
def tailN (n : Nat) (buf : List UInt8) (ax : Nat) : List UInt8 × Nat :=
  if n ≤ buf.length then (buf.drop n, addc ax (leLoad (buf.take n))) else (buf, ax)

/-- `tail1`: `TESTQ CX, CX ; JZ fold` — one last byte if any is left. -/
def tail1 (buf : List UInt8) (ax : Nat) : Nat :=
  if buf.length = 0 then ax else addc ax (leLoad (buf.take 1))

/-- `fold`: the four rounds 64 → 33 → 32 → 17 → 16(+1) bits; the result still carries bit 16, which
the final `MOVW` drops. -/
def fold64 (ax : Nat) : Nat :=
  -- MOVQ AX, R8 ; SHRQ $32, R8 ; MOVL AX, AX ; ADDQ R8, AX
  let ax := (ax % 4294967296 + ax / 4294967296) % M64
  -- MOVQ AX, R8 ; SHRQ $32, R8 ; ADDQ R8, AX ; MOVL AX, AX
  let ax := ((ax + ax / 4294967296) % M64) % 4294967296
  -- MOVQ AX, R8 ; SHRQ $16, R8 ; MOVWQZX AX, AX ; ADDQ R8, AX
  let ax := (ax % 65536 + ax / 65536) % M64
  -- MOVQ AX, R8 ; SHRQ $16, R8 ; ADDQ R8, AX
  (ax + ax / 65536) % M64

/-- `XCHGB AH, AL`: swap the two low bytes of `AX`, leave the rest. -/
def xchgb (ax : Nat) : Nat := ax / 65536 * 65536 + swap16 (ax % 65536)

/-- `checksumAVX2(buf, initial)`; `initial` is a `uint16`. -/
def checksumAVX2 (buf : List UInt8) (initial : Nat) : Nat :=
  -- MOVWQZX initial, AX ; XCHGB AH, AL
  let ax := xchgb (initial % 65536)
  -- CMPQ CX, $32 ; JLT scalar_tail
  let (buf, ax) :=
    if buf.length < 32 then (buf, ax) else
      let v : Vec := ⟨Ymm.zero, Ymm.zero, Ymm.zero, Ymm.zero⟩
      -- CMPQ CX, $64 ; JLT loop32 — the do-while `loop64` is entered only with CX ≥ 64
      let (buf, v) := loop64 buf v
      let (buf, v) := loop32 buf v
      -- ADDQ R8, AX ; ADCQ $0, AX
      (buf, addc ax (reduceVec v))
  let (buf, ax) := loop8 buf ax
  let (buf, ax) := tailN 4 buf ax
  let (buf, ax) := tailN 2 buf ax
  let ax := tail1 buf ax
  -- XCHGB AH, AL ; MOVW AX, ret
  xchgb (fold64 ax) % 65536

/-- Does this build have the hand-written assembly? (amd64 build of `checksum_amd64.go`.) -/
def dispatch (hasAVX2 : Bool) (buf : List UInt8) (initial : Nat) : Nat :=
  if hasAVX2 then checksumAVX2 buf initial else Csum.checksum buf initial


/-! ### the text this model was written from

The instruction skeleton of `checksum_amd64.s` (comments, blank lines and `#include` dropped, white space
collapsed), one block per line. The harness op `asmshape` renders the same skeleton from the working tree
and the driver compares (class `avx2-asm-shape`): an edit of the assembly that the value stream happens
not to distinguish still breaks the tie between this model and the code. -/
def asmSkeletonItems : List String := [
  "TEXT ·checksumAVX2(SB), NOSPLIT, $0-34", "MOVQ buf_base+0(FP), SI", "MOVQ buf_len+8(FP), CX", "MOVWQZX initial+24(FP), AX", "XCHGB AH, AL", "CMPQ CX, $32", "JLT scalar_tail", "VPXOR Y4, Y4, Y4", "VPXOR Y5, Y5, Y5", "VPXOR Y6, Y6, Y6", "VPXOR Y7, Y7, Y7", "CMPQ CX, $64", "JLT loop32",
  "loop64:", "VPMOVZXDQ (SI), Y0", "VPMOVZXDQ 16(SI), Y1", "VPMOVZXDQ 32(SI), Y2", "VPMOVZXDQ 48(SI), Y3", "VPADDQ Y0, Y4, Y4", "VPADDQ Y1, Y5, Y5", "VPADDQ Y2, Y6, Y6", "VPADDQ Y3, Y7, Y7", "ADDQ $64, SI", "SUBQ $64, CX", "CMPQ CX, $64", "JGE loop64",
  "loop32:", "CMPQ CX, $32", "JLT reduce_vec", "VPMOVZXDQ (SI), Y0", "VPMOVZXDQ 16(SI), Y1", "VPADDQ Y0, Y4, Y4", "VPADDQ Y1, Y5, Y5", "ADDQ $32, SI", "SUBQ $32, CX", "JMP loop32",
  "reduce_vec:", "VPADDQ Y5, Y4, Y4", "VPADDQ Y7, Y6, Y6", "VPADDQ Y6, Y4, Y4", "VEXTRACTI128 $1, Y4, X5", "VPADDQ X5, X4, X4", "VPSHUFD $0x4e, X4, X5", "VPADDQ X5, X4, X4", "VMOVQ X4, R8", "VZEROUPPER", "ADDQ R8, AX", "ADCQ $0, AX",
  "scalar_tail:", "CMPQ CX, $8", "JLT tail4",
  "loop8:", "ADDQ (SI), AX", "ADCQ $0, AX", "ADDQ $8, SI", "SUBQ $8, CX", "CMPQ CX, $8", "JGE loop8",
  "tail4:", "CMPQ CX, $4", "JLT tail2", "MOVL (SI), R8", "ADDQ R8, AX", "ADCQ $0, AX", "ADDQ $4, SI", "SUBQ $4, CX",
  "tail2:", "CMPQ CX, $2", "JLT tail1", "MOVWQZX (SI), R8", "ADDQ R8, AX", "ADCQ $0, AX", "ADDQ $2, SI", "SUBQ $2, CX",
  "tail1:", "TESTQ CX, CX", "JZ fold", "MOVBQZX (SI), R8", "ADDQ R8, AX", "ADCQ $0, AX",
  "fold:", "MOVQ AX, R8", "SHRQ $32, R8", "MOVL AX, AX", "ADDQ R8, AX", "MOVQ AX, R8", "SHRQ $32, R8", "ADDQ R8, AX", "MOVL AX, AX", "MOVQ AX, R8", "SHRQ $16, R8", "MOVWQZX AX, AX", "ADDQ R8, AX", "MOVQ AX, R8", "SHRQ $16, R8", "ADDQ R8, AX", "XCHGB AH, AL", "MOVW AX, ret+32(FP)", "RET"
]

def asmSkeleton : String := "; ".intercalate asmSkeletonItems

end Nebula.ChecksumAVX2
