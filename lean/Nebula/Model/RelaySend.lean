/-
Model of the relay send path (C15): `inside.go` `sendInsideMessage` relay branch / `sendNoMetrics` +
`SendVia` / `prepareSendVia`, and the forwarding relay's re-wrap in `outside.go`
`handleOutsideRelayPacket` (ForwardingType).  Core Lean only.

`aead k c ad pt` is the AEAD (`EncryptDanger(out, ad, plaintext, counter)`): it returns ciphertext ‖ tag.
* end-to-end packet (`sendInsideEncrypt` / `sendNoMetrics`): `hdr ‖ aead kE c hdr pt`, `hdr` = the 16-byte
  header for the END-TO-END tunnel (type Message/None, the peer's index, counter `c`);
* relay wrapping (`prepareSendVia`): `hdrR ‖ inner ‖ aead kR cR (hdrR ‖ inner) []` — the inner packet is
  authenticated as associated data, nothing is encrypted (empty plaintext ⇒ the aead output is the tag);
* forwarding relay: `signedPayload := packet[header.Len : len(packet) - Overhead]`, then `SendVia` to the
  next hop with the relay's key for THAT tunnel.
-/
namespace Nebula.RelaySend

abbrev Bytes := List Nat

variable {K : Type}

/-- `sendInsideEncrypt` / `sendNoMetrics`: the end-to-end packet. -/
def innerPacket (aead : K → Nat → Bytes → Bytes → Bytes) (kE : K) (hdrE : Bytes) (cE : Nat) (pt : Bytes) : Bytes :=
  hdrE ++ aead kE cE hdrE pt

/-- `prepareSendVia`: relay header, payload as associated data, tag only. -/
def outerPacket (aead : K → Nat → Bytes → Bytes → Bytes) (kR : K) (hdrR : Bytes) (cR : Nat) (inner : Bytes) : Bytes :=
  hdrR ++ inner ++ aead kR cR (hdrR ++ inner) []

/-- what the sending endpoint hands to the relay. -/
def relayWire (aead : K → Nat → Bytes → Bytes → Bytes) (kE kR : K) (hdrE : Bytes) (cE : Nat) (hdrR : Bytes) (cR : Nat)
    (pt : Bytes) : Bytes :=
  outerPacket aead kR hdrR cR (innerPacket aead kE hdrE cE pt)

/-- `handleOutsideRelayPacket`: strip the relay header and the tag. -/
def signedPayload (overhead : Nat) (packet : Bytes) : Bytes :=
  (packet.drop 16).take (packet.length - 16 - overhead)

/-- the forwarding relay: re-wrap the signed payload for the next hop (key `kT`, header `hdrT`). The
function has no access to the end-to-end key. -/
def relayForward (aead : K → Nat → Bytes → Bytes → Bytes) (overhead : Nat) (kT : K) (hdrT : Bytes) (cT : Nat)
    (packet : Bytes) : Bytes :=
  outerPacket aead kT hdrT cT (signedPayload overhead packet)

end Nebula.RelaySend
