/-
Model of `certificateV1.validate` (cert/cert_v1.go) and `certificateV2.validate` (cert/cert_v2.go), incl.
`comparePrefix` / `findDuplicatePrefix` (cert/sign.go). Both decoders and both `fromTBSCertificate` run
these; v2 *sorts* the network lists in place. Core Lean only.

Prefix validity: `netip.Prefix.IsValid()` is `len ≤ family bits` here (the zero `netip.Addr` and zones have
no representation in `Base/Net`; the harness never produces them).
-/
import Nebula.Model.Cert

namespace Nebula.Cert
open Nebula.Net

inductive InvErr where
  | name | emptyGroup | publicKey | noNetworks | invalidNetwork | zeroAddress | fourInSix | v1IPv6 | duplicateNetwork
  | invalidUnsafe | v1IPv6Unsafe | unsafeNeedsV6 | unsafeNeedsV4 | duplicateUnsafe
  deriving DecidableEq, Repr

def pfxValid (p : Prefix) : Bool := decide (p.len ≤ p.addr.fam.bits)

/-- `netip.Addr.IsUnspecified`: `0.0.0.0` or `::`. -/
def isUnspecified (a : Addr) : Bool := a.val == 0

/-- `comparePrefix a b ≤ 0`: address order (`netip.Addr.Compare`: IPv4 before IPv6, then value), then length. -/
def prefixLe (a b : Prefix) : Bool :=
  if a.addr.fam.bits != b.addr.fam.bits then decide (a.addr.fam.bits < b.addr.fam.bits)
  else if a.addr.val != b.addr.val then decide (a.addr.val < b.addr.val)
  else decide (a.len ≤ b.len)

/-- `slices.SortFunc(ps, comparePrefix)`, as an insertion sort (any correct sort gives the same list when no
two entries compare equal; when two do, validation fails). -/
def insertPrefix (a : Prefix) : List Prefix → List Prefix
  | [] => [a]
  | b :: rest => if prefixLe a b then a :: b :: rest else b :: insertPrefix a rest

def sortPrefixes : List Prefix → List Prefix
  | [] => []
  | a :: rest => insertPrefix a (sortPrefixes rest)

/-- `findDuplicatePrefix` on the sorted list: two adjacent entries comparing equal. -/
def hasAdjacentDup : List Prefix → Bool
  | a :: b :: rest => (a.addr.fam.bits == b.addr.fam.bits && a.addr.val == b.addr.val && a.len == b.len) ||
      hasAdjacentDup (b :: rest)
  | _ => false

/-- v1 network loop: first offending network decides the error. -/
def v1Networks : List Prefix → Option InvErr
  | [] => none
  | n :: rest =>
    if !pfxValid n then some .invalidNetwork
    else if n.addr.is6 then some .v1IPv6
    else if isUnspecified n.addr then some .zeroAddress
    else v1Networks rest

def v1Unsafe : List Prefix → Option InvErr
  | [] => none
  | n :: rest =>
    if !pfxValid n then some .invalidUnsafe
    else if n.addr.is6 then some .v1IPv6Unsafe
    else v1Unsafe rest

/-- `certificateV1.validate`. -/
def validateV1 (c : Cert) : Option InvErr :=
  if c.publicKey.length == 0 then some .publicKey
  else if !c.isCA && c.networks.length == 0 then some .noNetworks
  else match v1Networks c.networks with
    | some e => some e
    | none => v1Unsafe c.unsafeNetworks

/-- v2 network loop. -/
def v2Networks : List Prefix → Option InvErr
  | [] => none
  | n :: rest =>
    if !pfxValid n then some .invalidNetwork
    else if isUnspecified n.addr then some .zeroAddress
    else if n.addr.is4in6 then some .fourInSix
    else v2Networks rest

def v2Unsafe (isCA hasV4 hasV6 : Bool) : List Prefix → Option InvErr
  | [] => none
  | n :: rest =>
    if !pfxValid n then some .invalidUnsafe
    else if !isCA && n.addr.is6 && !hasV6 then some .unsafeNeedsV6
    else if !isCA && n.addr.is4 && !hasV4 then some .unsafeNeedsV4
    else v2Unsafe isCA hasV4 hasV6 rest

/-- `certificateV2.validate`: the certificate with both lists sorted, or the first error. -/
def validateV2 (c : Cert) : Except InvErr Cert :=
  if c.name.length == 0 || c.name.length > Gen.cert_MaxNameLength then .error .name
  else if c.groups.any (·.isEmpty) then .error .emptyGroup
  else if c.publicKey.length == 0 then .error .publicKey
  else if !c.isCA && c.networks.length == 0 then .error .noNetworks
  else match v2Networks c.networks with
    | some e => .error e
    | none =>
      let nets := sortPrefixes c.networks
      if hasAdjacentDup nets then .error .duplicateNetwork
      else
        let hasV4 := c.networks.any (·.addr.is4)
        let hasV6 := c.networks.any (·.addr.is6)
        match v2Unsafe c.isCA hasV4 hasV6 c.unsafeNetworks with
        | some e => .error e
        | none =>
          let uns := sortPrefixes c.unsafeNetworks
          if hasAdjacentDup uns then .error .duplicateUnsafe
          else .ok { c with networks := nets, unsafeNetworks := uns }

/-- `fromTBSCertificate` of the version's certificate type followed by `validate`. -/
def validateVersion (c : Cert) : Option (Except InvErr Cert) :=
  if c.version = 1 then some (match validateV1 c with | some e => .error e | none => .ok c)
  else if c.version = 2 then some (validateV2 c)
  else none

end Nebula.Cert
