/-
Model of `udp/udp_linux_writebatch.go`: `batchWriter.WriteBatch` with `planRun`, the address-family skip,
the per-entry bookkeeping (`entryEnd`, `entryPkts`), the drain loop over `sendFn`, and the GSO-disable
replay.  Core Lean only.

What is abstracted:
* a packet is `(len(bufs[k]), addrs[k])`; its identity is its index `k` in the batch.  Destinations are an
  arbitrary type `δ` with decidable equality (`addrs[a] != addrs[b]` in Go is structural equality of
  `netip.AddrPort`); `routable d` says that `writeSockaddr(_, d, w.isV4)` succeeds.
* an entry (one `mmsghdr` slot) is `(start, cnt, seg)`: it points at the `cnt` iovecs of packets
  `start … start+cnt-1` (`entryEnd = start+cnt`, `entryPkts = cnt`); it carries a UDP_SEGMENT cmsg with
  `gso_size = seg` iff `cnt ≥ 2` (`writeEntryCmsg`).
* the kernel is a function `kern k n` giving the result `(sent, errno)` of the `k`-th `sendFn` call of the
  run when it is offered `n` entries (any deterministic kernel behaviour on one run is such a function).
  `err` only distinguishes nil / EIO / anything else, as the code does.
* `cfg.n` is the scratch size (`len(w.msgs) = len(w.iovs)`, `MaxWriteBatch` in production),
  `cfg.maxSeg` is `w.maxGSOSegments`, the flag `gso` is `w.gsoSupported`.

The output is the trace of `sendFn` calls (with the entries offered), `written`, whether the
"sendmmsg made no progress" error was returned, and the final value of `w.gsoSupported`.
A `sent` larger than the number of entries offered is outside the sendmmsg contract (the Go code would
count stale bookkeeping slots or panic); the model stops with `overrun`.
-/
import Nebula.Gen.Writebatch

namespace Nebula.Writebatch

structure Pkt (δ : Type) where
  len : Nat
  dst : δ
  deriving Repr

structure Entry where
  start : Nat
  cnt : Nat
  seg : Nat
  deriving DecidableEq, Repr

inductive Err where
  | none | eio | other
  deriving DecidableEq, Repr

structure Outcome where
  sent : Int
  err : Err
  deriving DecidableEq, Repr

/-- one `w.sendFn(done, n)` call: `ents` are the `n = ents.length` prepared entries it was offered. -/
structure Call where
  done : Nat
  ents : List Entry
  /-- control side of the offered slots as the kernel sees it: `none` = `Hdr.Control == nil, Controllen == 0`,
  `some s` = the slot's UDP_SEGMENT cmsg with `gso_size = s` is attached. -/
  ctl : List (Option Nat)
  out : Outcome
  deriving Repr

/-- Control side of the `len(w.msgs)` mmsghdr slots (`Hdr.Control/Controllen` plus the 2-byte payload of the
slot's pre-built UDP_SEGMENT cmsg).  This state lives in the writer: it survives from chunk to chunk and
from one `WriteBatch` call to the next. -/
abbrev Ctl := List (Option Nat)

/-- `w.writeEntryCmsg(entry, runLen, segSize)`: a run of ≥ 2 packets gets the cmsg with
`uint16(segSize)`, a single packet gets its control pointer *cleared*. -/
def writeEntryCmsg (ctl : Ctl) (entry runLen segSize : Nat) : Ctl :=
  ctl.set entry (if runLen ≥ 2 then some (segSize % 65536) else none)

/-- result of the packing loop: committed entries (slot order), the value of `i` when the loop ends, and
the control side of the slots. -/
structure Packed where
  ents : List Entry
  next : Nat
  ctl : Ctl

structure Cfg (δ : Type) where
  n : Nat
  maxSeg : Int
  routable : δ → Bool

def maxGSOBytes : Nat := Gen.wb_maxGSOBytes

variable {δ : Type} [DecidableEq δ]

/-- the `for runLen < maxLen && start+runLen < len(bufs)` loop of `planRun`; `rest` are the packets from
index `start+runLen` on. -/
def planLoop (segSize : Nat) (dst : δ) (maxLen : Int) : List (Pkt δ) → Nat → Nat → Nat
  | [], runLen, _ => runLen
  | p :: rest, runLen, total =>
    if (runLen : Int) < maxLen then
      if p.len = 0 ∨ p.len > segSize then runLen
      else if p.dst ≠ dst then runLen
      else if total + p.len > maxGSOBytes then runLen
      else if p.len < segSize then runLen + 1          -- a short packet must be the last in the run
      else planLoop segSize dst maxLen rest (runLen + 1) (total + p.len)
    else runLen

/-- `w.planRun(bufs, addrs, start, iovBudget)` = `(runLen, segSize)`. -/
def planRun (gso : Bool) (maxSeg : Int) (pk : List (Pkt δ)) (start : Nat) (iovBudget : Int) : Nat × Nat :=
  match pk.drop start with
  | [] => (0, 0)
  | p :: rest =>
    if iovBudget < 1 then (0, 0)
    else if gso = false ∨ p.len = 0 ∨ p.len > maxGSOBytes then (1, p.len)
    else (planLoop p.len p.dst (if iovBudget < maxSeg then iovBudget else maxSeg) rest 1 p.len, p.len)

/-- the packing loop `for entry < len(w.msgs) && i < len(bufs)`: the entries committed (in slot order)
and the value of `i` when the loop ends. -/
def pack (c : Cfg δ) (gso : Bool) (pk : List (Pkt δ)) (i entry iovIdx : Nat) (ctl : Ctl) : Packed :=
  if h : entry < c.n ∧ i < pk.length then
    let iovBudget : Int := (c.n : Int) - (iovIdx : Int)
    if iovBudget < 1 then ⟨[], i, ctl⟩
    else
      let pr := planRun gso c.maxSeg pk i iovBudget
      if hr : pr.1 = 0 then ⟨[], i, ctl⟩
      else if c.routable (pk[i]'h.2).dst then
        -- entry committed: iovecs, sockaddr, then `w.writeEntryCmsg(entry, runLen, segSize)`
        let r := pack c gso pk (i + pr.1) (entry + 1) (iovIdx + pr.1) (writeEntryCmsg ctl entry pr.1 pr.2)
        ⟨{ start := i, cnt := pr.1, seg := pr.2 } :: r.ents, r.next, r.ctl⟩
      else
        -- writeSockaddr failed: the run is skipped, no entry is committed, the slot is not touched
        pack c gso pk (i + pr.1) entry iovIdx ctl
  else ⟨[], i, ctl⟩
termination_by pk.length - i
decreasing_by all_goals (simp +zetaDelta only at *; omega)

inductive Stop where
  | finished
  | noProgress
  | overrun
  /-- GSO was disabled; `i` is rewound to the given packet index -/
  | replay (i : Nat)
  deriving DecidableEq, Repr

structure Drained where
  written : Nat
  calls : List Call
  stop : Stop

def sumCnt (es : List Entry) : Nat := (es.map (·.cnt)).sum

/-- the drain loop `for done < entry` over one packed chunk; `k` numbers the `sendFn` calls of the run. -/
def drain (kern : Nat → Nat → Outcome) (gso : Bool) (chunk : List Entry) (ctl : Ctl) (done k : Nat) : Drained :=
  if h : done < chunk.length then
    let n := chunk.length - done
    let o := kern k n
    let call : Call := { done := done, ents := chunk.drop done, ctl := (ctl.drop done).take n, out := o }
    if o.sent > 0 then
      if o.sent > (n : Int) then { written := 0, calls := [call], stop := .overrun }
      else
        let s := o.sent.toNat
        let r := drain kern gso chunk ctl (done + s) (k + 1)
        { written := sumCnt ((chunk.drop done).take s) + r.written, calls := call :: r.calls, stop := r.stop }
    else if o.err = .none then { written := 0, calls := [call], stop := .noProgress }
    else if gso = true ∧ (chunk[done]'h).cnt ≥ 2 ∧ o.err = .eio then
      { written := 0, calls := [call], stop := .replay (chunk[done]'h).start }
    else
      let r := drain kern gso chunk ctl (done + 1) (k + 1)
      { written := r.written, calls := call :: r.calls, stop := r.stop }
  else { written := 0, calls := [], stop := .finished }
termination_by chunk.length - done
decreasing_by all_goals (simp +zetaDelta only at *; omega)

structure Result where
  written : Nat
  /-- the "sendmmsg made no progress" error was returned -/
  err : Bool
  overrun : Bool
  /-- `w.gsoSupported` after the call -/
  gso : Bool
  /-- control side of the slots after the call -/
  ctl : Ctl
  calls : List Call

/-- a committed chunk moves `i` forward. -/
theorem pack_progress (c : Cfg δ) (gso : Bool) (pk : List (Pkt δ)) (i entry iovIdx : Nat) (ctl : Ctl) :
    i ≤ (pack c gso pk i entry iovIdx ctl).next ∧
    ((pack c gso pk i entry iovIdx ctl).ents ≠ [] → i < (pack c gso pk i entry iovIdx ctl).next) := by
  fun_induction pack c gso pk i entry iovIdx ctl with
  | case1 => simp
  | case2 => simp
  | case3 i entry iovIdx ctl h budget hb pr hr hroute r ih =>
    have : 0 < pr.1 := Nat.pos_of_ne_zero hr
    simp +zetaDelta only [ne_eq, reduceCtorEq, not_false_eq_true, forall_const] at *
    omega
  | case4 i entry iovIdx ctl h budget hb pr hr hroute ih =>
    have : 0 < pr.1 := Nat.pos_of_ne_zero hr
    refine ⟨by omega, fun hne => ?_⟩
    have := ih.2 hne
    omega
  | case5 => simp

/-- a replay is only requested while GSO is on. -/
theorem drain_replay_gso (kern : Nat → Nat → Outcome) (gso : Bool) (chunk : List Entry) (ctl : Ctl) (done k i : Nat)
    (h : (drain kern gso chunk ctl done k).stop = .replay i) : gso = true := by
  fun_induction drain kern gso chunk ctl done k <;> simp_all +zetaDelta

/-- `WriteBatch`'s outer loop `for i < len(bufs)`, from packet index `i` with `w.gsoSupported = gso` and the
slots' control side `ctl`, `k` `sendFn` calls having been made so far. -/
def run (c : Cfg δ) (kern : Nat → Nat → Outcome) (pk : List (Pkt δ)) (gso : Bool) (i k : Nat) (ctl : Ctl) : Result :=
  if h : i < pk.length then
    let p := pack c gso pk i 0 0 ctl
    if hp : p.ents = [] then
      -- every remaining packet was skipped (or there is no scratch): `entry == 0`, break
      { written := 0, err := false, overrun := false, gso := gso, ctl := p.ctl, calls := [] }
    else
      let d := drain kern gso p.ents p.ctl 0 k
      match hd : d.stop with
      | .finished =>
        let r := run c kern pk gso p.next (k + d.calls.length) p.ctl
        { r with written := d.written + r.written, calls := d.calls ++ r.calls }
      | .replay i' =>
        let r := run c kern pk false i' (k + d.calls.length) p.ctl
        { r with written := d.written + r.written, calls := d.calls ++ r.calls }
      | .noProgress => { written := d.written, err := true, overrun := false, gso := gso, ctl := p.ctl, calls := d.calls }
      | .overrun => { written := d.written, err := false, overrun := true, gso := gso, ctl := p.ctl, calls := d.calls }
  else { written := 0, err := false, overrun := false, gso := gso, ctl := ctl, calls := [] }
termination_by (if gso then pk.length + 1 else 0) + (pk.length - i)
decreasing_by
  · have := (pack_progress c gso pk i 0 0 ctl).2 hp
    omega
  · have hg := drain_replay_gso kern gso _ _ 0 k i' hd
    simp [hg]; omega

/-- `w.WriteBatch(bufs, addrs)` on a writer whose `gsoSupported` flag is `gso` and whose slots' control side
is `ctl` (whatever earlier batches left there). -/
def writeBatch (c : Cfg δ) (kern : Nat → Nat → Outcome) (pk : List (Pkt δ)) (gso : Bool) (ctl : Ctl) : Result :=
  run c kern pk gso 0 0 ctl

/-- kernel given by a finite script of outcomes (then: everything offered is accepted). A real sendmmsg
never reports more than it was offered, so `sent` is capped at `n`. -/
def scriptKern (script : List Outcome) (k n : Nat) : Outcome :=
  match script[k]? with
  | some o => { sent := if o.sent > (n : Int) then (n : Int) else o.sent, err := o.err }
  | none => { sent := n, err := .none }

end Nebula.Writebatch

/-! ## Observables of a trace (used to state the property) -/

namespace Nebula.Writebatch

/-- the entries of a `sendFn` call that the kernel accepted: the first `sent` ones. -/
def Call.accepted (c : Call) : List Entry :=
  if c.out.sent > 0 then c.ents.take c.out.sent.toNat else []

/-- all accepted entries of a trace, in the order the kernel accepted them. -/
def accepted (calls : List Call) : List Entry := calls.flatMap Call.accepted

/-- the packet indices an entry's iovecs point at. -/
def Entry.idxs (e : Entry) : List Nat := List.range' e.start e.cnt

/-- the packet indices handed to the kernel successfully, in order. -/
def sentIdxs (calls : List Call) : List Nat := (accepted calls).flatMap Entry.idxs

/-- the sendmmsg contract: a call offered `n` entries never reports more than `n` sent. -/
def KernOK (kern : Nat → Nat → Outcome) : Prop := ∀ k n, (kern k n).sent ≤ (n : Int)

/-- the packets of an entry. -/
def Entry.pkts {δ : Type} (pk : List (Pkt δ)) (e : Entry) : List (Pkt δ) := (pk.drop e.start).take e.cnt

def sumLen {δ : Type} (l : List (Pkt δ)) : Nat := (l.map (·.len)).sum

/-- Shape of a prepared entry w.r.t. the batch: it covers `cnt ≥ 1` existing packets and announces the
length of its first packet as segment size; an offloaded run (`cnt ≥ 2`, the entries that carry a
UDP_SEGMENT cmsg) has one destination, no empty member, every member of the segment size except possibly a
shorter last one, at most `maxSeg` members and at most `maxGSOBytes` bytes in total. -/
def RunShape {δ : Type} (maxSeg : Int) (pk : List (Pkt δ)) (e : Entry) : Prop :=
  1 ≤ e.cnt ∧ e.start + e.cnt ≤ pk.length ∧
  (∀ p, pk[e.start]? = some p → e.seg = p.len) ∧
  (2 ≤ e.cnt →
    (e.cnt : Int) ≤ maxSeg ∧ e.seg ≤ maxGSOBytes ∧ sumLen (e.pkts pk) ≤ maxGSOBytes ∧
    (∀ p ∈ e.pkts pk, (∀ q, pk[e.start]? = some q → p.dst = q.dst) ∧ 0 < p.len ∧ p.len ≤ e.seg) ∧
    (∀ p ∈ (e.pkts pk).dropLast, p.len = e.seg))

end Nebula.Writebatch

namespace Nebula.Writebatch

/-- the control side an entry must have: a run of ≥ 2 packets carries the UDP_SEGMENT cmsg announcing its
segment size, a single packet carries no control data at all. -/
def Entry.wantCtl (e : Entry) : Option Nat := if e.cnt ≥ 2 then some e.seg else none

/-- what `writeEntryCmsg` literally leaves in the entry's slot (`uint16(segSize)`). -/
def Entry.rawCtl (e : Entry) : Option Nat := if e.cnt ≥ 2 then some (e.seg % 65536) else none

end Nebula.Writebatch
