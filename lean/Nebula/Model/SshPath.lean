/-
Model of `ssh.go: sshSanitizeFilePath` (line by line) over a model of the lexical path functions of
Go's `path/filepath` on Unix that it calls: `Clean`, `Join`, `IsAbs` (standard library: not nebula code;
the model of these three is tied to Go's by the exhaustive small-scope correspondence stream of engine
`sshpath`, ops `clean` / `join` / `isabs`).

Paths are `List Char` (one `Char` per byte of the Go string; only `/` and `.` are ever inspected).
Core Lean only.
-/
namespace Nebula.SshPath

abbrev Path := List Char

/-- `strings.Split(p, "/")`: the maximal `/`-free pieces, in order (always at least one piece). -/
def split : Path → List Path
  | [] => [[]]
  | c :: cs =>
    if c = '/' then [] :: split cs
    else match split cs with
      | [] => [[c]]            -- unreachable: `split` never returns `[]`
      | p :: ps => (c :: p) :: ps

def dot : Path := ['.']
def dotdot : Path := ['.', '.']

/-- A lexical location: absolute or relative to the working directory, a number of leading `..`
(only for relative paths) and then proper names. `stack` is kept innermost-first while scanning. -/
structure Loc where
  abs : Bool
  ups : Nat
  comps : List Path
  deriving DecidableEq, Repr

/-- One path element applied to the scan state `(ups, reversed stack)`: the rules of `Clean`
("eliminate `.`", "eliminate inner `..` along with the element before it", "`/..` at the root is `/`",
keep leading `..` of a relative path). -/
def stepElem (abs : Bool) (st : Nat × List Path) (c : Path) : Nat × List Path :=
  if c = [] ∨ c = dot then st
  else if c = dotdot then
    match st.2 with
    | _ :: rest => (st.1, rest)
    | [] => if abs then st else (st.1 + 1, [])
  else (st.1, c :: st.2)

/-- `filepath.IsAbs` on Unix: `strings.HasPrefix(path, "/")`. -/
def isAbs (p : Path) : Bool := p.head? = some '/'

def scan (abs : Bool) (st : Nat × List Path) (cs : List Path) : Nat × List Path :=
  cs.foldl (stepElem abs) st

/-- The location a path denotes lexically. -/
def resolve (p : Path) : Loc :=
  let st := scan (isAbs p) (0, []) (split p)
  { abs := isAbs p, ups := st.1, comps := st.2.reverse }

/-- `strings.Join(cs, "/")`. -/
def joinSep : List Path → Path
  | [] => []
  | [c] => c
  | c :: cs => c ++ '/' :: joinSep cs

/-- The elements printed for a location: the leading `..`s then the names. -/
def Loc.elems (l : Loc) : List Path := List.replicate l.ups dotdot ++ l.comps

/-- The shortest path naming a location (what `Clean` returns). -/
def render (l : Loc) : Path :=
  if l.abs then '/' :: joinSep l.elems
  else if l.elems = [] then dot else joinSep l.elems

/-- `filepath.Clean` (Unix). -/
def clean (p : Path) : Path :=
  if p = [] then dot else render (resolve p)

/-- `filepath.Join(a, b)`: empty elements are ignored, the rest joined with `/` and cleaned; all
empty gives the empty string. -/
def join2 (a b : Path) : Path :=
  if a ≠ [] then clean (a ++ '/' :: b)
  else if b ≠ [] then clean b
  else []

inductive Res where
  | ok (p : Path)
  | errSelf       -- "resolves to the sandbox directory itself"
  | errOutside    -- "is outside the sandbox directory"
  deriving DecidableEq, Repr

/-- `sshSanitizeFilePath(sandboxDir, filePath)`. -/
def sanitize (sandboxDir filePath : Path) : Res :=
  if sandboxDir = [] then .ok filePath else
  let filePath := if !isAbs filePath then join2 sandboxDir filePath else filePath
  let cleaned := clean filePath
  let cleanedSandbox := clean sandboxDir
  if cleaned = cleanedSandbox then .errSelf
  else if !(cleanedSandbox ++ ['/']).isPrefixOf cleaned then .errOutside
  else
    -- (fix) a sandbox made only of `..` elements is a textual prefix of paths that climb above it
    let rest := cleaned.drop (cleanedSandbox.length + 1)
    if rest = dotdot ∨ (dotdot ++ ['/']).isPrefixOf rest then .errOutside
    else .ok cleaned

end Nebula.SshPath
