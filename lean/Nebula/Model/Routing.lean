/-
Model of `routing/gateway.go` (`scaleAndRound`, `CalculateBucketsForGateways`) and `routing/balance.go`
(`hashPacket` — translated from source —, `BalancePacket`).
Go `int`/`uint64` arithmetic is written with its wrap-around: `wrapI64` after every `int` addition,
`toU64` for `uint64(x)`, and the `math/bits` primitives on explicit 64-bit halves.  Go panics (division by
zero / quotient overflow in `bits.Div64`, `hash % 0`) are explicit results.
-/
import Nebula.Gen.Routing

namespace Nebula.Routing

/-- value of a Go `int` (int64) after an operation whose mathematical result is `x`. -/
def wrapI64 (x : Int) : Int := (x + 2 ^ 63) % 2 ^ 64 - 2 ^ 63
/-- `uint64(x)` for an `int` `x`. -/
def toU64 (x : Int) : Nat := (x % 2 ^ 64).toNat
/-- `int(x)` for a `uint64` `x`. -/
def ofU64 (x : Nat) : Int := wrapI64 x

/-- `bits.Mul64`: `(hi, lo)`. -/
def mul64 (x y : Nat) : Nat × Nat := ((x * y) / 2 ^ 64 % 2 ^ 64, (x * y) % 2 ^ 64)
/-- `bits.Add64`: `(sum, carryOut)`. -/
def add64 (x y c : Nat) : Nat × Nat := ((x + y + c) % 2 ^ 64, (x + y + c) / 2 ^ 64)
/-- `bits.Div64`: quotient; `none` = panic (`y == 0` or `y <= hi`). -/
def div64 (hi lo y : Nat) : Option Nat :=
  if y = 0 then none else if y ≤ hi then none else some ((hi * 2 ^ 64 + lo) / y)

/-- `scaleAndRound(w, total)`. -/
def scaleAndRound (w total : Nat) : Option Nat :=
  let (hi, lo) := mul64 w (2 ^ 31)
  let (lo, carry) := add64 lo (total / 2) 0
  div64 ((hi + carry) % 2 ^ 64) lo total

structure Gateway where
  addr : Nat          -- identity of the gateway address
  weight : Int
  bound : Int         -- `bucketUpperBound`
  deriving DecidableEq, Repr

/-- `NewGateway`. -/
def newGateway (addr : Nat) (weight : Int) : Gateway :=
  { addr := addr, weight := weight, bound := Gen.routing_BucketNotCalculated }

/-- first loop: `totalWeight += gateways[i].weight`. -/
def totalWeight (gs : List Gateway) : Int := gs.foldl (fun acc g => wrapI64 (acc + g.weight)) 0

/-- second loop, from running weight `lw`; `none` = panic. -/
def calcLoop (total : Int) : Int → List Gateway → Option (List Gateway)
  | _, [] => some []
  | lw, g :: gs =>
    let lw' := wrapI64 (lw + g.weight)
    match scaleAndRound (toU64 lw') (toU64 total) with
    | none => none
    | some q =>
      match calcLoop total lw' gs with
      | none => none
      | some rest => some ({ g with bound := wrapI64 (ofU64 q - 1) } :: rest)

/-- `CalculateBucketsForGateways`. -/
def calculateBuckets (gs : List Gateway) : Option (List Gateway) := calcLoop (totalWeight gs) 0 gs

/-- The fields of `firewall.Packet`. -/
structure Packet where
  localAddr : Nat
  remoteAddr : Nat
  localPort : Nat
  remotePort : Nat
  protocol : Nat
  fragment : Bool
  deriving DecidableEq, Repr

/-- `hashPacket`: the function translated from the source, on the two port fields it reads. -/
def hashPacket (p : Packet) : Int :=
  (Gen.routing_hashPacket (BitVec.ofNat 16 p.localPort) (BitVec.ofNat 16 p.remotePort)).toInt

/-- index of the first gateway with `hash <= bound`. -/
def firstFit (hash : Int) : List Gateway → Option Nat
  | [] => none
  | g :: gs => if hash ≤ g.bound then some 0 else (firstFit hash gs).map (· + 1)

inductive BalRes where
  | chosen (idx : Nat) (ok : Bool)
  | panic
  deriving DecidableEq, Repr

/-- `BalancePacket`: index of the chosen gateway and the "buckets were calculated" flag. -/
def balancePacket (p : Packet) (gs : List Gateway) : BalRes :=
  let hash := hashPacket p
  match firstFit hash gs with
  | some i => .chosen i true
  | none =>
    if gs.length = 0 then .panic          -- integer divide by zero
    else .chosen (hash % (gs.length : Int)).toNat false

end Nebula.Routing
