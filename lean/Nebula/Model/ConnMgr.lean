/-
Model of `connection_manager.go`: `makeTrafficDecision` (with `isInvalidCertificate`, `getAndResetTrafficCheck`,
`isInactive`), `shouldSwapPrimary` and the cause list of `tryRehandshake`, as pure functions of what the Go code reads,
branch by branch in source order.  Thresholds and the decision codes are regenerated from the source.
-/
import Nebula.Gen.ConnMgr

namespace Nebula.ConnMgr

/-- outcome of `caPool.VerifyCachedCertificate(now, hostinfo.GetCert())` -/
inductive CertV where
  | none          -- no peer certificate yet (handshake in progress)
  | ok
  | blocklisted   -- `cert.ErrBlockListed`
  | invalid       -- any other error (expired, unknown CA, …)
  deriving Repr, DecidableEq

inductive Decision where
  | doNothing | deleteTunnel | closeTunnel | swapPrimary | migrateRelays | tryRehandshake | sendTestPacket
  deriving Repr, DecidableEq

def Decision.code : Decision → Nat
  | .doNothing => Nebula.Gen.connmgr_doNothing
  | .deleteTunnel => Nebula.Gen.connmgr_deleteTunnel
  | .closeTunnel => Nebula.Gen.connmgr_closeTunnel
  | .swapPrimary => Nebula.Gen.connmgr_swapPrimary
  | .migrateRelays => Nebula.Gen.connmgr_migrateRelays
  | .tryRehandshake => Nebula.Gen.connmgr_tryRehandshake
  | .sendTestPacket => Nebula.Gen.connmgr_sendTestPacket

def rejectAfter : Nat := Nebula.Gen.connmgr_noiseutil_RejectAfterMessages
def rehandshakeAfter : Nat := Nebula.Gen.connmgr_RehandshakeAfterMessages

/-- which interval `trafficTimer.Add` re-armed -/
inductive Timer where
  | none | check | pendingDeletion
  deriving Repr, DecidableEq

/-- everything `makeTrafficDecision(localIndex, now)` reads -/
structure In where
  found : Bool               -- `hostMap.Indexes[localIndex] != nil`
  cert : CertV
  disconnectInvalid : Bool   -- `pki.disconnect_invalid`
  hasCS : Bool               -- `hostinfo.ConnectionState != nil`
  counter : Nat              -- `ConnectionState.messageCounter`
  isMain : Bool              -- `Hosts[vpnAddrs[0]]` is nil or this hostinfo
  inT : Bool                 -- `hostinfo.in`
  outT : Bool                -- `hostinfo.out`
  pd : Bool                  -- `hostinfo.pendingDeletion`
  dropInactive : Bool        -- `tunnels.drop_inactive`
  idle : Nat                 -- `now.Sub(hostinfo.lastUsed)`
  timeout : Nat              -- `tunnels.inactivity_timeout`
  swap : Bool                -- `shouldSwapPrimary(hostinfo)`
  deriving Repr, DecidableEq

structure Out where
  decision : Decision
  retHost : Bool             -- second result non-nil
  retPrimary : Bool          -- third result is `primary` (else nil)
  reset : Bool               -- `getAndResetTrafficCheck` ran (in/out cleared, lastUsed := now when either was set)
  pd : Bool                  -- `pendingDeletion` afterwards
  timer : Timer
  deriving Repr, DecidableEq

/-- `isInvalidCertificate` -/
def isInvalidCertificate (c : CertV) (disconnectInvalid : Bool) : Bool :=
  match c with
  | .none => false
  | .ok => false
  | .blocklisted => true
  | .invalid => disconnectInvalid

/-- `isInactive` -/
def isInactive (dropInactive : Bool) (idle timeout : Nat) : Bool :=
  if dropInactive = false then false
  else if idle < timeout then false
  else true

/-- `makeTrafficDecision` -/
def trafficDecision (i : In) : Out :=
  if !i.found then ⟨.doNothing, false, false, false, i.pd, .none⟩
  else if isInvalidCertificate i.cert i.disconnectInvalid then ⟨.closeTunnel, true, false, false, i.pd, .none⟩
  else if i.hasCS && decide (rejectAfter ≤ i.counter) then ⟨.deleteTunnel, true, false, false, i.pd, .none⟩
  else if i.inT then
    let d := if i.isMain then Decision.tryRehandshake else if i.swap then .swapPrimary else .migrateRelays
    ⟨d, true, true, true, false, .check⟩
  else if i.pd then ⟨.deleteTunnel, true, false, true, true, .none⟩
  else if i.hasCS && i.isMain then
    if !i.outT then
      if isInactive i.dropInactive i.idle i.timeout then ⟨.closeTunnel, true, true, true, false, .none⟩
      else ⟨.doNothing, false, false, true, false, .check⟩
    else ⟨.sendTestPacket, true, false, true, true, .pendingDeletion⟩
  else ⟨.doNothing, true, false, true, true, .pendingDeletion⟩

/-- `shouldSwapPrimary`: `addrLess` = the peer's first address sorts below ours; `present` = we still hold a local
certificate of the tunnel's version; `sigEqual` = the tunnel was built with exactly that certificate. -/
def shouldSwapPrimary (addrLess : Bool) (counter : Nat) (present sigEqual : Bool) : Bool :=
  if addrLess then false
  else if decide (rehandshakeAfter ≤ counter) then false
  else if !present then true
  else sigEqual

/-- `tryRehandshake`: is `StartHandshake` called?  `peerHigher` = the peer's certificate version is above the one
the tunnel uses, `haveHigher` = we hold a certificate of that version, `belowInitiating` = the tunnel's version is
below `pki.initiatingVersion`. -/
def rehandshakes (present peerHigher haveHigher sigEqual belowInitiating : Bool) (counter : Nat) : Bool :=
  if !present then true
  else if peerHigher && haveHigher then true
  else if !sigEqual then true
  else if belowInitiating then true
  else if decide (rehandshakeAfter ≤ counter) then true
  else false

end Nebula.ConnMgr
