/-
Model of the main hostmap (`hostmap.go`), the pending side of the handshake manager
(`handshake_manager.go`: `StartHandshake`, `allocateIndex`, `generateIndex`, `CheckAndComplete`, `Complete`,
`DeleteHostInfo`) and `AddRelay` (`relay_manager.go`), written function by function after the Go code
(with the F08 ownership checks of the `fix:` commit in the three `delete(...)` sites).

Go maps are association lists (`FMap`), pointer identity of `*HostInfo` is an object id (`Nat`) handed out by
the state (`next`), addresses and indexes are naturals.  `crypto/rand` is an explicit stream of 32-bit values.
-/
import Nebula.Gen.HostMap

namespace Nebula.HostMap

/-! ### finite maps with `Nat` keys -/

abbrev FMap (β : Type) := List (Nat × β)

namespace FMap
variable {β : Type}

def get : FMap β → Nat → Option β
  | [], _ => none
  | (k', v) :: r, k => if k' = k then some v else get r k

def del (m : FMap β) (k : Nat) : FMap β := m.filter (fun p => p.1 != k)

def set (m : FMap β) (k : Nat) (v : β) : FMap β := (k, v) :: del m k

def keys (m : FMap β) : List Nat := m.map (·.1)

end FMap

/-- What the hostmap code reads of a `*HostInfo` (and of the `HandshakeHostInfo` wrapping it while pending). -/
structure Obj where
  addrs : List Nat := []        -- vpnAddrs
  lidx : Nat := 0               -- localIndexId
  ridx : Nat := 0               -- remoteIndexId
  pkt : Nat := 0                -- HandshakePacket[0] (a token for the bytes)
  hsTime : Nat := 0             -- lastHandshakeTime
  initiator : Bool := false     -- ConnectionState.initiator
  ready : Bool := false         -- HandshakeHostInfo.ready
  deriving Repr, DecidableEq, Inhabited

/-- `Relay` (treated immutably by the Go code: updates store a modified copy) -/
structure Relay where
  type : Nat := 0               -- Unknowntype / ForwardingType / TerminalType
  state : Nat := 0              -- Requested / PeerRequested / Established / Disestablished
  lidx : Nat := 0               -- LocalIndex
  ridx : Nat := 0               -- RemoteIndex
  peer : Nat := 0               -- PeerAddr
  deriving Repr, DecidableEq, Inhabited

/-- `HostInfo.relayState` -/
structure RelayState where
  relaysTo : List Nat := []     -- relays: vpn addrs of hosts used as relays to reach this peer
  byAddr : FMap Relay := []     -- relayForByAddr
  byIdx : FMap Relay := []      -- relayForByIdx
  deriving Repr, DecidableEq, Inhabited

structure State where
  objs : FMap Obj := []
  rs : FMap RelayState := []    -- the relayState of each hostinfo (kept apart from the fields the index maps read)
  next : Nat := 1               -- next fresh object id (0 is never an object)
  hosts : FMap Nat := []        -- HostMap.Hosts
  more : FMap (List Nat) := []  -- HostMap.moreHosts
  indexes : FMap Nat := []      -- HostMap.Indexes
  rindexes : FMap Nat := []     -- HostMap.RemoteIndexes
  relays : FMap Nat := []       -- HostMap.Relays
  vpnIps : FMap Nat := []       -- HandshakeManager.vpnIps   (HandshakeHostInfo ≙ its hostinfo's id)
  pidx : FMap Nat := []         -- HandshakeManager.indexes
  deriving Repr, Inhabited

def State.obj (s : State) (h : Nat) : Obj := (s.objs.get h).getD {}

def State.setObj (s : State) (h : Nat) (o : Obj) : State := { s with objs := s.objs.set h o }

def State.rstate (s : State) (h : Nat) : RelayState := (s.rs.get h).getD {}

def State.setRs (s : State) (h : Nat) (r : RelayState) : State := { s with rs := s.rs.set h r }

def forwardingType : Nat := Nebula.Gen.hostmap_ForwardingType
def disestablished : Nat := Nebula.Gen.hostmap_Disestablished

def maxHostInfos : Nat := Nebula.Gen.hostmap_MaxHostInfosPerVpnIp

/-! ### hostmap.go -/

/-- `unlockedGetHostList` -/
def hostList (s : State) (a : Nat) : List Nat :=
  match s.more.get a with
  | some l => l
  | none => match s.hosts.get a with
    | some h => [h]
    | none => []

/-- `unlockedSetHostsForAddr` -/
def setHostsForAddr (s : State) (a : Nat) (l : List Nat) : State :=
  match l with
  | [] => { s with hosts := s.hosts.del a, more := s.more.del a }
  | h :: t =>
    if t.length ≥ 1 then { s with hosts := s.hosts.set a h, more := s.more.set a l }
    else { s with hosts := s.hosts.set a h, more := s.more.del a }

/-- `removeHostInfo`: first occurrence removed, order preserved. -/
def removeHost (l : List Nat) (h : Nat) : List Nat := l.erase h

/-- one iteration of the address loop of `unlockedDeleteHostInfo` -/
def delAddrStep (h : Nat) (sf : State × Bool) (a : Nat) : State × Bool :=
  let (s, final) := sf
  match s.more.get a with
  | some l =>
    let l' := removeHost l h
    (setHostsForAddr s a l', final && l'.isEmpty)
  | none =>
    match s.hosts.get a with
    | some e => if e = h then ({ s with hosts := s.hosts.del a }, final) else (s, false)
    | none => (s, final)

/-- the relay-index cleanup loop of `unlockedDeleteHostInfo` (with the ownership check) -/
def delRelayStep (h : Nat) (s : State) (i : Nat) : State :=
  if s.relays.get i = some h then { s with relays := s.relays.del i } else s

/-- `if hm.RemoteIndexes[k] == hostinfo { delete(hm.RemoteIndexes, k) }` -/
def condDelRidx (s : State) (h k : Nat) : State :=
  if s.rindexes.get k = some h then { s with rindexes := s.rindexes.del k } else s

/-- `if hm.Indexes[k] == hostinfo { delete(hm.Indexes, k) }` (the F08 ownership check) -/
def condDelIdx (s : State) (h k : Nat) : State :=
  if s.indexes.get k = some h then { s with indexes := s.indexes.del k } else s

/-- `RelayState.InsertRelay` -/
def insertRelay (r : RelayState) (ip idx : Nat) (rel : Relay) : RelayState :=
  { r with byAddr := r.byAddr.set ip rel, byIdx := r.byIdx.set idx rel }

/-- `RelayState.InsertRelayTo` -/
def insertRelayTo (r : RelayState) (ip : Nat) : RelayState :=
  if r.relaysTo.contains ip then r else { r with relaysTo := r.relaysTo ++ [ip] }

/-- `RelayState.UpdateRelayForByIpState` -/
def updateRelayState (r : RelayState) (vpnIp state : Nat) : RelayState :=
  match r.byAddr.get vpnIp with
  | some rel =>
    let rel' := { rel with state := state }
    { r with byAddr := r.byAddr.set rel'.peer rel', byIdx := r.byIdx.set rel'.lidx rel' }
  | none => r

/-- `for _, h := range hm.unlockedGetHostList(addr) { h.relayState.UpdateRelayForByIpState(vpnIp, Disestablished) }` -/
def disestablishVia (vpnIp : Nat) (s : State) (addr : Nat) : State :=
  (hostList s addr).foldl (fun s x => s.setRs x (updateRelayState (s.rstate x) vpnIp disestablished)) s

/-- `unlockedDisestablishVpnAddrRelayFor` -/
def disestablish (s : State) (h : Nat) : State :=
  let a0 := (s.obj h).addrs.headD 0
  let s := (s.rstate h).relaysTo.foldl (disestablishVia a0) s
  ((s.rstate h).byIdx.map (·.2)).foldl (fun s rel => if rel.type = forwardingType then disestablishVia a0 s rel.peer else s) s

/-- `unlockedDeleteHostInfo` -/
def deleteHost (s : State) (h : Nat) : State × Bool :=
  let o := s.obj h
  let (s, final) := o.addrs.foldl (delAddrStep h) (s, true)
  let s := condDelRidx s h o.ridx
  let s := condDelIdx s h o.lidx
  let s := if final then disestablish s h else s
  -- `CopyRelayForIdxs`: the keys of relayForByIdx
  let s := (s.rstate h).byIdx.keys.foldl (delRelayStep h) s
  (s, final)

/-- `unlockedInnerAddHostInfo` -/
def innerAdd (h : Nat) (s : State) (a : Nat) : State :=
  match s.hosts.get a with
  | none => { s with hosts := s.hosts.set a h }
  | some existing =>
    let list := (s.more.get a).getD [existing]
    let list := h :: removeHost list h
    let s := setHostsForAddr s a list
    if list.length > maxHostInfos then (deleteHost s (list.getLastD 0)).1 else s

/-- `unlockedAddHostInfo` -/
def addHost (s : State) (h : Nat) : State :=
  let o := s.obj h
  let s := o.addrs.foldl (innerAdd h) s
  { s with indexes := s.indexes.set o.lidx h, rindexes := s.rindexes.set o.ridx h }

def primStep (h : Nat) (s : State) (a : Nat) : State :=
  if s.hosts.get a = some h then s
  else setHostsForAddr s a (h :: removeHost (hostList s a) h)

/-- `unlockedMakePrimary` -/
def makePrimary (s : State) (h : Nat) : State × Bool :=
  let o := s.obj h
  if s.indexes.get o.lidx ≠ some h then (s, false)
  else (o.addrs.foldl (primStep h) s, true)

/-! ### index generation -/

/-- `generateIndex` over an explicit stream of `rand.Read` results: zeros are skipped.  `none` = stream exhausted
(the harness never lets that happen; in Go `rand.Read` cannot fail). -/
def genIndex : List Nat → Option (Nat × List Nat)
  | [] => none
  | v :: r => if v = 0 then genIndex r else some (v, r)

inductive AllocRes where
  | ok (idx : Nat)
  | exhausted          -- 32 candidates all taken: "failed to generate unique localIndexId"
  | randErr            -- stream ran dry
  | unlinked           -- AddRelay only: hostinfo no longer in the hostmap
  deriving Repr, DecidableEq

/-- `allocateIndex`: up to `fuel` (= 32) candidates -/
def allocLoop (h : Nat) : Nat → State → List Nat → State × AllocRes
  | 0, s, _ => (s, .exhausted)
  | fuel + 1, s, st =>
    match genIndex st with
    | none => (s, .randErr)
    | some (idx, st') =>
      if (s.pidx.get idx).isNone ∧ (s.indexes.get idx).isNone then
        ({ s.setObj h { s.obj h with lidx := idx } with pidx := s.pidx.set idx h }, .ok idx)
      else allocLoop h fuel s st'

def allocateIndex (s : State) (h : Nat) (st : List Nat) : State × AllocRes := allocLoop h 32 s st

/-- `AddRelay` (`rel` carries the type, state, peer address and remote index the caller passes; its local index is
filled in here) -/
def relayLoop (h : Nat) (rel : Relay) : Nat → State → List Nat → State × AllocRes
  | 0, s, _ => (s, .exhausted)
  | fuel + 1, s, st =>
    match genIndex st with
    | none => (s, .randErr)
    | some (idx, st') =>
      if (s.relays.get idx).isNone then
        let (s1, ok) := makePrimary s h
        if !ok then (s1, .unlinked)
        else
          let r := { rel with lidx := idx }
          ({ s1.setRs h (insertRelay (s1.rstate h) r.peer idx r) with relays := s1.relays.set idx h }, .ok idx)
      else relayLoop h rel fuel s st'

def addRelay (s : State) (h : Nat) (rel : Relay) (st : List Nat) : State × AllocRes := relayLoop h rel 32 s st

/-! ### handshake_manager.go, pending side -/

/-- `HandshakeManager.unlockedDeleteHostInfo` (with the ownership check on `indexes`) -/
def pendingDelete (s : State) (h : Nat) : State :=
  let o := s.obj h
  let s := o.addrs.foldl (fun s a => if s.vpnIps.get a = some h then { s with vpnIps := s.vpnIps.del a } else s) s
  if s.pidx.get o.lidx = some h then { s with pidx := s.pidx.del o.lidx } else s

/-- `StartHandshake`: returns the (possibly new) pending hostinfo and whether it is new -/
def startHandshake (s : State) (a : Nat) : State × Nat × Bool :=
  match s.vpnIps.get a with
  | some h => (s, h, false)
  | none =>
    let h := s.next
    ({ s with objs := s.objs.set h { addrs := [a] }, next := s.next + 1, vpnIps := s.vpnIps.set a h }, h, true)

inductive CheckRes where
  | added (existing : Option Nat)
  | alreadySeen (h : Nat)
  | existingHostInfo (h : Nat)
  | collision (h : Nat)
  deriving Repr, DecidableEq

/-- `CheckAndComplete(hostinfo, handshakePacketStage0, f)` -/
def checkAndComplete (s : State) (h : Nat) : State × CheckRes :=
  let o := s.obj h
  let a0 := o.addrs.headD 0
  let existing := s.hosts.get a0
  let early : Option CheckRes :=
    match existing with
    | none => none
    | some e =>
      match (hostList s a0).find? (fun t => (s.obj t).pkt == o.pkt) with
      | some t => some (.alreadySeen t)
      | none =>
        if (s.obj e).hsTime ≥ o.hsTime ∧ !(s.obj e).initiator then some (.existingHostInfo e) else none
  match early with
  | some r => (s, r)
  | none =>
    match s.indexes.get o.lidx with
    | some x => (s, .collision x)
    | none =>
      match s.pidx.get o.lidx with
      | some p => if p ≠ h then (s, .collision p) else (addHost s h, .added existing)
      | none => (addHost s h, .added existing)

/-- `Complete` -/
def complete (s : State) (h : Nat) : State := addHost (pendingDelete s h) h

/-! ### the operations of the correspondence stream (the callers' glue around the functions above) -/

/-- index part of `buildStage0Packet` reached from `handleOutbound` (`if !hh.ready`) for the pending handshake of `a` -/
def opAlloc (s : State) (a : Nat) (st : List Nat) : State × Option AllocRes :=
  match s.vpnIps.get a with
  | none => (s, none)
  | some h =>
    if (s.obj h).ready then (s, none) else
    let (s', r) := allocateIndex s h st
    match r with
    | .ok _ => (s'.setObj h { s'.obj h with ready := true }, some r)
    | _ => (s', some r)

inductive FinRes where
  | noPending
  | completed (h : Nat)
  | wrongHost (h' : Nat) (isNew : Bool)
  deriving Repr, DecidableEq

/-- tail of `continueHandshake`: the pending handshake holding index `i` is answered by a peer whose certificate
names `ads`, with remote index `r` and handshake time `t` -/
def opFin (s : State) (i : Nat) (ads : List Nat) (r t : Nat) : State × FinRes :=
  match s.pidx.get i with
  | none => (s, .noPending)
  | some h =>
    let a0 := (s.obj h).addrs.headD 0
    if ads.contains a0 then
      let s1 := s.setObj h { s.obj h with addrs := ads, ridx := r, hsTime := t, initiator := true }
      (complete s1 h, .completed h)
    else
      let (s', h', isNew) := startHandshake (pendingDelete s h) a0
      (s', .wrongHost h' isNew)

/-- tail of `beginHandshake`: `generateIndex`, a fresh hostinfo, `CheckAndComplete` -/
def opResp (s : State) (ads : List Nat) (r p t : Nat) (st : List Nat) : Option (State × Nat × Nat × CheckRes) :=
  match genIndex st with
  | none => none
  | some (idx, _) =>
    let h := s.next
    let s1 := { s with objs := s.objs.set h { addrs := ads, lidx := idx, ridx := r, pkt := p, hsTime := t }, next := s.next + 1 }
    let (s', cr) := checkAndComplete s1 h
    some (s', h, idx, cr)

inductive Op where
  | start (a : Nat)
  | alloc (a : Nat) (st : List Nat)
  | fin (i : Nat) (ads : List Nat) (r t : Nat)
  | resp (ads : List Nat) (r p t : Nat) (st : List Nat)
  | del (h : Nat)
  | pdel (h : Nat)
  | prim (h : Nat)
  | relay (h : Nat) (rel : Relay) (st : List Nat)
  | relayTo (h : Nat) (a : Nat)
  deriving Repr

def applyOp (s : State) : Op → State
  | .start a => (startHandshake s a).1
  | .alloc a st => (opAlloc s a st).1
  | .fin i ads r t => (opFin s i ads r t).1
  | .resp ads r p t st => match opResp s ads r p t st with | some (s', _) => s' | none => s
  | .del h => (deleteHost s h).1
  | .pdel h => pendingDelete s h
  | .prim h => (makePrimary s h).1
  | .relay h rel st => (addRelay s h rel st).1
  | .relayTo h a => s.setRs h (insertRelayTo (s.rstate h) a)

/-- the tunnels an operation may bring into the main hostmap -/
def freshOf (s : State) : Op → List Nat
  | .resp .. => [s.next]
  | .fin i .. => (s.pidx.get i).toList
  | _ => []

def run (s : State) (ops : List Op) : State := ops.foldl applyOp s

end Nebula.HostMap
