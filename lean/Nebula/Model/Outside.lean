/-
Executable model of `outside.go` `readOutsidePackets` / `handleOutsideRelayPacket` / `handleRecvError`
(C14, C15): a function from (header fields, authentication oracle, hostmap lookups) to the list of
*effects* the call has on the node, following the branch order of the Go code.  Core Lean only.

A received datagram is described level by level (`Pkt`): the parsed outer header, what the lookups the
code performs return for it (`Look`), and — for `Message/Relay` packets addressed to a Terminal relay
record — the inner datagram that `handleOutsideRelayPacket` recurses into.
`Look.authOK` is the result of `ConnectionState.Decrypt` / `VerifyRelay` under the key of the hostinfo
selected by the header's index (replay window check, AEAD open with the header as associated data,
window update); it is an oracle here, and `Props/C14.lean` relates it to the AEAD authenticity hypothesis.
-/
import Nebula.Gen.Header
import Nebula.Gen.RelayConsts
import Nebula.Model.Header

namespace Nebula.Outside
open Nebula.Gen

structure Hdr where
  ver : Nat
  type : Nat
  sub : Nat
  idx : Nat
  deriving DecidableEq, Repr, Inhabited

/-- result of the forwarding decision for a Forwarding relay record (`QueryVpnAddrsRelayFor` + state/type
checks + the `am_relay` check), see `Nebula.Relay.relayPacket`. -/
inductive FwdL where
  | drop
  | forward (targetId outIdx : Nat)
  deriving DecidableEq, Repr, Inhabited

/-- `hostinfo.relayState.QueryRelayForByIdx(h.RemoteIndex)`. -/
structure RelayL where
  type : Nat
  peer : Nat           -- relay.PeerAddr: the address the relay record claims the traffic is relayed from/to
  fwd : FwdL := .drop
  deriving DecidableEq, Repr, Inhabited

/-- inbound firewall / packet validation outcome for a decrypted `Message/None` payload. -/
inductive FwL where
  | invalid      -- newPacket error
  | drop         -- firewall.Drop ≠ nil (a reject may be sent back)
  | pass
  deriving DecidableEq, Repr, Inhabited

/-- the hostinfo selected by the header index (`hm.Indexes` or, for Message/Relay, `hm.Relays`). -/
structure HostL where
  id : Nat
  hasCS : Bool := true         -- hostinfo.ConnectionState != nil
  wouldRoam : Bool := false    -- handleHostRoaming would change the remote for a direct packet from this source
  relayRec : Option RelayL := none
  deriving DecidableEq, Repr, Inhabited

/-- `handleRecvError` lookups. -/
structure RecvErrL where
  accept : Bool := true                 -- acceptRecvErrorConfig.ShouldRecvError(addr)
  host : Option Nat := none             -- hm.QueryReverseIndex(h.RemoteIndex)
  remoteOK : Bool := true               -- !(hr.IsValid() && hr != addr)
  deriving DecidableEq, Repr, Inhabited

structure Look where
  parseOK : Bool := true         -- h.Parse(packet) succeeded (len ≥ 16)
  lenGt1 : Bool := true          -- len(packet) > 1
  fromMyNet : Bool := false      -- myVpnNetworksTable.Contains(via.UdpAddr.Addr())
  host : Option HostL := none
  sendRecvErr : Bool := true     -- sendRecvErrorConfig.ShouldRecvError(via.UdpAddr)
  longEnough : Bool := true      -- len(packet) ≥ header.Len + overhead
  authOK : Bool := false         -- Decrypt / VerifyRelay succeeded
  fw : FwL := .pass
  testOversized : Bool := false
  recvErr : RecvErrL := {}
  deriving DecidableEq, Repr, Inhabited

inductive Pkt where
  | mk (h : Hdr) (l : Look) (inner : Option Pkt)
  deriving Repr, Inhabited

inductive Effect where
  | rxInvalid                       -- messageMetrics.RxInvalid
  | handshakeIn                     -- handshakeManager.HandleIncoming (unauthenticated by design)
  | sendRecvError (idx : Nat)       -- maybeSendRecvError → a recv_error datagram
  | recvErrorClose (hid : Nat)      -- handleRecvError → closeTunnel + handshakeManager.DeleteHostInfo
  | roam (hid : Nat)                -- handleHostRoaming changed the remote
  | markIn (hid : Nat)              -- connectionManager.In
  | relayUsed (idx : Nat)           -- connectionManager.RelayUsed
  | deliver (hid : Nat)             -- handleOutsideMessagePacket → tun
  | reject (hid : Nat)              -- firewall drop → rejectOutside
  | lighthouse (hid : Nat)          -- lhh.HandleRequest
  | testReply (hid : Nat)           -- f.send(Test, TestReply)
  | close (hid : Nat)               -- closeTunnel
  | control (hid : Nat)             -- relayManager.HandleControlMsg
  | forward (targetId outIdx : Nat) -- f.SendVia to the next hop
  deriving DecidableEq, Repr

def isValidSubType (t s : Nat) : Bool := Nebula.Header.isValidSubType t s

/-- `handleRecvError`. -/
def handleRecvError (r : RecvErrL) : List Effect :=
  if !r.accept then []
  else match r.host with
    | none => []
    | some hid => if !r.remoteOK then [] else [.recvErrorClose hid]

/-- the authenticated tail of `readOutsidePackets` (after `Decrypt`, roaming and `connectionManager.In`). -/
def dispatch (h : Hdr) (l : Look) (hid : Nat) : List Effect :=
  if h.type == header_Message then
    if h.sub == header_MessageNone then
      match l.fw with
      | .invalid => []
      | .drop => [.reject hid]
      | .pass => [.deliver hid]
    else []
  else if h.type == header_LightHouse then [.lighthouse hid]
  else if h.type == header_Test then
    if h.sub == header_TestReply then []
    else if h.sub == header_TestRequest then (if l.testOversized then [] else [.testReply hid])
    else []
  else if h.type == header_CloseTunnel then [.close hid]
  else if h.type == header_Control then [.control hid]
  else []

/-- `handleOutsideRelayPacket` (runs only after `VerifyRelay` succeeded). -/
def relayPath (relayed : Bool) (h : Hdr) (hi : HostL) (innerEffects : List Effect) : List Effect :=
  (if !relayed && hi.wouldRoam then [Effect.roam hi.id] else []) ++ [.markIn hi.id, .relayUsed h.idx] ++
  (match hi.relayRec with
    | none => []
    | some r =>
      if r.type == nebula_TerminalType then innerEffects
      else if r.type == nebula_ForwardingType then
        (match r.fwd with
          | .forward t o => [.forward t o]
          | .drop => [])
      else [])

/-- the part of `readOutsidePackets` after a hostinfo with a ConnectionState was found. -/
def encryptedPath (relayed : Bool) (h : Hdr) (l : Look) (hi : HostL) (innerEffects : List Effect) : List Effect :=
  if !l.longEnough then [.rxInvalid]
  else if h.type == header_Message && h.sub == header_MessageRelay then
    if !l.authOK then [] else relayPath relayed h hi innerEffects
  else
    if !l.authOK then []
    else (if !relayed && hi.wouldRoam then [Effect.roam hi.id] else []) ++ [.markIn hi.id] ++ dispatch h l hi.id

/-- `maybeSendRecvError` for a packet whose index selects no usable tunnel. -/
def unknownIndex (relayed : Bool) (h : Hdr) (l : Look) : List Effect :=
  if !relayed && l.sendRecvErr then [.sendRecvError h.idx] else []

/-- one call of `readOutsidePackets(via, packet, rxc)`; `relayed` = `via.IsRelayed`; `innerEffects` =
what the recursive call on the relayed payload (`readOutsidePackets(ViaSender{relayed}, signedPayload)`)
does — it is used only on the Terminal-relay path, after `VerifyRelay` succeeded. -/
def readLevel (relayed : Bool) (h : Hdr) (l : Look) (innerEffects : List Effect) : List Effect :=
  if !l.parseOK then (if l.lenGt1 then [.rxInvalid] else [])
  else if h.ver != header_Version then [.rxInvalid]
  else if !isValidSubType h.type h.sub then [.rxInvalid]
  else if !relayed && l.fromMyNet then [.rxInvalid]
  else if h.type == header_Handshake then [.handshakeIn]
  else if h.type == header_RecvError then handleRecvError l.recvErr
  else
    match l.host with
    | none => unknownIndex relayed h l
    | some hi => if !hi.hasCS then unknownIndex relayed h l else encryptedPath relayed h l hi innerEffects

/-- `readOutsidePackets` on a whole datagram (outer level, then the relayed payload). -/
def readOutside (relayed : Bool) : Pkt → List Effect
  | .mk h l none => readLevel relayed h l []
  | .mk h l (some p) => readLevel relayed h l (readOutside true p)

end Nebula.Outside
