/-
Model of the send-side message counter (C13): `ConnectionState.messageCounter` (an `atomic.Uint64`),
`NextMessageCounter` (connection_state.go), the hot data path `sendInsideEncrypt` (inside.go) and the
ceiling check at the top of every `EncryptDanger` (noiseutil/aesgcm.go, chachapoly.go, fips140.go).

A concurrent execution is a list of atomic steps (DESIGN §4.6). Every send reserves a counter with one
atomic `messageCounter.Add(1)` (step `add`) and later completes (step `fin`):

  hot path  (`sendInsideEncrypt`):            c := Add(1);  …  EncryptDanger(c)  -- refuses c ≥ Reject
  control   (`sendNoMetrics`/`prepareSendVia` via `NextMessageCounter`):
                                              c := Add(1);  if c ≥ Reject { Store(Reject); give up }
                                                            else … EncryptDanger(c)

Between a thread's `add` and its `fin` any steps of other threads may occur. Thread identifiers are
arbitrary naturals; a step that does not fit the thread's program order is a no-op, so *every* list
of steps is a schedule and quantifying over all lists covers all interleavings of any number of
senders. In FIPS/boring mode (`EncryptLockNeeded`) each send holds `writeLock` from before `Add` until
after `EncryptDanger`, i.e. its `add` is immediately followed by its `fin` (`locked`).

`past` is a ghost field (not in the Go code): the number of `Add`s executed since the counter was
last below `Reject` or last pinned by `Store(Reject)` — what `RejectHeadroom` is sized for.
-/
import Nebula.Gen.BitsGo

namespace Nebula.Counter

abbrev U64 := BitVec 64

/-- `noiseutil.RejectAfterMessages` (regenerated) -/
def reject : U64 := BitVec.ofNat 64 Gen.noiseutil_RejectAfterMessages
/-- `noiseutil.RejectHeadroom` (regenerated) -/
def headroom : Nat := Gen.noiseutil_RejectHeadroom

inductive Step where
  /-- `c := messageCounter.Add(1)` by thread `t`; `ctl = true` when inside `NextMessageCounter` -/
  | add (ctl : Bool) (t : Nat)
  /-- the rest of thread `t`'s send: `Store(Reject)` (control path, `c ≥ Reject`) or `EncryptDanger(c)` -/
  | fin (t : Nat)
  deriving Repr, DecidableEq

structure State where
  ctr : U64
  /-- reservation of each thread: `(ctl, c)` between its `add` and its `fin` -/
  pend : Nat → Option (Bool × U64)
  /-- nonces that reached a successful AEAD seal, most recent first -/
  emitted : List U64
  past : Nat

def init (ctr0 : U64) : State := { ctr := ctr0, pend := fun _ => none, emitted := [], past := 0 }

/-- what a `fin` step did (observable in the harness) -/
inductive FinResult where
  | none | sealed (c : U64) | refused (c : U64) | pinned (c : U64)

def finResult (s : State) (t : Nat) : FinResult :=
  match s.pend t with
  | none => .none
  | some (false, c) => if c < reject then .sealed c else .refused c     -- EncryptDanger ceiling check
  | some (true, c) => if reject ≤ c then .pinned c else .sealed c       -- NextMessageCounter

def step (s : State) : Step → State
  | .add ctl t =>
    match s.pend t with
    | some _ => s
    | none =>
      let c := s.ctr + 1#64
      { s with ctr := c, pend := fun t' => if t' = t then some (ctl, c) else s.pend t',
               past := if reject ≤ s.ctr then s.past + 1 else 0 }
  | .fin t =>
    let clear : Nat → Option (Bool × U64) := fun t' => if t' = t then none else s.pend t'
    match finResult s t with
    | .none => s
    | .sealed c => { s with pend := clear, emitted := c :: s.emitted }
    | .refused _ => { s with pend := clear }
    | .pinned _ => { s with pend := clear, ctr := reject, past := 0 }

def run (s : State) (sched : List Step) : State := sched.foldl step s

/-- FIPS/boring mode: every send is one critical section `add; fin`. -/
def locked (sends : List (Bool × Nat)) : List Step :=
  sends.flatMap (fun p => [Step.add p.1 p.2, Step.fin p.2])

end Nebula.Counter
