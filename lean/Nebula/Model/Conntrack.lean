/-
Executable model of the connection-tracking half of `firewall.go` (C16 "then tracked", C17, C18, C19):

  TimerWheel (timeout.go): NewTimerWheel · findWheel · Add · Advance · Purge
  Firewall.inConns (with the `Expires` test of the F02 fix) · addConn · evict · Drop
  firewall.ConntrackCacheTicker.Get (firewall/cache.go) — the routine-local cache and its tick
  Interface.reloadFirewall — version increment, wrap ⇒ fresh conntrack, otherwise the conntrack is shared

Time is a natural number of nanoseconds since the start of the run (`time.Now()` under synctest is monotone;
durations are positive `int64` nanoseconds, far from overflow). The TimerWheel's item cache (allocation reuse)
is not observable and not modelled. Core Lean only.
-/
import Nebula.Model.Firewall

namespace Nebula.Fw
open Nebula.Net

def samePkt (a b : Packet) : Bool := decide (a = b)

/-! ### TimerWheel[firewall.Packet] -/

structure Wheel where
  current : Nat
  wheelLen : Nat
  lastTick : Option Nat
  tickDur : Nat
  wheelDur : Nat
  slots : List (List Packet)
  expired : List Packet
  deriving Repr

def modifyAt {α : Type} (f : α → α) : List α → Nat → List α
  | [], _ => []
  | x :: xs, 0 => f x :: xs
  | x :: xs, i + 1 => x :: modifyAt f xs i

/-- `NewTimerWheel(min, max)` -/
def Wheel.new (min max : Nat) : Wheel :=
  let wLen := max / min + 2
  { current := 0, wheelLen := wLen, lastTick := none, tickDur := min, wheelDur := max,
    slots := List.replicate wLen [], expired := [] }

/-- `findWheel` -/
def Wheel.findWheel (w : Wheel) (timeout : Nat) : Nat :=
  let timeout := if timeout < w.tickDur then w.tickDur else if timeout > w.wheelDur then w.wheelDur else timeout
  let tick := (timeout - 1) / w.tickDur + 1
  let tick := tick + w.current + 1
  if tick ≥ w.wheelLen then tick - w.wheelLen else tick

/-- `Add` -/
def Wheel.add (w : Wheel) (p : Packet) (timeout : Nat) : Wheel :=
  { w with slots := modifyAt (· ++ [p]) w.slots (w.findWheel timeout) }

/-- `Purge` -/
def Wheel.purge (w : Wheel) : Option (Packet × Wheel) :=
  match w.expired with
  | [] => none
  | p :: rest => some (p, { w with expired := rest })

/-- one iteration of the loop in `Advance` -/
def Wheel.tick (w : Wheel) : Wheel :=
  let cur := if w.current + 1 ≥ w.wheelLen then 0 else w.current + 1
  { w with current := cur, expired := w.expired ++ w.slots.getD cur [],
           slots := modifyAt (fun _ => []) w.slots cur }

def Wheel.ticks : Nat → Wheel → Wheel
  | 0, w => w
  | n + 1, w => Wheel.ticks n w.tick

/-- `Advance(now)` -/
def Wheel.advance (w : Wheel) (now : Nat) : Wheel :=
  let last := w.lastTick.getD now
  let adv := (now - last) / w.tickDur
  let n := if adv > w.wheelLen then w.wheelLen else adv
  let w := Wheel.ticks n w
  { w with lastTick := some (last + w.tickDur * adv) }

/-! ### Firewall, conntrack -/

structure Conn where
  expires : Nat
  incoming : Bool
  rulesVersion : Nat
  deriving Repr, DecidableEq

structure Conntrack where
  conns : List (Packet × Conn)
  wheel : Wheel
  deriving Repr

/-- the `Firewall` object (rule tables, networks, timeouts, version). -/
structure Fw where
  cfg : Cfg
  routable : Lite
  inRules : Table := {}
  outRules : Table := {}
  tcpTimeout : Nat
  udpTimeout : Nat
  defaultTimeout : Nat
  rulesVersion : Nat := 0

/-- the wheel bounds computed at the top of `NewFirewall`. -/
def wheelBounds (tcp udp dflt : Nat) : Nat × Nat :=
  let (tmin, tmax) := if tcp < udp then (tcp, udp) else (udp, tcp)
  if dflt < tmin then (dflt, tmax) else if dflt > tmax then (tmin, dflt) else (tmin, tmax)

def Conntrack.new (tcp udp dflt : Nat) : Conntrack :=
  let b := wheelBounds tcp udp dflt
  { conns := [], wheel := Wheel.new b.1 b.2 }

/-- `NewFirewall` (+ `defaultLocalCIDRAny`, which `NewFirewallFromConfig` sets before any rule is added). -/
def Fw.new (my : Cert) (defaultLocalCIDRAny : Bool) (tcp udp dflt : Nat) : Fw :=
  { cfg := cfgOf my defaultLocalCIDRAny, routable := routableOf my,
    tcpTimeout := tcp, udpTimeout := udp, defaultTimeout := dflt }

/-- `Firewall.AddRule`: the table is picked by `incoming`; a refused rule leaves the tables untouched. -/
def Fw.addRule (fw : Fw) (r : Rule) : Except AddErr Fw :=
  if r.incoming then
    match fw.inRules.addRule fw.cfg r with
    | .ok t => .ok { fw with inRules := t }
    | .error e => .error e
  else
    match fw.outRules.addRule fw.cfg r with
    | .ok t => .ok { fw with outRules := t }
    | .error e => .error e

/-- a whole rule list through `AddRule` in order; a refused rule leaves the firewall untouched (the caller
sees the error). -/
def Fw.addRules (fw : Fw) (rules : List Rule) : Fw :=
  rules.foldl (fun fw r => match fw.addRule r with
    | .ok fw' => fw'
    | .error _ => fw) fw

def Fw.table (fw : Fw) (incoming : Bool) : Table := if incoming then fw.inRules else fw.outRules

def Fw.timeoutFor (fw : Fw) (proto : Nat) : Nat :=
  if proto == Gen.firewall_ProtoTCP then fw.tcpTimeout
  else if proto == Gen.firewall_ProtoUDP then fw.udpTimeout
  else fw.defaultTimeout

/-- `Firewall.evict` -/
def evict (ct : Conntrack) (now : Nat) (p : Packet) : Conntrack :=
  match aget samePkt ct.conns p with
  | none => ct
  | some t =>
    if now < t.expires then
      { ct with wheel := (ct.wheel.advance now).add p (t.expires - now) }
    else
      { ct with conns := aerase samePkt ct.conns p }

/-- the "Purge every time we test" step of `inConns` -/
def purgeStep (ct : Conntrack) (now : Nat) : Conntrack :=
  match ct.wheel.purge with
  | some (ep, w) => evict { ct with wheel := w } now ep
  | none => ct

/-- `firewall.ConntrackCache` (`nil` = `none`) -/
abbrev Cache := Option (List Packet)

def Cache.has (c : Cache) (p : Packet) : Bool :=
  match c with
  | none => false
  | some l => l.contains p

def Cache.put (c : Cache) (p : Packet) : Cache :=
  match c with
  | none => none
  | some l => if l.contains p then some l else some (p :: l)

/-- `Firewall.inConns` -/
def inConns (fw : Fw) (ct : Conntrack) (now : Nat) (cache : Cache) (p : Packet) (pr : Peer) :
    Bool × Conntrack × Cache :=
  if cache.has p then (true, ct, cache) else
  let ct := purgeStep ct now
  match aget samePkt ct.conns p with
  | none => (false, ct, cache)
  | some c =>
    -- F02 fix: an entry whose `Expires` has passed is forgotten, whatever the wheel has done so far
    if ¬ (now < c.expires) then (false, { ct with conns := aerase samePkt ct.conns p }, cache) else
    if c.rulesVersion ≠ fw.rulesVersion ∧ !(fw.table c.incoming).matches p c.incoming pr then
      (false, { ct with conns := aerase samePkt ct.conns p }, cache)
    else
      let c' : Conn := { expires := now + fw.timeoutFor p.proto, incoming := c.incoming,
                         rulesVersion := fw.rulesVersion }
      (true, { ct with conns := aset samePkt ct.conns p c' }, cache.put p)

/-- `Firewall.addConn` -/
def addConn (fw : Fw) (ct : Conntrack) (now : Nat) (p : Packet) (incoming : Bool) : Conntrack :=
  let timeout := fw.timeoutFor p.proto
  let wheel :=
    match aget samePkt ct.conns p with
    | none => (ct.wheel.advance now).add p timeout
    | some _ => ct.wheel
  { conns := aset samePkt ct.conns p { expires := now + timeout, incoming := incoming,
                                       rulesVersion := fw.rulesVersion },
    wheel := wheel }

/-- the peer as `Drop` sees it: the `HostInfo` address data and `ConnectionState.peerCert` + CA pool. -/
structure HostInfo where
  host : Host
  peer : Peer

/-- `Firewall.Drop` -/
def drop (fw : Fw) (ct : Conntrack) (now : Nat) (cache : Cache) (p : Packet) (incoming : Bool) (h : HostInfo) :
    Verdict × Conntrack × Cache :=
  match addrCheck fw.routable h.host p with
  | some v => (v, ct, cache)
  | none =>
    match inConns fw ct now cache p h.peer with
    | (true, ct, cache) => (.pass, ct, cache)
    | (false, ct, cache) =>
      if !(fw.table incoming).matches p incoming h.peer then (.noRule, ct, cache)
      else (.pass, addConn fw ct now p incoming, cache)

/-! ### the routine-local cache ticker (firewall/cache.go) -/

/-- `ConntrackCacheTicker`: `period = 0` ⇒ `NewConntrackCacheTicker` returns nil and `Get` returns a nil cache. -/
structure Ticker where
  period : Nat
  start : Nat        -- when the ticker goroutine was started
  cacheV : Nat
  cache : List Packet
  deriving Repr

/-- the value of `cacheTick` at time `now`: one increment per elapsed period. -/
def Ticker.tickAt (t : Ticker) (now : Nat) : Nat := (now - t.start) / t.period

/-- `ConntrackCacheTicker.Get` -/
def Ticker.get (t : Ticker) (now : Nat) : Ticker × Cache :=
  if t.period = 0 then (t, none) else
  let tick := t.tickAt now
  let t := if tick ≠ t.cacheV then { t with cacheV := tick, cache := [] } else t
  (t, some t.cache)

def Ticker.store (t : Ticker) (c : Cache) : Ticker :=
  match c with
  | none => t
  | some l => { t with cache := l }

/-! ### the whole system: one firewall, its conntrack, one packet routine with its cache -/

structure Sys where
  fw : Fw
  ct : Conntrack
  now : Nat
  ticker : Ticker
  /-- ghost (no counterpart in the Go code): how many reloads have been installed so far. -/
  reloads : Nat := 0

def Sys.new (fw : Fw) (cachePeriod : Nat) : Sys :=
  { fw := fw, ct := Conntrack.new fw.tcpTimeout fw.udpTimeout fw.defaultTimeout, now := 0,
    ticker := { period := cachePeriod, start := 0, cacheV := 0, cache := [] } }

/-- one packet through the routine: `cache := ticker.Get(); Drop(p, incoming, h, pool, cache)`. -/
def Sys.packet (s : Sys) (p : Packet) (incoming : Bool) (h : HostInfo) : Verdict × Sys :=
  let g := s.ticker.get s.now
  let r := drop s.fw s.ct s.now g.2 p incoming h
  (r.1, { s with ct := r.2.1, ticker := g.1.store r.2.2 })

def Sys.sleep (s : Sys) (d : Nat) : Sys := { s with now := s.now + d }

/-- `Interface.reloadFirewall` once a changed config has produced `newFw` (`NewFirewallFromConfig`). -/
def Sys.reload (s : Sys) (newFw : Fw) : Sys :=
  let v := (s.fw.rulesVersion + 1) % 65536
  if v = 0 then
    { s with fw := { newFw with rulesVersion := 0 },
             ct := Conntrack.new newFw.tcpTimeout newFw.udpTimeout newFw.defaultTimeout,
             reloads := s.reloads + 1 }
  else
    { s with fw := { newFw with rulesVersion := v }, reloads := s.reloads + 1 }

/-- `Interface.reloadFirewall` as a whole: nothing happens unless the `firewall` section (or the certificate's
unsafe networks) changed; a configuration that `NewFirewallFromConfig` refuses (`none`) leaves the old firewall. -/
def Sys.reloadFirewall (s : Sys) (changed : Bool) (newFw : Option Fw) : Sys :=
  if !changed then s
  else match newFw with
    | none => s
    | some f => s.reload f

/-! ### histories -/

inductive Op where
  | sleep (d : Nat)
  | packet (p : Packet) (incoming : Bool) (h : HostInfo)
  | reload (newFw : Fw)

/-- what is observed of one packet: when, which tuple and direction, from/to whom, the verdict, and (for the
statements) the firewall that judged it and how many reloads had happened. -/
structure Event where
  time : Nat
  pkt : Packet
  incoming : Bool
  host : HostInfo
  verdict : Verdict
  fw : Fw
  reloads : Nat

/-- did a rule of the packet's own direction allow it (under the firewall that judged it)? -/
def Event.ruleAllowed (e : Event) : Bool := (e.fw.table e.incoming).matches e.pkt e.incoming e.host.peer

def Sys.step (s : Sys) : Op → Sys × Option Event
  | .sleep d => (s.sleep d, none)
  | .packet p incoming h =>
    let r := s.packet p incoming h
    (r.2, some { time := s.now, pkt := p, incoming := incoming, host := h, verdict := r.1, fw := s.fw,
                 reloads := s.reloads })
  | .reload newFw => (s.reload newFw, none)

/-- run a history; events are collected newest first. -/
def Sys.runFrom : Sys × List Event → List Op → Sys × List Event
  | st, [] => st
  | (s, evs), op :: ops =>
    let r := s.step op
    Sys.runFrom (r.1, r.2.toList ++ evs) ops

def Sys.run (s : Sys) (ops : List Op) : Sys × List Event := Sys.runFrom (s, []) ops

end Nebula.Fw
