/-
Executable model of the lighthouse request handler (lighthouse.go; C35, C36): `HandleRequest` dispatch,
`handleHostQuery` (+ `sendHostPunchNotification`, `coalesceAnswers`, `queryAndPrepMessage`),
`handleHostQueryReply`, `handleHostUpdateNotification`, `handleHostPunchNotification`,
`unlockedGetRemoteList` (aliasing of multi-address peers), `shouldAdd` / `unlockedShouldAddV4/V6`,
`addStaticRemotes`, `DeleteVpnAddrs`, `QueryCache`, on top of the RemoteList model (C37) and the allow-list
model (C38).

A message is the decoded `NebulaMeta` (gogo protobuf decoding is exercised by the harness, not modelled):
`details = none` is a message without Details. `*RemoteList` pointers are list ids. `GetHostInfo` answers nil
(no tunnel to the punch target), so replies use the configured initiating version.
Core Lean only.
-/
import Nebula.Model.RemoteList
import Nebula.Model.AllowList
import Nebula.Gen.Lighthouse

namespace Nebula.Lighthouse
open Nebula.Net Nebula.RemoteList

structure Details where
  /-- `OldVpnAddr` (0 = unset) -/
  oldVpn : Nat := 0
  /-- `VpnAddr` as raw 16-byte value -/
  vpn : Option Addr := none
  v4 : List AP := []
  /-- raw 16-byte addresses -/
  v6 : List AP := []
  oldRelays : List Nat := []
  relays : List Addr := []
  deriving Repr, DecidableEq

structure Msg where
  typ : Nat
  details : Option Details
  deriving Repr, DecidableEq

structure Cfg where
  amLighthouse : Bool
  myNets : List Prefix
  lighthouses : List Addr
  ral : AllowList.Remote
  /-- `GetCertState().initiatingVersion` (1 or 2) -/
  initV : Nat
  staticList : List Addr

/-- `lh.myVpnNetworks[0].Addr()` -/
def Cfg.me (c : Cfg) : Addr := (c.myNets.head?.map (·.addr)).getD ⟨.v4, 0⟩

structure LH where
  lists : List (Nat × RL) := []
  addrMap : List (Addr × Nat) := []
  nextId : Nat := 0

structure Sent where
  to : Addr
  msg : Msg
  deriving Repr, DecidableEq

structure Punch where
  /-- `none`: a punch-back test packet job -/
  target : Option AP
  vpn : Addr
  deriving Repr, DecidableEq

structure Outp where
  sent : List Sent := []
  punches : List Punch := []
  trigger : Option Addr := none

def v4Addr (n : Nat) : Addr := ⟨.v4, n⟩

/-- `slices.Contains` on addresses. -/
def memB (l : List Addr) (a : Addr) : Bool := l.any (fun x => decide (x = a))

/-- `myVpnNetworksTable.Contains` -/
def inMyNets (c : Cfg) (a : Addr) : Bool := c.myNets.any (fun p => p.contains a)

/-- `unlockedShouldAddV4/V6` (the address already converted). -/
def shouldAddOne (c : Cfg) (vpn udp : Addr) : Bool :=
  if !c.ral.allow vpn udp then false else if inMyNets c udp then false else true

/-- `shouldAdd` (used for resolved/static addresses). -/
def shouldAddAll (c : Cfg) (vpns : List Addr) (udp : Addr) : Bool :=
  if !c.ral.allowAll vpns udp then false else if inMyNets c udp then false else true

def LH.lookup (s : LH) (a : Addr) : Option Nat := (s.addrMap.find? (fun e => e.1 = a)).map (·.2)
def LH.getList (s : LH) (id : Nat) : Option RL := (s.lists.find? (fun e => e.1 = id)).map (·.2)
def LH.setList (s : LH) (id : Nat) (r : RL) : LH :=
  { s with lists := s.lists.map (fun e => if e.1 = id then (id, r) else e) }
def mapSet (m : List (Addr × Nat)) (a : Addr) (id : Nat) : List (Addr × Nat) :=
  if m.any (fun e => e.1 = a) then m.map (fun e => if e.1 = a then (a, id) else e) else m ++ [(a, id)]

/-- `unlockedGetRemoteList`. -/
def getRemoteList (s : LH) (allAddrs : List Addr) : LH × Nat :=
  let rec go (i : Nat) : List Addr → Option (Nat × Nat)
    | [] => none
    | a :: rest => match s.lookup a with
      | some id => some (i, id)
      | none => go (i + 1) rest
  match go 0 allAddrs with
  | some (i, id) =>
    if i != 0 then ({ s with addrMap := mapSet s.addrMap (allAddrs.headD ⟨.v4, 0⟩) id }, id) else (s, id)
  | none =>
    let id := s.nextId
    ({ lists := s.lists ++ [(id, { vpnAddrs := allAddrs })],
       addrMap := allAddrs.foldl (fun m a => mapSet m a id) s.addrMap, nextId := id + 1 }, id)

def isAnyLighthouseAddr (c : Cfg) (vpns : List Addr) : Bool := vpns.any (fun a => memB c.lighthouses a)

/-- `GetVpnAddrAndVersion`: (address, version) or `none` for ErrBadDetailsVpnAddr. -/
def vpnAddrAndVersion (d : Details) : Option (Addr × Nat) :=
  if d.oldVpn != 0 then some (v4Addr d.oldVpn, 1)
  else match d.vpn with
    | some a => some (a.unmap, 2)
    | none => none

/-- `GetRelays`. -/
def getRelays (d : Details) : List Addr := d.oldRelays.map v4Addr ++ d.relays.map Addr.unmap

/-- raw 16-byte form (`As16`) of an address. -/
def as16 (a : Addr) : Addr := if a.fam == .v4 then ⟨.v6, 0xffff00000000 + a.val⟩ else a

/-- `coalesceAnswers`. -/
def coalesce (v : Nat) (c : OwnerCache) (d : Details) : Details :=
  let d := { d with v4 := d.v4 ++ c.v4l.toList ++ c.v4r, v6 := d.v6 ++ c.v6l.toList ++ c.v6r }
  if v == 1 then { d with oldRelays := d.oldRelays ++ (c.relay.filter (·.is4)).map (·.val) }
  else if v == 2 then { d with relays := d.relays ++ c.relay.map as16 }
  else d

/-- `queryAndPrepMessage`: the cache entry served for `vpnAddr`, if any. -/
def queryCacheEntry (s : LH) (vpnAddr : Addr) : Option OwnerCache :=
  match s.lookup vpnAddr with
  | none => none
  | some id =>
    match s.getList id with
    | none => none
    | some rl =>
      let key := if memB rl.vpnAddrs vpnAddr then rl.vpnAddrs.headD vpnAddr else vpnAddr
      getOwner rl.cache key

def typHostQuery := Gen.lh_NebulaMeta_HostQuery
def typHostQueryReply := Gen.lh_NebulaMeta_HostQueryReply
def typHostUpdateNotification := Gen.lh_NebulaMeta_HostUpdateNotification
def typHostPunchNotification := Gen.lh_NebulaMeta_HostPunchNotification
def typHostUpdateNotificationAck := Gen.lh_NebulaMeta_HostUpdateNotificationAck

/-- `sendHostPunchNotification` (no tunnel to the target: `GetHostInfo` = nil). -/
def punchNotification (c : Cfg) (s : LH) (from_ : List Addr) (dest : Addr) : List Sent :=
  let whereToPunch := from_.headD ⟨.v4, 0⟩
  match queryCacheEntry s whereToPunch with
  | none => []
  | some oc =>
    if c.initV == 1 then
      if !whereToPunch.is4 then [] else
      [{ to := dest, msg := { typ := typHostPunchNotification, details := some (coalesce 1 oc { oldVpn := whereToPunch.val }) } }]
    else if c.initV == 2 then
      [{ to := dest, msg := { typ := typHostPunchNotification, details := some (coalesce 2 oc { vpn := some (as16 whereToPunch) }) } }]
    else []

def handleHostQuery (c : Cfg) (s : LH) (from_ : List Addr) (d : Details) : LH × Outp :=
  if !c.amLighthouse then (s, {}) else
  match vpnAddrAndVersion d with
  | none => (s, {})
  | some (q, v) =>
    if v == 1 && q.is6 then (s, {}) else
    match queryCacheEntry s q with
    | none => (s, {})
    | some oc =>
      let base : Details := if v == 1 then { oldVpn := q.val } else { vpn := some (as16 q) }
      let reply : Sent := { to := from_.headD ⟨.v4, 0⟩, msg := { typ := typHostQueryReply, details := some (coalesce v oc base) } }
      (s, { sent := reply :: punchNotification c s from_ q })

/-- the three setters under one owner, as both reply and update handlers call them. -/
def recordReport (c : Cfg) (s : LH) (id : Nat) (owner vpn : Addr) (d : Details) : LH :=
  match s.getList id with
  | none => s
  | some rl =>
    let rl := setV4 rl owner d.v4 (fun u => shouldAddOne c vpn u)
    let rl := setV6 rl owner d.v6 (fun u => shouldAddOne c vpn u)
    let rl := setRelay rl owner (getRelays d)
    s.setList id rl

def handleHostQueryReply (c : Cfg) (s : LH) (from_ : List Addr) (d : Details) : LH × Outp :=
  if !isAnyLighthouseAddr c from_ then (s, {}) else
  match vpnAddrAndVersion d with
  | none => (s, {})
  | some (certVpnAddr, _) =>
    let (s, id) := getRemoteList s [certVpnAddr]
    (recordReport c s id (from_.headD ⟨.v4, 0⟩) certVpnAddr d, { trigger := some certVpnAddr })

/-- the "not using GetVpnAddrAndVersion" block of `handleHostUpdateNotification`: claimed address (if filled
in) and reply version. -/
def updDetailsVpn (d : Details) : Option Addr × Nat :=
  if d.oldVpn != 0 then (some (v4Addr d.oldVpn), 1)
  else match d.vpn with
    | some a => (some a.unmap, 2)
    | none => (none, 2)

/-- both gates of `handleHostUpdateNotification`: I am a lighthouse, and a filled-in address is one of the
sender's authenticated addresses. -/
def updateAccepted (c : Cfg) (from_ : List Addr) (d : Details) : Bool :=
  c.amLighthouse && !(match (updDetailsVpn d).1 with | some a => !memB from_ a | none => false)

/-- the HostUpdateNotificationAck (none for a v1 message from an IPv6-only sender). -/
def updateAck (useVersion : Nat) (f0 : Addr) : List Sent :=
  if useVersion == 1 then
    if !f0.is4 then []
    else [{ to := f0, msg := { typ := typHostUpdateNotificationAck, details := some { oldVpn := f0.val } } }]
  else [{ to := f0, msg := { typ := typHostUpdateNotificationAck, details := some {} } }]

def handleHostUpdateNotification (c : Cfg) (s : LH) (from_ : List Addr) (d : Details) : LH × Outp :=
  if !updateAccepted c from_ d then (s, {}) else
  let f0 := from_.headD ⟨.v4, 0⟩
  (recordReport c (getRemoteList s from_).1 (getRemoteList s from_).2 f0 f0 d,
   { sent := updateAck (updDetailsVpn d).2 f0 })

/-- `handleHostPunchNotification` (after the fix: targets pass the same filter as reported addresses). -/
def handleHostPunchNotification (c : Cfg) (s : LH) (from_ : List Addr) (d : Details) : LH × Outp :=
  if !isAnyLighthouseAddr c from_ then (s, {}) else
  match vpnAddrAndVersion d with
  | none => (s, {})
  | some (detailsVpnAddr, _) =>
    let p4 := (d.v4.filter (fun a => shouldAddOne c detailsVpnAddr a.addr)).map (fun a => ({ target := some a, vpn := detailsVpnAddr } : Punch))
    let p6 := ((d.v6.map AP.out).filter (fun a => shouldAddOne c detailsVpnAddr a.addr)).map (fun a => ({ target := some a, vpn := detailsVpnAddr } : Punch))
    (s, { punches := p4 ++ p6 ++ [{ target := none, vpn := detailsVpnAddr }] })

/-- `HandleRequest` after a successful unmarshal. -/
def handleRequest (c : Cfg) (s : LH) (from_ : List Addr) (m : Msg) : LH × Outp :=
  -- `resetMeta` re-installs the reused Details struct before `Unmarshal`, so a message without Details is
  -- seen as one with empty Details (the `n.Details == nil` test never fires)
  match (some (m.details.getD {}) : Option Details) with
  | none => (s, {})
  | some d =>
    if m.typ == typHostQuery then handleHostQuery c s from_ d
    else if m.typ == typHostQueryReply then handleHostQueryReply c s from_ d
    else if m.typ == typHostUpdateNotification then handleHostUpdateNotification c s from_ d
    else if m.typ == typHostPunchNotification then handleHostPunchNotification c s from_ d
    else (s, {})

/-- `addStaticRemotes` for one `static_host_map` entry whose values are IP literals (the resolved set is the
configured set). -/
def addStatic (c : Cfg) (s : LH) (vpn : Addr) (addrs : List AP) : LH :=
  let (s, id) := getRemoteList s [vpn]
  match s.getList id with
  | none => s
  | some rl =>
    -- `NewHostnameResults` unmaps literal and resolved addresses alike (after the fix); the resolved set is a
    -- Go map: duplicates collapse
    let addrs := (addrs.map AP.out).foldl (fun acc a => if acc.contains a then acc else acc ++ [a]) []
    let rl := { rl with hr := some addrs }
    let rl := addrs.foldl (fun rl ap =>
      if !shouldAddAll c [vpn] ap.addr then rl
      else if ap.addr.is4 then prependV4 rl c.me ap else prependV6 rl c.me ap) rl
    s.setList id rl

/-- `DeleteVpnAddrs`. -/
def deleteVpnAddrs (c : Cfg) (s : LH) (all : List Addr) : LH :=
  if all.any (fun a => memB c.staticList a) then s else
  match s.lookup (all.headD ⟨.v4, 0⟩) with
  | none => s
  | some rm => { s with addrMap := s.addrMap.filter (fun e => !(memB all e.1 && e.2 == rm)) }

/-- `QueryCache(vpnAddrs)` followed by `LearnRemote(vpnAddrs[0], remote)` (what `HostInfo.SetRemote` does). -/
def learnRemote (s : LH) (vpns : List Addr) (remote : AP) : LH :=
  let (s, id) := match s.lookup (vpns.headD ⟨.v4, 0⟩) with
    | some id => (s, id)
    | none => getRemoteList s vpns
  match s.getList id with
  | none => s
  | some rl => s.setList id (learn rl (vpns.headD ⟨.v4, 0⟩) remote)


/-! ### the learned-address gate (outside.go, handshake_manager.go, hostmap.go `SetRemote`) -/

/-- `ViaSender`: the underlay source of a packet (already unmapped by the udp listener) and whether it
arrived through a relay. -/
structure Via where
  udp : AP
  relayed : Bool
  deriving Repr, DecidableEq

/-- `readOutsidePackets`: "Refusing to process double encrypted packet" — a non-relayed packet whose source
lies inside my overlay networks is dropped before any handshake / roaming processing. -/
def outsideAdmits (c : Cfg) (via : Via) : Bool :=
  if !via.relayed then (if inMyNets c via.udp.addr then false else true) else true

/-- which packet path is about to call `HostInfo.SetRemote`. -/
inductive LearnKind where
  /-- responder: `HandleIncoming` (AllowUnknownVpnAddr) → `beginHandshake` (AllowAll on the certificate's
  addresses) → `SetRemote` / `SetRemoteIfPreferred` -/
  | stage1
  /-- initiator: `HandleIncoming` (AllowUnknownVpnAddr) → `continueHandshake` (AllowAll on the pending
  hostinfo's addresses) → `SetRemote` -/
  | stage2
  /-- established tunnel: `handleHostRoaming` (AllowAll, roam-back suppression) → `SetRemote` -/
  | roam
  deriving Repr, DecidableEq

/-- The remote the packet path hands to `SetRemote` (`none`: it does not get there). `vpnAddrs` are the
peer's authenticated overlay addresses, `cur` the hostinfo's current remote, `suppressed` the outcome of the
time-based checks that can only prevent the call (roam-back suppression, "already on a preferred remote"). -/
def learnGate (c : Cfg) (k : LearnKind) (vpnAddrs : List Addr) (cur : Option AP) (via : Via) (suppressed : Bool) :
    Option AP :=
  if !outsideAdmits c via then none else
  match k with
  | .stage1 | .stage2 =>
    if !via.relayed then
      if !c.ral.allowUnknownVpnAddr via.udp.addr then none
      else if !c.ral.allowAll vpnAddrs via.udp.addr then none
      else if suppressed then none else some via.udp
    else none
  | .roam =>
    if !via.relayed && decide (cur ≠ some via.udp) then
      if !c.ral.allowAll vpnAddrs via.udp.addr then none
      else if suppressed then none else some via.udp
    else none

/-- `QueryCache(vpnAddrs)`: makes sure the peer has a remote list (a hostinfo gets its `remotes` this way). -/
def queryCache (s : LH) (vpnAddrs : List Addr) : LH :=
  match s.lookup (vpnAddrs.headD ⟨.v4, 0⟩) with
  | some _ => s
  | none => (getRemoteList s vpnAddrs).1

/-- `SetRemote` (learns only when the remote changes) on the list `QueryCache(vpnAddrs)` returns. -/
def learnEvent (c : Cfg) (s : LH) (k : LearnKind) (vpnAddrs : List Addr) (cur : Option AP) (via : Via)
    (suppressed : Bool) : LH :=
  match learnGate c k vpnAddrs cur via suppressed with
  | none => s
  | some r => if cur = some r then s else learnRemote s vpnAddrs r

/-- `addCalculatedRemotes(vpnAddr)` given what `ApplyV4/ApplyV6` computed (C48). -/
def addCalculated (c : Cfg) (s : LH) (vpn : Addr) (calc4 calc6 : List AP) : LH :=
  let (s, id) := getRemoteList s [vpn]
  match s.getList id with
  | none => s
  | some rl =>
    let rl := if calc4.isEmpty then rl else setV4 rl c.me calc4 (fun u => shouldAddOne c vpn u)
    let rl := if calc6.isEmpty then rl else setV6 rl c.me calc6 (fun u => shouldAddOne c vpn u)
    s.setList id rl

/-- apply a RemoteList operation to the list with the given id (no such list: nothing happens). -/
def onList (s : LH) (id : Nat) (f : RL → RL) : LH :=
  match s.getList id with
  | none => s
  | some rl => s.setList id (f rl)

/-- everything that can happen to the lighthouse cache of a node. -/
inductive Ev where
  | msg (from_ : List Addr) (m : Msg)                       -- HandleRequest
  | static (vpn : Addr) (addrs : List AP)                    -- addStaticRemotes (load / reload)
  | resetOwner (id : Nat)                                    -- reload: ResetForOwner(myself)
  | clearDNS (id : Nat)                                      -- reload: ClearHostnameResults
  | dns (id : Nat) (ips : List AP)                           -- resolver found a different set
  | calcRemotes (vpn : Addr) (calc4 calc6 : List AP)              -- addCalculatedRemotes
  | learn (k : LearnKind) (vpnAddrs : List Addr) (cur : Option AP) (via : Via) (suppressed : Bool)
  | block (id : Nat) (a : AP) (relayed : Bool)               -- BlockRemote
  | unblock (id : Nat)                                       -- ResetBlockedRemotes
  | refresh (id : Nat) (vpnAddrs : List Addr)                -- RefreshFromHandshake
  | delete (vpnAddrs : List Addr)                            -- DeleteVpnAddrs
  | read (id : Nat) (pref : List Prefix)                     -- CopyAddrs / ForEach / Len
  | query (vpnAddrs : List Addr)                             -- QueryCache

def applyEv (c : Cfg) (s : LH) : Ev → LH
  | .msg f m => (handleRequest c s f m).1
  | .static vpn addrs => addStatic c s vpn addrs
  | .resetOwner id => onList s id (fun rl => resetForOwner rl c.me)
  | .clearDNS id => onList s id clearHostnameResults
  | .dns id ips => onList s id (fun rl => setDNS rl ips)
  | .calcRemotes vpn c4 c6 => addCalculated c s vpn c4 c6
  | .learn k vs cur via sup => learnEvent c s k vs cur via sup
  | .block id a rel => onList s id (fun rl => blockRemote rl a rel)
  | .unblock id => onList s id resetBlockedRemotes
  | .refresh id vs => onList s id (fun rl => refreshFromHandshake rl vs)
  | .delete vs => deleteVpnAddrs c s vs
  | .read id pref => onList s id (fun rl => rebuild rl (some (shouldAddAll c)) pref)
  | .query vs => queryCache s vs


/-! ### configuration reloads (`LightHouse.reload(c, initial = false)`) -/

/-- the reloadable configuration values the lighthouse reads, as written in the configuration file. -/
structure RawCfg where
  /-- `lighthouse.hosts` -/
  hosts : List Addr := []
  /-- `static_host_map` (IP literals) -/
  statics : List (Addr × List AP) := []
  /-- `lighthouse.remote_allow_list` (`none` = key absent) -/
  g : Option (List AllowList.Entry) := none
  /-- `lighthouse.remote_allow_ranges` -/
  ranges : List AllowList.RangeEntry := []
  /-- `lighthouse.am_lighthouse`: read once by `NewLightHouseFromConfig`, NOT by `reload` -/
  amLighthouse : Bool := false
  deriving DecidableEq

/-- a running node: configuration in force, cache, and the configuration file as last (re)loaded (what
`config.C.HasChanged` compares against). -/
structure Node where
  cfg : Cfg
  lh : LH
  raw : RawCfg

/-- `NewRemoteAllowListFromConfig`. -/
def parseRemoteAllow (g : Option (List AllowList.Entry)) (ranges : List AllowList.RangeEntry) :
    Except AllowList.Err AllowList.Remote :=
  let al : Except AllowList.Err (Option (AllowList.Table Bool)) :=
    match g with
    | none => .ok none
    | some es => (AllowList.newAllowList es).map some
  match al with
  | .error e => .error e
  | .ok al =>
    if ranges.isEmpty then .ok { allowList := al, inside := none }
    else match AllowList.rangesLoop [] ranges with
      | .error e => .error e
      | .ok t => .ok { allowList := al, inside := some t }

/-- the `static_host_map` block of `reload`: reset what I own in the old static lists, re-add the configured
entries, drop the resolved sets of entries that are gone, publish the new static list. -/
def reloadStatics (c : Cfg) (s : LH) (new : List (Addr × List AP)) : Cfg × LH :=
  let s := c.staticList.foldl (fun s v => match s.lookup v with
    | some id => onList s id (fun rl => resetForOwner rl c.me)
    | none => s) s
  let s := new.foldl (fun s e => addStatic c s e.1 e.2) s
  let newKeys := new.map (·.1)
  let s := c.staticList.foldl (fun s v =>
    if memB newKeys v then s else match s.lookup v with
      | some id => onList s id clearHostnameResults
      | none => s) s
  ({ c with staticList := newKeys }, s)

/-- `parseLighthouses` + `lh.lighthouses.Store`: refused (list unchanged) when a host has no static entry. -/
def reloadHosts (c : Cfg) (hosts : List Addr) : Cfg :=
  if hosts.all (fun h => memB c.staticList h) then { c with lighthouses := hosts } else c

/-- the static-map block, then the hosts block. -/
def reloadApply (c0 : Cfg) (s0 : LH) (chS chH : Bool) (new : RawCfg) : Cfg × LH :=
  let cs := if chS then reloadStatics c0 s0 new.statics else (c0, s0)
  let c := if chH then reloadHosts cs.1 new.hosts else cs.1
  (c, cs.2)

/-- `LightHouse.reload(c, false)` for the keys modelled here, in the order of the code: remote allow list
(an invalid list aborts the reload), static host map, lighthouse hosts. Each block runs only when its keys
changed (`HasChanged`). `am_lighthouse` is not reloadable. -/
def reloadNode (n : Node) (new : RawCfg) : Node :=
  let chA := decide (new.g ≠ n.raw.g ∨ new.ranges ≠ n.raw.ranges)
  let chS := decide (new.statics ≠ n.raw.statics)
  let chH := decide (new.hosts ≠ n.raw.hosts)
  let afterAllow : Option Cfg :=
    if chA then
      match parseRemoteAllow new.g new.ranges with
      | .error _ => none
      | .ok ral => some { n.cfg with ral := ral }
    else some n.cfg
  match afterAllow with
  | none => { cfg := n.cfg, lh := n.lh, raw := new }
  | some c => let r := reloadApply c n.lh chS chH new; { cfg := r.1, lh := r.2, raw := new }

/-- the static list in force after the static block of a reload. -/
def staticsAfter (n : Node) (new : RawCfg) : List Addr :=
  if new.statics ≠ n.raw.statics then new.statics.map (·.1) else n.cfg.staticList

/-- events of a node's life: everything of `Ev` under the configuration in force, plus reloads. -/
inductive NEv where
  | ev (e : Ev)
  | reload (new : RawCfg)

/-- one step, with what the node sent / scheduled (non-message events produce nothing here). -/
def stepNode (n : Node) : NEv → Node × Outp
  | .ev (.msg f m) => let r := handleRequest n.cfg n.lh f m; ({ n with lh := r.1 }, r.2)
  | .ev e => ({ n with lh := applyEv n.cfg n.lh e }, {})
  | .reload new => (reloadNode n new, {})

/-- the run of a history: for every step the node before, the event, the node after and the output. -/
def runTrace : Node → List NEv → List (Node × NEv × Node × Outp)
  | _, [] => []
  | n, e :: rest => let r := stepNode n e; (n, e, r.1, r.2) :: runTrace r.1 rest


/-! ### the handler's reused decode scratch (`LightHouseHandler.meta`, `resetMeta`, generated `Unmarshal`) -/

/-- What the generated gogo-protobuf `Unmarshal` does with the bytes of a packet: the fields it decodes —
all of them, or those before the position where decoding fails — are MERGED into the receiver, and `ok` tells
whether it returned nil. `typ = none` / `details = none`: the field is not on the wire (before the error). -/
structure Packet where
  typ : Option Nat := none
  details : Option Details := none
  ok : Bool := true
  deriving Repr, DecidableEq

/-- merge semantics of `NebulaMetaDetails.Unmarshal`: scalar fields present on the wire overwrite (proto3 does
not put zero scalars on the wire), the nested `VpnAddr` is allocated if nil and overwritten, repeated fields
are appended. -/
def mergeDetails (into d : Details) : Details :=
  { oldVpn := if d.oldVpn != 0 then d.oldVpn else into.oldVpn,
    vpn := match d.vpn with | some a => some a | none => into.vpn,
    v4 := into.v4 ++ d.v4, v6 := into.v6 ++ d.v6,
    oldRelays := into.oldRelays ++ d.oldRelays, relays := into.relays ++ d.relays }

/-- the handler: the lighthouse cache plus the scratch `NebulaMeta` (`Type` and the reused `Details`). -/
structure HState where
  lh : LH := {}
  scratchTyp : Nat := 0
  scratch : Details := {}

/-- `resetMeta`: `meta.Reset()`, every slice cut to length 0, `OldVpnAddr = 0`, `VpnAddr = nil`. -/
def HState.resetMeta (h : HState) : HState := { h with scratchTyp := 0, scratch := {} }

/-- `n.Unmarshal(p)` into the scratch. -/
def unmarshalInto (t0 : Nat) (d0 : Details) (p : Packet) : Nat × Details :=
  (p.typ.getD t0, match p.details with | some d => mergeDetails d0 d | none => d0)

/-- what the scratch holds when `HandleRequest` returns after a decodable packet: the last message the
handlers built in it (`resetMeta` + reply / punch notification / ack), else the decoded message. -/
def scratchAfter (c : Cfg) (from_ : List Addr) (t : Nat) (d : Details) (o : Outp) : Nat × Details :=
  if t == typHostUpdateNotification && updateAccepted c from_ d then
    let f0 := from_.headD ⟨.v4, 0⟩
    (typHostUpdateNotificationAck, if (updDetailsVpn d).2 == 1 && f0.is4 then { oldVpn := f0.val } else {})
  else match o.sent.getLast? with
    | some s => (s.msg.typ, s.msg.details.getD {})
    | none => (t, d)

/-- `LightHouseHandler.HandleRequest(rAddr, fromVpnAddrs, p, w)` on the bytes of a packet:
`n := lhh.resetMeta(); err := n.Unmarshal(p); if err != nil { return }; …dispatch…`. -/
def handlePacket (c : Cfg) (h : HState) (from_ : List Addr) (p : Packet) : HState × Outp :=
  let h0 := h.resetMeta
  let td := unmarshalInto h0.scratchTyp h0.scratch p
  if !p.ok then ({ h0 with scratchTyp := td.1, scratch := td.2 }, {})
  else
    let r := handleRequest c h0.lh from_ { typ := td.1, details := some td.2 }
    let sa := scratchAfter c from_ td.1 td.2 r.2
    ({ lh := r.1, scratchTyp := sa.1, scratch := sa.2 }, r.2)

/-- the message a packet carries on its own. -/
def Packet.msg (p : Packet) : Msg := { typ := p.typ.getD 0, details := some (p.details.getD {}) }

/-- a history of packets through one handler. -/
def runPackets (c : Cfg) (h : HState) : List (List Addr × Packet) → HState
  | [] => h
  | (f, p) :: rest => runPackets c (handlePacket c h f p).1 rest

end Nebula.Lighthouse
