/-
Executable model of one node's relay state (C39): `relay_manager.go` (`HandleControlMsg`,
`handleCreateRelayRequest`, `handleCreateRelayResponse`, `EstablishRelay`, `AddRelay`), the relay part of
`hostmap.go` (`RelayState` maps, `HostMap.Relays`, `QueryVpnAddr`, `QueryVpnAddrsRelayFor`,
`unlockedMakePrimary`, `unlockedDeleteHostInfo`, `unlockedDisestablishVpnAddrRelayFor`) and the forwarding
decision of `outside.go` `handleOutsideRelayPacket`.  Core Lean only.

Conventions
* `Addr := Nat` — an overlay address after `protoAddrToNetAddr` (i.e. unmapped). IPv4 addresses are the
  values `< 2^32`, IPv6 address `v` is `2^32 + v` (the driver does the conversion).
* A `*HostInfo` is identified by its `localIndexId` (`Host.id`).
* `RelayState.relayForByAddr` / `relayForByIdx` always hold the same `*Relay` values in the Go code
  (every writer stores into both); they are modelled as ONE record list `Host.recs` with the two lookups
  `byAddr` / `byIdx`. The harness reports on every dump that the two Go maps agree.
* `HostMap.Hosts` / `moreHosts`: `Node.hosts` is the list of live hostinfos, most recently promoted
  first; the per-address list is the sub-list of hosts owning the address, the primary is its head.
* index allocation (`generateIndex`, ≤ 32 tries skipping indexes already in `hm.Relays`): the stream of
  random values is the counter `c` (`c+1, c+2, …`), which is what the harness installs as `rand.Reader`.
-/
import Nebula.Gen.RelayConsts

namespace Nebula.Relay
open Nebula.Gen

abbrev Addr := Nat

def is4 (a : Addr) : Bool := a < 2 ^ 32

structure Relay where
  type : Nat
  state : Nat
  localIndex : Nat
  remoteIndex : Nat
  peerAddr : Addr
  deriving DecidableEq, Repr, Inhabited

structure Host where
  id : Nat
  remoteId : Nat := 0             -- remoteIndexId (only used to route answers in the driver)
  vpnAddrs : List Addr
  remoteValid : Bool := true
  relayIps : List Addr := []      -- RelayState.relays
  recs : List Relay := []         -- RelayState.relayForByAddr / relayForByIdx
  deriving DecidableEq, Repr, Inhabited

structure Node where
  myAddrs : List Addr
  amRelay : Bool
  hosts : List Host := []            -- hm.Indexes / Hosts / moreHosts
  relays : List (Nat × Nat) := []    -- hm.Relays : relay index ↦ owning hostinfo id
  pending : List Addr := []          -- f.Handshake(target) calls (handshake manager pending set)
  useRelaysCfg : Bool := true        -- relay.use_relays (effective value: `useRelaysCfg && !amRelay`)
  relayUsed : List Nat := []         -- connectionManager.relayUsed
  deriving Repr, Inhabited

/-- A control message after `Unmarshal` (fields of `NebulaControl`). -/
structure Ctl where
  type : Nat
  initIdx : Nat := 0
  respIdx : Nat := 0
  oldTo : Nat := 0
  oldFrom : Nat := 0
  to : Option Addr := none
  frm : Option Addr := none
  deriving DecidableEq, Repr, Inhabited

/-- What a handler emits. -/
inductive Out where
  | send (hostId : Nat) (m : Ctl)      -- f.SendMessageToHostInfo(header.Control, 0, hostinfo, msg)
  | handshake (a : Addr)               -- f.Handshake(target)
  | via (hostId outIdx : Nat)          -- f.SendVia(relayHostInfo, relay, stage0, …): outer header index = relay.RemoteIndex
  deriving DecidableEq, Repr

-- ---- RelayState

def Host.byAddr (h : Host) (a : Addr) : Option Relay := h.recs.find? (fun r => r.peerAddr == a)
def Host.byIdx (h : Host) (i : Nat) : Option Relay := h.recs.find? (fun r => r.localIndex == i)

/-- `UpdateRelayForByIpState`. -/
def setStateF (a : Addr) (st : Nat) (r : Relay) : Relay :=
  if r.peerAddr == a then { r with state := st } else r

/-- `CompleteRelayByIP`. -/
def completeIpF (a : Addr) (remoteIdx : Nat) (r : Relay) : Relay :=
  if r.peerAddr == a then { r with state := nebula_Established, remoteIndex := remoteIdx } else r

/-- `CompleteRelayByIdx`. -/
def completeIdxF (i : Nat) (remoteIdx : Nat) (r : Relay) : Relay :=
  if r.localIndex == i then { r with state := nebula_Established, remoteIndex := remoteIdx } else r

def Host.mapRecs (h : Host) (f : Relay → Relay) : Host := { h with recs := h.recs.map f }

-- ---- HostMap

def Node.findHost (n : Node) (hid : Nat) : Option Host := n.hosts.find? (fun h => h.id == hid)

/-- apply `f` to the hostinfo with id `hid` (pointer update; no re-ordering). -/
def Node.modHost (n : Node) (hid : Nat) (f : Host → Host) : Node :=
  { n with hosts := n.hosts.map (fun h => if h.id == hid then f h else h) }

/-- apply `f` to every hostinfo owning address `a` (`unlockedGetHostList(a)` loop). -/
def Node.modHostsFor (n : Node) (a : Addr) (f : Host → Host) : Node :=
  { n with hosts := n.hosts.map (fun h => if h.vpnAddrs.contains a then f h else h) }

/-- `unlockedGetHostList(addr)`: primary first. -/
def Node.hostsFor (n : Node) (a : Addr) : List Host := n.hosts.filter (fun h => h.vpnAddrs.contains a)

/-- `QueryVpnAddr`. -/
def Node.queryVpnAddr (n : Node) (a : Addr) : Option Host := (n.hostsFor a).head?

/-- `unlockedMakePrimary` (for a hostinfo that is in the hostmap). -/
def Node.toFront (n : Node) (hid : Nat) : Node :=
  { n with hosts := n.hosts.filter (fun h => h.id == hid) ++ n.hosts.filter (fun h => !(h.id == hid)) }

def Node.relayOwner (n : Node) (idx : Nat) : Option Nat := (n.relays.find? (fun p => p.1 == idx)).map (·.2)

/-- `generateIndex` loop of `AddRelay`: up to `fuel` draws `c+1, c+2, …`, the first not in `hm.Relays`.
Returns the index (if any) and the advanced counter. -/
def allocIdx (n : Node) : Nat → Nat → Option Nat × Nat
  | 0, c => (none, c)
  | fuel + 1, c =>
    if (n.relayOwner (c + 1)).isSome then allocIdx n fuel (c + 1) else (some (c + 1), c + 1)

/-- `AddRelay(l, relayHostInfo, hm, vpnIp, remoteIdx, relayType, state)`. `none` = error returned. -/
def addRelay (n : Node) (c : Nat) (hid : Nat) (peer : Addr) (remoteIdx : Nat) (type state : Nat) :
    Option (Node × Nat) × Nat :=
  match allocIdx n 32 c with
  | (none, c') => (none, c')
  | (some idx, c') =>
    match n.findHost hid with
    | none => (none, c')     -- "relay hostinfo is no longer in the hostmap"
    | some _ =>
      let r : Relay := { type := type, state := state, localIndex := idx, remoteIndex := remoteIdx, peerAddr := peer }
      let n1 := (n.modHost hid (fun h => { h with recs := h.recs ++ [r] })).toFront hid
      (some ({ n1 with relays := (idx, hid) :: n1.relays.filter (fun p => !(p.1 == idx)) }, idx), c')

-- ---- relay_manager.go

/-- The version / address normalisation at the top of `HandleControlMsg`:
`(isV1, RelayFromAddr, RelayToAddr)` after the `OldRelay*` fields have been folded in. -/
def Ctl.norm (m : Ctl) : Bool × Option Addr × Option Addr :=
  if m.oldFrom > 0 || m.oldTo > 0 then (true, some m.oldFrom, some m.oldTo) else (false, m.frm, m.to)

def mkMsg (v1 : Bool) (type initIdx respIdx : Nat) (frm to : Addr) : Ctl :=
  if v1 then { type := type, initIdx := initIdx, respIdx := respIdx, oldFrom := frm, oldTo := to }
  else { type := type, initIdx := initIdx, respIdx := respIdx, frm := some frm, to := some to }

abbrev Res := Node × Nat × List Out

/-- tail of the "target is me" branch of `handleCreateRelayRequest`: look the record up again and answer. -/
def respondTerminal (n : Node) (c : Nat) (hid : Nat) (v1 : Bool) (frm target : Addr) : Res :=
  match n.findHost hid with
  | none => (n, c, [])
  | some h =>
    match h.byAddr frm with
    | none => (n, c, [])
    | some r => (n, c, [Out.send hid (mkMsg v1 nebula_NebulaControl_CreateRelayResponse r.remoteIndex r.localIndex frm target)])

/-- forwarding branch, step 1: the index on the target's hostinfo for this requester
(`peer.relayState.QueryRelayForByIp(from)`, else `AddRelay(peer, from, nil, ForwardingType, Requested)`). -/
def fwdIndex (n : Node) (c : Nat) (peer : Host) (frm : Addr) : Option (Node × Nat) × Nat :=
  match peer.byAddr frm with
  | some tr => (some (n, tr.localIndex), c)
  | none => addRelay n c peer.id frm 0 nebula_ForwardingType nebula_Requested

/-- forwarding branch, step 3: "Also track the half-created Relay state just received". -/
def fwdTrack (n2 : Node) (c : Nat) (hid : Nat) (target : Addr) (initIdx : Nat) (req : Out) : Res :=
  match n2.findHost hid with
  | none => (n2, c, [req])
  | some h2 =>
    match h2.byAddr target with
    | some _ => (n2, c, [req])
    | none =>
      match addRelay n2 c hid target initIdx nebula_ForwardingType nebula_PeerRequested with
      | (none, c') => (n2, c', [req])
      | (some (n3, _), c') => (n3, c', [req])

/-- forwarding branch, step 2: mark Requested, send the request to the target (unless v1 cannot carry
the requester's address), then step 3. -/
def fwdSend (n2 : Node) (c : Nat) (hid peerId : Nat) (v1 : Bool) (h0 target : Addr) (index initIdx : Nat) : Res :=
  if v1 && !is4 h0 then (n2, c, [])
  else fwdTrack n2 c hid target initIdx
    (Out.send peerId (mkMsg v1 nebula_NebulaControl_CreateRelayRequest index 0 h0 target))

def handleCreateRelayRequest (n : Node) (c : Nat) (hid : Nat) (v1 : Bool) (frm target : Addr) (initIdx : Nat) : Res :=
  match n.findHost hid with
  | none => (n, c, [])
  | some h =>
  if n.myAddrs.contains frm then (n, c, [])
  else if n.myAddrs.contains target then
    match h.byAddr frm with
    | some ex =>
      if ex.state == nebula_Requested then
        respondTerminal (n.modHost hid (·.mapRecs (completeIpF frm initIdx))) c hid v1 frm target
      else if ex.state == nebula_Established then
        if ex.remoteIndex != initIdx then (n, c, []) else respondTerminal n c hid v1 frm target
      else if ex.state == nebula_Disestablished then
        if ex.remoteIndex != initIdx then (n, c, [])
        else respondTerminal (n.modHost hid (·.mapRecs (setStateF frm nebula_Established))) c hid v1 frm target
      else respondTerminal n c hid v1 frm target       -- PeerRequested: logged, then answered
    | none =>
      match addRelay n c hid frm initIdx nebula_TerminalType nebula_Established with
      | (none, c') => (n, c', [])
      | (some (n1, _), c') => respondTerminal n1 c' hid v1 frm target
  else
    if !n.amRelay then (n, c, [])
    else match n.queryVpnAddr target with
    | none => ({ n with pending := if n.pending.contains target then n.pending else n.pending ++ [target] }, c, [Out.handshake target])
    | some peer =>
      if !peer.remoteValid then (n, c, [])
      else
        match fwdIndex n c peer frm with
        | (none, c') => (n, c', [])
        | (some (n1, index), c') =>
          fwdSend (n1.modHost peer.id (·.mapRecs (setStateF frm nebula_Requested))) c' hid peer.id v1
            (h.vpnAddrs.headD 0) target index initIdx

/-- second half of `handleCreateRelayResponse` ("I'm the middle man"), `n1` = state after `EstablishRelay`. -/
def respMiddle (n1 : Node) (c : Nat) (v1 : Bool) (peerAddr relayTo : Addr) : Res :=
  match n1.queryVpnAddr peerAddr with
  | none => (n1, c, [])
  | some ph =>
    match ph.byAddr relayTo with
    | none => (n1, c, [])
    | some pr =>
      if pr.state == nebula_Requested then (n1, c, [])
      else if pr.state == nebula_PeerRequested || pr.state == nebula_Disestablished || pr.state == nebula_Established then
        if v1 && !is4 (ph.vpnAddrs.headD 0) then (n1.modHost ph.id (·.mapRecs (setStateF relayTo nebula_Established)), c, [])
        else (n1.modHost ph.id (·.mapRecs (setStateF relayTo nebula_Established)), c,
          [Out.send ph.id (mkMsg v1 nebula_NebulaControl_CreateRelayResponse pr.remoteIndex pr.localIndex (ph.vpnAddrs.headD 0) relayTo)])
      else (n1, c, [])

def handleCreateRelayResponse (n : Node) (c : Nat) (hid : Nat) (v1 : Bool) (relayTo : Addr) (initIdx respIdx : Nat) : Res :=
  match n.findHost hid with
  | none => (n, c, [])
  | some h =>
    -- EstablishRelay: CompleteRelayByIdx(m.InitiatorRelayIndex, m.ResponderRelayIndex)
    match h.byIdx initIdx with
    | none => (n, c, [])
    | some r =>
      if r.type == nebula_TerminalType then (n.modHost hid (·.mapRecs (completeIdxF initIdx respIdx)), c, [])
      else respMiddle (n.modHost hid (·.mapRecs (completeIdxF initIdx respIdx))) c v1 r.peerAddr relayTo

/-- `HandleControlMsg(h, d, f)` on an unmarshalled message from the authenticated peer `hid`. -/
def handleControl (n : Node) (c : Nat) (hid : Nat) (m : Ctl) : Res :=
  let (v1, frm, to) := m.norm
  if m.type == nebula_NebulaControl_CreateRelayRequest || m.type == nebula_NebulaControl_CreateRelayResponse then
    match frm, to with
    | some frm, some to =>
      if m.type == nebula_NebulaControl_CreateRelayRequest then handleCreateRelayRequest n c hid v1 frm to m.initIdx
      else handleCreateRelayResponse n c hid v1 to m.initIdx m.respIdx
    | _, _ => (n, c, [])
  else (n, c, [])

-- ---- tunnel churn (hostmap.go)

/-- the `UpdateRelayForByIpState(hi.vpnAddrs[0], Disestablished)` loops of
`unlockedDisestablishVpnAddrRelayFor(hi)`. -/
def disestablish (n : Node) (hi : Host) : Node :=
  let a0 := hi.vpnAddrs.headD 0
  let f : Host → Host := (·.mapRecs (setStateF a0 nebula_Disestablished))
  let n1 := hi.relayIps.foldl (fun n ip => n.modHostsFor ip f) n
  hi.recs.foldl (fun n rs => if rs.type == nebula_ForwardingType then n.modHostsFor rs.peerAddr f else n) n1

/-- `unlockedDeleteHostInfo(hostinfo)` for a live hostinfo: unlink it, drop the `hm.Relays` entries of its
relay records, and — when no other hostinfo holds any of its addresses — disestablish the relays that
went through it. (The Go code runs the last two in the other order; they touch different maps.) -/
def deleteHost (n : Node) (hid : Nat) : Node :=
  match n.findHost hid with
  | none => n
  | some hi =>
    let rest := n.hosts.filter (fun h => !(h.id == hid))
    let dead := (n.hosts.filter (fun h => h.id == hid)).flatMap (fun h => h.recs.map (·.localIndex))
    let n1 : Node := { n with hosts := rest, relays := n.relays.filter (fun p => !(dead.contains p.1)) }
    if hi.vpnAddrs.all (fun a => !(rest.any (fun h => h.vpnAddrs.contains a))) then disestablish n1 hi else n1

/-- the per-address cap of `unlockedInnerAddHostInfo`: when an address is held by more than
`MaxHostInfosPerVpnIp` hostinfos the oldest one is fully retired. -/
def evictFor (n : Node) (a : Addr) : Node :=
  if (n.hostsFor a).length > nebula_MaxHostInfosPerVpnIp then
    match (n.hostsFor a).getLast? with
    | some old => deleteHost n old.id
    | none => n
  else n

/-- handshake completed: `unlockedAddHostInfo` of a fresh hostinfo (becomes primary for its addresses;
`relayed` = the handshake came through a relay, so the hostinfo has no underlay remote and lists the relay). -/
def tunnelUp (n : Node) (id remoteId : Nat) (addrs : List Addr) (viaRelay : Option Addr := none) : Node :=
  if (n.findHost id).isSome || addrs.isEmpty then n
  else
    let h : Host := { id := id, remoteId := remoteId, vpnAddrs := addrs, remoteValid := viaRelay.isNone,
                      relayIps := viaRelay.toList }
    addrs.foldl evictFor { n with hosts := h :: n.hosts }

/-- `sendHandshakeResponse` / handshake completion through a relay (handshake_manager.go): the relay record
the handshake arrived on is marked Established again (`UpdateRelayForByIdxState(via.relay.LocalIndex, Established)`). -/
def setStateIdxF (i : Nat) (st : Nat) (r : Relay) : Relay :=
  if r.localIndex == i then { r with state := st } else r

def relayHandshakeSeen (n : Node) (relayHostId relayIdx : Nat) : Node :=
  n.modHost relayHostId (·.mapRecs (setStateIdxF relayIdx nebula_Established))

-- ---- initiator side: relay_manager.go StartRelays

/-- send (or re-send) the CreateRelayRequest for the Terminal record `idx` towards `vpnIp`. -/
def sendRelayRequest (n : Node) (c : Nat) (hid : Nat) (v1 : Bool) (idx : Nat) (vpnIp : Addr) : Res :=
  if v1 && (!is4 (n.myAddrs.headD 0) || !is4 vpnIp) then (n, c, [])
  else (n, c, [Out.send hid (mkMsg v1 nebula_NebulaControl_CreateRelayRequest idx 0 (n.myAddrs.headD 0) vpnIp)])

/-- one iteration of the `for _, relay := range relays` loop. -/
def startRelayOne (n : Node) (c : Nat) (vpnIp : Addr) (v1 : Bool) (relay : Addr) : Res :=
  if relay == vpnIp then (n, c, [])
  else if n.myAddrs.contains relay then (n, c, [])
  else match n.queryVpnAddr relay with
  | none => ({ n with pending := if n.pending.contains relay then n.pending else n.pending ++ [relay] }, c, [Out.handshake relay])
  | some rh =>
    if !rh.remoteValid then (n, c, [Out.handshake relay])   -- f.Handshake: a tunnel exists, nothing is started
    else match rh.byAddr vpnIp with
    | none =>
      match addRelay n c rh.id vpnIp 0 nebula_TerminalType nebula_Requested with
      | (none, c') => (n, c', [])
      | (some (n1, idx), c') => sendRelayRequest n1 c' rh.id v1 idx vpnIp
    | some ex =>
      if ex.state == nebula_Established then
        ({ n with relayUsed := if n.relayUsed.contains ex.localIndex then n.relayUsed else n.relayUsed ++ [ex.localIndex] }, c,
         [Out.via rh.id ex.remoteIndex])
      else if ex.state == nebula_Disestablished then
        sendRelayRequest (n.modHost rh.id (·.mapRecs (setStateF vpnIp nebula_Requested))) c rh.id v1 ex.localIndex vpnIp
      else if ex.state == nebula_Requested then sendRelayRequest n c rh.id v1 ex.localIndex vpnIp
      else (n, c, [])

def startRelaysLoop (vpnIp : Addr) (v1 : Bool) : List Addr → Node → Nat → List Out → Res
  | [], n, c, acc => (n, c, acc)
  | r :: rs, n, c, acc =>
    match startRelayOne n c vpnIp v1 r with
    | (n1, c1, o) => startRelaysLoop vpnIp v1 rs n1 c1 (acc ++ o)

/-- `StartRelays(f, vpnIp, hh, stage0)`. -/
def startRelays (n : Node) (c : Nat) (vpnIp : Addr) (v1 : Bool) (relays : List Addr) : Res :=
  if !(n.useRelaysCfg && !n.amRelay) || relays.isEmpty then (n, c, [])
  else startRelaysLoop vpnIp v1 relays n c []

-- ---- connection_manager.go migrateRelayUsed (as fixed: Forwarding relays are skipped once am_relay is off)

/-- the CreateRelayRequest `migrateRelayUsed` sends to the new hostinfo for the (re-)created record. -/
def migrateSend (n : Node) (c : Nat) (newId : Nat) (v1 : Bool) (type idx : Nat) (peer new0 : Addr) : Res :=
  if type == nebula_TerminalType then
    (if v1 && (!is4 (n.myAddrs.headD 0) || !is4 peer) then (n, c, [])
     else (n, c, [Out.send newId (mkMsg v1 nebula_NebulaControl_CreateRelayRequest idx 0 (n.myAddrs.headD 0) peer)]))
  else
    (if v1 && (!is4 peer || !is4 new0) then (n, c, [])
     else (n, c, [Out.send newId (mkMsg v1 nebula_NebulaControl_CreateRelayRequest idx 0 peer new0)]))

/-- one iteration of the loop over the old hostinfo's records. -/
def migrateOne (n : Node) (c : Nat) (newId : Nat) (v1 : Bool) (r : Relay) : Res :=
  if r.type == nebula_ForwardingType && !n.amRelay then (n, c, [])
  else match n.findHost newId with
  | none => (n, c, [])
  | some nh =>
    match nh.byAddr r.peerAddr with
    | some ex =>
      if ex.state == nebula_Requested then migrateSend n c newId v1 r.type ex.localIndex ex.peerAddr (nh.vpnAddrs.headD 0)
      else (n, c, [])
    | none =>
      if !n.relayUsed.contains r.localIndex then (n, c, [])
      else match addRelay n c newId r.peerAddr 0 r.type nebula_Requested with
        | (none, c') => (n, c', [])
        | (some (n1, idx), c') => migrateSend n1 c' newId v1 r.type idx r.peerAddr (nh.vpnAddrs.headD 0)

def migrateLoop (newId : Nat) (v1 : Bool) : List Relay → Node → Nat → List Out → Res
  | [], n, c, acc => (n, c, acc)
  | r :: rs, n, c, acc =>
    match migrateOne n c newId v1 r with
    | (n1, c1, o) => migrateLoop newId v1 rs n1 c1 (acc ++ o)

/-- `migrateRelayUsed(oldhostinfo, newhostinfo)`. (Go iterates a map: with more than one record to act on
the order — hence the index allocation order — is unspecified; the model uses list order.) -/
def migrateRelayUsed (n : Node) (c : Nat) (oldId newId : Nat) (v1 : Bool) : Res :=
  match n.findHost oldId with
  | none => (n, c, [])
  | some oh => migrateLoop newId v1 oh.recs n c []

-- ---- forwarding decision (outside.go handleOutsideRelayPacket, after VerifyRelay succeeded)

inductive Fwd where
  | drop (why : String)
  | terminal (peer : Addr)                    -- recursion into readOutsidePackets with ViaSender{relayed}
  | forward (targetId remoteIdx : Nat)        -- f.SendVia(targetHI, targetRelay, signedPayload, …)
  deriving DecidableEq, Repr

def firstEstablished (h : Host) (targets : List Addr) : Option Relay :=
  targets.findSome? (fun a =>
    match h.byAddr a with
    | some r => if r.state == nebula_Established then some r else none
    | none => none)

/-- `QueryVpnAddrsRelayFor(targetIps, relayHostIp)`. -/
def queryRelayFor (n : Node) (targets : List Addr) (relayHostIp : Addr) : Option (Host × Relay) :=
  (n.hostsFor relayHostIp).findSome? (fun h => (firstEstablished h targets).map (fun r => (h, r)))

/-- The relay packet carried relay index `idx`; `hm.Relays[idx]` selected the hostinfo whose key verified it. -/
def relayPacket (n : Node) (idx : Nat) : Fwd :=
  match n.relayOwner idx with
  | none => .drop "no-index"
  | some hid =>
    match n.findHost hid with
    | none => .drop "no-index"
    | some hi =>
      match hi.byIdx idx with
      | none => .drop "missing"
      | some r =>
        if r.type == nebula_TerminalType then .terminal r.peerAddr
        else if r.type == nebula_ForwardingType then
          if !n.amRelay then .drop "not-relay"
          else match queryRelayFor n hi.vpnAddrs r.peerAddr with
          | none => .drop "no-target"
          | some (t, tr) =>
            if tr.state == nebula_Established then
              if tr.type == nebula_ForwardingType then .forward t.id tr.remoteIndex
              else .drop "target-type"
            else .drop "target-state"
        else .drop "type"

-- ---- histories

inductive Op where
  | up (id remoteId : Nat) (addrs : List Addr) (viaRelay : Option Addr)
  | down (hid : Nat)
  | ctl (hid : Nat) (m : Ctl)
  | reload (amRelay : Bool)
  | setRemote (hid : Nat) (valid : Bool)
  | start (vpnIp : Addr) (v1 : Bool) (relays : List Addr)
  | migrate (oldId newId : Nat) (v1 : Bool)
  | relayHs (relayHostId relayIdx : Nat)
  | used (idx : Nat)                         -- connectionManager.RelayUsed(idx)
  | reloadUse (useRelays : Bool)
  deriving Repr

def step (s : Node × Nat) (op : Op) : Node × Nat :=
  match op with
  | .up id rid addrs via => (tunnelUp s.1 id rid addrs via, s.2)
  | .down hid => (deleteHost s.1 hid, s.2)
  | .ctl hid m => let r := handleControl s.1 s.2 hid m; (r.1, r.2.1)
  | .reload b => ({ s.1 with amRelay := b }, s.2)
  | .setRemote hid v => (s.1.modHost hid (fun h => { h with remoteValid := v }), s.2)
  | .start vpnIp v1 relays => let r := startRelays s.1 s.2 vpnIp v1 relays; (r.1, r.2.1)
  | .migrate o nw v1 => let r := migrateRelayUsed s.1 s.2 o nw v1; (r.1, r.2.1)
  | .relayHs h i => (relayHandshakeSeen s.1 h i, s.2)
  | .used i => ({ s.1 with relayUsed := i :: s.1.relayUsed }, s.2)
  | .reloadUse b => ({ s.1 with useRelaysCfg := b }, s.2)

def run (s : Node × Nat) (ops : List Op) : Node × Nat := ops.foldl step s

def init (myAddrs : List Addr) (amRelay : Bool) : Node := { myAddrs := myAddrs, amRelay := amRelay }

end Nebula.Relay
