/-
Model of the v2 (ASN.1 DER) certificate codec, cert/cert_v2.go: `detailsV2.Marshal`, `certificateV2.Marshal`,
`MarshalForHandshakes`, `marshalForSigning`, `unmarshalCertificateV2`, `unmarshalDetails`, on `Base/Der`.
Tags and limits come from the regenerated constants (`Nebula.Gen.Cert`). Core Lean only.

A decoded / signed v2 certificate is a `Cert` (times are whole seconds × 10^9, issuer is the hex string of the
issuer octets) together with its `rawDetails` bytes.
-/
import Nebula.Base.Der
import Nebula.Model.CertValidate

namespace Nebula.Cert.V2
open Nebula.Net Nebula.Cert Nebula.Der

def tag (n : Nat) : UInt8 := UInt8.ofNat n

def tagCertDetails := tag Gen.cert_TagCertDetails
def tagCertCurve := tag Gen.cert_TagCertCurve
def tagCertPublicKey := tag Gen.cert_TagCertPublicKey
def tagCertSignature := tag Gen.cert_TagCertSignature
def tagName := tag Gen.cert_TagDetailsName
def tagNetworks := tag Gen.cert_TagDetailsNetworks
def tagUnsafe := tag Gen.cert_TagDetailsUnsafeNetworks
def tagGroups := tag Gen.cert_TagDetailsGroups
def tagIsCA := tag Gen.cert_TagDetailsIsCA
def tagNotBefore := tag Gen.cert_TagDetailsNotBefore
def tagNotAfter := tag Gen.cert_TagDetailsNotAfter
def tagIssuer := tag Gen.cert_TagDetailsIssuer
def tagSequence : UInt8 := 0x30
def tagOctetString : UInt8 := 0x04
def tagUTF8String : UInt8 := 0x0c

def nsPerSec : Int := 1000000000

/-- `time.Time.Unix()`: whole seconds, rounding toward minus infinity. -/
def unixSec (t : Int) : Int := t / nsPerSec

/-! ### encoding -/

/-- `netip.Prefix.MarshalBinary`: 4 or 16 address octets and one length octet. -/
def encPrefix (p : Prefix) : Bytes :=
  beBytes (p.addr.fam.bits / 8) p.addr.val ++ [UInt8.ofNat p.len]

def encNetworks (t : UInt8) (ps : List Prefix) : Bytes :=
  if ps.length > 0 then encTLV t (ps.flatMap (fun p => encTLV tagOctetString (encPrefix p))) else []

def encGroups (gs : List Bytes) : Bytes :=
  if gs.length > 0 then encTLV tagGroups (gs.flatMap (fun g => encTLV tagUTF8String g)) else []

/-- `detailsV2.Marshal`; `none` when the issuer is not a hex string. -/
def encodeDetails (c : Cert) : Option Bytes :=
  let issuer : Option Bytes :=
    if c.issuer = "" then some []
    else match hexDec c.issuer with
      | some ib => some (encTLV tagIssuer ib)
      | none => none
  match issuer with
  | none => none
  | some iss =>
    some (encTLV tagCertDetails
      (encTLV tagName c.name ++ encNetworks tagNetworks c.networks ++ encNetworks tagUnsafe c.unsafeNetworks ++
       encGroups c.groups ++ (if c.isCA then encTLV tagIsCA [0xff] else []) ++
       encInt64 tagNotBefore (unixSec c.notBefore) ++ encInt64 tagNotAfter (unixSec c.notAfter) ++ iss))

/-- `certificateV2.Marshal` from raw parts (`publicKey = none`: the Go slice is nil). -/
def marshal (rawDetails : Bytes) (curve : Nat) (publicKey : Option Bytes) (signature : Bytes) : Bytes :=
  encTLV tagSequence
    (rawDetails ++ (if curve ≠ curve25519 then encTLV tagCertCurve [UInt8.ofNat curve] else []) ++
     (match publicKey with | some pk => encTLV tagCertPublicKey pk | none => []) ++
     encTLV tagCertSignature signature)

/-- `MarshalForHandshakes`: details and signature only. -/
def marshalForHandshakes (rawDetails signature : Bytes) : Bytes :=
  encTLV tagSequence (rawDetails ++ encTLV tagCertSignature signature)

/-- The size guard of `SignWith`: `len(c.Marshal()) > MaxCertificateSize` for the signed certificate (`false`
when the details do not marshal: that error has surfaced before). -/
def tooLarge (c : Cert) : Bool :=
  match encodeDetails c with
  | some rd => decide ((marshal rd c.curve (some c.publicKey) c.signature).length > Gen.cert_MaxCertificateSize)
  | none => false

/-- the bytes covered by the signature (`marshalForSigning`, `CheckSignature`): rawDetails ‖ curve ‖ publicKey. -/
def signedBytes (rawDetails : Bytes) (curve : Nat) (publicKey : Bytes) : Bytes :=
  rawDetails ++ [UInt8.ofNat curve] ++ publicKey

/-- what `Fingerprint` hashes: rawDetails ‖ curve ‖ publicKey ‖ signature. -/
def fingerprintBytes (rawDetails : Bytes) (curve : Nat) (publicKey signature : Bytes) : Bytes :=
  rawDetails ++ [UInt8.ofNat curve] ++ publicKey ++ signature

/-! ### decoding -/

inductive DecErr where
  | badFormat | pubkeyPresent | invalid (e : InvErr) | other
  deriving DecidableEq, Repr

/-- `netip.Prefix.UnmarshalBinary` for 1..17 octets. A zero-length address gives the invalid prefix, written
here as an over-long IPv4 prefix (both are refused by `validate` with the same error). -/
def decPrefix (val : Bytes) : Option Prefix :=
  let addr := val.dropLast
  let bits := (val.getLast?.getD 0).toNat
  if addr.length == 0 then some ⟨⟨.v4, 0⟩, 256⟩
  else if addr.length == 4 then some ⟨⟨.v4, beNat addr⟩, bits⟩
  else if addr.length == 16 then some ⟨⟨.v6, beNat addr⟩, bits⟩
  else none

/-- the `for !subString.Empty()` loops over OCTET STRINGs. Fuel = input length (every element consumes ≥ 2). -/
def decNetworks : Nat → Bytes → Option (List Prefix)
  | 0, s => if s.isEmpty then some [] else none
  | fuel + 1, s =>
    if s.isEmpty then some []
    else match readASN1 tagOctetString s with
      | none => none
      | some (val, rest) =>
        if val.isEmpty || val.length > Gen.cert_MaxNetworkLength then none
        else match decPrefix val with
          | none => none
          | some p => match decNetworks fuel rest with
            | none => none
            | some ps => some (p :: ps)

def decGroups : Nat → Bytes → Option (List Bytes)
  | 0, s => if s.isEmpty then some [] else none
  | fuel + 1, s =>
    if s.isEmpty then some []
    else match readASN1 tagUTF8String s with
      | none => none
      | some (val, rest) =>
        if val.isEmpty then none
        else match decGroups fuel rest with
          | none => none
          | some gs => some (val :: gs)

/-- `readOptionalASN1Boolean(b, &out, tag, false)`. -/
def readOptionalBool (t : UInt8) (s : Bytes) : Option (Bool × Bytes) :=
  match readOptionalASN1 t s with
  | none => none
  | some (none, rest) => some (false, rest)
  | some (some child, rest) =>
    match child with
    | [b] => some (decide (b > 0), rest)
    | _ => none

/-- `readOptionalASN1Byte(b, &out, tag, default)`. -/
def readOptionalByte (t : UInt8) (dflt : UInt8) (s : Bytes) : Option (UInt8 × Bytes) :=
  match readOptionalASN1 t s with
  | none => none
  | some (none, rest) => some (dflt, rest)
  | some (some child, rest) =>
    match child with
    | [b] => some (b, rest)
    | _ => none

/-- an optional `SEQUENCE OF OCTET STRING` field: `ReadOptionalASN1` followed by the element loop. -/
def readOptNets (t : UInt8) (b : Bytes) : Option (List Prefix × Bytes) :=
  match readOptionalASN1 t b with
  | none => none
  | some (o, rest) =>
    match (match o with | some s => decNetworks s.length s | none => some []) with
    | none => none
    | some ps => some (ps, rest)

/-- the optional groups field. -/
def readOptGroups (b : Bytes) : Option (List Bytes × Bytes) :=
  match readOptionalASN1 tagGroups b with
  | none => none
  | some (o, rest) =>
    match (match o with | some s => decGroups s.length s | none => some []) with
    | none => none
    | some gs => some (gs, rest)

/-- `unmarshalDetails`: the decoded fields as a `Cert` with empty curve / key / signature. Trailing bytes
after the issuer are ignored, as in the Go code. -/
def unmarshalDetails (raw : Bytes) : Option Cert :=
  match readASN1 tagCertDetails raw with
  | none => none
  | some (b, _) =>
    if b.isEmpty then none else
    match readASN1 tagName b with
    | none => none
    | some (name, b) =>
      if name.isEmpty || name.length > Gen.cert_MaxNameLength then none else
      match readOptNets tagNetworks b with
      | none => none
      | some (networks, b) =>
        match readOptNets tagUnsafe b with
        | none => none
        | some (unsafeNetworks, b) =>
          match readOptGroups b with
          | none => none
          | some (groups, b) =>
            match readOptionalBool tagIsCA b with
            | none => none
            | some (isCA, b) =>
              match readInt64 tagNotBefore b with
              | none => none
              | some (nb, b) =>
                match readInt64 tagNotAfter b with
                | none => none
                | some (na, b) =>
                  match readOptionalASN1 tagIssuer b with
                  | none => none
                  | some (iss, _) =>
                    some { version := 2, curve := 0, name := name, networks := networks,
                           unsafeNetworks := unsafeNetworks, groups := groups, isCA := isCA,
                           notBefore := nb * nsPerSec, notAfter := na * nsPerSec,
                           issuer := hexEnc (iss.getD []), publicKey := [], signature := [] }

/-- `unmarshalCertificateV2(b, publicKey, curve)`: the certificate and its raw details. -/
def unmarshal (b : Bytes) (publicKey : Bytes) (curve : Nat) : Except DecErr (Cert × Bytes) :=
  if b.length == 0 || b.length > Gen.cert_MaxCertificateSize then .error .badFormat else
  match readASN1 tagSequence b with
  | none => .error .badFormat
  | some (input, _) =>
    if input.isEmpty then .error .badFormat else
    match readASN1Element tagCertDetails input with
    | none => .error .badFormat
    | some (rawDetails, input) =>
      if rawDetails.isEmpty then .error .badFormat else
      match readOptionalByte tagCertCurve (UInt8.ofNat curve) input with
      | none => .error .badFormat
      | some (rawCurve, input) =>
        let pk : Except DecErr (Bytes × Bytes) :=
          if publicKey.length > 0 then
            if peekTag tagCertPublicKey input then .error .pubkeyPresent else .ok (publicKey, input)
          else match readOptionalASN1 tagCertPublicKey input with
            | none => .error .badFormat
            | some (k, input) => .ok (k.getD [], input)
        match pk with
        | .error e => .error e
        | .ok (rawPublicKey, input) =>
          if rawPublicKey.length == 0 then .error .badFormat else
          match readASN1 tagCertSignature input with
          | none => .error .badFormat
          | some (sig, _) =>
            if sig.isEmpty then .error .badFormat else
            match unmarshalDetails rawDetails with
            | none => .error .badFormat
            | some d =>
              match validateV2 { d with curve := rawCurve.toNat, publicKey := rawPublicKey, signature := sig } with
              | .error e => .error (.invalid e)
              | .ok c => .ok (c, rawDetails)

/-- `Recombine(Version2, raw, publicKey, curve)` after the nil checks: decode, then compare the curve. -/
def recombine (raw publicKey : Bytes) (curve : Nat) : Except DecErr (Cert × Bytes) :=
  match unmarshal raw publicKey curve with
  | .error e => .error e
  | .ok (c, rd) => if c.curve ≠ curve then .error .other else .ok (c, rd)

end Nebula.Cert.V2
