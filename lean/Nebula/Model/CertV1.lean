/-
Model of the v1 (protobuf) certificate codec, cert/cert_v1.go + cert_v1.pb.go: `getRawDetails`,
`Marshal`, `MarshalForHandshakes`, `marshalForSigning`, `unmarshalCertificateV1`, with the
`google.golang.org/protobuf` table-driven decoder for the two messages (unknown fields of any wire type are
skipped, a known field with a foreign wire type counts as unknown, repeated `uint32` accepts packed and
unpacked forms, a repeated `Details` field merges, strings must be valid UTF-8). Core Lean only.
-/
import Nebula.Base.CertPb
import Nebula.Model.CertValidate

namespace Nebula.Cert.V1
open Nebula.Net Nebula.Cert Nebula.CertPb

structure RawDetails where
  name : Bytes := []
  ips : List Nat := []
  subnets : List Nat := []
  groups : List Bytes := []
  notBefore : Int := 0
  notAfter : Int := 0
  publicKey : Bytes := []
  isCA : Bool := false
  issuer : Bytes := []
  curve : Nat := 0            -- the int32 enum value, viewed as uint32
  deriving DecidableEq, Repr

structure RawCert where
  details : Option RawDetails := none
  signature : Bytes := []
  deriving DecidableEq, Repr

def nsPerSec : Int := 1000000000

/-! ### encoding -/

def maskOf (bits : Nat) : Nat := 2 ^ 32 - 2 ^ (32 - bits)

def pairs (ps : List Prefix) : List Nat := ps.flatMap (fun p => [p.addr.val % 2 ^ 32, maskOf p.len])

/-- `getRawDetails` (a non-hex issuer cannot come out of `Fingerprint()`; it is treated as empty here). -/
def rawDetailsOf (c : Cert) (publicKey : Bytes) : RawDetails :=
  { name := c.name, ips := pairs c.networks, subnets := pairs c.unsafeNetworks, groups := c.groups,
    notBefore := c.notBefore / nsPerSec, notAfter := c.notAfter / nsPerSec, publicKey := publicKey,
    isCA := c.isCA, issuer := (hexDec c.issuer).getD [], curve := c.curve }

def encPacked (num : Nat) (vs : List Nat) : Bytes :=
  if vs.isEmpty then [] else encBytesField num (vs.flatMap encVarint)

/-- sign-extended enum value as the varint payload. -/
def enumU (v : Nat) : Nat := if v % 2 ^ 32 < 2 ^ 31 then v % 2 ^ 32 else v % 2 ^ 32 + (2 ^ 64 - 2 ^ 32)

/-- `proto.Marshal(details)`; `none` = invalid UTF-8 in a string field. -/
def encodeDetails (d : RawDetails) : Option Bytes :=
  if !utf8Valid d.name || !d.groups.all utf8Valid then none else
  some ((if d.name.isEmpty then [] else encBytesField 1 d.name) ++ encPacked 2 d.ips ++ encPacked 3 d.subnets ++
    d.groups.flatMap (encBytesField 4) ++
    (if d.notBefore = 0 then [] else encVarintField 5 (int64ToU d.notBefore)) ++
    (if d.notAfter = 0 then [] else encVarintField 6 (int64ToU d.notAfter)) ++
    (if d.publicKey.isEmpty then [] else encBytesField 7 d.publicKey) ++
    (if d.isCA then encVarintField 8 1 else []) ++
    (if d.issuer.isEmpty then [] else encBytesField 9 d.issuer) ++
    (if d.curve % 2 ^ 32 = 0 then [] else encVarintField 100 (enumU d.curve)))

/-- `certificateV1.Marshal` (`publicKey = []` is `MarshalForHandshakes`). -/
def marshal (c : Cert) (publicKey : Bytes) : Option Bytes :=
  match encodeDetails (rawDetailsOf c publicKey) with
  | none => none
  | some d => some (encBytesField 1 d ++ (if c.signature.isEmpty then [] else encBytesField 2 c.signature))

/-- bytes covered by the signature: the re-marshalled details. -/
def signedBytes (c : Cert) : Option Bytes := encodeDetails (rawDetailsOf c c.publicKey)

/-! ### decoding -/

def decDetails : Nat → RawDetails → Bytes → Option RawDetails
  | 0, _, _ => none
  | fuel + 1, d, s =>
    if s.isEmpty then some d else
    match decTag s with
    | none => none
    | some (num, wt, rest) =>
      if wt == 4 then none else
      let unknown := fun (_ : Unit) => match skipValue (fuel + 1) num wt rest with
        | none => none
        | some r => decDetails fuel d r
      let str (k : Bytes → RawDetails) := match decBytes rest with
        | none => none
        | some (v, r) => if utf8Valid v then decDetails fuel (k v) r else none
      let byt (k : Bytes → RawDetails) := match decBytes rest with
        | none => none
        | some (v, r) => decDetails fuel (k v) r
      let vint (k : Nat → RawDetails) := match decVarint rest with
        | none => none
        | some (v, r) => decDetails fuel (k v) r
      let rep (cur : List Nat) (k : List Nat → RawDetails) :=
        if wt == 2 then match decBytes rest with
          | none => none
          | some (v, r) => match decPacked v.length v with
            | none => none
            | some vs => decDetails fuel (k (cur ++ vs.map (· % 2 ^ 32))) r
        else if wt == 0 then vint (fun v => k (cur ++ [v % 2 ^ 32]))
        else unknown ()
      if num == 1 then (if wt == 2 then str (fun v => { d with name := v }) else unknown ())
      else if num == 2 then rep d.ips (fun l => { d with ips := l })
      else if num == 3 then rep d.subnets (fun l => { d with subnets := l })
      else if num == 4 then (if wt == 2 then str (fun v => { d with groups := d.groups ++ [v] }) else unknown ())
      else if num == 5 then (if wt == 0 then vint (fun v => { d with notBefore := uToInt64 v }) else unknown ())
      else if num == 6 then (if wt == 0 then vint (fun v => { d with notAfter := uToInt64 v }) else unknown ())
      else if num == 7 then (if wt == 2 then byt (fun v => { d with publicKey := v }) else unknown ())
      else if num == 8 then (if wt == 0 then vint (fun v => { d with isCA := v != 0 }) else unknown ())
      else if num == 9 then (if wt == 2 then byt (fun v => { d with issuer := v }) else unknown ())
      else if num == 100 then (if wt == 0 then vint (fun v => { d with curve := v % 2 ^ 32 }) else unknown ())
      else unknown ()

def decCert : Nat → RawCert → Bytes → Option RawCert
  | 0, _, _ => none
  | fuel + 1, c, s =>
    if s.isEmpty then some c else
    match decTag s with
    | none => none
    | some (num, wt, rest) =>
      if wt == 4 then none else
      let unknown := fun (_ : Unit) => match skipValue (fuel + 1) num wt rest with
        | none => none
        | some r => decCert fuel c r
      if num == 1 && wt == 2 then
        match decBytes rest with
        | none => none
        | some (v, r) => match decDetails (v.length + 1) (c.details.getD {}) v with
          | none => none
          | some d => decCert fuel { c with details := some d } r
      else if num == 2 && wt == 2 then
        match decBytes rest with
        | none => none
        | some (v, r) => decCert fuel { c with signature := v } r
      else unknown ()

/-- `proto.Unmarshal(b, &RawNebulaCertificate{})`. -/
def protoUnmarshal (b : Bytes) : Option RawCert := decCert (b.length + 1) {} b

/-- `net.IPMask.Size()` ones for a 32-bit mask; 0 for a non-canonical mask. -/
def maskOnes (m : Nat) : Nat := ((List.range 33).find? (fun k => maskOf k == m)).getD 0

/-- address / mask pairs back to prefixes; the values are `uint32`s (4 address bytes). -/
def unpairs : List Nat → List Prefix
  | a :: m :: rest => ⟨⟨.v4, a % 2 ^ 32⟩, maskOnes m⟩ :: unpairs rest
  | _ => []

/-- an `int64` field as a mathematical integer (identity on the int64 range the decoder produces). -/
def asInt64 (v : Int) : Int := uToInt64 (int64ToU v)

inductive DecErr where
  | empty | proto | noDetails | oddIps | oddSubnets | pubkeyPresent | invalid (e : InvErr) | other
  deriving DecidableEq, Repr

/-- the certificate built from the decoded details (fixed-width fields as their Go types). -/
def certOfRaw (d : RawDetails) (publicKey signature : Bytes) : Cert :=
  { version := 1, curve := d.curve % 2 ^ 32, name := d.name, networks := unpairs d.ips,
    unsafeNetworks := unpairs d.subnets, groups := d.groups, isCA := d.isCA,
    notBefore := asInt64 d.notBefore * nsPerSec, notAfter := asInt64 d.notAfter * nsPerSec, issuer := hexEnc d.issuer,
    publicKey := publicKey, signature := signature }

/-- `unmarshalCertificateV1(b, publicKey)`. -/
def unmarshal (b : Bytes) (publicKey : Bytes) : Except DecErr Cert :=
  if b.length == 0 then .error .empty else
  match protoUnmarshal b with
  | none => .error .proto
  | some rc =>
    match rc.details with
    | none => .error .noDetails
    | some d =>
      if d.ips.length % 2 != 0 then .error .oddIps
      else if d.subnets.length % 2 != 0 then .error .oddSubnets
      else if publicKey.length > 0 && d.publicKey.length != 0 then .error .pubkeyPresent
      else
        let c := certOfRaw d (if publicKey.length > 0 then publicKey else d.publicKey) rc.signature
        match validateV1 c with
        | some e => .error (.invalid e)
        | none => .ok c

/-- `Recombine(Version1 / VersionPre1, …)` after the nil checks. -/
def recombine (raw publicKey : Bytes) (curve : Nat) : Except DecErr Cert :=
  match unmarshal raw publicKey with
  | .error e => .error e
  | .ok c => if c.curve ≠ curve then .error .other else .ok c

end Nebula.Cert.V1
