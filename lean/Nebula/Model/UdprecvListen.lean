/-
Model of the per-batch loop of `StdConn.ListenOut` (`udp/udp_linux.go`) with respect to the recvmmsg slot
state that survives from one read to the next.  Core Lean only.

```go
msgs, buffers, names, _ := prepareRawMessages(u.batch, bufSize, cmsgSpace)   // Control = 24-byte slice of a zeroed slab, Controllen = cmsgSpace
for {
    if cmsgSpace > 0 { for i := range msgs { setMsgControllen(&msgs[i].Hdr, cmsgSpace) } }   -- arm
    n, err := u.recvmmsg(msgs)                                                                -- kernelRead (slots 0..n-1)
    for i := range n {
        payload := buffers[i][:msgs[i].Len]
        segSize := 0
        if cmsgSpace > 0 { segSize = parseRecvCmsg(&msgs[i].Hdr) }                            -- parseSlot (the kernel-reported Controllen)
        deliverSegments(r, from, payload, segSize)                                            -- deliver
    }
    flush()
}
```

`msg_controllen` is a value-result field of `recvmsg(2)`: on entry the size of the ancillary buffer, on
return the number of ancillary bytes the kernel wrote (0 when the datagram carries none; the buffer
itself is then left untouched, i.e. it still holds whatever an earlier read put there).
-/
import Nebula.Model.Udprecv
import Nebula.Spec.Udprecv

namespace Nebula.Udprecv
open Nebula.Spec.Udprecv

/-- `cmsgSpace := unix.CmsgSpace(udpGROCmsgPayload)` of `ListenOut` (24 on linux/amd64). -/
def groCmsgSpace : Nat := cmsgSpace Gen.urx_udpGROCmsgPayload

/-- One recvmmsg slot, as far as ancillary data is concerned: the bytes `Hdr.Control` points at (they
persist across reads) and the in/out field `Hdr.Controllen`. -/
structure Slot where
  ctrl : List UInt8
  controllen : Nat
  deriving Repr, DecidableEq

/-- what `prepareRawMessages` hands out: a zeroed buffer, `Controllen = cmsgSpace`. -/
def Slot.fresh : Slot := { ctrl := List.replicate groCmsgSpace 0, controllen := groCmsgSpace }

/-- What the kernel puts into one slot on one read: the datagram (a GRO superdatagram or a plain one) and
the ancillary messages it attaches (`[UDP_GRO gso_size]` for a coalesced datagram, none for a plain one). -/
structure Fill where
  payload : List UInt8
  msgs : List Cmsg
  deriving Repr

/-- `setMsgControllen(&msgs[i].Hdr, cmsgSpace)` -/
def arm (s : Slot) : Slot := { s with controllen := groCmsgSpace }

/-- `recvmmsg` on this slot: at most `Controllen` (and never more than the buffer holds) bytes of
ancillary data are copied to the FRONT of the buffer, the rest of the buffer is not touched, and
`Controllen` is overwritten with the number of bytes written.  (When the messages do not fit the kernel
truncates at a message boundary and sets MSG_CTRUNC; the byte-wise cut here only keeps the function total —
the theorems assume the messages fit, which is what `cmsgSpace = CmsgSpace(4)` is sized for.) -/
def kernelRead (s : Slot) (f : Fill) : Slot :=
  let w := (encode f.msgs).take (min s.controllen s.ctrl.length)
  { ctrl := w ++ s.ctrl.drop w.length, controllen := w.length }

/-- `parseRecvCmsg(&msgs[i].Hdr)`: `unsafe.Slice(hdr.Control, hdr.Controllen)` of the slot. -/
def parseSlot (s : Slot) : R := parse false (s.ctrl.take s.controllen)

/-- One read that fills this slot, in the code's order: arm, read, parse with the kernel-reported
length, deliver.  Result: the slot afterwards and the pieces handed to the callback. -/
def listenStep (s : Slot) (f : Fill) : Slot × List (List UInt8) :=
  let s2 := kernelRead (arm s) f
  match parseSlot s2 with
  | .gso g _ => (s2, deliver f.payload g)
  | .oob => (s2, [])

/-- A history of reads on one slot. -/
def listenRun (s : Slot) : List Fill → Slot × List (List UInt8)
  | [] => (s, [])
  | f :: fs =>
    let r := listenStep s f
    let r' := listenRun r.1 fs
    (r'.1, r.2 ++ r'.2)

/-- One `recvmmsg` batch over all slots: the kernel fills slots `0 .. fills.length-1` (`n ≤ len(msgs)`),
every slot is armed, the filled ones are parsed and delivered in index order. -/
def listenBatch : List Slot → List Fill → List Slot × List (List UInt8)
  | [], _ => ([], [])
  | s :: ss, [] => (arm s :: (listenBatch ss []).1, [])
  | s :: ss, f :: fs =>
    let r := listenStep s f
    let r' := listenBatch ss fs
    (r.1 :: r'.1, r.2 ++ r'.2)

/-- The `for { … }` loop over a history of batches. -/
def listenOut (ss : List Slot) : List (List Fill) → List Slot × List (List UInt8)
  | [] => (ss, [])
  | b :: bs =>
    let r := listenBatch ss b
    let r' := listenOut r.1 bs
    (r'.1, r.2 ++ r'.2)

/-! ### A counter-model — NOT the code

The order "read, then re-arm the filled slot, then parse" (the kernel-reported `Controllen` is thrown
away).  Kept only so that `Props/C27Listen` can show that the theorems distinguish the two orders. -/
def listenStepRearmAfterRead (s : Slot) (f : Fill) : Slot × List (List UInt8) :=
  let s2 := arm (kernelRead s f)
  match parseSlot s2 with
  | .gso g _ => (s2, deliver f.payload g)
  | .oob => (s2, [])

end Nebula.Udprecv
