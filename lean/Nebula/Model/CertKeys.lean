/-
Model of the structural layer of `cert/pem.go` (key PEM banners, per-curve length checks) and
`cert/crypto.go` (`EncryptAndMarshalSigningPrivateKey`, `DecryptAndUnmarshalSigningPrivateKey`,
`UnmarshalNebulaEncryptedData`, `unmarshalArgon2Parameters`, nonce ‖ ciphertext framing). PEM framing is an
opaque pair (banner, bytes); Argon2id and AES-256-GCM are a structure with laws as fields (`KeyCrypto`).
Banners come from the regenerated constants. Core Lean only.
-/
import Nebula.Base.CertPb
import Nebula.Model.Cert

namespace Nebula.CertKeys
open Nebula.Cert Nebula.CertPb

abbrev Bytes := List UInt8

/-! ### key PEM banners -/

inductive KeyErr where
  | banner | length | encrypted
  deriving DecidableEq, Repr

/-- `UnmarshalPublicKeyFromPEM` on a decoded block: ECDH public keys. -/
def unmarshalPublicKey (banner : String) (b : Bytes) : Except KeyErr (Bytes × Nat) :=
  if banner = Gen.cert_X25519PublicKeyBanner then (if b.length = 32 then .ok (b, curve25519) else .error .length)
  else if banner = Gen.cert_P256PublicKeyBanner then (if b.length = 65 then .ok (b, curveP256) else .error .length)
  else .error .banner

/-- `UnmarshalSigningPublicKeyFromPEM`. -/
def unmarshalSigningPublicKey (banner : String) (b : Bytes) : Except KeyErr (Bytes × Nat) :=
  if banner = Gen.cert_Ed25519PublicKeyBanner then (if b.length = 32 then .ok (b, curve25519) else .error .length)
  else if banner = Gen.cert_ECDSAP256PublicKeyBanner then (if b.length = 65 then .ok (b, curveP256) else .error .length)
  else .error .banner

/-- `UnmarshalPrivateKeyFromPEM`. -/
def unmarshalPrivateKey (banner : String) (b : Bytes) : Except KeyErr (Bytes × Nat) :=
  if banner = Gen.cert_X25519PrivateKeyBanner then (if b.length = 32 then .ok (b, curve25519) else .error .length)
  else if banner = Gen.cert_P256PrivateKeyBanner then (if b.length = 32 then .ok (b, curveP256) else .error .length)
  else .error .banner

/-- `UnmarshalSigningPrivateKeyFromPEM`. -/
def unmarshalSigningPrivateKey (banner : String) (b : Bytes) : Except KeyErr (Bytes × Nat) :=
  if banner = Gen.cert_EncryptedEd25519PrivateKeyBanner then .error .encrypted
  else if banner = Gen.cert_EncryptedECDSAP256PrivateKeyBanner then .error .encrypted
  else if banner = Gen.cert_Ed25519PrivateKeyBanner then (if b.length = 64 then .ok (b, curve25519) else .error .length)
  else if banner = Gen.cert_ECDSAP256PrivateKeyBanner then (if b.length = 32 then .ok (b, curveP256) else .error .length)
  else .error .banner

/-- banner chosen by the four `Marshal…ToPEM` functions (`none` = unknown curve, the functions return nil). -/
def publicKeyBanner (curve : Nat) : Option String :=
  if curve = curve25519 then some Gen.cert_X25519PublicKeyBanner
  else if curve = curveP256 then some Gen.cert_P256PublicKeyBanner else none
def signingPublicKeyBanner (curve : Nat) : Option String :=
  if curve = curve25519 then some Gen.cert_Ed25519PublicKeyBanner
  else if curve = curveP256 then some Gen.cert_ECDSAP256PublicKeyBanner else none
def privateKeyBanner (curve : Nat) : Option String :=
  if curve = curve25519 then some Gen.cert_X25519PrivateKeyBanner
  else if curve = curveP256 then some Gen.cert_P256PrivateKeyBanner else none
def signingPrivateKeyBanner (curve : Nat) : Option String :=
  if curve = curve25519 then some Gen.cert_Ed25519PrivateKeyBanner
  else if curve = curveP256 then some Gen.cert_ECDSAP256PrivateKeyBanner else none
def encryptedKeyBanner (curve : Nat) : Option String :=
  if curve = curve25519 then some Gen.cert_EncryptedEd25519PrivateKeyBanner
  else if curve = curveP256 then some Gen.cert_EncryptedECDSAP256PrivateKeyBanner else none

/-! ### encrypted signing keys -/

/-- `RawNebulaArgon2Parameters` (values as decoded: `version` is an int32, the others uint32). -/
structure Argon where
  version : Int := 0
  memory : Nat := 0
  parallelism : Nat := 0
  iterations : Nat := 0
  salt : Bytes := []
  deriving DecidableEq, Repr

structure Metadata where
  algorithm : Bytes := []
  argon : Option Argon := none
  deriving DecidableEq, Repr

structure EncData where
  metadata : Option Metadata := none
  ciphertext : Bytes := []
  deriving DecidableEq, Repr

/-- `argon2.Version`. -/
def argonVersion : Int := 0x13

/-- the bytes of "AES-256-GCM". -/
def algAES : Bytes := [65, 69, 83, 45, 50, 53, 54, 45, 71, 67, 77]

def nonceSize : Nat := 12

/-- Argon2id (`kdf passphrase params`) and AES-256-GCM (`aeadSeal key nonce plaintext`, `aeadOpen key nonce
ciphertext`) as uninterpreted functions. -/
structure KeyCrypto where
  kdf : Bytes → Argon → Bytes
  aeadSeal : Bytes → Bytes → Bytes → Bytes
  aeadOpen : Bytes → Bytes → Bytes → Option Bytes

/-- … with the laws the theorems use as fields: opening what was sealed under the same key and nonce gives the
plaintext back, and AES-GCM appends a 16-byte tag. (Authenticity — nothing else opens — is an explicit
hypothesis about the key and nonce at hand in the theorems that need it: as a law over *all* keys it would
be unsatisfiable.) -/
structure LawfulKeyCrypto extends KeyCrypto where
  open_of_seal : ∀ k n m, aeadOpen k n (aeadSeal k n m) = some m
  seal_length : ∀ k n m, (aeadSeal k n m).length = m.length + 16

def encArgon (a : Argon) : Bytes :=
  (if a.version = 0 then [] else encVarintField 1 (int64ToU a.version)) ++
  (if a.memory % 2 ^ 32 = 0 then [] else encVarintField 2 (a.memory % 2 ^ 32)) ++
  (if a.iterations % 2 ^ 32 = 0 then [] else encVarintField 3 (a.iterations % 2 ^ 32)) ++
  (if a.parallelism % 2 ^ 32 = 0 then [] else encVarintField 4 (a.parallelism % 2 ^ 32)) ++
  (if a.salt.isEmpty then [] else encBytesField 5 a.salt)

def encMetadata (m : Metadata) : Bytes :=
  (if m.algorithm.isEmpty then [] else encBytesField 1 m.algorithm) ++
  (match m.argon with | some a => encBytesField 2 (encArgon a) | none => [])

/-- `proto.Marshal(&RawNebulaEncryptedData{…})`. -/
def encEncData (d : EncData) : Bytes :=
  (match d.metadata with | some m => encBytesField 1 (encMetadata m) | none => []) ++
  (if d.ciphertext.isEmpty then [] else encBytesField 2 d.ciphertext)

def decArgon : Nat → Argon → Bytes → Option Argon
  | 0, _, _ => none
  | fuel + 1, a, s =>
    if s.isEmpty then some a else
    match decTag s with
    | none => none
    | some (num, wt, rest) =>
      if wt == 4 then none else
      let unknown := fun (_ : Unit) => match skipValue (fuel + 1) num wt rest with
        | none => none
        | some r => decArgon fuel a r
      let vint (k : Nat → Argon) := match decVarint rest with
        | none => none
        | some (v, r) => decArgon fuel (k v) r
      if num == 1 && wt == 0 then vint (fun v => { a with version := uToInt32 v })
      else if num == 2 && wt == 0 then vint (fun v => { a with memory := v % 2 ^ 32 })
      else if num == 3 && wt == 0 then vint (fun v => { a with iterations := v % 2 ^ 32 })
      else if num == 4 && wt == 0 then vint (fun v => { a with parallelism := v % 2 ^ 32 })
      else if num == 5 && wt == 2 then
        match decBytes rest with
        | none => none
        | some (v, r) => decArgon fuel { a with salt := v } r
      else unknown ()

def decMetadata : Nat → Metadata → Bytes → Option Metadata
  | 0, _, _ => none
  | fuel + 1, m, s =>
    if s.isEmpty then some m else
    match decTag s with
    | none => none
    | some (num, wt, rest) =>
      if wt == 4 then none else
      if num == 1 && wt == 2 then
        match decBytes rest with
        | none => none
        | some (v, r) => if utf8Valid v then decMetadata fuel { m with algorithm := v } r else none
      else if num == 2 && wt == 2 then
        match decBytes rest with
        | none => none
        | some (v, r) => match decArgon (v.length + 1) (m.argon.getD {}) v with
          | none => none
          | some a => decMetadata fuel { m with argon := some a } r
      else match skipValue (fuel + 1) num wt rest with
        | none => none
        | some r => decMetadata fuel m r

def decEncData : Nat → EncData → Bytes → Option EncData
  | 0, _, _ => none
  | fuel + 1, d, s =>
    if s.isEmpty then some d else
    match decTag s with
    | none => none
    | some (num, wt, rest) =>
      if wt == 4 then none else
      if num == 1 && wt == 2 then
        match decBytes rest with
        | none => none
        | some (v, r) => match decMetadata (v.length + 1) (d.metadata.getD {}) v with
          | none => none
          | some m => decEncData fuel { d with metadata := some m } r
      else if num == 2 && wt == 2 then
        match decBytes rest with
        | none => none
        | some (v, r) => decEncData fuel { d with ciphertext := v } r
      else match skipValue (fuel + 1) num wt rest with
        | none => none
        | some r => decEncData fuel d r

inductive DecErr where
  | pem | banner | empty | proto | noMetadata | noArgon | version | memory | parallelism | iterations
  | algorithm | argonVersion | saltMissing | saltShort | blobShort | aead | keyLength
  deriving DecidableEq, Repr

/-- `unmarshalArgon2Parameters`: range checks (the int32 / uint32 upper bounds cannot fail after decoding). -/
def checkArgon (a : Argon) : Option DecErr :=
  if a.memory = 0 then some .memory
  else if a.parallelism = 0 ∨ a.parallelism > 255 then some .parallelism
  else if a.iterations = 0 then some .iterations
  else none

/-- the per-curve length check on the decrypted bytes. -/
def keyLengthOK (curve : Nat) (key : Bytes) : Bool :=
  !((curve = curve25519 ∧ key.length ≠ 64) ∨ (curve = curveP256 ∧ key.length ≠ 32))

/-- `DecryptAndUnmarshalSigningPrivateKey` after the protobuf message has been decoded. -/
def decryptMsg (K : KeyCrypto) (passphrase : Bytes) (curve : Nat) (d : EncData) : Except DecErr (Nat × Bytes) :=
  match d.metadata with
  | none => .error .noMetadata
  | some md =>
    match md.argon with
    | none => .error .noArgon
    | some a =>
      match checkArgon a with
      | some e => .error e
      | none =>
        if md.algorithm ≠ algAES then .error .algorithm
        else if a.version ≠ argonVersion then .error .argonVersion
        -- an absent salt is replaced by a fresh random one inside aes256DeriveKey: the key cannot match
        else if a.salt.length = 0 then (if d.ciphertext.length ≤ nonceSize then .error .blobShort else .error .aead)
        else if a.salt.length < 16 then .error .saltShort
        else if d.ciphertext.length ≤ nonceSize then .error .blobShort
        else
          match K.aeadOpen (K.kdf passphrase a) (d.ciphertext.take nonceSize) (d.ciphertext.drop nonceSize) with
          | none => .error .aead
          | some key => if keyLengthOK curve key then .ok (curve, key) else .error .keyLength

def bannerCurve (banner : String) : Option Nat :=
  if banner = Gen.cert_EncryptedEd25519PrivateKeyBanner then some curve25519
  else if banner = Gen.cert_EncryptedECDSAP256PrivateKeyBanner then some curveP256 else none

/-- `DecryptAndUnmarshalSigningPrivateKey` on a decoded PEM block (`banner`, `body`). -/
def decrypt (K : KeyCrypto) (passphrase : Bytes) (banner : String) (body : Bytes) : Except DecErr (Nat × Bytes) :=
  match bannerCurve banner with
  | none => .error .banner
  | some curve =>
    if body.length = 0 then .error .empty else
    match decEncData (body.length + 1) {} body with
    | none => .error .proto
    | some d => decryptMsg K passphrase curve d

/-- `EncryptAndMarshalSigningPrivateKey` for given random nonce and (already present or fresh) salt: the banner
and the PEM body; `none` = invalid curve / KDF refusal (wrong Argon2 version, short salt). -/
def encrypt (K : KeyCrypto) (curve : Nat) (key passphrase : Bytes) (a : Argon) (nonce : Bytes) : Option (String × Bytes) :=
  if a.version ≠ argonVersion ∨ a.salt.length < 16 then none else
  match encryptedKeyBanner curve with
  | none => none
  | some banner =>
    let blob := nonce ++ K.aeadSeal (K.kdf passphrase a) nonce key
    some (banner, encEncData { metadata := some { algorithm := algAES, argon := some a }, ciphertext := blob })

end Nebula.CertKeys
