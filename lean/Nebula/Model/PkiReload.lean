/-
Model of `pki.go`: `newCertStateFromConfig` (key, certificate list, initiating version), `loadCertificate`,
`newCertState` (v1/v2 pair checks, key checks), `PKI.reloadCerts` (the reload guards), `loadCAPoolFromConfig`
and `PKI.reloadCAPool`. A configuration is what the loaders extract from the YAML: the private key's curve,
the decoded certificates in file order with the outcome of `VerifyPrivateKey`, the configured initiating
version, the decoded CA bundle and the blocklist. Decoding itself is C03; key/certificate matching and
signatures are oracle bits. Core Lean only.
-/
import Nebula.Model.CAPool

namespace Nebula.Pki
open Nebula.Net Nebula.Cert

/-- one certificate of `pki.cert`, with `VerifyPrivateKey(keyCurve, key) == nil`. -/
structure CertIn where
  cert : Cert
  keyOK : Bool
  deriving Repr

/-- one certificate of `pki.ca`, with its fingerprint and self-signature check. -/
structure CAIn where
  cert : Cert
  fp : String
  selfSig : Bool
  deriving Repr

structure Config where
  /-- `loadPrivateKey` succeeded. -/
  keyOK : Bool
  /-- `pki.cert`: `none` = empty / unreadable / a block that does not decode. -/
  certs : Option (List CertIn)
  /-- `pki.initiating_version` if configured. -/
  initVer : Option Nat
  /-- `pki.ca`: `none` = empty / unreadable / a block that does not decode. -/
  cas : Option (List CAIn)
  blocklist : List String
  deriving Repr

structure CertState where
  v1 : Option Cert
  v2 : Option Cert
  initiating : Nat
  /-- `myVpnNetworks`: the v2 certificate's networks, else the v1 certificate's. -/
  networks : List Prefix
  deriving DecidableEq, Repr

/-- the curve shared by the certificates of a state. -/
def CertState.curve (s : CertState) : Nat :=
  match s.v2, s.v1 with
  | some c, _ => c.curve
  | none, some c => c.curve
  | none, none => 0

inductive LoadErr where
  | key | certFile | expired | noNetworks | isCA | dupV1 | dupV2 | unknownVersion | noCerts
  | initVerNeedsV1 | initVerUnknown
  | pairKey | pairCurve | pairNetwork | keyMismatch | curveUnsupported
  | v1Networks | v1Curve | v2Networks | v2Curve | removeV2Networks | removeV2Curve | v1ToV2Networks | v1ToV2Curve
  deriving DecidableEq, Repr

/-- the `for` loop of `newCertStateFromConfig` over the PEM blocks: `loadCertificate` checks, then the
version slots. -/
def collect (now : Int) : List CertIn → Option CertIn → Option CertIn → Except LoadErr (Option CertIn × Option CertIn)
  | [], v1, v2 => .ok (v1, v2)
  | c :: rest, v1, v2 =>
    if c.cert.expired now then .error .expired
    else if c.cert.networks.length == 0 then .error .noNetworks
    else if c.cert.isCA then .error .isCA
    else if c.cert.version = 1 then (if v1.isSome then .error .dupV1 else collect now rest (some c) v2)
    else if c.cert.version = 2 then (if v2.isSome then .error .dupV2 else collect now rest v1 (some c))
    else .error .unknownVersion

/-- `newCertState(dv, v1, v2, …)`. -/
def newCertState (dv : Nat) (v1 v2 : Option CertIn) : Except LoadErr CertState :=
  let pair : Option LoadErr :=
    match v1, v2 with
    | some a, some b =>
      if a.cert.publicKey ≠ b.cert.publicKey then some .pairKey
      else if a.cert.curve ≠ b.cert.curve then some .pairCurve
      else if a.cert.networks.head? ≠ b.cert.networks.head? then some .pairNetwork
      else none
    | _, _ => none
  match pair with
  | some e => .error e
  | none =>
    let chk (c : Option CertIn) : Option LoadErr :=
      match c with
      | some c => if !c.keyOK then some .keyMismatch
                  else if c.cert.curve ≠ curve25519 ∧ c.cert.curve ≠ curveP256 then some .curveUnsupported else none
      | none => none
    match chk v1 with
    | some e => .error e
    | none =>
      match chk v2 with
      | some e => .error e
      | none =>
        let iv := if v1.isSome ∧ v2.isSome then dv else if v1.isSome then 1 else 2
        let nets := match v2, v1 with
          | some c, _ => c.cert.networks
          | none, some c => c.cert.networks
          | none, none => []
        .ok { v1 := v1.map (·.cert), v2 := v2.map (·.cert), initiating := iv, networks := nets }

/-- `newCertStateFromConfig`. -/
def loadState (now : Int) (cfg : Config) : Except LoadErr CertState :=
  if !cfg.keyOK then .error .key else
  match cfg.certs with
  | none => .error .certFile
  | some [] => .error .certFile
  | some cs =>
    match collect now cs none none with
    | .error e => .error e
    | .ok (v1, v2) =>
      if v1.isNone ∧ v2.isNone then .error .noCerts else
      let dflt := if v1.isNone then 2 else 1
      let raw := cfg.initVer.getD dflt
      if raw = 1 then (if v1.isNone then .error .initVerNeedsV1 else newCertState 1 v1 v2)
      else if raw = 2 then newCertState 2 v1 v2
      else .error .initVerUnknown

/-- the guards of `reloadCerts` between the state in use and the freshly loaded one. -/
def reloadGuards (cur new : CertState) : Option LoadErr :=
  let g1 : Option LoadErr :=
    match new.v1, cur.v1 with
    | some n, some c => if c.networks ≠ n.networks then some .v1Networks
                        else if c.curve ≠ n.curve then some .v1Curve else none
    | _, _ => none
  match g1 with
  | some e => some e
  | none =>
    match new.v2, cur.v2 with
    | some n, some c => if c.networks ≠ n.networks then some .v2Networks
                        else if c.curve ≠ n.curve then some .v2Curve else none
    | some n, none =>
      -- a v2 certificate appears: fine next to a v1 one (pair checks); *replacing* a lone v1 certificate
      -- must keep networks and curve
      match new.v1, cur.v1 with
      | none, some c => if c.networks ≠ n.networks then some .v1ToV2Networks
                        else if c.curve ≠ n.curve then some .v1ToV2Curve else none
      | _, _ => none
    | none, some c =>
      match new.v1 with
      | none => some .noCerts
      | some n => if c.networks ≠ n.networks then some .removeV2Networks
                  else if c.curve ≠ n.curve then some .removeV2Curve else none
    | none, none => none

/-- `reloadCerts(c, initial)`: the new state in use, or the error (state unchanged). -/
def reloadCerts (now : Int) (cur : Option CertState) (cfg : Config) : Except LoadErr CertState :=
  match loadState now cfg with
  | .error e => .error e
  | .ok new =>
    match cur with
    | none => .ok new
    | some cur =>
      match reloadGuards cur new with
      | some e => .error e
      | none => .ok new

inductive CAErr where
  | caFile | addFailed | allExpired
  deriving DecidableEq, Repr

/-- `NewCAPoolFromPEMReader` loop + the expiry accounting of `loadCAPoolFromConfig`, then the blocklist. -/
def loadCAPool (now : Int) (cfg : Config) : Except CAErr Pool :=
  match cfg.cas with
  | none => .error .caFile
  | some cas =>
    let step (acc : Except CAErr (Pool × Bool)) (ca : CAIn) : Except CAErr (Pool × Bool) :=
      match acc with
      | .error e => .error e
      | .ok (p, expired) =>
        let K : Crypto := { fingerprint := fun _ => some ca.fp, altFingerprint := fun _ => some "",
                            checkSig := fun _ _ => ca.selfSig }
        match p.addCA K now ca.cert with
        | (p', none) => .ok (p', expired)
        | (p', some .expired) => .ok (p', true)
        | (_, some _) => .error .addFailed
    match cas.foldl step (.ok ({}, false)) with
    | .error e => .error e
    | .ok (p, expired) =>
      let nExpired := (p.cas.filter (fun e => e.2.expired now)).length
      if expired ∧ nExpired ≥ p.cas.length then .error .allExpired
      else .ok (cfg.blocklist.foldl (fun p fp => p.blocklist fp) p)

structure PKI where
  cs : Option CertState := none
  pool : Option Pool := none

/-- `PKI.reload(c, initial)`: certificates first, then the CA pool; on the initial load the first error
aborts, on a reload every part that fails is logged and keeps its previous value. Returns the two outcomes. -/
def PKI.reload (now : Int) (p : PKI) (cfg : Config) (initial : Bool) :
    PKI × Option LoadErr × Option (Option CAErr) :=
  match reloadCerts now (if initial then none else p.cs) cfg with
  | .error e =>
    if initial then (p, some e, none)
    else match loadCAPool now cfg with
      | .error ce => (p, some e, some (some ce))
      | .ok pool => ({ p with pool := some pool }, some e, some none)
  | .ok cs =>
    let p := { p with cs := some cs }
    match loadCAPool now cfg with
    | .error ce => (p, none, some (some ce))
    | .ok pool => ({ p with pool := some pool }, none, some none)

end Nebula.Pki
