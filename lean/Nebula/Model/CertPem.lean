/-
Model of the PEM armour of certificates (C03): `cert/pem.go` (`UnmarshalCertificateFromPEM`,
`unmarshalCertificateBlock`, `MarshalPEM` of both certificate versions) on top of a line-by-line model of the Go
standard library's `encoding/pem` (`Encode`, `Decode`, `getLine`, `removeSpacesAndTabs`, the 64-column
`lineBreaker`) and of `encoding/base64` `StdEncoding` (`Encode`, the non-strict padded `Decode` that skips CR/LF).

`pemDecode` follows `pem.Decode` statement by statement, including its retry loop (`continue`), the signed index
arithmetic (`endIndex`, `endTrailerIndex` go negative) and the header loop; the only abstraction is that the
header map is reduced to "was a header line consumed" (nebula never reads `Block.Headers`). A slice expression
whose index would be out of range is the explicit outcome `.panic`. Banners are the regenerated constants
(`Gen.cert_CertificateBanner`, `Gen.cert_CertificateV2Banner`). Core Lean only.
-/
import Nebula.Model.CertV1
import Nebula.Model.CertV2

namespace Nebula.CertPem
open Nebula.Cert

/-- the bytes of an ASCII string constant (all banners are ASCII; `decide`-friendly, unlike `String.toUTF8`). -/
def asBytes (s : String) : Bytes := s.toList.map (fun c => UInt8.ofNat c.toNat)

/-! ### encoding/base64, `StdEncoding` -/

/-- the alphabet `A–Z a–z 0–9 + /` (argument < 64). -/
def b64Char (n : Nat) : UInt8 :=
  if n < 26 then UInt8.ofNat (65 + n)
  else if n < 52 then UInt8.ofNat (71 + n)
  else if n < 62 then UInt8.ofNat (n - 4)
  else if n = 62 then 43 else 47

/-- `decodeMap`: the 6-bit value of an alphabet character, `none` = 0xff. -/
def b64Val (c : UInt8) : Option Nat :=
  let n := c.toNat
  if 65 ≤ n ∧ n ≤ 90 then some (n - 65)
  else if 97 ≤ n ∧ n ≤ 122 then some (n - 71)
  else if 48 ≤ n ∧ n ≤ 57 then some (n + 4)
  else if n = 43 then some 62
  else if n = 47 then some 63
  else none

/-- `StdEncoding.Encode`: three bytes to four characters, `=` padding. -/
def b64Enc : Bytes → Bytes
  | [] => []
  | [a] => [b64Char (a.toNat / 4), b64Char (a.toNat % 4 * 16), 61, 61]
  | [a, b] => [b64Char (a.toNat / 4), b64Char (a.toNat % 4 * 16 + b.toNat / 16), b64Char (b.toNat % 16 * 4), 61]
  | a :: b :: c :: rest =>
    b64Char (a.toNat / 4) :: b64Char (a.toNat % 4 * 16 + b.toNat / 16) :: b64Char (b.toNat % 16 * 4 + c.toNat / 64) ::
      b64Char (c.toNat % 64) :: b64Enc rest

/-- `StdEncoding.Decode` on input without CR/LF: quanta of four characters; padding only in the last quantum
(`xx==`, `xxx=`) with nothing after it; an incomplete quantum is an error; non-strict, so the unused low bits of
the last character are ignored. `none` = `CorruptInputError`. -/
def b64DecQ : Bytes → Option Bytes
  | [] => some []
  | a :: b :: c :: d :: rest =>
    match b64Val a, b64Val b with
    | some x, some y =>
      if c = 61 then (if d = 61 ∧ rest = [] then some [UInt8.ofNat (x * 4 + y / 16)] else none)
      else match b64Val c with
        | none => none
        | some z =>
          if d = 61 then
            (if rest = [] then some [UInt8.ofNat (x * 4 + y / 16), UInt8.ofNat (y % 16 * 16 + z / 4)] else none)
          else match b64Val d with
            | none => none
            | some w =>
              match b64DecQ rest with
              | none => none
              | some r => some (UInt8.ofNat (x * 4 + y / 16) :: UInt8.ofNat (y % 16 * 16 + z / 4) :: UInt8.ofNat (z % 4 * 64 + w) :: r)
    | _, _ => none
  | _ => none

/-- `decodeQuantum` skips `\r` and `\n` wherever they stand (also between and after padding characters). -/
def notCRLF (c : UInt8) : Bool := c != 10 && c != 13

def b64Dec (s : Bytes) : Option Bytes := b64DecQ (s.filter notCRLF)

/-! ### encoding/pem -/

/-- `lineBreaker`: a `\n` after every 64th character, and after a last partial line (`col` = characters on the
current line so far). -/
def wrapGo : Nat → Bytes → Bytes
  | col, [] => if col = 0 then [] else [10]
  | col, c :: t => if col + 1 = 64 then c :: 10 :: wrapGo 0 t else c :: wrapGo (col + 1) t

def pemBegin : Bytes := [45, 45, 45, 45, 45, 66, 69, 71, 73, 78, 32]     -- "-----BEGIN "
def pemEndNl : Bytes := [10, 45, 45, 45, 45, 45, 69, 78, 68, 32]         -- "\n-----END "
def pemEnd : Bytes := [45, 45, 45, 45, 45, 69, 78, 68, 32]               -- "-----END "
def dashes5 : Bytes := [45, 45, 45, 45, 45]                               -- "-----"

/-- `pem.EncodeToMemory(&pem.Block{Type: ty, Bytes: b})` (no headers: nebula never sets any). -/
def pemEncode (ty b : Bytes) : Bytes :=
  pemBegin ++ ty ++ dashes5 ++ [10] ++ wrapGo 0 (b64Enc b) ++ pemEnd ++ ty ++ dashes5 ++ [10]

/-- `bytes.Index`. -/
def indexOf (pat : Bytes) : Bytes → Option Nat
  | [] => if pat.isEmpty then some 0 else none
  | c :: t => if pat.isPrefixOf (c :: t) then some 0 else (indexOf pat t).map (· + 1)

/-- `bytes.LastIndex` (non-empty pattern). -/
def lastIndexOf (pat : Bytes) : Bytes → Option Nat
  | [] => none
  | c :: t =>
    match lastIndexOf pat t with
    | some i => some (i + 1)
    | none => if pat.isPrefixOf (c :: t) then some 0 else none

/-- split at the first `\n`: the bytes before it, and what follows it if there is one. -/
def splitNl : Bytes → Bytes × Option Bytes
  | [] => ([], none)
  | c :: t => if c = 10 then ([], some t) else ((splitNl t).1.cons c, (splitNl t).2)

def isSpTab (c : UInt8) : Bool := c == 32 || c == 9

/-- `bytes.TrimRight(s, " \t")`. -/
def trimRightSpTab (l : Bytes) : Bytes := (l.reverse.dropWhile isSpTab).reverse

/-- `getLine`: the first line without its `\n` / `\r\n` and without trailing blanks, the rest, and the number of
bytes consumed. -/
def getLine (data : Bytes) : Bytes × Bytes × Nat :=
  match splitNl data with
  | (a, none) => (trimRightSpTab a, [], data.length)
  | (a, some r) =>
    let a' := if a.getLast? = some 13 then a.dropLast else a
    (trimRightSpTab a', r, a.length + 1)

/-- `removeSpacesAndTabs`. -/
def removeSpTab (l : Bytes) : Bytes := l.filter (fun c => !isSpTab c)

/-- `pem.Block`; of `Headers` only `len(Headers) > 0` is kept (nebula never reads them: a block with headers is
read like one without). -/
structure Block where
  ty : Bytes
  hdr : Bool
  bytes : Bytes
  deriving DecidableEq, Repr

inductive DecodeResult where
  /-- `p != nil`: the block and the rest. -/
  | block (b : Block) (rest : Bytes)
  /-- `p == nil`: "the whole of the input is returned in rest". -/
  | noBlock (data : Bytes)
  /-- a slice bound out of range (never reached; kept explicit). -/
  | panic
  deriving DecidableEq, Repr

/-- the header loop of `Decode`: consume `Key: value` lines. `none` = `len(rest) == 0` (`return nil, data`);
otherwise the remaining input, the two adjusted indices and whether a header was consumed. -/
def headerLoop : Nat → Bytes → Int → Int → Bool → Option (Bytes × Int × Int × Bool)
  | 0, _, _, _, _ => none
  | fuel + 1, rest, endIndex, eti, has =>
    if rest.isEmpty then none
    else
      let (line, next, consumed) := getLine rest
      if line.contains 58 then headerLoop fuel next (endIndex - consumed) (eti - consumed) true
      else some (rest, endIndex, eti, has)

/-- the part of one pass of `Decode` after the header loop: the END line must repeat the type and end in five
dashes with only blanks after them, the body must be base64. `none` = `continue`. -/
def finishBlock (ty rest : Bytes) (endIndex eti : Int) (has : Bool) : Option DecodeResult :=
  if has ∧ endIndex < 0 then none
  else if eti < 0 ∨ eti > rest.length then some .panic
  else
    let endTrailer := rest.drop eti.toNat
    let etl := ty.length + 5
    if endTrailer.length < etl then none
    else
      let restOfEndLine := endTrailer.drop etl
      let endTrailer := endTrailer.take etl
      if !(ty.isPrefixOf endTrailer && dashes5.isSuffixOf endTrailer) then none
      else if !(getLine restOfEndLine).1.isEmpty then none
      else
        let bytes : Option Bytes :=
          if endIndex > 0 then b64Dec (removeSpTab (rest.take endIndex.toNat)) else some []
        match bytes with
        | none => none
        | some b =>
          if endIndex + 9 < 0 ∨ endIndex + 9 > rest.length then some .panic
          else some (.block ⟨ty, has, b⟩ (getLine (rest.drop (endIndex + 9).toNat)).2.1)

/-- the retry loop of `Decode` (`fuel` bounds the number of `continue`s; each one advances past an END marker). -/
def decodeLoop : Nat → Bytes → Bytes → Int → DecodeResult
  | 0, data, _, _ => .noBlock data
  | fuel + 1, data, rest, eti =>
    if eti < 0 ∨ eti > rest.length then .noBlock data
    else
      let rest := rest.drop eti.toNat
      match indexOf pemEndNl rest with
      | none => .noBlock data
      | some endIndexN =>
        let eti : Int := endIndexN + 10
        match lastIndexOf pemBegin (rest.take endIndexN) with
        | none => decodeLoop fuel data rest eti
        | some bi =>
          if bi > 0 ∧ rest[bi - 1]? ≠ some 10 then decodeLoop fuel data rest eti
          else
            let rest := rest.drop (bi + 11)
            let endIndex : Int := (endIndexN : Int) - (bi + 11)
            let eti := eti - (bi + 11)
            let (typeLine, rest, consumed) := getLine rest
            let endIndex := endIndex - consumed
            let eti := eti - consumed
            if !dashes5.isSuffixOf typeLine then decodeLoop fuel data rest eti
            else
              let ty := typeLine.take (typeLine.length - 5)
              match headerLoop (rest.length + 1) rest endIndex eti false with
              | none => .noBlock data
              | some (rest, endIndex, eti, has) =>
                match finishBlock ty rest endIndex eti has with
                | none => decodeLoop fuel data rest eti
                | some r => r

/-- `pem.Decode`. -/
def pemDecode (data : Bytes) : DecodeResult := decodeLoop (data.length + 1) data data 0

/-! ### cert/pem.go -/

def bannerV1 : Bytes := asBytes Gen.cert_CertificateBanner
def bannerV2 : Bytes := asBytes Gen.cert_CertificateV2Banner

/-- what a nebula PEM block holds (cert/pem.go's three banner groups). -/
inductive BlockKind where
  | certV1 | certV2
  | x25519Private | x25519Public | p256Private | p256Public
  | ecdsaP256EncryptedPrivate | ecdsaP256Private | ecdsaP256Public
  | ed25519EncryptedPrivate | ed25519Private | ed25519Public
  deriving DecidableEq, Repr

/-- the banner table of cert/pem.go: every banner constant (regenerated) and the kind of block it announces. -/
def bannerTable : List (String × BlockKind) :=
  [(Gen.cert_CertificateBanner, .certV1), (Gen.cert_CertificateV2Banner, .certV2),
   (Gen.cert_X25519PrivateKeyBanner, .x25519Private), (Gen.cert_X25519PublicKeyBanner, .x25519Public),
   (Gen.cert_P256PrivateKeyBanner, .p256Private), (Gen.cert_P256PublicKeyBanner, .p256Public),
   (Gen.cert_EncryptedECDSAP256PrivateKeyBanner, .ecdsaP256EncryptedPrivate),
   (Gen.cert_ECDSAP256PrivateKeyBanner, .ecdsaP256Private), (Gen.cert_ECDSAP256PublicKeyBanner, .ecdsaP256Public),
   (Gen.cert_EncryptedEd25519PrivateKeyBanner, .ed25519EncryptedPrivate),
   (Gen.cert_Ed25519PrivateKeyBanner, .ed25519Private), (Gen.cert_Ed25519PublicKeyBanner, .ed25519Public)]

/-- the kind a block type announces (`none`: not a nebula banner). -/
def kindOf (ty : Bytes) : Option BlockKind := (bannerTable.find? (fun e => asBytes e.1 == ty)).map (·.2)

inductive PemErr where
  | invalidPEMBlock | banner | v1 (e : V1.DecErr) | v2 (e : V2.DecErr) | panic
  deriving DecidableEq, Repr

/-- `unmarshalCertificateBlock`: dispatch on the banner. -/
def unmarshalCertificateBlock (b : Block) : Except PemErr Cert :=
  if b.ty = bannerV1 then
    match V1.unmarshal b.bytes [] with
    | .ok c => .ok c
    | .error e => .error (.v1 e)
  else if b.ty = bannerV2 then
    match V2.unmarshal b.bytes [] curve25519 with
    | .ok (c, _) => .ok c
    | .error e => .error (.v2 e)
  else .error .banner

/-- `UnmarshalCertificateFromPEM`: the first block of the input as a certificate, and the unconsumed rest (returned
in the error cases too). -/
def unmarshalCertificateFromPEM (data : Bytes) : Except PemErr Cert × Bytes :=
  match pemDecode data with
  | .noBlock r => (.error .invalidPEMBlock, r)
  | .panic => (.error .panic, [])
  | .block b r => (unmarshalCertificateBlock b, r)

/-- the standard encoding `Marshal()` of a certificate of either version (`none`: marshalling fails — v1 with
invalid UTF-8, v2 with a field that cannot be encoded — or unknown version). -/
def marshalStd (c : Cert) : Option Bytes :=
  if c.version = 1 then V1.marshal c c.publicKey
  else if c.version = 2 then (V2.encodeDetails c).map (fun rd => V2.marshal rd c.curve (some c.publicKey) c.signature)
  else none

/-- banner chosen by `MarshalPEM` of `certificateV1` / `certificateV2`. -/
def certBanner (version : Nat) : Bytes := if version = 1 then bannerV1 else bannerV2

/-- `Certificate.MarshalPEM()`. -/
def marshalPEM (c : Cert) : Option Bytes := (marshalStd c).map (pemEncode (certBanner c.version))

/-- reading a bundle the way `NewCAPoolFromPEM` / `nebula-cert print` do: `UnmarshalCertificateFromPEM` on the
rest until it is empty (`strings.TrimSpace(rest) == ""` in ca_pool.go is not modelled: the loop here stops at `[]`),
stopping at the first error. -/
def readBundle : Nat → Bytes → List Cert × Option PemErr
  | 0, _ => ([], none)
  | fuel + 1, data =>
    if data.isEmpty then ([], none)
    else match unmarshalCertificateFromPEM data with
      | (.error e, _) => ([], some e)
      | (.ok c, r) => let (cs, e) := readBundle fuel r; (c :: cs, e)

end Nebula.CertPem
