/-
Model of `batchWriter.sendmmsg` (udp/udp_linux_writebatch.go): the retry loop around the raw
`sendmmsg(2)` syscall that `WriteBatch` reaches through `w.sendFn`.  Core Lean only.

```go
const enobufsRetries = 3
for enobufs := 0; ; {
    r1, _, errno := unix.Syscall6(unix.SYS_SENDMMSG, …)
    switch {
    case errno == unix.EINTR:                                  continue
    case errno == unix.ENOBUFS && enobufs < enobufsRetries:    enobufs++; continue
    case errno != 0:                                           return int(r1), &net.OpError{Op: "sendmmsg", Err: errno}
    }
    return int(r1), nil
}
```

The kernel is a script of raw syscall results `(r1, errno)`.  EAGAIN (and every other errno) is *not*
retried.  The loop has no bound on EINTR: when the script is exhausted while the loop is still retrying, the
result is `spinning` — with a kernel that answers EINTR for ever the function never returns.
-/
namespace Nebula.Sendmmsg

inductive Errno where
  | ok | eintr | enobufs | eagain | eio | other
  deriving DecidableEq, Repr

structure Sys where
  r1 : Int
  errno : Errno
  deriving DecidableEq, Repr

inductive Res where
  /-- returned `(sent, err)` after `syscalls` raw syscalls (`err = ok` is a nil error) -/
  | ret (sent : Int) (err : Errno) (syscalls : Nat)
  /-- every scripted result was consumed by a retry; `syscalls` have been made so far -/
  | spinning (syscalls : Nat)
  deriving DecidableEq, Repr

def enobufsRetries : Nat := 3

/-- the loop, with `enobufs` ENOBUFS retries used and `calls` syscalls made so far. -/
def loop : List Sys → Nat → Nat → Res
  | [], _, calls => .spinning calls
  | o :: rest, enobufs, calls =>
    if o.errno = .eintr then loop rest enobufs (calls + 1)
    else if o.errno = .enobufs ∧ enobufs < enobufsRetries then loop rest (enobufs + 1) (calls + 1)
    else if o.errno ≠ .ok then .ret o.r1 o.errno (calls + 1)
    else .ret o.r1 .ok (calls + 1)

/-- `w.sendmmsg(start, n)` against a kernel that answers the successive raw syscalls with `script`. -/
def sendmmsg (script : List Sys) : Res := loop script 0 0

end Nebula.Sendmmsg
