/-
Model of `cert/p256/p256.go` on signature *encodings*: `parseSignature` (ASN.1 SEQUENCE of two positive
INTEGERs, nothing trailing), `IsNormalized`, `Normalize`, `Swap`, `encodeSignature`, on `Base/Der` and the
scalar model `Model/P256`. Core Lean only.
-/
import Nebula.Base.Der
import Nebula.Model.P256

namespace Nebula.P256
open Nebula.Der

/-- `parseSignature`: `(r, s)` as minimal big-endian byte strings. -/
def parseSignature (sig : Bytes) : Option (Bytes × Bytes) :=
  match readASN1 0x30 sig with
  | none => none
  | some (inner, rest) =>
    if !rest.isEmpty then none else
    match readIntegerBytes inner with
    | none => none
    | some (r, i2) =>
      match readIntegerBytes i2 with
      | none => none
      | some (s, i3) => if i3.isEmpty then some (r, s) else none

def dropZeros : Bytes → Bytes
  | b :: rest => if b == 0 then dropZeros rest else b :: rest
  | [] => []

/-- `addASN1IntBytes`: `none` = "invalid integer" (all zero). -/
def encPositiveInt (bs : Bytes) : Option Bytes :=
  match dropZeros bs with
  | [] => none
  | b :: rest => some (encTLV 0x02 (if b &&& 0x80 != 0 then 0 :: b :: rest else b :: rest))

def encodeSignature (r s : Bytes) : Option Bytes :=
  match encPositiveInt r, encPositiveInt s with
  | some a, some b => some (encTLV 0x30 (a ++ b))
  | _, _ => none

/-- `swap`: `N - S` as 32 bytes with leading zeros removed (one byte kept); `none` = `S ≥ N`. -/
def swapBytes (s : Bytes) : Option Bytes :=
  let v := beNat s
  if v ≥ N then none else some (stripZeros (beBytes 32 (swapS v)))

def isNormalized (sig : Bytes) : Option Bool :=
  match parseSignature sig with
  | none => none
  | some (_, s) => some (isLowS (beNat s))

def swap (sig : Bytes) : Option Bytes :=
  match parseSignature sig with
  | none => none
  | some (r, s) => match swapBytes s with
    | none => none
    | some s' => encodeSignature r s'

def normalize (sig : Bytes) : Option Bytes :=
  match parseSignature sig with
  | none => none
  | some (_, s) => if isLowS (beNat s) then some sig else swap sig

end Nebula.P256
