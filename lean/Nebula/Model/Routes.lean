/-
Model of `overlay/route.go`: `parseRoutes` and `parseUnsafeRoutes` (as fixed by F04), over a small YAML
value type. Go's comma-ok type assertions are the `match`es on the value's constructor; an *unchecked*
assertion would be a `panic` result (none is left after the fix — `Res.panic` stays in the result type
so that "never panics" is a statement and not a convention).

Not nebula code, taken as given:
* `netip.ParsePrefix` / `netip.ParseAddr` are oracle parameters (`Oracle`), the harness supplies what
  net/netip answered for every string of the case;
* `strconv.Atoi` / `ParseInt(s, 10, 32)` / `ParseBool` and `fmt.Sprintf("%v", …)` are modelled here from
  their documentation and tied by the correspondence stream.
Core Lean only.
-/
import Nebula.Base.Net

namespace Nebula.Routes
open Nebula.Net

/-- What `yaml.v3` puts into `map[string]any`. `other` is any scalar that is neither `int`, `string`,
`bool` nor nil (float64, uint64, …), carrying its `%v` rendering. -/
inductive Yaml where
  | null
  | bool (b : Bool)
  | int (i : Int)
  | str (s : String)
  | other (fmt : String)
  | list (l : List Yaml)
  | map (kv : List (String × Yaml))

/-- Go map index `m[k]` (keys are unique in a Go map; the first binding is the binding). -/
def lookup (k : String) : List (String × Yaml) → Option Yaml
  | [] => none
  | (k', v) :: rest => if k' = k then some v else lookup k rest

def insertKey (e : String × String) : List (String × String) → List (String × String)
  | [] => [e]
  | x :: xs => if e.1 < x.1 then e :: x :: xs else x :: insertKey e xs

mutual
/-- `fmt.Sprintf("%v", v)`. -/
def fmtV : Yaml → String
  | .null => "<nil>"
  | .bool b => if b then "true" else "false"
  | .int i => toString i
  | .str s => s
  | .other f => f
  | .list l => "[" ++ " ".intercalate (fmtList l) ++ "]"
  | .map kv => "map[" ++ " ".intercalate (((fmtMap kv).foldr insertKey []).map (fun e => e.1 ++ ":" ++ e.2)) ++ "]"
def fmtList : List Yaml → List String
  | [] => []
  | v :: vs => fmtV v :: fmtList vs
def fmtMap : List (String × Yaml) → List (String × String)
  | [] => []
  | (k, v) :: rest => (k, fmtV v) :: fmtMap rest
end

/-! ### strconv -/

def digitVal (c : Char) : Option Nat :=
  if '0' ≤ c ∧ c ≤ '9' then some (c.toNat - '0'.toNat) else none

/-- The digit loop of `strconv.ParseUint(s, 10, …)`: left to right, `n = n*10 + d`; any other
character is a syntax error. (Overflow is checked by the caller against the final value, which gives
the same accept/refuse answer as Go's early cut-off.) -/
def digitsLoop : Nat → List Char → Option Nat
  | n, [] => some n
  | n, c :: cs =>
    match digitVal c with
    | some d => digitsLoop (n * 10 + d) cs
    | none => none

/-- Optional sign, then at least one digit. -/
def parseDecimal (s : String) : Option Int :=
  match s.toList with
  | [] => none
  | c :: ds =>
    if c = '+' then (if ds = [] then none else (digitsLoop 0 ds).map Int.ofNat)
    else if c = '-' then (if ds = [] then none else (digitsLoop 0 ds).map (fun n => - Int.ofNat n))
    else (digitsLoop 0 (c :: ds)).map Int.ofNat

def fitsBits (bits : Nat) (v : Int) : Bool := - (2 : Int) ^ (bits - 1) ≤ v && v < (2 : Int) ^ (bits - 1)

/-- `strconv.ParseInt(s, 10, bits)` / `strconv.Atoi` (`bits = 64`): `none` is any error. -/
def parseInt (bits : Nat) (s : String) : Option Int :=
  match parseDecimal s with
  | some v => if fitsBits bits v then some v else none
  | none => none

/-- `strconv.ParseBool`. -/
def parseBool (s : String) : Option Bool :=
  if s ∈ ["1", "t", "T", "TRUE", "true", "True"] then some true
  else if s ∈ ["0", "f", "F", "FALSE", "false", "False"] then some false
  else none

/-! ### the parsers -/

structure Oracle where
  parsePrefix : String → Option Prefix
  parseAddr : String → Option Addr

structure Gateway where
  addr : Addr
  weight : Int
  deriving DecidableEq, Repr

structure Route where
  mtu : Int
  metric : Int
  cidr : Prefix
  via : List Gateway
  install : Bool
  deriving DecidableEq, Repr

inductive Res (α : Type) where
  | ok (a : α)
  | err (kind : String)
  | panic
  deriving Repr, DecidableEq

def maxInt32 : Int := 2147483647

/-- The pattern used for `mtu`, `metric` and `weight` after the fix:
`n, ok := v.(int); if !ok { s, ok := v.(string); if !ok { error }; n, err = strconv.Parse…(s) }`. -/
def numField (bits : Nat) (v : Yaml) : Option Int :=
  match v with
  | .int i => some i
  | .str s => parseInt bits s
  | _ => none

def loc (i : Nat) (kind : String) : String := toString i ++ ":" ++ kind
def loc2 (i g : Nat) (kind : String) : String := toString i ++ ":" ++ toString g ++ ":" ++ kind

/-- One iteration of the loop of `parseRoutes` (entry number `i`, 1-based as in the messages). -/
def routeEntry (o : Oracle) (networks : List Prefix) (i : Nat) (r : Yaml) : Res Route :=
  match r with
  | .map m =>
    match lookup "mtu" m with
    | none => .err (loc i "mtu-missing")
    | some rMtu =>
      match numField 64 rMtu with
      | none => .err (loc i "mtu-not-int")
      | some mtu =>
        if mtu < 500 then .err (loc i "mtu-low") else
        match lookup "route" m with
        | none => .err (loc i "route-missing")
        | some rRoute =>
          match o.parsePrefix (fmtV rRoute) with
          | none => .err (loc i "route-parse")
          | some cidr =>
            if networks.any (fun n => n.contains cidr.addr && decide (n.len ≤ cidr.len)) then
              .ok { mtu := mtu, metric := 0, cidr := cidr, via := [], install := true }
            else .err (loc i "route-outside")
  | _ => .err (loc i "invalid")

/-- `for i, r := range rawRoutes { … routes[i] = r }` with return on the first error. -/
def entries {α : Type} (f : Nat → Yaml → Res α) : Nat → List Yaml → Res (List α)
  | _, [] => .ok []
  | i, r :: rs =>
    match f i r with
    | .ok x =>
      match entries f (i + 1) rs with
      | .ok xs => .ok (x :: xs)
      | .err e => .err e
      | .panic => .panic
    | .err e => .err e
    | .panic => .panic

/-- The shared prologue: `c.Get(key)`, nil → empty, not `[]any` → error, empty → empty. -/
def top {α : Type} (f : Nat → Yaml → Res α) (v : Option Yaml) : Res (List α) :=
  match v with
  | none => .ok []
  | some .null => .ok []
  | some (.list l) => entries f 1 l
  | some _ => .err "not-array"

def parseRoutes (o : Oracle) (networks : List Prefix) (v : Option Yaml) : Res (List Route) :=
  top (routeEntry o networks) v

/-- One element of a `via` list (gateway number `g` of entry `i`). -/
def gatewayEntry (o : Oracle) (i g : Nat) (v : Yaml) : Res Gateway :=
  match v with
  | .map gm =>
    match lookup "gateway" gm with
    | none => .err (loc2 i g "gw-missing")
    | some (.str s) =>
      match o.parseAddr s with
      | none => .err (loc2 i g "gw-addr")
      | some ip =>
        let rW := (lookup "weight" gm).getD (.int 1)
        match numField 32 rW with
        | none => .err (loc2 i g "weight-not-int")
        | some w =>
          if w < 1 ∨ w > maxInt32 then .err (loc2 i g "weight-range")
          else .ok { addr := ip, weight := w }
    | some _ => .err (loc2 i g "gw-not-string")
  | _ => .err (loc2 i g "gw-invalid")

/-- the `mtu` block of `parseUnsafeRoutes` (optional; 0 = unset). -/
def unsafeMtu (i : Nat) (m : List (String × Yaml)) : Res Int :=
  match lookup "mtu" m with
  | none => .ok 0
  | some rMtu =>
    match numField 64 rMtu with
    | none => .err (loc i "mtu-not-int")
    | some mtu => if mtu ≠ 0 ∧ mtu < 500 then .err (loc i "mtu-low") else .ok mtu

/-- the `metric` block (optional, default 0). -/
def unsafeMetric (i : Nat) (m : List (String × Yaml)) : Res Int :=
  match numField 32 ((lookup "metric" m).getD (.int 0)) with
  | none => .err (loc i "metric-not-int")
  | some metric => if metric < 0 ∨ metric > maxInt32 then .err (loc i "metric-range") else .ok metric

/-- the `switch via := rVia.(type)` block. -/
def unsafeVia (o : Oracle) (i : Nat) (rVia : Yaml) : Res (List Gateway) :=
  match rVia with
  | .str s =>
    match o.parseAddr s with
    | none => .err (loc i "via-addr")
    | some ip => .ok [{ addr := ip, weight := 1 }]
  | .list l => entries (gatewayEntry o i) 1 l
  | _ => .err (loc i "via-type")

/-- the `install` block (optional, default true). -/
def unsafeInstall (i : Nat) (m : List (String × Yaml)) : Res Bool :=
  match lookup "install" m with
  | none => .ok true
  | some rInstall =>
    match parseBool (fmtV rInstall) with
    | none => .err (loc i "install-not-bool")
    | some b => .ok b

/-- One iteration of the loop of `parseUnsafeRoutes`, in source order: mtu, metric, via, route present,
install, route parses, route outside every network. -/
def unsafeEntry (o : Oracle) (networks : List Prefix) (i : Nat) (r : Yaml) : Res Route :=
  match r with
  | .map m =>
    match unsafeMtu i m with
    | .err e => .err e
    | .panic => .panic
    | .ok mtu =>
    match unsafeMetric i m with
    | .err e => .err e
    | .panic => .panic
    | .ok metric =>
    match lookup "via" m with
    | none => .err (loc i "via-missing")
    | some rVia =>
    match unsafeVia o i rVia with
    | .err e => .err e
    | .panic => .panic
    | .ok gateways =>
    match lookup "route" m with
    | none => .err (loc i "route-missing")
    | some rRoute =>
    match unsafeInstall i m with
    | .err e => .err e
    | .panic => .panic
    | .ok install =>
    match o.parsePrefix (fmtV rRoute) with
    | none => .err (loc i "route-parse")
    | some cidr =>
      if networks.any (fun n => n.contains cidr.addr) then .err (loc i "route-inside")
      else .ok { mtu := mtu, metric := metric, cidr := cidr, via := gateways, install := install }
  | _ => .err (loc i "invalid")

def parseUnsafeRoutes (o : Oracle) (networks : List Prefix) (v : Option Yaml) : Res (List Route) :=
  top (unsafeEntry o networks) v

end Nebula.Routes
