/-
Model of the rejection replies (C21):
  `iputil/packet.go`  CreateRejectPacket, ipv4CreateRejectICMPPacket, ipv4CreateRejectTCPPacket,
                      ipv6CreateRejectPacket, ipv6CreateRejectICMPPacket, ipv6CreateRejectTCPPacket,
                      tcpipChecksum, ipv4PseudoheaderChecksum, ipv6PseudoheaderChecksum
  `inside.go`         rejectOutside's size guard
Byte for byte; `uint32` arithmetic wraps (`u32`); every index / slice of the *input* packet is an
explicit `panic` branch (`Pkt.idx`, `Pkt.slice`). The output buffer is only ever written inside
`out[:outLen]` after the `outLen > cap(out)` guard, and every byte of it is written, so the reply does
not depend on the buffer's previous contents (the harness hands over dirty buffers).
`IPv6FindUpperProtocol` is the model of `Model/PktParse.lean` (same function as on the parse path).
-/
import Nebula.Model.PktParse

namespace Nebula.Reject
open Nebula.Pkt

def u32 (n : Nat) : Nat := n % 4294967296

/-- the summation loop of `tcpipChecksum` (pairs, then the odd last byte), `csum` is a `uint32` -/
def sumLoop : List UInt8 → Nat → Nat
  | a :: b :: rest, c => sumLoop rest (u32 (u32 (c + a.toNat * 256) + b.toNat))
  | [a], c => u32 (c + a.toNat * 256)
  | [], c => c

/-- `for csum > 0xffff { csum = (csum >> 16) + (csum & 0xffff) }`, at most `fuel` iterations
(`Lemmas/Reject.lean: foldLoop_done`: for a `uint32` three are never used up). -/
def foldLoop : Nat → Nat → Nat
  | 0, c => c
  | fuel + 1, c => if c > 0xffff then foldLoop fuel ((c >>> 16) + (c &&& 0xffff)) else c

/-- `tcpipChecksum(data, csum)`: `^uint16(csum)` after the two loops -/
def tcpipChecksum (data : List UInt8) (csum : Nat) : Nat :=
  0xffff - foldLoop 3 (sumLoop data csum) % 65536

/-- `ipv4PseudoheaderChecksum(src, dst, proto, length)`; `src`, `dst` are 4-byte slices of the reply header -/
def ipv4Pseudo (src dst : List UInt8) (proto length : Nat) : Nat :=
  let s (i : Nat) := (src.getD i 0).toNat
  let d (i : Nat) := (dst.getD i 0).toNat
  let c := u32 ((s 0 + s 2) * 256)
  let c := u32 (c + (s 1 + s 3))
  let c := u32 (c + (d 0 + d 2) * 256)
  let c := u32 (c + (d 1 + d 3))
  let c := u32 (c + proto)
  let c := u32 (c + length % 65536)
  u32 (c + length / 65536)

/-- the loop of `ipv6PseudoheaderChecksum` over the 16-byte slices of the reply header -/
def pseudo6Loop : List UInt8 → List UInt8 → Nat → Nat
  | s0 :: s1 :: sr, d0 :: d1 :: dr, c =>
    pseudo6Loop sr dr (u32 (u32 (u32 (u32 (c + s0.toNat * 256) + s1.toNat) + d0.toNat * 256) + d1.toNat))
  | _, _, c => c

def ipv6Pseudo (src dst : List UInt8) (proto length : Nat) : Nat :=
  let c := pseudo6Loop src dst 0
  let c := u32 (c + proto)
  let c := u32 (c + length % 65536)
  u32 (c + length / 65536)

/-- `binary.BigEndian.PutUint16` of a `uint16` -/
def put16 (v : Nat) : List UInt8 := [UInt8.ofNat (v / 256 % 256), UInt8.ofNat (v % 256)]

/-- `binary.BigEndian.PutUint32` of a `uint32` -/
def put32 (v : Nat) : List UInt8 :=
  [UInt8.ofNat (v / 16777216 % 256), UInt8.ofNat (v / 65536 % 256), UInt8.ofNat (v / 256 % 256), UInt8.ofNat (v % 256)]

/-- write zeros into the checksum field, sum the whole region, write the checksum into the field -/
def withCsum (pre post : List UInt8) (init : Nat) : List UInt8 :=
  pre ++ put16 (tcpipChecksum (pre ++ [0, 0] ++ post) init) ++ post

/-- the 20-byte IPv4 header of a reply -/
def v4Header (outLen proto : Nat) (src dst : List UInt8) : List UInt8 :=
  withCsum ([0x45, 0] ++ put16 outLen ++ [0, 0, 0, 0, 64, UInt8.ofNat proto]) (src ++ dst) 0

/-- the 40-byte IPv6 header of a reply -/
def v6Header (payloadLen proto : Nat) (src dst : List UInt8) : List UInt8 :=
  [0x60, 0, 0, 0] ++ put16 payloadLen ++ [UInt8.ofNat proto, 64] ++ src ++ dst

def be32At (d : List UInt8) (i : Nat) : Res Nat := do
  let a ← u16At d i
  let b ← u16At d (i + 2)
  pure (a * 65536 + b)

/-- the TCP RST segment (shared by the IPv4 and IPv6 functions, which contain the same lines) -/
def rstSegment (tcpIn : List UInt8) (init : Nat) : Res (List UInt8) := do
  let flags ← idx tcpIn 13
  let inAck := flags &&& 0x10 ≠ 0
  let seq ← if inAck then be32At tcpIn 8 else pure 0
  let doff ← idx tcpIn 12
  let inSeq ← be32At tcpIn 4
  let inSyn := (flags &&& 0x02) >>> 1
  let inFin := flags &&& 0x01
  -- binary.BigEndian.Uint32(tcpIn[4:]) + inSyn + inFin + uint32(len(tcpIn)) - uint32(tcpIn[12]>>4)<<2
  let ackSeq := if inAck then 0 else
    u32 (u32 (u32 (u32 (inSeq + inSyn) + inFin) + u32 tcpIn.length) + 4294967296 - u32 ((doff >>> 4) <<< 2))
  let outFlags := if inAck then 0x04 else 0x14
  let sp ← slice tcpIn 0 2
  let dp ← slice tcpIn 2 4
  pure (withCsum (dp ++ sp ++ put32 seq ++ put32 ackSeq ++ [0x50, UInt8.ofNat outFlags, 0, 0]) [0, 0] init)

/-- `ipv4CreateRejectICMPPacket`; `none` = `return nil` -/
def v4RejectICMP (p : List UInt8) (cap : Nat) : Res (Option (List UInt8)) := do
  let b0 ← idx p 0
  let ihl := (b0 &&& 0x0f) <<< 2
  if p.length < ihl then pure none else do
  let proto ← idx p 9
  let isErr ← (if proto = 1 ∧ p.length > ihl then do
      let t ← idx p ihl
      pure (decide (t = 3 ∨ t = 4 ∨ t = 5 ∨ t = 11 ∨ t = 12))
    else pure false : Res Bool)
  if isErr then pure none else do
  let packetLen := min p.length (ihl + 8)
  let outLen := 20 + 8 + packetLen
  if outLen > cap then pure none else do
  let src ← slice p 16 20
  let dst ← slice p 12 16
  let body ← slice p 0 packetLen
  pure (some (v4Header outLen 1 src dst ++ withCsum [3, 13] ([0, 0, 0, 0] ++ body) 0))

/-- `ipv4CreateRejectTCPPacket` -/
def v4RejectTCP (p : List UInt8) (cap : Nat) : Res (Option (List UInt8)) := do
  let b0 ← idx p 0
  let ihl := (b0 &&& 0x0f) <<< 2
  let outLen := 20 + 20
  if p.length < ihl + 20 then pure none else
  if outLen > cap then pure none else do
  let src ← slice p 16 20
  let dst ← slice p 12 16
  let tcpIn ← slice p ihl p.length
  let seg ← rstSegment tcpIn (ipv4Pseudo src dst 6 20)
  pure (some (v4Header outLen 6 src dst ++ seg))

/-- `ipv6CreateRejectICMPPacket` -/
def v6RejectICMP (p : List UInt8) (cap : Nat) (proto offset : Nat) : Res (Option (List UInt8)) := do
  let isErr ← (if proto = 58 ∧ p.length > offset then do
      let t ← idx p offset
      pure (decide (t ≥ 1 ∧ t ≤ 4))
    else pure false : Res Bool)
  if isErr then pure none else do
  let packetLen := min p.length 1000
  let outLen := 40 + 8 + packetLen
  if outLen > cap then pure none else do
  let payloadLen := (outLen - 40) % 65536
  let src ← slice p 24 40
  let dst ← slice p 8 24
  let body ← slice p 0 packetLen
  pure (some (v6Header payloadLen 58 src dst ++
    withCsum [1, 1] ([0, 0, 0, 0] ++ body) (ipv6Pseudo src dst 58 payloadLen)))

/-- `ipv6CreateRejectTCPPacket` -/
def v6RejectTCP (p : List UInt8) (cap : Nat) (offset : Nat) : Res (Option (List UInt8)) := do
  if p.length < offset + 20 then pure none else
  if 40 + 20 > cap then pure none else do
  let src ← slice p 24 40
  let dst ← slice p 8 24
  let tcpIn ← slice p offset p.length
  let seg ← rstSegment tcpIn (ipv6Pseudo src dst 6 20)
  pure (some (v6Header 20 6 src dst ++ seg))

/-- `ipv6CreateRejectPacket` -/
def v6Reject (p : List UInt8) (cap : Nat) : Res (Option (List UInt8)) :=
  match findUpper p with
  | .panic => .panic
  | .err _ => pure none
  | .ok w =>
    if w.isFrag then pure none
    else if w.nh = 6 then v6RejectTCP p cap w.off
    else v6RejectICMP p cap w.nh w.off

/-- `CreateRejectPacket(packet, out)` with `cap = cap(out)` -/
def createRejectPacket (p : List UInt8) (cap : Nat) : Res (Option (List UInt8)) :=
  if p.length < 1 then pure none else do
  let b0 ← idx p 0
  let version := b0 >>> 4
  if version = 4 then
    if p.length < 20 then pure none else do
    let b6 ← idx p 6
    let b7 ← idx p 7
    if b6 &&& 0x1f ≠ 0 ∨ b7 ≠ 0 then pure none else do
    let proto ← idx p 9
    if proto = 6 then v4RejectTCP p cap else v4RejectICMP p cap
  else if version = 6 then
    if p.length < 40 then pure none else v6Reject p cap
  else pure none

/-- `iputil.MaxRejectPacketSize` (= ipv6.HeaderLen + 8 + 1000), regenerated from the source (the translator
resolves the x/net constants it depends on) -/
def maxRejectPacketSize : Nat := Gen.iputil_MaxRejectPacketSize

/-- what `rejectOutside` hands to `sendNoMetrics`: nothing for an empty result or one above the maximum -/
def rejectOutsideOut (p : List UInt8) (cap : Nat) : Res (Option (List UInt8)) := do
  let out ← createRejectPacket p cap
  match out with
  | none => pure none
  | some o => if o.length = 0 then pure none else if o.length > maxRejectPacketSize then pure none else pure (some o)

end Nebula.Reject
