/-
Extension of the handshake-manager model (Model/HsManager.lean) by the two pieces of beginHandshake /
continueHandshake that the base model leaves out — property C09:

  * the lighthouse's REMOTE ALLOW LIST (`lightHouse.GetRemoteAllowList()`): a predicate parameter
    (`AllowList`; C38 proves the list itself). Three call sites, in the order of the code:
      HandleIncoming      AllowUnknownVpnAddr(via.UdpAddr)  before the dispatch, before any Machine runs
      validatePeerCert    AllowAll(certificate addresses, via.UdpAddr)  after the Machine verified the certificate,
                          after the empty-networks and own-address refusals, before newConnectionStateFromResult,
                          the HostInfo, QueryCache, SetRemote, CheckAndComplete
      continueHandshake   AllowAll(pending hostinfo.vpnAddrs = [dialled address], via.UdpAddr)  after the
                          still-tracked re-check, BEFORE the packet is given to the Machine
    none of them is consulted for a relayed packet (`!via.IsRelayed`).
  * RELAYED handshake packets (`via.IsRelayed`): SetRemote is skipped (no underlay address is recorded, nothing
    is learned into the RemoteList), `relayState.InsertRelayTo(via.relayHI.vpnAddrs[0])` on the new tunnel
    (initiator: before the own-address / wrong-responder checks; responder: in sendHandshakeResponse, i.e. only
    when a response is sent — fresh or cached), replies go through `SendVia(via.relayHI, via.relay, …)`,
    BlockRemote / SetRemoteIfPreferred are no-ops.

The base functions are untouched (C10 / C31 / C32 are stated over them); `Lemmas/HsVia.lean` proves that for a
direct packet from an allowed underlay address the functions below ARE the base functions.
Relay bookkeeping of a tunnel (`HostInfo.relayState.relays`) lives beside the node (`NodeX.relays`, keyed by
the tunnel's identity) because the base `HostInfo` record has no such field.
-/
import Nebula.Model.HsManager

namespace Nebula.HsManager

/-- `*RemoteAllowList` as the handshake manager sees it: `base` is lighthouse.remote_allow_list
(`al.AllowList.Allow(udpAddr)`), `inside a` is the remote_allow_ranges entry that covers overlay address `a`
(`al.getInsideAllowList(a).Allow(udpAddr)`; no entry = allow). -/
structure AllowList where
  base : UNode → Bool
  inside : Addr → UNode → Bool

instance : Inhabited AllowList := ⟨⟨fun _ => true, fun _ _ => true⟩⟩

/-- a nil list / no configuration -/
def AllowList.everything : AllowList := ⟨fun _ => true, fun _ _ => true⟩

/-- AllowUnknownVpnAddr -/
def AllowList.unknown (al : AllowList) (u : UNode) : Bool := al.base u

/-- AllowAll: the main list first, then every address's inside list, stopping at the first denial -/
def AllowList.all (al : AllowList) (addrs : List Addr) (u : UNode) : Bool :=
  al.base u && addrs.all (fun a => al.inside a u)

/-- ViaSender: a direct packet from underlay address `u`, or a packet unwrapped from the terminal relay
`relay` of the tunnel to relay host `relayAddr` (= via.relayHI.vpnAddrs[0]); `ru` is that tunnel's current
remote (where SendVia writes; also what via.UdpAddr holds for a relayed packet), `peer` is relay.PeerAddr. -/
inductive Via
  | direct (u : UNode)
  | relayed (relayAddr : Addr) (ru : UNode) (peer : Addr)
  deriving Repr, DecidableEq, Inhabited

def Via.isRelayed : Via → Bool
  | .direct _ => false
  | .relayed .. => true

/-- what SetRemote records: the underlay address of a direct packet, nothing for a relayed one -/
def Via.underlay? : Via → Option UNode
  | .direct u => some u
  | .relayed .. => none

/-- the three allow-list call sites (skipped for relayed packets); `asked` is what the list is asked about -/
def Via.allowedUnknown (al : AllowList) : Via → Bool
  | .direct u => al.unknown u
  | .relayed .. => true

def Via.allowedAll (al : AllowList) (addrs : List Addr) : Via → Bool
  | .direct u => al.all addrs u
  | .relayed .. => true

inductive TxX
  | base (t : Tx)
  | hsVia (h : Handle) (relayAddr : Addr) (ru : UNode)     -- SendVia(via.relayHI, via.relay, handshake packet)
  | msgVia (len : Nat) (relayAddr : Addr) (ru : UNode)     -- a cached inside packet sent through the relay
  | closeVia (relayAddr : Addr) (ru : UNode)               -- a CloseTunnel sent through the relay
  deriving Repr, DecidableEq, Inhabited

structure OutX where
  tx : List TxX := []
  made : List PktInfo := []
  flushed : List (Nat × List Cached) := []
  deriving Repr, DecidableEq, Inhabited

def Out.toX (o : Out) : OutX := { tx := o.tx.map .base, made := o.made, flushed := o.flushed }

/-- a node together with the relay bookkeeping of its tunnels: tunnel identity ↦ relayState.relays -/
structure NodeX where
  n : Node
  relays : List (Nat × List Addr) := []
  /-- established terminal relay objects this node holds: (identity of the tunnel to the relay host, relay.PeerAddr) -/
  relayFor : List (Nat × Addr) := []
  deriving Repr, DecidableEq, Inhabited

/-- HostMap.QueryVpnAddrsRelayFor(targets, relayAddr): the first tunnel to the relay host (primary first) that holds
an established relay object for one of the targets; the answer is where SendVia writes (that tunnel's remote) -/
def NodeX.relayRemoteFor (x : NodeX) (targets : List Addr) (relayAddr : Addr) : Option (Option UNode) :=
  ((x.n.main.getList relayAddr).find? (fun h => targets.any (fun t => x.relayFor.contains (h.id, t)))).map (·.remote)

/-- sendNoMetrics for a tunnel WITHOUT a remote: through the first of its relays that can still carry it (relays that
cannot are dropped from the tunnel's list — not modelled: the caller's tunnel is either new or discarded) -/
def NodeX.viaFirstRelay (x : NodeX) (targets : List Addr) (rs : List Addr) : Option (Addr × UNode) :=
  rs.findSome? (fun r => match x.relayRemoteFor targets r with
    | some (some ru) => some (r, ru)
    | _ => none)

def NodeX.relaysOf (x : NodeX) (id : Nat) : List Addr := (alookup id x.relays).getD []

/-- RelayState.InsertRelayTo -/
def NodeX.insertRelayTo (x : NodeX) (id : Nat) (r : Addr) : NodeX :=
  if (x.relaysOf id).contains r then x else { x with relays := ainsert id (x.relaysOf id ++ [r]) x.relays }

/-- HostInfo.SetRemote on a tunnel that is in the hostmap (shared by pointer: every table sees it) -/
def HostMap.setRemote (m : HostMap) (id : Nat) (u : UNode) : HostMap :=
  let f : HostInfo → HostInfo := fun h => if h.id == id then { h with remote := some u } else h
  { hosts := m.hosts.map (fun p => (p.1, p.2.map f)),
    indexes := m.indexes.map (fun p => (p.1, f p.2)),
    remoteIndexes := m.remoteIndexes.map (fun p => (p.1, f p.2)) }

/-- sendHandshakeResponse(via, msg, hostinfo): where the packet goes, and the relay bookkeeping on `hostinfo` -/
def NodeX.sendResponse (x : NodeX) (via : Via) (h : Handle) (hiId : Nat) : NodeX × List TxX :=
  match via with
  | .direct u => (x, [.base (.hs h [u])])
  | .relayed r ru _ => (x.insertRelayTo hiId r, [.hsVia h r ru])

/-- beginHandshake's hostinfo and pending-side effects up to CheckAndComplete (prepareResponder of the base
model with `if !via.IsRelayed { hostinfo.SetRemote(via.UdpAddr) }`) -/
def PSide.prepareResponderX (cfg : Cfg) (p : PSide) (via : Via) (pkt : Handle) (c : Completed) (myVer : Nat) :
    PSide × HostInfo × Nat :=
  let (p, li) := p.genIndex cfg 8
  let (p, h2) := p.freshHandle cfg
  let (lh, rid) := p.lh.queryCache c.certAddrs
  let lh := match via with
    | .direct u => lh.learn rid (c.certAddrs.headD 0) u
    | .relayed .. => lh
  let hi : HostInfo := { id := p.nextObj, vpnAddrs := c.certAddrs, localIndex := li, remoteIndex := c.remoteIndex,
                         hsTime := c.time, initiator := false, certVer := c.certVer, remote := via.underlay?,
                         pkt0 := some pkt, pkt2 := some h2, myVer := myVer, certId := c.certId }
  ({ p with lh := lh, nextObj := p.nextObj + 1 }, hi, rid)

/-- what the allow list was asked by one handshake message (ghost, for `allowlist_checked_on_certified_addresses`):
`unknown u` = AllowUnknownVpnAddr(u), `all addrs u` = AllowAll(addrs, u) -/
inductive Asked
  | unknown (u : UNode)
  | all (addrs : List Addr) (u : UNode)
  deriving Repr, DecidableEq, Inhabited

/-- HandleIncoming + beginHandshake for a first message. `res` is what the responder Machine returns for the
packet IF it is run (it is not run when the first allow-list check refuses the sender). -/
def NodeX.beginHandshake (al : AllowList) (x : NodeX) (via : Via) (pkt : Handle) (res : Option Completed)
    (respVer : Nat) (now : Nat) : NodeX × OutX :=
  -- HandleIncoming: "First remote allow list check before we know the vpnIp"
  if !via.allowedUnknown al then (x, {}) else
  match res with
  | none => (x, {})
  | some c =>
    let n := x.n
    -- validatePeerCert: no networks, own address, then the allow list on the CERTIFICATE's addresses
    if !peerCertOk n.cfg c || !via.allowedAll al c.certAddrs then
      -- the Machine had already built its response: one index drawn, one handle used
      ({ x with n := { n with p := ((n.p.genIndex n.cfg 8).1.freshHandle n.cfg).1 } }, {})
    else
    let (p, hi, rid) := n.p.prepareResponderX n.cfg via pkt c respVer
    match checkAndComplete n.main p.pindexes hi with
    | some (.alreadySeen ex) =>
      -- SetRemoteIfPreferred (no preferred ranges): a tunnel without a remote takes a direct sender's address
      let main := match via, ex.remote with
        | .direct u, none => n.main.setRemote ex.id u
        | _, _ => n.main
      let x1 : NodeX := { x with n := { n with main := main, p := p } }
      match ex.pkt2 with
      | some p2 => let (x2, tx) := x1.sendResponse via p2 ex.id; (x2, { tx := tx })
      | none => (x1, {})
    | some (.existing _) => ({ x with n := { n with p := p } }, {})
    | some .collision => ({ x with n := { n with p := p } }, {})
    | none =>
      let x1 : NodeX := { x with n := { n with main := n.main.addHostInfo hi, p := { p with lh := p.lh.refresh rid } } }
      let (x2, tx) := x1.sendResponse via (hi.pkt2.getD 0) hi.id
      (x2, { tx := tx, made := [PktInfo.s2 (hi.pkt2.getD 0) hi.localIndex c.remoteIndex now respVer pkt] })

/-- the allow-list questions of that call, in order -/
def NodeX.beginAsked (al : AllowList) (x : NodeX) (via : Via) (res : Option Completed) : List Asked :=
  match via with
  | .relayed .. => []
  | .direct u =>
    if !al.unknown u then [.unknown u] else
    match res with
    | none => [.unknown u]
    | some c => if !peerCertOk x.n.cfg c then [.unknown u] else [.unknown u, .all c.certAddrs u]

/-- the tunnel an initiator installs -/
def initiatorHostInfoX (hh : Pending) (via : Via) (c : Completed) : HostInfo :=
  { id := hh.id, vpnAddrs := c.certAddrs, localIndex := hh.localIndex, remoteIndex := c.remoteIndex,
    hsTime := c.time, initiator := true, certVer := c.certVer, remote := via.underlay?, pkt0 := hh.pkt0, pkt2 := none,
    myVer := hh.ver, certId := c.certId }

/-- HandleIncoming + continueHandshake for a continuation message addressed to pending index `idx`. `res` is
what the pending handshake's Machine returns for the packet IF it is given the packet. -/
def NodeX.continueHandshake (al : AllowList) (x : NodeX) (via : Via) (idx : Nat) (res : S2Res) : NodeX × OutX :=
  if !via.allowedUnknown al then (x, {}) else
  let n := x.n
  match (alookup idx n.p.pindexes).bind n.p.pendingById with
  | none => (x, {})
  | some hh =>
    -- the allow list is asked about the pending hostinfo's addresses (the dialled address) before the Machine
    if !via.allowedAll al [hh.vpnAddr] then (x, {}) else
    if !hh.ready then ({ x with n := { n with p := n.p.deletePending hh } }, {}) else
    match res with
    | .err failed => if failed then ({ x with n := { n with p := n.p.deletePending hh } }, {}) else (x, {})
    | .completed c =>
      let (lh, rid) := remoteListOf n.p.lh hh hh.vpnAddr
      -- SetRemote(via.UdpAddr) for a direct packet, relayState.InsertRelayTo(relay) for a relayed one
      let p := match via with
        | .direct u => { n.p with lh := lh.learn rid hh.vpnAddr u }
        | .relayed .. => { n.p with lh := lh }
      let x := match via with
        | .direct _ => x
        | .relayed r _ _ => x.insertRelayTo hh.id r
      if c.certAddrs.any (fun a => n.cfg.myAddrs.contains a) then ({ x with n := { n with p := p.deletePending hh } }, {}) else
      if !c.certAddrs.contains hh.vpnAddr then
        let p := p.deletePending hh
        -- BlockRemote is a no-op for a relayed sender
        let p := match via with
          | .direct u => { p with lh := p.lh.block rid u }
          | .relayed .. => p
        let p := p.startHandshake n.cfg hh.vpnAddr (fun nh => { nh with remotes := some rid, store := hh.store, offered := hh.offered })
        -- sendCloseTunnel(hostinfo) with hostinfo.vpnAddrs := the WRONG host's addresses: to the recorded remote, or
        -- through the relay just inserted if it holds a relay object for one of those addresses
        ({ x with n := { n with p := p } },
         { tx := match via with
             | .direct u => [.base (.close u)]
             | .relayed r _ _ => match x.viaFirstRelay c.certAddrs [r] with
               | some (r', ru) => [.closeVia r' ru]
               | none => [] })
      else
        let p := p.deletePending hh
        let kept := hh.store.filter n.cfg.allowed
        -- Complete: out of pending, into main; then the cached packets the outbound firewall allows
        let x' : NodeX := { x with n := { n with main := n.main.addHostInfo (initiatorHostInfoX hh via c), p := { p with lh := p.lh.refresh rid } } }
        let flushed : List TxX := match via with
          | .direct u => kept.map (fun q => .base (Tx.msg q.len u))
          | .relayed .. => match x'.viaFirstRelay c.certAddrs (x'.relaysOf hh.id) with
            | some (r', ru) => kept.map (fun q => .msgVia q.len r' ru)
            | none => []
        (x', { tx := flushed, flushed := [(hh.id, kept)] })

def NodeX.continueAsked (al : AllowList) (x : NodeX) (via : Via) (idx : Nat) : List Asked :=
  match via with
  | .relayed .. => []
  | .direct u =>
    if !al.unknown u then [.unknown u] else
    match (alookup idx x.n.p.pindexes).bind x.n.p.pendingById with
    | none => [.unknown u]
    | some hh => [.unknown u, .all [hh.vpnAddr] u]

/-! ### events of the extended node -/

inductive EvX
  | base (e : Ev)                  -- every event of the base model (its stage1 / stage2: direct packets)
  | relayFor (r peer : Addr)
  | stage1 (via : Via) (pkt : Handle) (res : Option Completed) (respVer : Nat) (now : Nat)
  | stage2 (via : Via) (idx : Nat) (res : S2Res)
  deriving Repr, DecidableEq, Inhabited

def NodeX.step (al : AllowList) (x : NodeX) : EvX → NodeX × OutX
  | .base (.stage1 u pkt res rv now) => x.beginHandshake al (.direct u) pkt res rv now
  | .base (.stage2 u idx res) => x.continueHandshake al (.direct u) idx res
  | .base e => let r := x.n.step e; ({ x with n := r.1 }, r.2.toX)
  | .relayFor r peer =>
    -- the relay manager established a terminal relay through relay host `r` for `peer` on the primary tunnel to `r`
    match x.n.main.primary r with
    | some h => ({ x with relayFor := (h.id, peer) :: x.relayFor }, {})
    | none => (x, {})
  | .stage1 via pkt res rv now => x.beginHandshake al via pkt res rv now
  | .stage2 via idx res => x.continueHandshake al via idx res

def NodeX.run (al : AllowList) (x : NodeX) (evs : List EvX) : NodeX := evs.foldl (fun x e => (x.step al e).1) x

def NodeX.init (c : Cfg) : NodeX := { n := Node.init c }

end Nebula.HsManager
