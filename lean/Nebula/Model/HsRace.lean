/-
Abstract two-node model for C31 (concurrent handshakes): what handshake_manager.go / hostmap.go /
connection_manager.go do to the tunnel lists of two nodes X and Y that handshake with each other, with an
adversarial scheduler (start, retransmit, deliver any in-flight message any number of times, drop, give
up, connection-manager swap, tunnel deletion, connection-manager traffic checks). Packet contents are
symbolic: a first message carries the handshake identity `hs` (the bytes of the first packet: what
CheckAndComplete compares for ErrAlreadySeen) and the initiator index; a reply carries both indexes.

Everything the code takes from crypto/rand or from a clock is chosen by the SCHEDULER (arguments of `start`
and `deliver`): the handshake identity, the initiator index, the responder index. The rejections of
CheckAndComplete that leave the hostmap untouched and send nothing (ErrExistingHostInfo — decided by comparing
the peers' own clocks —, ErrLocalIndexCollision) have no step of their own: for the abstract state they are the
same as the loss of the message, which the scheduler can always choose. (An earlier version of this model used
one global counter both as handshake identity and as peer-reported time and took indexes from the same counter;
the node model — the one tied to the code — separates them: two different handshakes can carry the same time, and
indexes come from a scripted random stream and can collide. See Lemmas/HsSim*.lean for the simulation.)
Ghost fields: `removed` (tunnels a side deleted or evicted), `swaps` (primary swaps performed).
-/
import Nebula.Gen.HsManager
import Nebula.Model.ConnMgr

namespace Nebula.HsRace

structure Tun where
  loc : Nat
  rem : Nat
  hs : Nat
  init : Bool
  deriving DecidableEq, Repr, Inhabited

/-- the same tunnel as the other end records it -/
def Tun.mirror (t : Tun) : Tun := { loc := t.rem, rem := t.loc, hs := t.hs, init := !t.init }

inductive Msg
  | m1 (hs idx : Nat)
  | m2 (hs respIdx initIdx : Nat)
  deriving DecidableEq, Repr, Inhabited

structure Side where
  addr : Nat
  tunnels : List Tun := []          -- primary first (Hosts[a] :: moreHosts[a])
  removed : List Tun := []          -- ghost
  pending : Option (Nat × Nat) := none   -- (handshake id, local index)
  swaps : Nat := 0                  -- ghost
  inbox : List Msg := []            -- in flight towards this side
  pdl : List Tun := []              -- tunnels marked pendingDeletion by the connection manager
  deriving DecidableEq, Repr, Inhabited

def Side.held (s : Side) : List Tun := s.tunnels ++ s.removed

/-- unlockedInnerAddHostInfo: new primary, oldest retired beyond MaxHostInfosPerVpnIp. The installed tunnel is a
new object: it carries no pendingDeletion mark. -/
def Side.install (s : Side) (t : Tun) : Side :=
  let l := t :: s.tunnels
  if l.length > Nebula.Gen.hsm_MaxHostInfosPerVpnIp then
    { s with tunnels := l.dropLast, removed := s.removed ++ (l.getLast?).toList, pdl := s.pdl.filter (· != t) }
  else { s with tunnels := l, pdl := s.pdl.filter (· != t) }

structure St where
  x : Side
  y : Side
  deriving DecidableEq, Repr, Inhabited

inductive Step
  /-- the first attempt of a handshake (buildStage0Packet + first transmission): `hs` identifies the first packet,
  `idx` is the index allocateIndex returned -/
  | start (onX : Bool) (hs idx : Nat)
  | resend (onX : Bool)
  | giveUp (onX : Bool)
  /-- delivery of in-flight message `k`; `ridx` is the index the receiver's Machine drew for its answer (used only if
  the message is a first message that installs a tunnel) -/
  | deliver (toX : Bool) (k : Nat) (ridx : Nat)
  | drop (toX : Bool) (k : Nat)
  | swap (onX : Bool) (j : Nat)
  | del (onX : Bool) (j : Nat)
  /-- one traffic check of the connection manager (doTrafficCheck) for tunnel `j` of a side; the scheduler says
  whether the tunnel saw inbound / outbound traffic since its last check -/
  | check (onX : Bool) (j : Nat) (inT outT : Bool)
  deriving DecidableEq, Repr, Inhabited

def St.get (s : St) (onX : Bool) : Side := if onX then s.x else s.y
def St.set (s : St) (onX : Bool) (v : Side) : St := if onX then { s with x := v } else { s with y := v }

/-- shouldSwapPrimary: only the side whose own address is not greater than the peer's may swap -/
def shouldSwap (me peer : Side) : Bool := decide (peer.addr ≥ me.addr)

/-- a side receives a message; returns the side and what it sends to the peer -/
def Side.receive (me : Side) (ridx : Nat) : Msg → Side × List Msg
  | .m1 hs idx =>
    match me.tunnels.find? (fun t => t.hs == hs) with
    | some t => (me, if t.init then [] else [.m2 hs t.loc t.rem])          -- ErrAlreadySeen: cached reply (if any)
    | none => (me.install { loc := ridx, rem := idx, hs := hs, init := false }, [.m2 hs ridx idx])
  | .m2 hs r i =>
    match me.pending with
    | some (ph, pi) =>
      if ph == hs && pi == i then
        ({ (me.install { loc := i, rem := r, hs := hs, init := true }) with pending := none }, [])
      else (me, [])
    | none => (me, [])

def St.step (s : St) : Step → St
  | .start onX hs idx =>
    let me := s.get onX
    match me.pending with
    | some _ => s
    | none =>
      let peer := s.get (!onX)
      let s1 := s.set onX { me with pending := some (hs, idx) }
      s1.set (!onX) { peer with inbox := peer.inbox ++ [.m1 hs idx] }
  | .resend onX =>
    match (s.get onX).pending with
    | some (h, i) => let peer := s.get (!onX); s.set (!onX) { peer with inbox := peer.inbox ++ [.m1 h i] }
    | none => s
  | .giveUp onX => let me := s.get onX; s.set onX { me with pending := none }
  | .deliver toX k ridx =>
    let me := s.get toX
    match me.inbox[k]? with
    | none => s
    | some m =>
      let r := me.receive ridx m
      let s1 := s.set toX r.1
      let peer := s1.get (!toX)
      s1.set (!toX) { peer with inbox := peer.inbox ++ r.2 }
  | .drop toX k => let me := s.get toX; s.set toX { me with inbox := me.inbox.eraseIdx k }
  | .swap onX j =>
    let me := s.get onX
    match me.tunnels[j]? with
    | none => s
    | some t =>
      if j == 0 then s else
      if shouldSwap me (s.get (!onX)) then
        s.set onX { me with tunnels := t :: me.tunnels.eraseIdx j, swaps := me.swaps + 1 }
      else s
  | .del onX j =>
    let me := s.get onX
    match me.tunnels[j]? with
    | none => s
    | some t => s.set onX { me with tunnels := me.tunnels.eraseIdx j, removed := me.removed ++ [t] }
  | .check _ _ _ _ => s     -- see `St.stepAll`

/-- what makeTrafficDecision reads for tunnel `j` (certificate valid, counters far from their limits, no
inactivity timeout): the decision function is the connection-manager model of C30 (Model/ConnMgr.lean) -/
def checkIn (me peer : Side) (j : Nat) (t : Tun) (inT outT : Bool) : Nebula.ConnMgr.In :=
  { found := true, cert := .ok, disconnectInvalid := false, hasCS := true, counter := 0, isMain := j == 0,
    inT := inT, outT := outT, pd := me.pdl.contains t, dropInactive := false, idle := 0, timeout := 0,
    swap := shouldSwap me peer }

/-- doTrafficCheck on tunnel `j`: delete, swap or keep, and the pendingDeletion mark -/
def Side.check (me peer : Side) (j : Nat) (inT outT : Bool) : Side :=
  match me.tunnels[j]? with
  | none => me
  | some t =>
    let o := Nebula.ConnMgr.trafficDecision (checkIn me peer j t inT outT)
    let pdl' := if o.pd then (if me.pdl.contains t then me.pdl else t :: me.pdl) else me.pdl.filter (· != t)
    match o.decision with
    | .deleteTunnel =>
      { me with tunnels := me.tunnels.eraseIdx j, removed := me.removed ++ [t], pdl := pdl'.filter (· != t) }
    | .swapPrimary => { me with tunnels := t :: me.tunnels.eraseIdx j, swaps := me.swaps + 1, pdl := pdl' }
    | _ => { me with pdl := pdl' }

def St.stepAll (s : St) : Step → St
  | .check onX j inT outT => s.set onX ((s.get onX).check (s.get (!onX)) j inT outT)
  | st => s.step st

def St.run (s : St) (steps : List Step) : St := steps.foldl St.stepAll s

def St.init (ax ay : Nat) : St := { x := { addr := ax }, y := { addr := ay } }

end Nebula.HsRace
