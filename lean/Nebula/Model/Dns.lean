/-
Model of `dns_server.go` (as fixed by F07): `Add`, `seedSelf`, `clearRecords`, `Query`, `QueryCert`,
`isSelfNebulaOrLocalhost`, `parseQuery`, `handleDnsRequest`, and of the part of
`hostmap.go: unlockedAddHostInfo` that feeds it (`dnsServer.Add(certName + ".", vpnAddrs)` and the
`Hosts` primary-per-address table that `QueryCert` reads).

Names are lists of ASCII characters (one `Char` per byte); Go maps are association lists where the
first binding of a key is the binding (assignment = cons, delete = filter).
Taken as given (third-party / standard library, exercised by the correspondence stream):
`dns.NewRR` succeeds on `"<name> A|AAAA <addr>"` / `"<name> TXT <json>"` and yields a record owned by
`<name>`; `netip.ParseAddr` on the TXT question name is an oracle value carried by the question;
`net.UDPAddr.String` + `SplitHostPort` + `ParseAddr` on the client address = `Addr.unmap`.
Core Lean only.
-/
import Nebula.Base.Net

namespace Nebula.Dns
open Nebula.Net

/-- names: one `Char` per byte of the Go string (lists, so that the kernel can evaluate examples) -/
abbrev Name := List Char

/-- `strings.ToLower` (ASCII). -/
def lower (s : Name) : Name := s.map Char.toLower

abbrev Tbl := List (Name × Addr)

def Tbl.get (m : Tbl) (k : Name) : Option Addr := (m.find? (fun e => e.1 == k)).map (·.2)
def Tbl.set (m : Tbl) (k : Name) (v : Addr) : Tbl := (k, v) :: m
def Tbl.del (m : Tbl) (k : Name) : Tbl := m.filter (fun e => e.1 != k)

/-- whose certificate a TXT answer carries -/
inductive CertId where
  | self
  | peer (k : Nat)      -- the peer certificate of completed handshake number `k`
  deriving DecidableEq, Repr

structure St where
  enabled : Bool
  /-- own certificate name and `myVpnAddrs` (`none`: no PKI / no certificate) -/
  self : Option (Name × List Addr)
  selfHost : Name
  map4 : Tbl
  map6 : Tbl
  /-- `HostMap.Hosts`: overlay address → primary hostinfo (first binding), named by handshake number -/
  hosts : List (Addr × Nat)
  deriving Repr

def St.init (self : Option (Name × List Addr)) : St :=
  { enabled := true, self := self, selfHost := [], map4 := [], map6 := [], hosts := [] }

/-- The loop shared by `Add` and `seedSelf`: the first IPv4 and the first IPv6 address of the list
become the records of `host`; stops once both are set. -/
def addLoop (host : Name) : List Addr → Bool → Bool → Tbl → Tbl → Tbl × Tbl
  | [], _, _, m4, m6 => (m4, m6)
  | a :: as, have4, have6, m4, m6 =>
    if have4 && have6 then (m4, m6) else
    if a.is4 && !have4 then
      let m4 := m4.set host a
      if have6 then (m4, m6) else addLoop host as true have6 m4 m6
    else if a.is6 && !have6 then
      let m6 := m6.set host a
      if have4 then (m4, m6) else addLoop host as have4 true m4 m6
    else addLoop host as have4 have6 m4 m6

/-- `dnsServer.Add(host, addresses)`. -/
def add (s : St) (host : Name) (addrs : List Addr) : St :=
  if !s.enabled then s else
  let r := addLoop (lower host) addrs false false s.map4 s.map6
  { s with map4 := r.1, map6 := r.2 }

/-- `dnsServer.seedSelf()`. -/
def seedSelf (s : St) : St :=
  if !s.enabled then s else
  match s.self with
  | none => s
  | some (name, addrs) =>
    let newHost := lower name ++ ['.']
    let stale : Bool := s.selfHost != [] && s.selfHost != newHost
    let m4 := if stale then s.map4.del s.selfHost else s.map4
    let m6 := if stale then s.map6.del s.selfHost else s.map6
    let r := addLoop newHost addrs false false (m4.del newHost) (m6.del newHost)
    { s with selfHost := newHost, map4 := r.1, map6 := r.2 }

/-- `dnsServer.clearRecords()`. -/
def clearRecords (s : St) : St := { s with map4 := [], map6 := [], selfHost := [] }

/-- `HostMap.unlockedAddHostInfo` for the hostinfo of completed handshake `k`. -/
def addHostInfo (s : St) (k : Nat) (certName : Name) (vpnAddrs : List Addr) : St :=
  let s := add s (certName ++ ['.']) vpnAddrs
  { s with hosts := vpnAddrs.foldl (fun h a => (a, k) :: h) s.hosts }

def typeA : Nat := 1
def typeAAAA : Nat := 28
def typeTXT : Nat := 16
def rcodeSuccess : Nat := 0
def rcodeNameError : Nat := 3

/-- `dnsServer.Query(q, data)`: the address (if any) and whether the name has a record at all. -/
def query (s : St) (qtype : Nat) (data : Name) : Option Addr × Bool :=
  let data := lower data
  let a4 := s.map4.get data
  let a6 := s.map6.get data
  let nameExists := a4.isSome || a6.isSome
  if qtype = typeA then (a4, nameExists)
  else if qtype = typeAAAA then (a6, nameExists)
  else (none, nameExists)

def memAddr (a : Addr) (l : List Addr) : Bool := l.any (fun x => decide (x = a))

def selfAddrs (s : St) : List Addr :=
  match s.self with
  | some (_, as) => as
  | none => []

/-- `dnsServer.QueryCert(data)`; `parsed` = `netip.ParseAddr(data[:len(data)-1])`. -/
def queryCert (s : St) (data : Name) (parsed : Option Addr) : Option CertId :=
  if data.length < 2 then none else
  match parsed with
  | none => none
  | some ip =>
    if s.self.isSome && memAddr ip (selfAddrs s) then some .self
    else (s.hosts.find? (fun e => decide (e.1 = ip))).map (fun e => .peer e.2)

/-- `netip.Addr.IsLoopback` on an unmapped address. -/
def isLoopback (a : Addr) : Bool :=
  match a.fam with
  | .v4 => a.val / 2 ^ 24 == 127
  | .v6 => a.val == 1

/-- `dnsServer.isSelfNebulaOrLocalhost(w.RemoteAddr().String())`. -/
def isSelfNebulaOrLocalhost (s : St) (client : Addr) : Bool :=
  let b := client.unmap
  isLoopback b || (s.self.isSome && memAddr b (selfAddrs s))

structure Question where
  qtype : Nat
  name : Name
  /-- `netip.ParseAddr(name[:len(name)-1])` -/
  parsed : Option Addr
  deriving Repr

inductive Answer where
  | a (name : Name) (addr : Addr)
  | aaaa (name : Name) (addr : Addr)
  | txt (name : Name) (cert : CertId)
  deriving DecidableEq, Repr

structure Resp where
  rcode : Nat
  answers : List Answer
  deriving DecidableEq, Repr

/-- the loop of `parseQuery`; result: answers, `anyNameExists`, and whether the function `return`ed
early from the TXT case (non-local client). -/
def parseLoop (s : St) (client : Addr) : List Question → List Answer → Bool → List Answer × Bool × Bool
  | [], ans, anyName => (ans, anyName, false)
  | q :: qs, ans, anyName =>
    if q.qtype = typeA ∨ q.qtype = typeAAAA then
      let (ip, nameExists) := query s q.qtype q.name
      let anyName := anyName || nameExists
      match ip with
      | some ip =>
        let rr := if q.qtype = typeA then Answer.a q.name ip else Answer.aaaa q.name ip
        parseLoop s client qs (ans ++ [rr]) anyName
      | none => parseLoop s client qs ans anyName
    else if q.qtype = typeTXT then
      if !isSelfNebulaOrLocalhost s client then (ans, anyName, true)
      else
        let ans := match queryCert s q.name q.parsed with
          | some c => ans ++ [Answer.txt q.name c]
          | none => ans
        parseLoop s client qs ans (anyName || (query s q.qtype q.name).2)
    else
      parseLoop s client qs ans (anyName || (query s q.qtype q.name).2)

/-- `dnsServer.parseQuery`. -/
def parseQuery (s : St) (client : Addr) (qs : List Question) : Resp :=
  let r := parseLoop s client qs [] false   -- (m.Answer, anyNameExists, returned early)
  if !r.2.2 && r.1.isEmpty && !r.2.1 then { rcode := rcodeNameError, answers := r.1 }
  else { rcode := rcodeSuccess, answers := r.1 }

/-- `dnsServer.handleDnsRequest`: `m.SetReply(r)` (miekg/dns) copies only the *first* question of the
request into the reply, and `parseQuery` walks the reply's question section; only `OpcodeQuery` (0) is
parsed. -/
def handle (s : St) (client : Addr) (opcode : Nat) (qs : List Question) : Resp :=
  if opcode = 0 then parseQuery s client (qs.take 1) else { rcode := rcodeSuccess, answers := [] }

/-- configuration / handshake events of a history -/
inductive Ev where
  | seed
  | disable        -- reload with DNS disabled: `enabled.Store(false)`, `clearRecords()`
  | enable         -- reload with DNS enabled: `enabled.Store(true)`, `seedSelf()`
  | hs (k : Nat) (certName : Name) (vpnAddrs : List Addr)
  /-- certificate reload followed by the DNS reload callback: the own certificate is replaced
  (`pki.cs.Store`), then `seedSelf()` -/
  | renew (certName : Name) (vpnAddrs : List Addr)
  /-- `HostMap.DeleteHostInfo` of the hostinfo of handshake `k` (tunnel teardown) -/
  | drop (k : Nat)
  deriving Repr

def apply (s : St) : Ev → St
  | .seed => seedSelf s
  | .disable => clearRecords { s with enabled := false }
  | .enable => seedSelf { s with enabled := true }
  | .hs k n as => addHostInfo s k n as
  | .renew n as => seedSelf { s with self := some (n, as) }
  | .drop k => { s with hosts := s.hosts.filter (fun e => e.2 != k) }

def run (self : Option (Name × List Addr)) (evs : List Ev) : St := evs.foldl apply (St.init self)

end Nebula.Dns
