/-
Executable model of nebula's handshake manager (handshake_manager.go) over (pending hostmap, main hostmap,
lighthouse remote cache, outbound timer wheel) — properties C09, C10, C31, C32.

Modelled by hand, function by function (core Lean only):
  HostMap      : unlockedGetHostList / unlockedSetHostsForAddr / removeHostInfo / unlockedAddHostInfo /
                 unlockedInnerAddHostInfo / unlockedDeleteHostInfo / unlockedMakePrimary  (hostmap.go; the
                 per-address list `Hosts[a] :: moreHosts[a]` is one association list — own abstraction of this
                 engine, the detailed hostmap model for C28/C29 lives elsewhere)
  HandshakeManager : StartHandshake, GetOrHandshake, handleOutbound, buildStage0Packet/allocateIndex,
                 beginHandshake + validatePeerCert + CheckAndComplete + handleCheckAndCompleteError,
                 continueHandshake + Complete, cachePacket, DeleteHostInfo
  TimerWheel   : NewTimerWheel / findWheel / Add / Advance / Purge (timeout.go) as used by the manager
  RemoteList   : the deduplicated, sorted underlay address set with the blocked list (remote_list.go)
The handshake.Machine is NOT modelled here: its completed result is an input (`Completed`) of the
`stage1` / `stage2` events (C05 is about the Machine). Pointer identity of *HostInfo is the `id` field.
Regenerated from the source on every run: MaxHostInfosPerVpnIp, maxCachedPackets, hsTimeout.
-/
import Nebula.Gen.HsManager
import Nebula.Model.ConnMgr
import Nebula.Model.Routing

namespace Nebula.HsManager
open Nebula.Gen

abbrev Addr := Nat
abbrev UNode := Nat
abbrev Handle := Nat

/-! ### association lists -/

def aerase {α : Type} (k : Nat) (l : List (Nat × α)) : List (Nat × α) := l.filter (fun p => p.1 != k)
def ainsert {α : Type} (k : Nat) (v : α) (l : List (Nat × α)) : List (Nat × α) := (k, v) :: aerase k l
def alookup {α : Type} (k : Nat) (l : List (Nat × α)) : Option α := (l.find? (fun p => p.1 == k)).map (·.2)

/-! ### main hostmap -/

structure HostInfo where
  id : Nat
  vpnAddrs : List Addr
  localIndex : Nat
  remoteIndex : Nat
  hsTime : Nat
  initiator : Bool
  certVer : Nat
  remote : Option UNode
  pkt0 : Option Handle
  pkt2 : Option Handle
  myVer : Nat := 0        -- version of OUR certificate this tunnel was built with (ConnectionState.myCert)
  certId : Nat := 0       -- identity (fingerprint) of the verified peer certificate
  deriving Repr, DecidableEq, Inhabited

structure HostMap where
  hosts : List (Addr × List HostInfo) := []
  indexes : List (Nat × HostInfo) := []
  remoteIndexes : List (Nat × HostInfo) := []
  deriving Repr, DecidableEq, Inhabited

/-- removeHostInfo: first occurrence (pointer equality) removed, order preserved. -/
def eraseHI (l : List HostInfo) (id : Nat) : List HostInfo := l.eraseP (fun h => h.id == id)

/-- unlockedGetHostList -/
def HostMap.getList (m : HostMap) (a : Addr) : List HostInfo := (alookup a m.hosts).getD []

/-- unlockedSetHostsForAddr -/
def HostMap.setList (m : HostMap) (a : Addr) (l : List HostInfo) : HostMap :=
  match l with
  | [] => { m with hosts := aerase a m.hosts }
  | _ => { m with hosts := ainsert a l m.hosts }

def HostMap.primary (m : HostMap) (a : Addr) : Option HostInfo := (m.getList a).head?

/-- unlockedDeleteHostInfo -/
def HostMap.deleteHostInfo (m : HostMap) (hi : HostInfo) : HostMap :=
  let m1 := hi.vpnAddrs.foldl (fun m a => m.setList a (eraseHI (m.getList a) hi.id)) m
  let ri := match alookup hi.remoteIndex m1.remoteIndexes with
    | some h2 => if h2.id == hi.id then aerase hi.remoteIndex m1.remoteIndexes else m1.remoteIndexes
    | none => m1.remoteIndexes
  -- Indexes: only if the entry still points to this hostinfo (ownership check, like RemoteIndexes)
  let ix := match alookup hi.localIndex m1.indexes with
    | some h2 => if h2.id == hi.id then aerase hi.localIndex m1.indexes else m1.indexes
    | none => m1.indexes
  { m1 with remoteIndexes := ri, indexes := ix }

/-- the `final` result of unlockedDeleteHostInfo -/
def HostMap.deleteIsFinal (m : HostMap) (hi : HostInfo) : Bool :=
  hi.vpnAddrs.all (fun a => (eraseHI (m.getList a) hi.id).isEmpty)

/-- unlockedInnerAddHostInfo -/
def HostMap.innerAdd (m : HostMap) (a : Addr) (hi : HostInfo) : HostMap :=
  match m.getList a with
  | [] => m.setList a [hi]
  | l =>
    let l' := hi :: eraseHI l hi.id
    let m' := m.setList a l'
    if l'.length > hsm_MaxHostInfosPerVpnIp then
      match l'.getLast? with
      | some last => m'.deleteHostInfo last
      | none => m'
    else m'

/-- unlockedAddHostInfo -/
def HostMap.addHostInfo (m : HostMap) (hi : HostInfo) : HostMap :=
  let m1 := hi.vpnAddrs.foldl (fun m a => m.innerAdd a hi) m
  { m1 with indexes := ainsert hi.localIndex hi m1.indexes,
            remoteIndexes := ainsert hi.remoteIndex hi m1.remoteIndexes }

/-- the loop body of unlockedMakePrimary for one address -/
def HostMap.promoteAt (m : HostMap) (hi : HostInfo) (a : Addr) : HostMap :=
  match m.primary a with
  | some p => if p.id == hi.id then m else m.setList a (hi :: eraseHI (m.getList a) hi.id)
  | none => m.setList a [hi]

/-- unlockedMakePrimary -/
def HostMap.makePrimary (m : HostMap) (hi : HostInfo) : HostMap :=
  match alookup hi.localIndex m.indexes with
  | none => m
  | some h =>
    if h.id != hi.id then m else hi.vpnAddrs.foldl (fun m a => m.promoteAt hi a) m

/-! ### lighthouse remote cache (RemoteList objects shared by pointer) -/

structure RL where
  learned : List (Addr × UNode) := []          -- cache[owner].v4.learned: one slot per owner
  reported : List (Addr × List UNode) := []    -- cache[owner].v4.reported: newest first, at most MaxRemotes
  bad : List UNode := []                       -- badRemotes
  deriving Repr, DecidableEq, Inhabited

def insertSorted (x : Nat) : List Nat → List Nat
  | [] => [x]
  | y :: ys => if x < y then x :: y :: ys else if x == y then y :: ys else y :: insertSorted x ys

/-- CopyAddrs / ForEach: collected, blocked ones removed, sorted, deduplicated. -/
def RL.out (r : RL) : List UNode :=
  ((r.learned.map (·.2) ++ r.reported.flatMap (·.2)).filter (fun u => !r.bad.contains u)).foldl
    (fun acc u => insertSorted u acc) []

structure LH where
  addrMap : List (Addr × Nat) := []
  lists : List (Nat × RL) := []
  next : Nat := 0
  deriving Repr, DecidableEq, Inhabited

def LH.get (lh : LH) (id : Nat) : RL := (alookup id lh.lists).getD {}
def LH.put (lh : LH) (id : Nat) (r : RL) : LH := { lh with lists := ainsert id r lh.lists }

/-- unlockedGetRemoteList -/
def LH.getRemoteList (lh : LH) (all : List Addr) : LH × Nat :=
  match all.findSome? (fun a => alookup a lh.addrMap) with
  | some id =>
    match all with
    | a0 :: _ => ({ lh with addrMap := ainsert a0 id lh.addrMap }, id)
    | [] => (lh, id)
  | none =>
    let id := lh.next
    ({ addrMap := all.foldl (fun am a => ainsert a id am) lh.addrMap,
       lists := ainsert id {} lh.lists, next := id + 1 }, id)

/-- QueryCache -/
def LH.queryCache (lh : LH) (all : List Addr) : LH × Nat :=
  match all with
  | a0 :: _ =>
    match alookup a0 lh.addrMap with
    | some id => (lh, id)
    | none => lh.getRemoteList all
  | [] => lh.getRemoteList all

/-- LearnRemote(owner, u) -/
def LH.learn (lh : LH) (id : Nat) (owner : Addr) (u : UNode) : LH :=
  let r := lh.get id
  lh.put id { r with learned := ainsert owner u r.learned }

/-- unlockedPrependV4(owner, u) -/
def LH.report (lh : LH) (id : Nat) (owner : Addr) (u : UNode) : LH :=
  let r := lh.get id
  let cur := (alookup owner r.reported).getD []
  lh.put id { r with reported := ainsert owner ((u :: cur).take hsm_MaxRemotes) r.reported }

def LH.block (lh : LH) (id : Nat) (u : UNode) : LH :=
  let r := lh.get id
  if r.bad.contains u then lh else lh.put id { r with bad := r.bad ++ [u] }

/-- RefreshFromHandshake -/
def LH.refresh (lh : LH) (id : Nat) : LH :=
  let r := lh.get id
  lh.put id { r with bad := [] }

/-- DeleteVpnAddrs -/
def LH.deleteVpnAddrs (lh : LH) (all : List Addr) : LH :=
  match alookup (all.headD 0) lh.addrMap with
  | none => lh
  | some rm => { lh with addrMap := lh.addrMap.filter (fun (a, id) => !(all.contains a && id == rm)) }

/-! ### timer wheel (TimerWheel[handshakeTimer], times in ns). An item is (overlay address, identity of the
pending handshake the entry was armed for). -/

abbrev TimerItem := Addr × Nat

structure Wheel where
  slots : List (List TimerItem)
  current : Nat := 0
  lastTick : Option Nat := none
  tickDur : Nat
  wheelDur : Int
  deriving Repr, DecidableEq, Inhabited

def Wheel.len (w : Wheel) : Nat := w.slots.length

/-- NewTimerWheel(min, max) -/
def Wheel.new (min : Nat) (max : Int) : Wheel :=
  let wLen := (Int.tdiv max (min : Int) + 2).toNat
  { slots := List.replicate wLen [], tickDur := min, wheelDur := max }

/-- findWheel -/
def Wheel.findWheel (w : Wheel) (timeout : Int) : Nat :=
  let t : Int := if timeout < (w.tickDur : Int) then (w.tickDur : Int)
                 else if timeout > w.wheelDur then w.wheelDur else timeout
  let tick : Int := Int.tdiv (t - 1) (w.tickDur : Int) + 1
  let tick := tick + (w.current : Int) + 1
  let tick := if tick ≥ (w.len : Int) then tick - (w.len : Int) else tick
  tick.toNat

/-- Add -/
def Wheel.add (w : Wheel) (v : TimerItem) (timeout : Int) : Wheel :=
  let i := w.findWheel timeout
  { w with slots := w.slots.modify i (fun l => l ++ [v]) }

/-- one iteration of the loop of Advance -/
def Wheel.step1 (w : Wheel) : Wheel × List TimerItem :=
  let c := if w.current + 1 ≥ w.len then 0 else w.current + 1
  ({ w with current := c, slots := w.slots.set c [] }, w.slots.getD c [])

def Wheel.stepN : Nat → Wheel → List TimerItem → Wheel × List TimerItem
  | 0, w, acc => (w, acc)
  | n + 1, w, acc => let (w', e) := w.step1; Wheel.stepN n w' (acc ++ e)

/-- Advance(now) followed by draining Purge: the new wheel and the expired items in order. -/
def Wheel.advance (w : Wheel) (now : Nat) : Wheel × List TimerItem :=
  let last := w.lastTick.getD now
  let ticks := (now - last) / w.tickDur
  let n := if ticks > w.len then w.len else ticks
  let (w', e) := Wheel.stepN n w []
  ({ w' with lastTick := some (last + w.tickDur * ticks) }, e)

/-! ### pending hostmap -/

structure Cached where
  len : Nat
  port : Nat
  srcOk : Bool := true      -- the packet's source address is one of ours (firewall: ErrInvalidLocalIP otherwise)
  deriving Repr, DecidableEq, Inhabited

structure Pending where
  id : Nat
  vpnAddr : Addr
  localIndex : Nat := 0
  counter : Int := 0
  ready : Bool := false
  pkt0 : Option Handle := none
  store : List Cached := []
  offered : List Cached := []      -- ghost: every packet handed to cachePacket for this handshake, in order
  ver : Nat := 0                   -- certificate version the first packet was built with
  verOverride : Nat := 0           -- initiatingVersionOverride (0 = none)
  remotes : Option Nat := none
  lastRemotes : List UNode := []
  deriving Repr, DecidableEq, Inhabited

structure Cfg where
  node : Nat                -- node number (underlay identity, handle namespace, default index stream)
  myAddrs : List Addr
  hasV1 : Bool
  hasV2 : Bool
  retries : Int
  interval : Nat            -- ns
  fwLo : Nat := 1000        -- outbound firewall of the harness: udp dst port range allowed
  fwHi : Nat := 1999
  routes : List (Addr × Int) := []   -- gateways (overlay address, weight) of the unsafe route 172.16.0.0/16
  deriving Repr, DecidableEq, Inhabited

def Cfg.defaultVer (c : Cfg) : Nat := if c.hasV1 then 1 else 2
def Cfg.hasVer (c : Cfg) (v : Nat) : Bool := (v == 1 && c.hasV1) || (v == 2 && c.hasV2)
/-- address ids: < 100 IPv4 overlay, 100..199 IPv6 overlay, >= 200 IPv4 behind the unsafe route -/
def is6 (a : Addr) : Bool := a ≥ 100 && a < 200
def isRouted (a : Addr) : Bool := a ≥ 200
def Cfg.inMyNet (c : Cfg) (a : Addr) : Bool :=
  (c.myAddrs.take (if c.hasV2 then c.myAddrs.length else 1)).any (fun m => is6 m == is6 a)
def Cfg.allowed (c : Cfg) (p : Cached) : Bool := c.fwLo ≤ p.port && p.port ≤ c.fwHi && p.srcOk

/-- what the handshake packets this node creates contain (consumed by the symbolic network) -/
inductive PktInfo
  | s1 (h : Handle) (initIdx : Nat) (time : Nat) (ver : Nat)
  | s2 (h : Handle) (respIdx initIdx : Nat) (time : Nat) (ver : Nat) (replyTo : Handle)
  deriving Repr, DecidableEq, Inhabited

inductive Tx
  | hs (h : Handle) (dsts : List UNode)
  | msg (len : Nat) (dst : UNode)
  | close (dst : UNode)
  deriving Repr, DecidableEq, Inhabited

/-- everything of a node except the main hostmap: pending hostmap, lighthouse cache, timer wheel, and
the counters that stand for allocation / the crypto/rand stream -/
structure PSide where
  vpnIps : List (Addr × Pending) := []
  pindexes : List (Nat × Nat) := []      -- hm.indexes : index ↦ pending id
  lh : LH := {}
  wheel : Wheel
  nextObj : Nat := 0
  nextH : Nat := 0
  idxQ : List Nat := []
  idxCtr : Nat := 0
  deriving Repr, DecidableEq, Inhabited

structure Node where
  cfg : Cfg
  main : HostMap := {}
  p : PSide
  pdl : List Nat := []        -- identities of the tunnels marked pendingDeletion by the connection manager
  blocked : List Nat := []    -- certificate identities on pki.blocklist (after config reloads)
  deriving Repr, DecidableEq, Inhabited

def Node.init (c : Cfg) : Node :=
  { cfg := c,
    p := { wheel := Wheel.new c.interval
             (BitVec.toInt (hsm_hsTimeout (BitVec.ofInt 64 c.retries) (BitVec.ofNat 64 c.interval))) } }

structure Out where
  tx : List Tx := []
  made : List PktInfo := []
  flushed : List (Nat × List Cached) := []   -- ghost: (identity of the completed pending handshake, packets released)
  deriving Repr, DecidableEq, Inhabited

def Out.app (a b : Out) : Out := { tx := a.tx ++ b.tx, made := a.made ++ b.made, flushed := a.flushed ++ b.flushed }

/-- one read of 4 bytes from the (scripted) crypto/rand stream -/
def PSide.draw (c : Cfg) (n : PSide) : PSide × Nat :=
  match n.idxQ with
  | v :: q => ({ n with idxQ := q }, v)
  | [] => ({ n with idxCtr := n.idxCtr + 1 }, (c.node + 1) * 1000 + n.idxCtr + 1)

/-- generateIndex: redraw while zero (fuel: the harness never queues more than a few zeros) -/
def PSide.genIndex (c : Cfg) : Nat → PSide → PSide × Nat
  | 0, n => (n, 0)
  | f + 1, n => let (n', v) := n.draw c; if v == 0 then PSide.genIndex c f n' else (n', v)

def PSide.freshHandle (c : Cfg) (n : PSide) : PSide × Handle :=
  ({ n with nextH := n.nextH + 1 }, c.node * 1000000 + n.nextH)

def PSide.pendingById (n : PSide) (id : Nat) : Option Pending :=
  (n.vpnIps.find? (fun p => p.2.id == id)).map (·.2)

def PSide.setPending (n : PSide) (p : Pending) : PSide :=
  { n with vpnIps := n.vpnIps.map (fun q => if q.2.id == p.id then (q.1, p) else q) }

/-- HandshakeManager.DeleteHostInfo for a pending hostinfo (vpnAddrs = [vpnAddr]) -/
def PSide.deletePending (n : PSide) (p : Pending) : PSide :=
  { n with
    vpnIps := match alookup p.vpnAddr n.vpnIps with
      | some cur => if cur.id == p.id then aerase p.vpnAddr n.vpnIps else n.vpnIps
      | none => n.vpnIps,
    -- the pending index only if it is still held by this hostinfo
    pindexes := match alookup p.localIndex n.pindexes with
      | some cur => if cur == p.id then aerase p.localIndex n.pindexes else n.pindexes
      | none => n.pindexes }

/-- cachePacket -/
def Pending.cache (p : Pending) (c : Cached) : Pending :=
  if p.store.length < hsm_maxCachedPackets then { p with store := p.store ++ [c], offered := p.offered ++ [c] }
  else { p with offered := p.offered ++ [c] }

/-- StartHandshake(vpnAddr, cacheCb) where the callback is `cb` on the pending entry. -/
def PSide.startHandshake (c : Cfg) (n : PSide) (a : Addr) (cb : Pending → Pending) : PSide :=
  match alookup a n.vpnIps with
  | some hh => n.setPending (cb hh)
  | none =>
    let hh : Pending := { id := n.nextObj, vpnAddr := a }
    { n with nextObj := n.nextObj + 1,
             vpnIps := ainsert a (cb hh) n.vpnIps,
             wheel := n.wheel.add (a, hh.id) (c.interval : Int) }

/-- allocateIndex: up to 32 candidates, the first one free in both hostmaps -/
def PSide.allocIndex (c : Cfg) (mainIdx : List (Nat × HostInfo)) : Nat → PSide → PSide × Option Nat
  | 0, n => (n, none)
  | f + 1, n =>
    let (n', v) := n.genIndex c 8
    if (alookup v n'.pindexes).isNone && (alookup v mainIdx).isNone then (n', some v)
    else PSide.allocIndex c mainIdx f n'

/-- the certificate version buildStage0Packet uses: the override (tryRehandshake), else the default, raised to 2
for an IPv6 peer -/
def stage0Version (c : Cfg) (hh : Pending) : Nat :=
  if hh.verOverride != 0 then hh.verOverride
  else if c.defaultVer < 2 && is6 hh.vpnAddr then 2 else c.defaultVer

/-- buildStage0Packet: certificate version choice, Machine creation, index allocation, Initiate. -/
def PSide.buildStage0 (c : Cfg) (mainIdx : List (Nat × HostInfo)) (n : PSide) (hh : Pending) (now : Nat) :
    PSide × Pending × Out × Bool :=
  let v := stage0Version c hh
  if !c.hasVer v then (n, hh, {}, false) else
  match n.allocIndex c mainIdx 32 with
  | (n1, none) => (n1, hh, {}, false)
  | (n1, some idx) =>
    let (n2, h) := n1.freshHandle c
    let hh' := { hh with localIndex := idx, pkt0 := some h, ready := true, ver := v }
    ({ n2 with pindexes := ainsert idx hh.id n2.pindexes }, hh', { made := [.s1 h idx now v] }, true)

/-- the stage-1 packet goes to every remote of the list (nothing if the list is empty) -/
def stage0Tx (pkt0 : Option Handle) (rem : List UNode) : List Tx :=
  match pkt0, rem with
  | some h, _ :: _ => [Tx.hs h rem]
  | _, _ => []

/-- hostinfo.remotes, or the lighthouse cache entry for the address if it is still nil -/
def remoteListOf (lh : LH) (hh : Pending) (a : Addr) : LH × Nat :=
  match hh.remotes with
  | some r => (lh, r)
  | none => lh.queryCache [a]

/-- the body of handleOutbound after the attempt counter was raised: build the first packet if needed, look
up the remotes, transmit. Returns the side (pending table and wheel untouched), the updated pending record
and what was emitted. -/
def PSide.attempt (c : Cfg) (mainIdx : List (Nat × HostInfo)) (n : PSide) (hh : Pending) (a : Addr) (trig : Bool)
    (now : Nat) : PSide × Pending × Out :=
  let (n, hh, o, ok) := if hh.ready then (n, hh, ({} : Out), true) else n.buildStage0 c mainIdx hh now
  if !ok then (n, hh, o) else
  let (lh, rid) := remoteListOf n.lh hh a
  let hh := { hh with remotes := some rid }
  let n := { n with lh := lh }
  let rem := (lh.get rid).out
  let changed := rem != hh.lastRemotes
  -- a lighthouse trigger only matters if it brought new remotes
  if trig && !changed then (n, hh, o) else
  (n, { hh with lastRemotes := rem }, o.app { tx := stage0Tx hh.pkt0 rem })

/-- handleOutbound(vpnIp, lighthouseTriggered) / handleOutboundFor(vpnIp, armedFor, lighthouseTriggered) -/
def PSide.handleOutbound (c : Cfg) (mainIdx : List (Nat × HostInfo)) (n : PSide) (a : Addr) (trig : Bool)
    (now : Nat) (armedFor : Option Nat := none) : PSide × Out :=
  match alookup a n.vpnIps with
  | none => (n, {})
  | some hh =>
    -- handleOutboundFor: a timer entry armed for another (earlier) handshake is stale and ignored
    if armedFor.any (fun id => id != hh.id) then (n, {}) else
    if hh.counter ≥ c.retries then (n.deletePending hh, {}) else
    let r := n.attempt c mainIdx { hh with counter := hh.counter + 1 } a trig now
    let n' := r.1.setPending r.2.1
    -- every path of a timer firing re-arms with delay tryInterval * counter; a lighthouse-triggered attempt is
    -- still in the wheel and never re-arms
    ((if trig then n' else { n' with wheel := n'.wheel.add (a, r.2.1.id) ((c.interval : Int) * r.2.1.counter) }), r.2.2)

/-- NextOutboundHandshakeTimerTick(now) -/
def PSide.tick (c : Cfg) (mainIdx : List (Nat × HostInfo)) (n : PSide) (now : Nat) : PSide × Out :=
  let (w, expired) := n.wheel.advance now
  expired.foldl (fun (acc : PSide × Out) a =>
    let (n', o) := acc.1.handleOutbound c mainIdx a.1 false now (some a.2)
    (n', acc.2.app o)) ({ n with wheel := w }, {})

/-- GetOrHandshake -/
def Node.getOrHandshake (n : Node) (a : Addr) (cb : Pending → Pending) : Node × Option HostInfo :=
  match n.main.primary a with
  | some h => (n, some h)
  | none => ({ n with p := n.p.startHandshake n.cfg a cb }, none)

/-- The handshake.Machine's completed result as seen by the manager: the verified peer certificate's
addresses and version, the peer's index and the peer-reported time. -/
structure Completed where
  certAddrs : List Addr
  certVer : Nat
  remoteIndex : Nat
  time : Nat
  certId : Nat := 0       -- identity (fingerprint) of the verified certificate
  deriving Repr, DecidableEq, Inhabited

inductive CacErr | alreadySeen (h : HostInfo) | existing (h : HostInfo) | collision
  deriving Repr, DecidableEq

/-- CheckAndComplete (the checks; the insertion is `addHostInfo`) -/
def checkAndComplete (main : HostMap) (pindexes : List (Nat × Nat)) (hi : HostInfo) : Option CacErr :=
  let a0 := hi.vpnAddrs.headD 0
  let seenOrOld : Option CacErr :=
    match main.primary a0 with
    | some existing =>
      match (main.getList a0).find? (fun t => t.pkt0 == hi.pkt0) with
      | some t => some (.alreadySeen t)
      | none =>
        if existing.hsTime ≥ hi.hsTime && !existing.initiator then some (.existing existing) else none
    | none => none
  match seenOrOld with
  | some e => some e
  | none =>
    if (alookup hi.localIndex main.indexes).isSome then some .collision
    else if (alookup hi.localIndex pindexes).isSome then some .collision
    else none

/-- the pending-side effects of beginHandshake up to CheckAndComplete: the Machine's response (one index
drawn, one packet made), the lighthouse cache lookup, SetRemote; and the candidate hostinfo -/
def PSide.prepareResponder (cfg : Cfg) (p : PSide) (via : UNode) (pkt : Handle) (c : Completed) (myVer : Nat) :
    PSide × HostInfo × Nat :=
  let (p, li) := p.genIndex cfg 8
  let (p, h2) := p.freshHandle cfg
  let (lh, rid) := p.lh.queryCache c.certAddrs
  let lh := lh.learn rid (c.certAddrs.headD 0) via
  let hi : HostInfo := { id := p.nextObj, vpnAddrs := c.certAddrs, localIndex := li, remoteIndex := c.remoteIndex,
                         hsTime := c.time, initiator := false, certVer := c.certVer, remote := some via,
                         pkt0 := some pkt, pkt2 := some h2, myVer := myVer, certId := c.certId }
  ({ p with lh := lh, nextObj := p.nextObj + 1 }, hi, rid)

/-- validatePeerCert (the remote allow list of the harness allows everything) -/
def peerCertOk (cfg : Cfg) (c : Completed) : Bool :=
  !c.certAddrs.isEmpty && !c.certAddrs.any (fun a => cfg.myAddrs.contains a)

/-- beginHandshake: `pkt` is the received stage-1 packet, `res` what Machine.ProcessPacket returned
(`none` = error / not completed), `respVer` the certificate version the Machine answered with. -/
def Node.beginHandshake (n : Node) (via : UNode) (pkt : Handle) (res : Option Completed) (respVer : Nat)
    (now : Nat) : Node × Out :=
  match res with
  | none => (n, {})
  | some c =>
    if !peerCertOk n.cfg c then
      -- the Machine had already built its response: one index drawn, one handle used
      ({ n with p := ((n.p.genIndex n.cfg 8).1.freshHandle n.cfg).1 }, {})
    else
    let (p, hi, rid) := n.p.prepareResponder n.cfg via pkt c respVer
    match checkAndComplete n.main p.pindexes hi with
    | some (.alreadySeen ex) =>
      match ex.pkt2 with
      | some p2 => ({ n with p := p }, { tx := [.hs p2 [via]] })
      | none => ({ n with p := p }, {})
    | some (.existing _) => ({ n with p := p }, {})
    | some .collision => ({ n with p := p }, {})
    | none =>
      ({ n with main := n.main.addHostInfo hi, p := { p with lh := p.lh.refresh rid } },
       { tx := [.hs (hi.pkt2.getD 0) [via]],
         made := [PktInfo.s2 (hi.pkt2.getD 0) hi.localIndex c.remoteIndex now respVer pkt] })

inductive S2Res
  | err (failed : Bool)
  | completed (c : Completed)
  deriving Repr, DecidableEq, Inhabited

/-- the tunnel an initiator installs when its pending handshake `hh` completes with result `c` -/
def initiatorHostInfo (hh : Pending) (via : UNode) (c : Completed) : HostInfo :=
  { id := hh.id, vpnAddrs := c.certAddrs, localIndex := hh.localIndex, remoteIndex := c.remoteIndex,
    hsTime := c.time, initiator := true, certVer := c.certVer, remote := some via, pkt0 := hh.pkt0, pkt2 := none,
    myVer := hh.ver, certId := c.certId }

/-- continueHandshake for the pending handshake registered under `idx`; `res` is what
Machine.ProcessPacket returned. -/
def Node.continueHandshake (n : Node) (via : UNode) (idx : Nat) (res : S2Res) : Node × Out :=
  match (alookup idx n.p.pindexes).bind n.p.pendingById with
  | none => (n, {})
  | some hh =>
    if !hh.ready then ({ n with p := n.p.deletePending hh }, {}) else
    match res with
    | .err failed => if failed then ({ n with p := n.p.deletePending hh }, {}) else (n, {})
    | .completed c =>
      -- SetRemote(via) -> LearnRemote on the pending hostinfo's remote list
      let (lh, rid) := remoteListOf n.p.lh hh hh.vpnAddr
      let p := { n.p with lh := lh.learn rid hh.vpnAddr via }
      if c.certAddrs.any (fun a => n.cfg.myAddrs.contains a) then ({ n with p := p.deletePending hh }, {}) else
      if !c.certAddrs.contains hh.vpnAddr then
        -- wrong host responded: drop the pending entry, block the remote, start over, tell the peer to close
        let p := p.deletePending hh
        let p := { p with lh := p.lh.block rid via }
        let p := p.startHandshake n.cfg hh.vpnAddr (fun nh => { nh with remotes := some rid, store := hh.store, offered := hh.offered })
        ({ n with p := p }, { tx := [.close via] })
      else
        -- Complete: out of pending, into main; then the cached packets the outbound firewall allows
        let p := p.deletePending hh
        let flushed := (hh.store.filter n.cfg.allowed).map (fun q => Tx.msg q.len via)
        ({ n with main := n.main.addHostInfo (initiatorHostInfo hh via c), p := { p with lh := p.lh.refresh rid } },
         { tx := flushed, flushed := [(hh.id, hh.store.filter n.cfg.allowed)] })

/-- firewall + send of one inside packet through tunnel `h` -/
def Cfg.sendVia (c : Cfg) (h : HostInfo) (q : Cached) : Out :=
  if c.allowed q then
    match h.remote with
    | some u => { tx := [.msg q.len u] }
    | none => {}
  else {}

/-- routing.BalancePacket over the route's gateways (source port of the harness packets: 40000) -/
def chosenGateway (gs : List (Addr × Int)) (q : Cached) : Option Addr :=
  match Nebula.Routing.calculateBuckets (gs.map (fun g => Nebula.Routing.newGateway g.1 g.2)) with
  | none => none
  | some bs =>
    match Nebula.Routing.balancePacket { localAddr := 0, remoteAddr := 0, localPort := 40000, remotePort := q.port,
                                         protocol := 17, fragment := false } bs with
    | .chosen i _ => (gs[i]?).map (·.1)
    | .panic => none

/-- the fallback loop of getOrHandshakeConsiderRouting: GetOrHandshake(gateway, nil) in order until one has a tunnel -/
def Node.firstReady (n : Node) : List Addr → Node × Option HostInfo
  | [] => (n, none)
  | g :: gs =>
    match n.getOrHandshake g id with
    | (n', some h) => (n', some h)
    | (n', none) => Node.firstReady n' gs

/-- getOrHandshakeConsiderRouting for a destination behind the unsafe route, then firewall + send / queue -/
def Node.sendRouted (n : Node) (q : Cached) : Node × Out :=
  match n.cfg.routes with
  | [] => (n, {})
  | [g] =>
    match n.getOrHandshake g.1 (fun hh => hh.cache q) with
    | (n', some h) => (n', n.cfg.sendVia h q)
    | (n', none) => (n', {})
  | gs =>
    match chosenGateway gs q with
    | none => (n, {})
    | some chosen =>
      match n.getOrHandshake chosen id with
      | (n1, some h) => (n1, n.cfg.sendVia h q)
      | (n1, none) =>
        -- the chosen gateway has no tunnel: any other gateway that has one takes the packet (and only then
        -- the packet is NOT queued); otherwise it is queued on the chosen gateway's pending handshake
        match n1.firstReady ((gs.map (·.1)).filter (· != chosen)) with
        | (n2, some h) => (n2, n.cfg.sendVia h q)
        | (n2, none) =>
          match alookup chosen n2.p.vpnIps with
          | some hh => ({ n2 with p := n2.p.setPending (hh.cache q) }, {})
          | none => (n2, {})

/-- consumeInsidePacket for one UDP packet to overlay address `a` -/
def Node.sendInside (n : Node) (a : Addr) (q : Cached) : Node × Out :=
  if n.cfg.myAddrs.contains a then (n, {}) else
  if isRouted a then n.sendRouted q else
  if !n.cfg.inMyNet a then (n, {}) else
  match n.getOrHandshake a (fun hh => hh.cache q) with
  | (n', some h) => (n', n.cfg.sendVia h q)
  | (n', none) => (n', {})

/-- connection manager: shouldSwapPrimary + swapPrimary for the tunnel with local index `li` -/
def Node.swapCheck (n : Node) (li : Nat) : Node × String :=
  match alookup li n.main.indexes with
  | none => (n, "none")
  | some hi =>
    match n.main.primary (hi.vpnAddrs.headD 0) with
    | none => (n, "primary")
    | some p =>
      if p.id == hi.id then (n, "primary") else
      if hi.vpnAddrs.headD 0 < n.cfg.myAddrs.headD 0 then (n, "keep") else
      ({ n with main := n.main.makePrimary hi }, "swap")

/-- connection manager deleteTunnel -/
def Node.deleteTunnel (n : Node) (li : Nat) : Node × String :=
  match alookup li n.main.indexes with
  | none => (n, "none")
  | some hi => ({ n with main := n.main.deleteHostInfo hi }, if n.main.deleteIsFinal hi then "final" else "more")

/-- what makeTrafficDecision reads for a tunnel (C30's model of the function is `ConnMgr.trafficDecision`) -/
def Node.checkIn (n : Node) (hi : HostInfo) (inT outT : Bool) : Nebula.ConnMgr.In :=
  { found := true,
    cert := if n.blocked.contains hi.certId then .blocklisted else .ok,
    disconnectInvalid := false, hasCS := true, counter := 0,
    isMain := match n.main.primary (hi.vpnAddrs.headD 0) with
      | some p => p.id == hi.id
      | none => true,
    inT := inT, outT := outT, pd := n.pdl.contains hi.id, dropInactive := false, idle := 0, timeout := 0,
    swap := Nebula.ConnMgr.shouldSwapPrimary (decide (hi.vpnAddrs.headD 0 < n.cfg.myAddrs.headD 0)) 0 true true }

/-- doTrafficCheck for the tunnel with local index `li`; returns the node, the decision's name and the output -/
def Node.trafficCheck (n : Node) (li : Nat) (inT outT : Bool) : Node × String × Out :=
  match alookup li n.main.indexes with
  | none => (n, "none", {})
  | some hi =>
    let o := Nebula.ConnMgr.trafficDecision (n.checkIn hi inT outT)
    let pdl := if o.pd then (if n.pdl.contains hi.id then n.pdl else hi.id :: n.pdl) else n.pdl.filter (· != hi.id)
    let n := { n with pdl := pdl }
    let gone (n : Node) : Node :=
      let final := n.main.deleteIsFinal hi
      let n := { n with main := n.main.deleteHostInfo hi }
      if final then { n with p := { n.p with lh := n.p.lh.deleteVpnAddrs hi.vpnAddrs } } else n
    match o.decision with
    | .deleteTunnel => (gone n, "deleteTunnel", {})
    | .closeTunnel =>
      (gone n, "closeTunnel", { tx := match hi.remote with | some u => [.close u] | none => [] })
    | .swapPrimary => ({ n with main := n.main.makePrimary hi }, "swapPrimary", {})
    | .tryRehandshake =>
      -- tryRehandshake: our certificate version is below the peer's and we hold one of the peer's version
      if hi.myVer < hi.certVer && n.cfg.hasVer hi.certVer then
        ({ n with p := n.p.startHandshake n.cfg (hi.vpnAddrs.headD 0) (fun hh => { hh with verOverride := hi.certVer }) },
         "tryRehandshake", {})
      else (n, "tryRehandshake", {})
    | .migrateRelays => (n, "migrateRelays", {})
    | .sendTestPacket => (n, "sendTestPacket", {})
    | .doNothing => (n, "doNothing", {})

/-! ### events: one node's history -/

inductive Ev
  | lh (a : Addr) (u : UNode)                       -- a lighthouse answer: `a` is at `u`
  | hs (a : Addr)                                   -- GetOrHandshake
  | rehs (a : Addr)                                 -- StartHandshake
  | tick (now : Nat)
  | trig (a : Addr) (now : Nat)
  | stage1 (via : UNode) (pkt : Handle) (res : Option Completed) (respVer : Nat) (now : Nat)
  | stage2 (via : UNode) (idx : Nat) (res : S2Res)
  | send (a : Addr) (q : Cached)
  | idx (v : Nat)
  | del (li : Nat)
  | swap (li : Nat)
  | cmcheck (li : Nat) (inT outT : Bool)            -- connection manager doTrafficCheck with the given traffic flags
  | block (certIds : List Nat)                      -- config reload: these certificates go on pki.blocklist
  deriving Repr, DecidableEq, Inhabited

def Node.step (n : Node) : Ev → Node × Out
  | .lh a u =>
    let (lh, rid) := n.p.lh.getRemoteList [a]
    ({ n with p := { n.p with lh := lh.report rid a u } }, {})
  | .hs a => ((n.getOrHandshake a id).1, {})
  | .rehs a => ({ n with p := n.p.startHandshake n.cfg a id }, {})
  | .tick now => let (p, o) := n.p.tick n.cfg n.main.indexes now; ({ n with p := p }, o)
  | .trig a now => let (p, o) := n.p.handleOutbound n.cfg n.main.indexes a true now; ({ n with p := p }, o)
  | .stage1 via pkt res rv now => n.beginHandshake via pkt res rv now
  | .stage2 via idx res => n.continueHandshake via idx res
  | .send a q => n.sendInside a q
  | .idx v => ({ n with p := { n.p with idxQ := n.p.idxQ ++ [v] } }, {})
  | .del li => ((n.deleteTunnel li).1, {})
  | .swap li => ((n.swapCheck li).1, {})
  | .cmcheck li inT outT => let r := n.trafficCheck li inT outT; (r.1, r.2.2)
  | .block ids => ({ n with blocked := n.blocked ++ ids }, {})

def Node.run (n : Node) (evs : List Ev) : Node := evs.foldl (fun n e => (n.step e).1) n

end Nebula.HsManager
