/-
Model of the receive-side offload handling in `udp/udp_linux.go`: `deliverSegments` and `parseRecvCmsg`
(linux/amd64 layout).  Core Lean only.

* `deliver p segSize` is the list of slices handed to the `EncReader` callback, in call order.
* `parse nil ctrl` is `parseRecvCmsg` on a msghdr with `Control == nil` iff `nil`, `Controllen = ctrl.length`
  and (when not nil) `ctrl` the `Controllen` bytes `Control` points at.  Every byte of the ancillary buffer
  is read through the bounds-checked accessor `rd`; an access outside `[0, Controllen)` makes the result
  `.oob` (in Go: an out-of-bounds read through `unsafe`, or a slice-bounds panic), so that a missing guard
  is visible rather than totalised away.

Layout facts of linux/amd64 that are stated here rather than regenerated (`golang.org/x/sys/unix` is not
reachable by the translator); the harness op `consts` compares every one of them with the real values on
each run:  `SizeofCmsghdr = 16`, cmsg alignment 8, `Cmsghdr{Len uint64; Level int32; Type int32}`,
little-endian, `SOL_UDP = 17`, `UDP_GRO = 104`.  `udpGROCmsgPayload` comes from `Gen`.
-/
import Nebula.Gen.Udprecv

namespace Nebula.Udprecv

/-! ## deliverSegments -/

/-- the `for off := 0; off < len(payload); off += segSize` loop; each element is `payload[off:end]`.
(`0 < seg` is guaranteed by the caller's guard and only makes the definition total.) -/
def segLoop (p : List UInt8) (seg off : Nat) : List (List UInt8) :=
  if off < p.length ∧ 0 < seg then
    let e := if off + seg > p.length then p.length else off + seg
    ((p.drop off).take (e - off)) :: segLoop p seg (off + seg)
  else []
termination_by p.length - off
decreasing_by omega

/-- `deliverSegments(r, from, payload, segSize)`: the payloads passed to `r`, in order.  `segSize` is a
Go `int` (any sign). -/
def deliver (p : List UInt8) (segSize : Int) : List (List UInt8) :=
  if segSize ≤ 0 ∨ segSize ≥ (p.length : Int) then [p]
  else segLoop p segSize.toNat 0

/-! ## parseRecvCmsg -/

def sizeofCmsghdr : Nat := 16
/-- `cmsgAlignOf`: round up to the 8-byte cmsg alignment. -/
def cmsgAlign (n : Nat) : Nat := (n + 7) / 8 * 8
/-- `unix.CmsgLen` -/
def cmsgLen (n : Nat) : Nat := cmsgAlign sizeofCmsghdr + n
/-- `unix.CmsgSpace` -/
def cmsgSpace (n : Nat) : Nat := cmsgAlign sizeofCmsghdr + cmsgAlign n
def solUDP : Nat := 17
def udpGRO : Nat := 104

/-- little-endian value of a byte list. -/
def leVal : List UInt8 → Nat
  | [] => 0
  | b :: bs => b.toNat + 256 * leVal bs

/-- bounds-checked read of `n` bytes at `off` (native = little endian); `none` = outside the buffer. -/
def rd (ctrl : List UInt8) (off n : Nat) : Option Nat :=
  if off + n ≤ ctrl.length then some (leVal ((ctrl.drop off).take n)) else none

/-- two's-complement reading of a `bits`-wide unsigned value (Go `int(uint64)`, `int32(uint32)`). -/
def toSigned (bits : Nat) (v : Nat) : Int :=
  if v < 2 ^ (bits - 1) then (v : Int) else (v : Int) - (2 ^ bits : Nat)

inductive R where
  /-- returned `gso`, after `iters` iterations of the walk loop -/
  | gso (g : Int) (iters : Nat)
  /-- an access outside the ancillary buffer happened -/
  | oob
  deriving DecidableEq, Repr

/-- the `for off+SizeofCmsghdr <= len(ctrl)` loop. -/
def walk (ctrl : List UInt8) (off : Nat) (gso : Int) (iters : Nat) : R :=
  if off + sizeofCmsghdr ≤ ctrl.length then
    -- ch := (*unix.Cmsghdr)(unsafe.Pointer(&ctrl[off])); reads ch.Len, ch.Level, ch.Type
    match rd ctrl off 8, rd ctrl (off + 8) 4, rd ctrl (off + 12) 4 with
    | some l, some level, some typ =>
      let clen : Int := toSigned 64 l
      if clen < (sizeofCmsghdr : Int) ∨ clen > ((ctrl.length - off : Nat) : Int) then .gso gso iters
      else
        let dataOff := off + cmsgLen 0
        let g' : Option Int :=
          if level = solUDP ∧ typ = udpGRO then
            if dataOff + Gen.urx_udpGROCmsgPayload ≤ ctrl.length then
              (rd ctrl dataOff Gen.urx_udpGROCmsgPayload).map (toSigned 32)
            else some gso
          else some gso
        match g' with
        | none => .oob
        | some g' => walk ctrl (off + cmsgSpace (clen.toNat - cmsgLen 0)) g' (iters + 1)
    | _, _, _ => .oob
  else .gso gso iters
termination_by ctrl.length - off
decreasing_by simp only [cmsgSpace, cmsgAlign, sizeofCmsghdr] at *; omega

/-- `parseRecvCmsg(hdr)` with `hdr.Controllen = ctrl.length`; `nil` says `hdr.Control == nil`. -/
def parse (nil : Bool) (ctrl : List UInt8) : R :=
  if ctrl.length < sizeofCmsghdr ∨ nil then .gso 0 0 else walk ctrl 0 0 0

end Nebula.Udprecv
