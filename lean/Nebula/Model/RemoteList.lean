/-
Executable model of remote_list.go (C37, C36): the per-owner cache, the setters, `BlockRemote`,
`unlockedCollect`, `unlockedSort` (comparator chain, sort, adjacent dedupe; relay dedupe + sort) and `Rebuild`.

Conventions
* an address/port is `AP`; IPv6 cache slots hold the raw 16-byte value (possibly IPv4-mapped) and are
  converted with `Unmap` when read (`protoV6AddrPortToNetAddrPort`);
* the cache map is an association list in insertion order; Go iterates it in an arbitrary order, which
  cannot influence the result (theorem `deterministic` in Props/C37);
* `sort.Slice` is modelled by `List.mergeSort` on the comparator (`less` is a strict total order on
  distinct values, so every correct sort gives the same list);
* the hostname-resolution goroutine is represented by its current result set (`hr`).
Core Lean only.
-/
import Nebula.Base.Net
import Nebula.Gen.RemoteList

namespace Nebula.RemoteList
open Nebula.Net

structure AP where
  addr : Addr
  port : Nat
  deriving DecidableEq, Repr

/-- `MaxRemotes` (hostmap.go), regenerated from the source. -/
def maxRemotes : Nat := Gen.rl_MaxRemotes

/-- conversion applied when a cache slot is read: `protoV4/V6AddrPortToNetAddrPort` (v6: `Unmap`). -/
def AP.out (a : AP) : AP := { a with addr := a.addr.unmap }

structure OwnerCache where
  v4l : Option AP := none
  v4r : List AP := []
  v6l : Option AP := none
  v6r : List AP := []
  relay : List Addr := []
  deriving Repr, DecidableEq

structure RL where
  vpnAddrs : List Addr := []
  addrs : List AP := []
  relays : List Addr := []
  cache : List (Addr × OwnerCache) := []
  /-- resolved addresses (`hr.ips`); `none` = no hostnamesResults -/
  hr : Option (List AP) := none
  badRemotes : List AP := []
  shouldRebuild : Bool := false
  deriving Repr

/-- lookup-or-create of the owner's cache entry followed by an update (`unlockedGetOrMake*`). -/
def updOwner (c : List (Addr × OwnerCache)) (o : Addr) (f : OwnerCache → OwnerCache) : List (Addr × OwnerCache) :=
  match c with
  | [] => [(o, f {})]
  | (k, v) :: rest => if k = o then (k, f v) :: rest else (k, v) :: updOwner rest o f

def getOwner (c : List (Addr × OwnerCache)) (o : Addr) : Option OwnerCache :=
  (c.find? (fun e => e.1 = o)).map (·.2)

/-- `LearnRemote`. -/
def learn (r : RL) (owner : Addr) (remote : AP) : RL :=
  if remote.addr.is4 then
    { r with shouldRebuild := true, cache := updOwner r.cache owner (fun c => { c with v4l := some remote }) }
  else
    { r with shouldRebuild := true, cache := updOwner r.cache owner (fun c => { c with v6l := some remote }) }

/-- `unlockedSetV4`: the first `MaxRemotes` entries that pass `check`. -/
def setV4 (r : RL) (owner : Addr) (to : List AP) (check : Addr → Bool) : RL :=
  { r with shouldRebuild := true,
           cache := updOwner r.cache owner (fun c => { c with v4r := (to.take maxRemotes).filter (fun a => check a.addr) }) }

/-- `unlockedSetV6` (the check sees the unmapped address). -/
def setV6 (r : RL) (owner : Addr) (to : List AP) (check : Addr → Bool) : RL :=
  { r with shouldRebuild := true,
           cache := updOwner r.cache owner (fun c => { c with v6r := (to.take maxRemotes).filter (fun a => check a.out.addr) }) }

/-- `unlockedSetRelay`. -/
def setRelay (r : RL) (owner : Addr) (to : List Addr) : RL :=
  { r with shouldRebuild := true, cache := updOwner r.cache owner (fun c => { c with relay := to.take maxRemotes }) }

/-- `unlockedPrependV4/V6`. -/
def prependV4 (r : RL) (owner : Addr) (a : AP) : RL :=
  { r with shouldRebuild := true, cache := updOwner r.cache owner (fun c => { c with v4r := (a :: c.v4r).take maxRemotes }) }

def prependV6 (r : RL) (owner : Addr) (a : AP) : RL :=
  { r with shouldRebuild := true, cache := updOwner r.cache owner (fun c => { c with v6r := (a :: c.v6r).take maxRemotes }) }

/-- `ResetForOwner` (an owner without entry gets none). -/
def resetForOwner (r : RL) (owner : Addr) : RL :=
  { r with shouldRebuild := true,
           cache := r.cache.map (fun e => if e.1 = owner then (e.1, { e.2 with v4r := [], v6r := [] }) else e) }

/-- `ClearHostnameResults`. -/
def clearHostnameResults (r : RL) : RL := { r with hr := none, shouldRebuild := true }

/-- installing a resolved set + the resolver's `onUpdate` callback. -/
def setDNS (r : RL) (ips : List AP) : RL := { r with hr := some ips, shouldRebuild := true }

/-- `BlockRemote`. -/
def blockRemote (r : RL) (bad : AP) (isRelayed : Bool) : RL :=
  if isRelayed then r
  else if r.badRemotes.contains bad then r
  else { r with badRemotes := r.badRemotes ++ [bad], shouldRebuild := true }

/-- `ResetBlockedRemotes` (after the fix: marks the list dirty). -/
def resetBlockedRemotes (r : RL) : RL := { r with badRemotes := [], shouldRebuild := true }

/-- `RefreshFromHandshake` (after the fix: marks the list dirty). -/
def refreshFromHandshake (r : RL) (vpnAddrs : List Addr) : RL :=
  { r with badRemotes := [], vpnAddrs := vpnAddrs, shouldRebuild := true }

/-- everything one owner contributes, in the order `unlockedCollect` reads it. -/
def OwnerCache.sources (c : OwnerCache) : List AP :=
  (c.v4l.toList ++ c.v4r ++ (c.v6l.toList ++ c.v6r).map AP.out)

/-- `unlockedCollect`: `shouldAdd = none` is a nil function. -/
def collect (r : RL) (shouldAdd : Option (List Addr → Addr → Bool)) : RL :=
  let fromCache := (r.cache.flatMap (fun e => e.2.sources)).filter (fun u => !r.badRemotes.contains u)
  let dns := (r.hr.getD []).filter (fun a =>
    (match shouldAdd with | none => true | some f => f r.vpnAddrs a.addr) && !r.badRemotes.contains a)
  { r with addrs := fromCache ++ dns, relays := r.cache.flatMap (fun e => e.2.relay) }

/-- `isPreferred`. -/
def isPreferred (ip : Addr) (pref : List Prefix) : Bool := pref.any (fun p => p.contains ip)

/-- `netip.Addr.IsPrivate` for IPv4: 10/8, 172.16/12, 192.168/16. -/
def isPrivate4 (a : Addr) : Bool :=
  a.val / 2 ^ 24 == 10 || a.val / 2 ^ 20 == 0xac1 || a.val / 2 ^ 16 == 0xc0a8

/-- `lessFunc` of `unlockedSort`, branch by branch. -/
def less (pref : List Prefix) (a b : AP) : Bool :=
  let aPref := isPreferred a.addr pref
  let bPref := isPreferred b.addr pref
  if aPref && !bPref then true
  else if !aPref && bPref then false
  else
    let a4 := a.addr.is4
    let b4 := b.addr.is4
    if !a4 && b4 then true
    else if a4 && !b4 then false
    else
      let privDecided : Option Bool :=
        if a4 && b4 then
          let aPrivate := isPrivate4 a.addr
          let bPrivate := isPrivate4 b.addr
          if !aPrivate && bPrivate then some true
          else if aPrivate && !bPrivate then some false
          else none
        else none
      match privDecided with
      | some d => d
      | none =>
        if a.addr = b.addr then decide (a.port < b.port)   -- c == 0
        else a.addr.lt b.addr                               -- c < 0

/-- the adjacent-duplicates loop after the sort (keeps the first element of every run). -/
def dedupAdj : List AP → List AP
  | [] => []
  | [a] => [a]
  | a :: b :: rest => if a = b then dedupAdj (b :: rest) else a :: dedupAdj (b :: rest)

/-- relay part of `unlockedSort`: dedupe through a map, then `slices.SortFunc` with `Addr.Compare`. -/
def dedup : List Addr → List Addr
  | [] => []
  | x :: xs => if xs.any (fun y => decide (y = x)) then dedup xs else x :: dedup xs

def sortRelays (l : List Addr) : List Addr :=
  (dedup l).mergeSort (fun a b => !(b.lt a))

/-- `unlockedSort`. -/
def sortAddrs (pref : List Prefix) (l : List AP) : List AP :=
  if l.length < 2 then l else dedupAdj (l.mergeSort (fun a b => !(less pref b a)))

def sort (r : RL) (pref : List Prefix) : RL :=
  { r with relays := sortRelays r.relays, addrs := sortAddrs pref r.addrs }

/-- `Rebuild`. -/
def rebuild (r : RL) (shouldAdd : Option (List Addr → Addr → Bool)) (pref : List Prefix) : RL :=
  let r := if r.shouldRebuild then { collect r shouldAdd with shouldRebuild := false } else r
  sort r pref

end Nebula.RemoteList
