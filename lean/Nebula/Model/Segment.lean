/-
Model of `overlay/tio/virtio/segment_linux.go` (`CheckValid`, `CorrectHdrLen`, `segCount`,
`basePseudoSum`, `baseIPv4HdrSum`, `baseTCPHdrSum`, `SegmentTCP`, `SegmentUDP`, `FinishChecksum`,
`foldComplement`) and of the GSO path of `overlay/tio/tio_gso_linux.go` (`Offload.decodeRead`,
`protoFromGSOType`, `SegmentSuperpacket`).

Conventions.  Packets are `List UInt8`; Go's fixed-width arithmetic is written out (`% 65536` for
`uint16`, `% 2^32` for `uint32`); every slice / index expression of the Go code is a bounds-checked
accessor that yields `Err.panic` exactly when Go would panic on a slice whose capacity equals its
length (the harness passes such slices).  Errors are an enum in the order the code tests them.

`SegmentTCP` / `SegmentUDP` stamp headers *in place* into the superpacket buffer; the model builds
segment `i` functionally as `savedHdr ++ payload_i` followed by the same absolute-offset writes in the
same order.  The two coincide because header stamp `i` covers `pkt[i·g, i·g+hdrLen)`, which lies before
payload `i` (`pkt[hdrLen+i·g, …)`) and every later payload, and every write of iteration `i` lands inside
`seg_i`'s header provided `csumStart+18 ≤ hdrLen` (TCP; always true after `CorrectHdrLen`) — outside
that precondition the model answers `Err.precond` instead of guessing (never reached from
`decodeRead`, theorem `Props.C24.pipeline_never_precond`).  `checksum.Checksum` is `Csum.checksum`
(justified by C25).
-/
import Nebula.Base.Csum
import Nebula.Gen.Segment

namespace Nebula.Segment
open Nebula.Csum Nebula.Gen

inductive Err where
  | rscInfo | tooShort | gsoZero | ecn | version            -- CheckValid
  | tcpShort | tcpHLen | lenLtHdrLen | hdrLtCsum | csumOff   -- CorrectHdrLen
  | gsoProto                                                 -- protoFromGSOType
  | shortRead | finishRange                                  -- decodeRead / FinishChecksum
  | segGsoZero | segCsumZero | hdrTooLong | udpHdrLen | ihl  -- SegmentTCP / SegmentUDP
  | precond                                                  -- outside the functional model's domain
  | panic                                                    -- Go run-time panic (index / slice bounds)
  deriving DecidableEq, Repr

def Err.name : Err → String
  | .rscInfo => "rsc-info" | .tooShort => "too-short" | .gsoZero => "gso-zero" | .ecn => "ecn"
  | .version => "version" | .tcpShort => "tcp-short" | .tcpHLen => "tcp-hlen"
  | .lenLtHdrLen => "len-lt-hdrlen" | .hdrLtCsum => "hdrlen-lt-csumstart" | .csumOff => "csum-off"
  | .gsoProto => "gso-proto" | .shortRead => "short-read" | .finishRange => "finish-range"
  | .segGsoZero => "seg-gso-zero" | .segCsumZero => "seg-csum-zero" | .hdrTooLong => "hdr-too-long"
  | .udpHdrLen => "udp-hdrlen" | .ihl => "ihl" | .precond => "precond" | .panic => "panic"

abbrev R := Except Err

/-- `if c { return err }` -/
def failIf (c : Prop) [Decidable c] (e : Err) : R Unit := if c then throw e else pure ()

/-- virtio_net_hdr as decoded by `Hdr.Decode`. -/
structure Hdr where
  flags : Nat
  gsoType : Nat   -- raw byte, including the ECN bit 0x80
  hdrLen : Nat
  gsoSize : Nat
  csumStart : Nat
  csumOffset : Nat
  deriving Repr, DecidableEq

-- kernel ABI constants (include/uapi/linux/virtio_net.h, in.h); `golang.org/x/sys/unix` values
def GSO_NONE : Nat := 0
def GSO_TCPV4 : Nat := 1
def GSO_TCPV6 : Nat := 4
def GSO_UDP_L4 : Nat := 5
def GSO_ECN : Nat := 0x80
def F_NEEDS_CSUM : Nat := 1
def F_RSC_INFO : Nat := 4
def IPPROTO_TCP : Nat := 6
def IPPROTO_UDP : Nat := 17

def Hdr.gso (h : Hdr) : Nat := h.gsoType % 128          -- `gsoType &^ GSO_ECN` on a uint8
def Hdr.hasECN (h : Hdr) : Bool := h.gsoType % 256 ≥ 128

/-! ### bounds-checked accessors -/

/-- `p[i]` -/
def rd (p : List UInt8) (i : Nat) : R Nat :=
  match p[i]? with
  | some b => pure b.toNat
  | none => throw .panic

/-- `p[a:b]` (capacity = length) -/
def slice (p : List UInt8) (a b : Nat) : R (List UInt8) :=
  if a ≤ b ∧ b ≤ p.length then pure ((p.drop a).take (b - a)) else throw .panic

/-- `binary.BigEndian.Uint16(p[off:off+2])` -/
def rd16 (p : List UInt8) (off : Nat) : R Nat :=
  if off + 2 ≤ p.length then pure (be16 p off) else throw .panic

/-- `binary.BigEndian.Uint32(p[off:off+4])` -/
def rd32 (p : List UInt8) (off : Nat) : R Nat :=
  if off + 4 ≤ p.length then pure (be16 p off * 65536 + be16 p (off + 2)) else throw .panic

/-- `binary.BigEndian.PutUint32(b[off:off+4], v)`. -/
def set32 (b : List UInt8) (off v : Nat) : List UInt8 :=
  set16 (set16 b off (v / 65536 % 65536)) (off + 2) (v % 65536)

/-- `b[off] = v`. -/
def set8 (b : List UInt8) (off v : Nat) : List UInt8 := b.take off ++ [UInt8.ofNat v] ++ b.drop (off + 1)

/-! ### CheckValid / CorrectHdrLen / protoFromGSOType -/

def checkValid (pkt : List UInt8) (h : Hdr) : R Unit := do
  failIf (h.flags / F_RSC_INFO % 2 = 1) .rscInfo
  failIf (pkt.length < virtio_ipv4HeaderMinLen) .tooShort
  let b0 ← rd pkt 0
  let ver := b0 / 16
  failIf (ver = 6 ∧ pkt.length < virtio_ipv6FixedLen) .tooShort
  let g := h.gso
  failIf (g ≠ GSO_NONE ∧ h.gsoSize = 0) .gsoZero
  failIf (h.hasECN ∧ ¬(g = GSO_TCPV4 ∨ g = GSO_TCPV6)) .ecn
  if g = GSO_TCPV4 then
    failIf (ver ≠ 4) .version
  else if g = GSO_TCPV6 then
    failIf (ver ≠ 6) .version
  else
    failIf (¬(ver = 4 ∨ ver = 6)) .version

/-- returns the corrected `HdrLen`. All additions are `uint16` additions. -/
def correctHdrLen (pkt : List UInt8) (h : Hdr) : R Nat := do
  let hdrLen ←
    if h.gso = GSO_UDP_L4 then pure ((h.csumStart + 8) % 65536)
    else do
      let idx := (h.csumStart + virtio_tcpDataOffOff) % 65536
      failIf (pkt.length ≤ idx) .tcpShort
      let d ← rd pkt idx
      let tcpHLen := d / 16 * 4
      failIf (tcpHLen < virtio_tcpHeaderMinLen ∨ tcpHLen > virtio_tcpHeaderMaxLen) .tcpHLen
      pure ((h.csumStart + tcpHLen) % 65536)
  failIf (pkt.length < hdrLen) .lenLtHdrLen
  failIf (hdrLen < h.csumStart) .hdrLtCsum
  let cSumAt := (h.csumStart + h.csumOffset) % 65536
  failIf (cSumAt + 1 ≥ pkt.length) .csumOff
  pure hdrLen

inductive Proto where
  | tcp | udp
  deriving DecidableEq, Repr

def protoFromGSOType (g : Nat) : R Proto :=
  if g = GSO_TCPV4 ∨ g = GSO_TCPV6 then pure .tcp
  else if g = GSO_UDP_L4 then pure .udp
  else throw .gsoProto

/-! ### base sums -/

/-- `segCount` through the translated function (Go `int` = 64-bit two's complement). -/
def segCount (payLen gsoSize : Nat) : Nat :=
  (virtio_segCount (BitVec.ofNat 64 payLen) (BitVec.ofNat 64 gsoSize)).toNat

/-- `foldComplement` through the translated function. -/
def foldComplement (sum : Nat) : Nat := (virtio_foldComplement (BitVec.ofNat 32 sum)).toNat

/-- the two-round 32 → 16 fold written in the base-sum helpers. -/
def fold2 (sum : Nat) : Nat :=
  let sum := sum % 65536 + sum / 65536
  sum % 65536 + sum / 65536

def basePseudoSum (pkt : List UInt8) (isV4 : Bool) (proto : Nat) : R Nat := do
  let addrs ← if isV4 then slice pkt virtio_ipv4SrcOff virtio_ipv4AddrsEnd
              else slice pkt virtio_ipv6SrcOff virtio_ipv6AddrsEnd
  pure (checksum addrs 0 + proto)

def baseIPv4HdrSum (pkt : List UInt8) (csumStart : Nat) : R Nat := do
  let b0 ← rd pkt 0
  let ihl := b0 % 16 * 4
  failIf (ihl < virtio_ipv4HeaderMinLen ∨ ihl > csumStart) .ihl
  let hdr ← slice pkt 0 ihl
  let tl ← rd16 pkt virtio_ipv4TotalLenOff
  let ck ← rd16 pkt virtio_ipv4ChecksumOff
  let id ← rd16 pkt virtio_ipv4IDOff
  pure (fold2 ((checksum hdr 0 + compl16 tl + compl16 ck + compl16 id) % 4294967296))

/-- IPv4 only: the original ID and the base header sum (`origIPID`, `baseIPHdrSum`; zero for IPv6). -/
def ipBase (pkt : List UInt8) (isV4 : Bool) (csumStart : Nat) : R (Nat × Nat) :=
  if isV4 then do
    let id ← rd16 pkt virtio_ipv4IDOff
    let s ← baseIPv4HdrSum pkt csumStart
    pure (id, s)
  else pure (0, 0)

def baseTCPHdrSum (pkt : List UInt8) (csumStart headerLen : Nat) : R Nat := do
  let seq ← rd32 pkt (csumStart + virtio_tcpSeqOff)
  let flags ← rd pkt (csumStart + virtio_tcpFlagsOff)
  let hdr ← slice pkt csumStart headerLen
  let ck ← rd16 pkt (csumStart + virtio_tcpChecksumOff)
  pure (fold2 ((checksum hdr 0 + compl16 (seq / 65536) + compl16 (seq % 65536) + compl16 flags
    + compl16 ck) % 4294967296))

/-! ### the per-segment geometry (shared by TCP and UDP) -/

/-- payload slice of segment `i`: `pkt[hdrLen + i·g : hdrLen + min((i+1)·g, payLen)]`. -/
def segPayload (pkt : List UInt8) (hdrLen g i : Nat) : List UInt8 :=
  ((pkt.drop hdrLen).drop (i * g)).take g

/-- IPv4 / IPv6 length (+ID, +header checksum) patches of one segment. -/
def patchIP (seg : List UInt8) (isV4 : Bool) (hdrLen segPayLen origID baseIP i : Nat) : List UInt8 :=
  if isV4 then
    let totalLen := hdrLen + segPayLen
    let segID := (origID + i % 65536) % 65536
    let s := set16 seg virtio_ipv4TotalLenOff (totalLen % 65536)
    let s := set16 s virtio_ipv4IDOff segID
    let ipSum := (baseIP + totalLen % 4294967296 + segID) % 4294967296
    set16 s virtio_ipv4ChecksumOff (foldComplement ipSum)
  else
    -- `uint16(headerLen-ipv6FixedLen+segPayLen)` on Go ints (two's-complement truncation)
    set16 seg virtio_ipv6PayloadLenOff ((((hdrLen : Int) - virtio_ipv6FixedLen + segPayLen) % 65536).toNat)

/-- flags of segment `i` of `n`: CWR cleared unless first, FIN|PSH cleared unless last. -/
def segFlags (orig i n : Nat) : Nat :=
  let f := if i ≠ 0 then orig - orig / 128 % 2 * 128 else orig                 -- &^ 0x80
  if i ≠ n - 1 then f - f % 2 - f / 8 % 2 * 8 else f                            -- &^ 0x09

structure TcpCtx where
  saved : List UInt8
  hdrLen : Nat
  csumStart : Nat
  g : Nat
  isV4 : Bool
  tcpHdrLen : Nat
  numSeg : Nat
  origSeq : Nat
  origFlags : Nat
  baseProto : Nat
  baseTcp : Nat
  origID : Nat
  baseIP : Nat

def tcpSeg (c : TcpCtx) (pkt : List UInt8) (i : Nat) : List UInt8 :=
  let pay := segPayload pkt c.hdrLen c.g i
  let segPayLen := pay.length
  let seg := c.saved ++ pay
  let segSeq := (c.origSeq + (i * c.g) % 4294967296) % 4294967296
  let flags := segFlags c.origFlags i c.numSeg
  let seg := patchIP seg c.isV4 c.hdrLen segPayLen c.origID c.baseIP i
  let seg := set32 seg (c.csumStart + virtio_tcpSeqOff) segSeq
  let seg := set8 seg (c.csumStart + virtio_tcpFlagsOff) flags
  let tcpLen := c.tcpHdrLen + segPayLen
  let paySum := checksum pay 0
  let wide := c.baseTcp + paySum + c.baseProto + segSeq + flags + tcpLen
  let wide := wide % 4294967296 + wide / 4294967296
  let wide := wide % 4294967296 + wide / 4294967296
  set16 seg (c.csumStart + virtio_tcpChecksumOff) (foldComplement (wide % 4294967296))

def segmentTCP (pkt : List UInt8) (hdrLen csumStart gsoSize : Nat) : R (List (List UInt8)) := do
  failIf (gsoSize = 0) .segGsoZero
  failIf (csumStart = 0) .segCsumZero
  failIf (hdrLen > virtio_maxSegHdrLen) .hdrTooLong
  let b0 ← rd pkt 0
  let isV4 := b0 / 16 = 4
  let d ← rd pkt (csumStart + virtio_tcpDataOffOff)
  let tcpHdrLen := d / 16 * 4
  let origSeq ← rd32 pkt (csumStart + virtio_tcpSeqOff)
  let origFlags ← rd pkt (csumStart + virtio_tcpFlagsOff)
  let baseProto ← basePseudoSum pkt isV4 IPPROTO_TCP
  let baseTcp ← baseTCPHdrSum pkt csumStart hdrLen
  let ipb ← ipBase pkt isV4 csumStart
  let saved ← slice pkt 0 hdrLen
  failIf (csumStart + virtio_tcpChecksumOff + 2 > hdrLen) .precond
  let numSeg := segCount (pkt.length - hdrLen) gsoSize
  let c : TcpCtx := { saved, hdrLen, csumStart, g := gsoSize, isV4, tcpHdrLen, numSeg, origSeq,
                      origFlags, baseProto, baseTcp, origID := ipb.1, baseIP := ipb.2 }
  pure ((List.range numSeg).map (tcpSeg c pkt))

structure UdpCtx where
  saved : List UInt8
  hdrLen : Nat
  csumStart : Nat
  g : Nat
  isV4 : Bool
  baseProto : Nat
  origID : Nat
  baseIP : Nat

def udpSeg (c : UdpCtx) (pkt : List UInt8) (i : Nat) : List UInt8 :=
  let pay := segPayload pkt c.hdrLen c.g i
  let segPayLen := pay.length
  let seg := c.saved ++ pay
  let udpLen := virtio_udpHeaderLen + segPayLen
  let seg := patchIP seg c.isV4 c.hdrLen segPayLen c.origID c.baseIP i
  let seg := set16 seg (c.csumStart + virtio_udpLengthOff) (udpLen % 65536)
  let seg := set16 seg (c.csumStart + virtio_udpChecksumOff) 0
  let pseudo := fold2 ((c.baseProto + udpLen % 4294967296) % 4294967296)
  let csum := compl16 (checksum (seg.drop c.csumStart) (pseudo % 65536))
  let csum := if csum = 0 then 0xffff else csum
  set16 seg (c.csumStart + virtio_udpChecksumOff) csum

def segmentUDP (pkt : List UInt8) (hdrLen csumStart gsoSize : Nat) : R (List (List UInt8)) := do
  failIf (gsoSize = 0) .segGsoZero
  failIf (csumStart = 0) .segCsumZero
  let b0 ← rd pkt 0
  let isV4 := b0 / 16 = 4
  failIf (hdrLen > virtio_maxSegHdrLen) .hdrTooLong
  -- `headerLen-csumStart != udpHeaderLen` on Go ints
  failIf ((hdrLen : Int) - csumStart ≠ virtio_udpHeaderLen) .udpHdrLen
  let baseProto ← basePseudoSum pkt isV4 IPPROTO_UDP
  let ipb ← ipBase pkt isV4 csumStart
  let saved ← slice pkt 0 hdrLen
  let numSeg := segCount (pkt.length - hdrLen) gsoSize
  let c : UdpCtx := { saved, hdrLen, csumStart, g := gsoSize, isV4, baseProto, origID := ipb.1, baseIP := ipb.2 }
  pure ((List.range numSeg).map (udpSeg c pkt))

/-! ### FinishChecksum (non-GSO packet with NEEDS_CSUM) -/

def finishChecksum (seg : List UInt8) (h : Hdr) : R (List UInt8) := do
  let cs := h.csumStart
  let co := h.csumOffset
  failIf (cs + co + 2 > seg.length) .finishRange
  let part := be16 seg (cs + co)
  let seg := set16 seg (cs + co) 0
  let csum := compl16 (checksum (seg.drop cs) part)
  let csum := if co = virtio_udpChecksumOff ∧ csum = 0 then 0xffff else csum
  pure (set16 seg (cs + co) csum)

/-! ### Offload.decodeRead + SegmentSuperpacket -/

/-- What the reader hands to the rest of nebula for one tun read: the list of IP packets after
`decodeRead` and `SegmentSuperpacket`. -/
def readAndSegment (h : Hdr) (pkt : List UInt8) : R (List (List UInt8)) := do
  failIf (pkt.length = 0) .shortRead
  if h.gso = GSO_NONE then
    if h.flags % 2 = F_NEEDS_CSUM then
      let p ← finishChecksum pkt h
      pure [p]
    else pure [pkt]
  else
    checkValid pkt h
    let hdrLen ← correctHdrLen pkt h
    let proto ← protoFromGSOType h.gso
    -- GSOInfo{Size: hdr.GSOSize, …}; IsSuperpacket() is Size > 0, guaranteed by CheckValid
    if h.gsoSize = 0 then pure [pkt]
    else match proto with
      | .tcp => segmentTCP pkt hdrLen h.csumStart h.gsoSize
      | .udp => segmentUDP pkt hdrLen h.csumStart h.gsoSize

end Nebula.Segment
