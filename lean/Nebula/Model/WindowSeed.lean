/-
Model of `newConnectionStateFromResult` (connection_state.go), the part that matters for replay
protection: refuse a `MessageIndex` that does not fit the replay window, start `messageCounter` at
`MessageIndex`, and mark the counters `1..MessageIndex` (the handshake messages themselves) as seen in
a fresh window — on the `bits.go` model of C11.
-/
import Nebula.Model.Bits

namespace Nebula.WindowSeed
open Nebula.Bits

/-- `ReplayWindow`. -/
def replayWindow : Nat := Gen.nebula_ReplayWindow

/-- the `for i := uint64(1); i <= r.MessageIndex; i++ { ci.window.Update(nil, i) }` loop
(`MessageIndex < ReplayWindow`, so `i` never wraps). -/
def seedLoop (b : Bits) (mi : Nat) : Bits :=
  (List.range' 1 mi).foldl (fun b i => (update b (BitVec.ofNat 64 i)).1) b

/-- `newConnectionStateFromResult`: `none` = the error return; else (window, messageCounter). -/
def seed (mi : Nat) : Option (Bits × Nat) :=
  if replayWindow ≤ mi then none else
  match newBits (BitVec.ofNat 64 replayWindow) with
  | none => none          -- `NewBits` panics on a length that is not a power of two
  | some b => some (seedLoop b mi, mi)

end Nebula.WindowSeed
