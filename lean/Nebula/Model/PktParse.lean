/-
Model of the inner-packet classifier (C20):
  `outside.go`        newPacket / parseV4 / parseV6
  `iputil/packet.go`  IPv6FindUpperProtocol   (as repaired by `fix: fail closed when the IPv6 extension header walk limit is exhausted`)

Bytes are `List UInt8`. Every Go index / slice expression goes through `idx` / `slice` / `u16At`, which
answer `Res.panic` when the index is outside the slice — so "never panics" is a theorem about the guards
(`Props/C20.lean: no_panic`), not a convention. Go `int` offsets are unbounded naturals here (an offset
never exceeds `len + 2048`, far from 2^63).
-/
import Nebula.Gen.PktFirewall
import Nebula.Gen.PktOutside
import Nebula.Gen.PktIputil

namespace Nebula.Pkt

abbrev Bytes := List UInt8

inductive Err where
  | packetTooShort          -- ErrPacketTooShort
  | unknownIPVersion        -- ErrUnknownIPVersion
  | v4InvalidHeaderLength   -- ErrIPv4InvalidHeaderLength
  | v4PacketTooShort        -- ErrIPv4PacketTooShort
  | v6PacketTooShort        -- ErrIPv6PacketTooShort
  | v6NoPayload             -- iputil.ErrIPv6CouldNotFindPayload
  deriving DecidableEq, Repr

/-- Result of a Go function: a value, a returned error, or a run-time panic (index out of range). -/
inductive Res (α : Type) where
  | ok (a : α)
  | err (e : Err)
  | panic
  deriving Repr, DecidableEq

def Res.bind {α β : Type} (r : Res α) (f : α → Res β) : Res β :=
  match r with
  | .ok a => f a
  | .err e => .err e
  | .panic => .panic

instance : Monad Res where
  pure := .ok
  bind := Res.bind

/-- `d[i]` -/
def idx (d : Bytes) (i : Nat) : Res Nat :=
  match d[i]? with
  | some b => .ok b.toNat
  | none => .panic

/-- `d[a:b]` (the harness hands over slices with `cap == len`) -/
def slice (d : Bytes) (a b : Nat) : Res Bytes :=
  if a ≤ b ∧ b ≤ d.length then .ok ((d.drop a).take (b - a)) else .panic

/-- `binary.BigEndian.Uint16(d[a:a+2])` -/
def u16At (d : Bytes) (a : Nat) : Res Nat := do
  let s ← slice d a (a + 2)
  let hi ← idx s 0
  let lo ← idx s 1
  pure (hi * 256 + lo)

/-- What `IPv6FindUpperProtocol` returns when `err == nil`. -/
structure V6Walk where
  nh : Nat          -- nextHeader
  off : Nat         -- offset
  isFrag : Bool     -- isFragment (non-first fragment)
  anyFrag : Bool    -- anyFragment
  deriving DecidableEq, Repr

/-- `const maxIPv6ExtHeaders = 8` inside `IPv6FindUpperProtocol`, regenerated from the source. -/
def maxIPv6ExtHeaders : Nat := Gen.iputil_maxIPv6ExtHeaders

/-- The `case` lists of `switch nextHeader` inside the loop, regenerated from the source:
`case 0, 43, 60` (Hop-by-Hop, Routing, Destination), `case 44` (Fragment), `case 51` (AH) … -/
def tlvTypes : List Nat := Gen.iputil_extHeaderWalkCases.getD 0 []
def fragTypes : List Nat := Gen.iputil_extHeaderWalkCases.getD 1 []
def ahTypes : List Nat := Gen.iputil_extHeaderWalkCases.getD 2 []
/-- … and of the `switch nextHeader` after the loop: `case 0, 43, 44, 51, 60`. -/
def afterLoopTypes : List Nat := Gen.iputil_extHeaderAfterLoopCases.getD 0 []

/-- The loop of `IPv6FindUpperProtocol` (`for range maxIPv6ExtHeaders`) followed by the code after it.
`fuel` = remaining iterations. -/
def findUpperLoop (d : Bytes) : Nat → Nat → Nat → Bool → Res V6Walk
  | 0, nh, off, af =>
    -- after the loop (the `fix:` commit): fail closed on an unresolved chain, same bounds check as `default:`
    if nh ∈ afterLoopTypes then .err .v6NoPayload
    else if off > d.length then .err .v6NoPayload
    else .ok ⟨nh, off, false, af⟩
  | fuel + 1, nh, off, af =>
    if nh ∈ tlvTypes then                           -- case 0, 43, 60: Hop-by-Hop, Routing, Destination
      if d.length < off + 2 then .err .v6NoPayload else do
        let n ← idx d off
        let l ← idx d (off + 1)
        findUpperLoop d fuel n (off + (l + 1) * 8) af          -- (int(packet[offset+1]) + 1) << 3
    else if nh ∈ fragTypes then                      -- case 44: Fragment
      if d.length < off + 8 then .err .v6NoPayload else do
        let b2 ← idx d (off + 2)
        let b3 ← idx d (off + 3)
        if b2 ≠ 0 ∨ b3 &&& 0xf8 ≠ 0 then do
          let n ← idx d off
          .ok ⟨n, off, true, true⟩
        else do
          let n ← idx d off
          findUpperLoop d fuel n (off + 8) true
    else if nh ∈ ahTypes then                        -- case 51: AH
      if d.length < off + 2 then .err .v6NoPayload else do
        let n ← idx d off
        let l ← idx d (off + 1)
        findUpperLoop d fuel n (off + (l + 2) * 4) af          -- (int(packet[offset+1]) + 2) << 2
    else                                             -- default: terminal protocol
      if off > d.length then .err .v6NoPayload
      else .ok ⟨nh, off, false, af⟩

/-- `iputil.IPv6FindUpperProtocol` -/
def findUpper (d : Bytes) : Res V6Walk :=
  if d.length < 40 then .err .v6NoPayload else do
    let nh ← idx d 6
    findUpperLoop d maxIPv6ExtHeaders nh 40 false

/-- `firewall.ParsedPacket` after a successful `newPacket` (addresses as their 4 / 16 bytes). -/
structure Parsed where
  localAddr : Bytes
  remoteAddr : Bytes
  localPort : Nat
  remotePort : Nat
  proto : Nat
  fragment : Bool
  ipHdrLen : Nat
  fragAny : Bool
  deriving DecidableEq, Repr

/-- `parseV6` -/
def parseV6 (d : Bytes) (incoming : Bool) : Res Parsed :=
  if d.length < 40 then .err .v6PacketTooShort else do
    let a ← slice d 8 24
    let b ← slice d 24 40
    let remote := if incoming then a else b
    let loc := if incoming then b else a
    match findUpper d with
    | .panic => .panic
    | .err _ => .err .v6PacketTooShort
    | .ok w =>
      let mk (lp rp : Nat) : Parsed :=
        { localAddr := loc, remoteAddr := remote, localPort := lp, remotePort := rp, proto := w.nh,
          fragment := w.isFrag, ipHdrLen := w.off, fragAny := w.anyFrag }
      if w.isFrag then .ok (mk 0 0)
      else if w.nh = Gen.firewall_ProtoICMPv6 then
        if d.length < w.off + 4 then .err .v6PacketTooShort else do
          let t ← idx d w.off
          if t = 128 ∨ t = 129 then       -- layers.ICMPv6TypeEchoRequest / EchoReply
            if d.length < w.off + 6 then .err .v6PacketTooShort else do
              let id ← u16At d (w.off + 4)
              .ok (mk 0 id)
          else .ok (mk 0 0)
      else if w.nh = Gen.firewall_ProtoTCP ∨ w.nh = Gen.firewall_ProtoUDP then
        if d.length < w.off + 4 then .err .v6PacketTooShort else do
          let p1 ← u16At d w.off
          let p2 ← u16At d (w.off + 2)
          if incoming then .ok (mk p2 p1) else .ok (mk p1 p2)
      else .ok (mk 0 0)

/-- `parseV4` -/
def parseV4 (d : Bytes) (incoming : Bool) : Res Parsed :=
  if d.length < 20 then .err .v4PacketTooShort else do
    let b0 ← idx d 0
    let ihl := (b0 &&& 0x0f) * 4
    if ihl < 20 then .err .v4InvalidHeaderLength else do
      let flagsfrags ← u16At d 6
      let fragment : Bool := flagsfrags &&& 0x1fff != 0
      let fragAny : Bool := flagsfrags &&& 0x3fff != 0
      let proto ← idx d 9
      let minLen :=
        if !fragment then
          (if proto = Gen.firewall_ProtoICMP then ihl + Gen.nebula_minFwPacketLen + 2
           else ihl + Gen.nebula_minFwPacketLen)
        else ihl
      if d.length < minLen then .err .v4InvalidHeaderLength else do
        let a ← slice d 12 16
        let b ← slice d 16 20
        let remote := if incoming then a else b
        let loc := if incoming then b else a
        let mk (lp rp : Nat) : Parsed :=
          { localAddr := loc, remoteAddr := remote, localPort := lp, remotePort := rp, proto := proto,
            fragment := fragment, ipHdrLen := ihl, fragAny := fragAny }
        if fragment then .ok (mk 0 0)
        else if proto = Gen.firewall_ProtoICMP then do
          let id ← u16At d (ihl + 4)
          .ok (mk 0 id)
        else do
          let p1 ← u16At d ihl
          let p2 ← u16At d (ihl + 2)
          if incoming then .ok (mk p2 p1) else .ok (mk p1 p2)

/-- `newPacket` -/
def newPacket (d : Bytes) (incoming : Bool) : Res Parsed :=
  if d.length < 1 then .err .packetTooShort else do
    let b0 ← idx d 0
    let version := (b0 >>> 4) &&& 0x0f
    if version = 4 then parseV4 d incoming
    else if version = 6 then parseV6 d incoming
    else .err .unknownIPVersion

end Nebula.Pkt
