/-
Model of `cpupick/cpupick.go` (`pickCandidates`, `arrange`, `splitmix64` — translated —, `flatTopology`) and
`cpupick/perf_linux.go` (`parseCPUList`).  CPU, node and core ids are Go `int`s (`Int`); Go maps are
association lists whose lookup of a missing key gives the zero value; strings are byte lists.
-/
import Nebula.Gen.Cpupick

namespace Nebula.Cpupick

/-- `m[k]` on a Go `map[int]int` (0 when absent); later insertions shadow earlier ones (`set` prepends). -/
def mapGet (m : List (Int × Int)) (k : Int) : Int :=
  match m.find? (fun e => e.1 == k) with
  | some e => e.2
  | none => 0

structure Topology where
  nodeOf : List (Int × Int)
  coreOf : List (Int × Int)
  zeroCore : Int
  deriving Repr

/-- `flatTopology`: the loop assigns in order, a later duplicate overwrites. -/
def flatTopology (cpus : List Int) : Topology :=
  let rec go (i : Nat) (l : List Int) (t : Topology) : Topology :=
    match l with
    | [] => t
    | c :: rest =>
      go (i + 1) rest { nodeOf := (c, 0) :: t.nodeOf, coreOf := (c, (i : Int)) :: t.coreOf,
                        zeroCore := if c = 0 then (i : Int) else t.zeroCore }
  go 0 cpus { nodeOf := [], coreOf := [], zeroCore := -1 }

/-- `pickCandidates`. -/
def pickCandidates (allowed perf : List Int) (routines : Int) : List Int :=
  if (perf.length : Int) < routines then allowed else perf

/-- node ids in order of first appearance (`nodes`). -/
def nodesOf (nodeOf : Int → Int) : List Int → List Int → List Int
  | _, [] => []
  | seen, c :: rest =>
    let n := nodeOf c
    if seen.contains n then nodesOf nodeOf seen rest else n :: nodesOf nodeOf (n :: seen) rest

/-- step 1 of `arrange`: confine to one NUMA node that holds at least `routines` candidates, if any. -/
def confine (cands : List Int) (nodeOf : Int → Int) (routines : Int) (h : Nat) : List Int :=
  let nodes := nodesOf nodeOf [] cands
  let byNode := fun n => cands.filter (fun c => nodeOf c == n)
  let eligible := nodes.filter (fun n => ((byNode n).length : Int) ≥ routines)
  if eligible.length > 0 then byNode (eligible.getD (h % eligible.length) 0) else cands

/-- is `c` a non-zero CPU on CPU 0's physical core. -/
def onZeroCore (t : Topology) (c : Int) : Bool := c != 0 && (t.zeroCore ≥ 0 && mapGet t.coreOf c == t.zeroCore)

/-- the SMT pass: first thread of every core in order (`out`), then the rest (`siblings`). -/
def smtPass (coreOf : Int → Int) : List Int → List Int → List Int × List Int
  | _, [] => ([], [])
  | seen, c :: rest =>
    let g := coreOf c
    if seen.contains g then
      let r := smtPass coreOf seen rest
      (r.1, c :: r.2)
    else
      let r := smtPass coreOf (g :: seen) rest
      (c :: r.1, r.2)

/-- `arrange(cands, topo, routines, h)`. -/
def arrange (cands : List Int) (t : Topology) (routines : Int) (h : Nat) : List Int :=
  let cands := confine cands (mapGet t.nodeOf) routines h
  let preferred := cands.filter (fun c => c != 0 && !onZeroCore t c)
  let zeroTail := cands.filter (onZeroCore t) ++ (if cands.contains 0 then [0] else [])
  if preferred.length = 0 then zeroTail else
  let off := (h >>> 32) % preferred.length
  let rot := preferred.drop off ++ preferred.take off
  let r := smtPass (mapGet t.coreOf) [] rot
  r.1 ++ r.2 ++ zeroTail

/-- `splitmix64`, through the translated function. -/
def splitmix64 (x : Nat) : Nat := (Gen.cpupick_splitmix64 (BitVec.ofNat 64 x)).toNat

/-! ### `parseCPUList` -/

/-- UTF-8 encodings of the code points `unicode.IsSpace` accepts (what `strings.TrimSpace` strips). -/
def spaceSeqs : List (List Nat) :=
  [[0x20], [0x09], [0x0a], [0x0b], [0x0c], [0x0d], [0xc2, 0x85], [0xc2, 0xa0], [0xe1, 0x9a, 0x80],
   [0xe2, 0x80, 0x80], [0xe2, 0x80, 0x81], [0xe2, 0x80, 0x82], [0xe2, 0x80, 0x83], [0xe2, 0x80, 0x84],
   [0xe2, 0x80, 0x85], [0xe2, 0x80, 0x86], [0xe2, 0x80, 0x87], [0xe2, 0x80, 0x88], [0xe2, 0x80, 0x89],
   [0xe2, 0x80, 0x8a], [0xe2, 0x80, 0xa8], [0xe2, 0x80, 0xa9], [0xe2, 0x80, 0xaf], [0xe2, 0x81, 0x9f],
   [0xe3, 0x80, 0x80]]

def stripPrefixSpace (s : List Nat) : Option (List Nat) :=
  (spaceSeqs.find? (fun q => q.isPrefixOf s)).map (fun q => s.drop q.length)

def trimLeft : Nat → List Nat → List Nat
  | 0, s => s
  | fuel + 1, s => match stripPrefixSpace s with
    | some s' => trimLeft fuel s'
    | none => s

def stripSuffixSpace (s : List Nat) : Option (List Nat) :=
  (spaceSeqs.find? (fun q => q.isSuffixOf s)).map (fun q => s.take (s.length - q.length))

def trimRight : Nat → List Nat → List Nat
  | 0, s => s
  | fuel + 1, s => match stripSuffixSpace s with
    | some s' => trimRight fuel s'
    | none => s

/-- `strings.TrimSpace` (valid UTF-8 input). -/
def trimSpace (s : List Nat) : List Nat := trimRight s.length (trimLeft s.length s)

/-- `strings.Split(s, ",")`-style splitting on one byte: always at least one part. -/
def splitOn (sep : Nat) : List Nat → List (List Nat)
  | [] => [[]]
  | c :: rest =>
    if c = sep then [] :: splitOn sep rest
    else match splitOn sep rest with
      | p :: ps => (c :: p) :: ps
      | [] => [[c]]

/-- `strings.Cut(s, "-")`. -/
def cutDash : List Nat → List Nat × List Nat × Bool
  | [] => ([], [], false)
  | c :: rest =>
    if c = 0x2d then ([], rest, true)
    else let r := cutDash rest; (c :: r.1, r.2.1, r.2.2)

def digitVal (c : Nat) : Option Nat := if 0x30 ≤ c ∧ c ≤ 0x39 then some (c - 0x30) else none

def digitsVal : List Nat → Option Nat
  | l => l.foldl (fun acc c => match acc, digitVal c with
      | some a, some d => some (a * 10 + d)
      | _, _ => none) (some 0)

/-- `strconv.Atoi` on a 64-bit platform: optional sign, at least one decimal digit, value in int64. -/
def atoi (s : List Nat) : Option Int :=
  let (neg, ds) := match s with
    | 0x2b :: r => (false, r)
    | 0x2d :: r => (true, r)
    | r => (false, r)
  if ds.isEmpty then none else
  match digitsVal ds with
  | none => none
  | some v =>
    let x : Int := if neg then -(v : Int) else v
    if x < -(2 ^ 63) ∨ x > 2 ^ 63 - 1 then none else some x

/-- `for v := a; v <= b; v++ { out = append(out, v) }` for `a ≤ b`. -/
def rangeIncl (a : Int) (n : Nat) : List Int := (List.range (n + 1)).map (fun (i : Nat) => a + (i : Int))

/-- one comma-separated part (already trimmed, non-empty): `none` = error. -/
def parsePart (part : List Nat) : Option (List Int) :=
  let (lo, hi, isRange) := cutDash part
  match atoi lo with
  | none => none
  | some a =>
    if !isRange then some [a] else
    match atoi hi with
    | none => none
    | some b => if b < a ∨ b - a > 8192 then none else some (rangeIncl a (b - a).toNat)

def parseParts : List (List Nat) → Option (List Int)
  | [] => some []
  | p :: rest =>
    let part := trimSpace p
    if part.isEmpty then parseParts rest else
    match parsePart part with
    | none => none
    | some l => match parseParts rest with
      | none => none
      | some r => some (l ++ r)

/-- `parseCPUList(s)`: `none` = error. -/
def parseCPUList (s : List Nat) : Option (List Int) :=
  if s.isEmpty then some [] else parseParts (splitOn 0x2c s)

end Nebula.Cpupick
