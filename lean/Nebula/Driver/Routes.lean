/-
Line-protocol engine `routes` (C41).
ops:
  routes <networks> <value> <oracle>    -> ok <route>;… | ok - | err:<kind>
  unsafe <networks> <value> <oracle>    -> same
See harness/routes/engine_test.go and yaml.go for the token syntax.
-/
import Nebula.Driver.Common
import Nebula.Driver.NetArgs
import Nebula.Model.Routes
import Nebula.Spec.Routes

namespace Nebula.Driver.Routes
open Nebula.Driver Nebula.Net Nebula.Routes

def bytesStr (bs : List UInt8) : String := String.ofList (bs.map (fun b => Char.ofNat b.toNat))

def isHexCh (c : Char) : Bool := c == '-' || ('0' ≤ c && c ≤ '9') || ('a' ≤ c && c ≤ 'f')

/-- read a maximal run of hex characters as a byte string. -/
def readHex (cs : List Char) : Option (String × List Char) :=
  let h := cs.takeWhile isHexCh
  match hexToBytes (String.ofList h) with
  | some bs => some (bytesStr bs, cs.dropWhile isHexCh)
  | none => none

mutual
/-- recursive-descent reader for the value token syntax (fuel = input length bound). -/
def readValue : Nat → List Char → Option (Yaml × List Char)
  | 0, _ => none
  | fuel + 1, cs =>
    match cs with
    | 'n' :: r => some (.null, r)
    | 't' :: r => some (.bool true, r)
    | 'f' :: r => some (.bool false, r)
    | 'i' :: r =>
      let d := r.takeWhile (fun c => c == '-' || c.isDigit)
      match (String.ofList d).toInt? with
      | some i => some (.int i, r.dropWhile (fun c => c == '-' || c.isDigit))
      | none => none
    | 's' :: r => (readHex r).map (fun (s, r) => (.str s, r))
    | 'o' :: _ :: r => (readHex r).map (fun (s, r) => (.other s, r))
    | '[' :: ']' :: r => some (.list [], r)
    | '[' :: r => (readList fuel r).map (fun (l, r) => (.list l, r))
    | '{' :: '}' :: r => some (.map [], r)
    | '{' :: r => (readMap fuel r).map (fun (m, r) => (.map m, r))
    | _ => none
def readList : Nat → List Char → Option (List Yaml × List Char)
  | 0, _ => none
  | fuel + 1, cs =>
    match readValue fuel cs with
    | some (v, ',' :: r) => (readList fuel r).map (fun (l, r) => (v :: l, r))
    | some (v, ']' :: r) => some ([v], r)
    | _ => none
def readMap : Nat → List Char → Option (List (String × Yaml) × List Char)
  | 0, _ => none
  | fuel + 1, cs =>
    match readHex cs with
    | some (k, ':' :: r) =>
      match readValue fuel r with
      | some (v, ',' :: r) => (readMap fuel r).map (fun (m, r) => ((k, v) :: m, r))
      | some (v, '}' :: r) => some ([(k, v)], r)
      | _ => none
    | _ => none
end

/-- `absent` = key not set; otherwise a value. Outer `none` = unreadable token. -/
def valueArg (s : String) : Option (Option Yaml) :=
  if s == "absent" then some none else
  match readValue (s.length + 2) s.toList with
  | some (v, []) => some (some v)
  | _ => none

def netsArg (s : String) : Option (List Prefix) :=
  if s == "-" then some [] else (s.splitOn ",").mapM parsePrefix

structure Tbl where
  rows : List (String × Option Prefix × Option Addr)

def optArg {α : Type} (f : String → Option α) (s : String) : Option (Option α) :=
  if s == "x" then some none else (f s).map some

def oracleArg (s : String) : Option Tbl :=
  if s == "-" then some ⟨[]⟩ else
  ((s.splitOn ";").mapM (fun (e : String) =>
    match e.splitOn "=" with
    | [k, p, a] =>
      match hexToBytes k, optArg parsePrefix p, optArg parseAddr a with
      | some k, some p, some a => some (bytesStr k, p, a)
      | _, _, _ => none
    | _ => none)).map Tbl.mk

def Tbl.oracle (t : Tbl) : Oracle where
  parsePrefix s := (t.rows.find? (fun r => r.1 == s)).bind (fun r => r.2.1)
  parseAddr s := (t.rows.find? (fun r => r.1 == s)).bind (fun r => r.2.2)

def showGateway (g : Gateway) : String := showAddr g.addr ++ "@" ++ toString g.weight

def showRoute (r : Route) : String :=
  toString r.mtu ++ "," ++ toString r.metric ++ "," ++ showPrefix r.cidr ++ "," ++ boolStr r.install ++ "," ++
    (if r.via.isEmpty then "-" else "|".intercalate (r.via.map showGateway))

def showRoutes (rs : List Route) : String :=
  if rs.isEmpty then "ok -" else "ok " ++ ";".intercalate (rs.map showRoute)

def showRes : Res (List Route) → String
  | .ok rs => showRoutes rs
  | .err k => "err:" ++ k
  | .panic => "PANIC"

/-- kind of a numeric field value, for the histogram and the verdict classes. -/
def numKind (v : Option Yaml) : String :=
  match v with
  | none => "absent"
  | some (.int _) => "int"
  | some (.str s) => if (Spec.Routes.stated (.str s)).isSome then "decstr" else "badstr"
  | some _ => "othertype"

/-- which numeric field kinds occur in the (first few) entries: used to name the failing-input class. -/
def fieldKinds (v : Option Yaml) : List String :=
  match v with
  | some (.list l) =>
    l.flatMap (fun e =>
      match e with
      | .map m =>
        let gw := match lookup "via" m with
          | some (.list gl) => gl.flatMap (fun g => match g with
              | .map gm => [numKind (lookup "weight" gm)]
              | _ => [])
          | _ => []
        [numKind (lookup "mtu" m), numKind (lookup "metric" m)] ++ gw
      | _ => [])
  | _ => []

def step (s : Unit) (args : List String) (impl : String) : Unit × Out :=
  match args with
  | [op, nets, val, orc] =>
    if op != "routes" && op != "unsafe" then (s, badOp) else
    match netsArg nets, valueArg val, oracleArg orc with
    | some nets, some v, some tbl =>
      let o := tbl.oracle
      let isUnsafe := op == "unsafe"
      let m := if isUnsafe then parseUnsafeRoutes o nets v else parseRoutes o nets v
      let want := Spec.Routes.specLoad (if isUnsafe then Spec.Routes.specUnsafe o nets else Spec.Routes.specRoute o nets) v
      let kinds := fieldKinds v
      let verdict :=
        if impl.startsWith "PANIC" then
          (if kinds.contains "othertype" then "bad panic-non-int-non-string-number" else "bad panic-other")
        else match want with
        | some rs =>
          if impl == showRoutes rs then "ok"
          else if impl.startsWith "ok" then
            (if kinds.contains "decstr" then "bad string-number-not-used" else "bad loaded-with-wrong-values")
          else (if kinds.contains "decstr" then "bad string-number-refused" else "bad well-formed-refused")
        | none =>
          if impl.startsWith "err:" then "ok"
          else "bad ill-formed-loaded"
      let tag :=
        match m with
        | .ok rs => if rs.isEmpty then "triv:ok-empty" else
            (if kinds.contains "decstr" then op ++ ":ok-decstr" else op ++ ":ok")
        | .err k =>
          -- the error kind without its indices
          let kind := ((k.splitOn ":").getLast?).getD k
          (if kind == "not-array" || kind == "invalid" then "triv:" else "") ++ op ++ ":err:" ++ kind
        | .panic => op ++ ":panic"
      (s, { model := showRes m, verdict := verdict, tag := tag })
    | _, _, _ => (s, badOp)
  | _ => (s, badOp)

def main : IO Unit := runEngine () step

end Nebula.Driver.Routes
