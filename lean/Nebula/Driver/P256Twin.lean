/-
P-256 twin ops of the `certcodec` engine (C02), called from `Driver/Certcodec.lean` (which supplies its
certificate decoder):

  p256n                  -> <N hex> <N>>1 hex>     the constants of cert/p256 against `Model/P256.lean`
  swap <sig hex>         -> <Swap hex> | err
  lows <sig hex>         -> <IsNormalized 0|1> <Normalize hex> | err
  twinblock <ver> <form std|hs> <blocked hex> <presented hex> <ca ver> <ca hex> <now ns> <sig 0|1>
        -> op-inconsistent | undecodable <err:kind> | <VerifyCertificate ok|err:kind> <cached ok|err:kind|na>

Oracles (from `Spec/P256Twin.lean`, not from the model): for a signature in minimal DER form with r > 0 and
0 < s < N, `Swap` must answer the unique minimal DER encoding of (r, N - s) and `Normalize` the low-S one of the
two: right numbers in another encoding = `twin-not-minimal-der`, anything else = `twin-wrong-value`. A certificate
whose own fingerprint or whose twin's fingerprint is blocklisted must not be accepted, by the full or by the
cached check: `twin-accepted-when-blocklisted`.
-/
import Nebula.Driver.CertArgs
import Nebula.Driver.Certverify
import Nebula.Model.P256Sig
import Nebula.Spec.P256Twin

namespace Nebula.Driver.P256Twin
open Nebula.Driver Nebula.Net Nebula.Cert

def natHex (n : Nat) : String := bytesToHex (Nebula.P256Twin.natBytes n)

/-- verdict on one answered encoding against the wanted one. -/
def encVerdict (what : String) (implHex : String) (want : Bytes) (r s : Nat) : String :=
  if implHex == bytesToHex want then "ok"
  else match hexToBytes implHex with
    | some o =>
      if Nebula.P256Twin.lenientSig o == some (r, s) then s!"bad twin-not-minimal-der {what} impl={implHex} want={bytesToHex want}"
      else s!"bad twin-wrong-value {what} impl={implHex} want={bytesToHex want}"
    | none => s!"bad twin-wrong-value {what} impl={implHex} want={bytesToHex want}"

/-- input class of a twin value: leading zero bytes of its 32-byte form (0, 1, 2, 3+) and whether the first
remaining byte has its top bit set (the DER encoder pads). -/
def twinClass (t : Nat) : String :=
  let bs := Nebula.P256Twin.natBytes t
  let lz := 32 - bs.length
  let pad := match bs with | b :: _ => b &&& 0x80 != 0 | [] => false
  s!"lz{if lz ≥ 3 then "3+" else toString lz}{if pad then "p" else ""}"

abbrev Decoder := Nat → Bool → Nat → Option Bytes → Option Bytes → Except String (Cert × Bytes)

def step (decode : Decoder) (args : List String) (impl : String) : Option Out :=
  match args with
  | ["p256n"] =>
    let m := s!"{natHex P256.N} {natHex P256.halfN}"
    some { model := m, verdict := expect "twin-group-order" impl m, tag := "p256n" }
  | ["swap", hex] =>
    match hexToBytes hex with
    | none => some badOp
    | some b =>
      let m := match P256.swap b with | some y => bytesToHex y | none => "err"
      let (verdict, cls) := match Nebula.P256Twin.decSig b with
        | some (r, s) =>
          if Nebula.P256Twin.wellFormed r s then
            (encVerdict "swap" impl (Nebula.P256Twin.twinSig r s) r (P256.N - s),
             s!"wf:{if (Nebula.P256Twin.natBytes r).length > 32 then "bigr:" else ""}{twinClass (P256.N - s)}")
          else ("ok", "minimal-out-of-range")
        | none => ("ok", "not-minimal-der")
      some { model := m, verdict := verdict, tag := s!"swap:{cls}:" ++ (if m == "err" then "err" else "ok") }
  | ["lows", hex] =>
    match hexToBytes hex with
    | none => some badOp
    | some b =>
      let m := match P256.isNormalized b, P256.normalize b with
        | some l, some y => s!"{boolStr l} {bytesToHex y}"
        | none, none => "err"
        | _, _ => "err-split"
      let (verdict, cls) := match Nebula.P256Twin.decSig b with
        | some (r, s) =>
          if Nebula.P256Twin.wellFormed r s then
            let low := decide (s ≤ P256.halfN)
            let v := match impl.splitOn " " with
              | [l, h] =>
                if l != boolStr low then s!"bad twin-wrong-value lows impl={impl}"
                else encVerdict "normalize" h (Nebula.P256Twin.lowSig r s) r (if low then s else P256.N - s)
              | _ => s!"bad twin-wrong-value lows impl={impl}"
            (v, if low then "wf-low" else s!"wf-high:{twinClass (P256.N - s)}")
          else ("ok", "minimal-out-of-range")
        | none => ("ok", "not-minimal-der")
      some { model := m, verdict := verdict, tag := s!"lows:{cls}:" ++ ((m.splitOn " ").headD "") }
  | ["twinblock", ver, form, blocked, presented, caver, cahex, now, sig] =>
    match natArg ver, hexToBytes blocked, hexToBytes presented, natArg caver, hexToBytes cahex, intArg now with
    | some ver, some b0, some b1, some caver, some cab, some now =>
      match decode ver false 0 none (some b0), decode caver false 0 none (some cab) with
      | .ok (c0, rd0), .ok (ca, _) =>
        let r := if form == "hs" then decode ver true c0.curve (some c0.publicKey) (some b1)
                 else decode ver false 0 none (some b1)
        match r with
        | .error e => some { model := "undecodable " ++ e, verdict := "ok", tag := "twinblock:undecodable" }
        | .ok (c1, rd1) =>
          let sameId := { c1 with signature := [] } == { c0 with signature := [] } && rd1 == rd0
          let isSame := sameId && c1.signature == c0.signature
          -- model: the alternate fingerprint is the fingerprint of the certificate carrying `P256.swap signature`
          let K : Crypto :=
            { fingerprint := fun x => if x.isCA then some c0.issuer else (if isSame then some "blocked" else some "presented"),
              altFingerprint := fun x =>
                if x.curve != curveP256 then some ""
                else match P256.swap x.signature with
                  | none => none
                  | some t => if sameId && t == c0.signature then some "blocked" else some "other",
              checkSig := fun x _ => if x.isCA then true else sig == "1" }
          let p0 := (({} : Pool).addCA K now ca).1
          let pb := p0.blocklist "blocked"
          let v := match pb.verifyCertificate K now c1 with
            | .ok _ => "ok"
            | .error e => Certverify.verrStr e
          let cv := match p0.verifyCertificate K now c1 with
            | .error _ => "na"
            | .ok cc => match pb.verifyCached K now cc with
              | .ok _ => "ok"
              | .error e => Certverify.verrStr e
          let m := s!"{v} {cv}"
          -- spec: the two signatures are the two minimal-DER forms of one (r, s), everything else equal
          let isTwin := sameId && c0.curve == curveP256 && Nebula.P256Twin.areTwins c0.signature c1.signature
          let parts := impl.splitOn " "
          let verdict :=
            if (isTwin || isSame) && (parts.getD 0 "" == "ok" || parts.getD 1 "" == "ok") then
              s!"bad twin-accepted-when-blocklisted {if isSame then "same" else "twin"} impl={impl}"
            else "ok"
          let rel := if isSame then "same" else if isTwin then "twin" else "unrelated"
          some { model := m, verdict := verdict, tag := s!"twinblock:{form}:{rel}:sig{sig}:{m}" }
      | _, _ => some { model := "op-inconsistent", verdict := "ok", tag := "triv:op-inconsistent" }
    | _, _, _, _, _, _ => some badOp
  | _ => none

end Nebula.Driver.P256Twin
