/-
Line-protocol engine `certsign` (C04): `TBSCertificate.Sign` / `SignWith` and the verification of what was
issued, plus `cert/p256` normalisation of signature encodings.

ops (CERT = 12-token descriptor, Driver/CertArgs.lean):
  sign <keycurve> <keyok 0|1> <keyparses 0|1> <marshalok 0|1> <keyhex> <signer: none|stub|hex> TBS:CERT [SIGNER:CERT <signerfp>]
      -> err:<kind>
       | ok ISSUED:CERT(signature blanked) <lowS 0|1|-> <verify@notBefore> <verify@notAfter>     (with a signer)
       | ok ISSUED:CERT(signature blanked) <lowS 0|1|-> <addca result> -                        (self-signed)
    keyok     : the key's public half is the signer's public key (honest signer)
    keyparses : ecdsa.ParseRawPrivateKey accepts the key (P-256 only)
    marshalok : marshalForSigning succeeds (v1: name and groups are valid UTF-8)
  cli <caver> <cacurve> <cadur s> <canets> <caunsafe> <cagroups> <encrypt 0|1> <ver 0|1|2> <dur s|0> n<name> <nets> <unsafe> <groups>
      -> ca:err:<kind> | sign:err:<kind>
       | ok <ver> <curve> <isCA> <duration s | d = one second before the CA expires> n<name> <nets> <unsafe> <groups>
            <issuer is the CA 0|1> <key matches 0|1> <notBefore inside the call 0|1> <lowS> <verify now> <CA as requested 0|1>
      (`nebula-cert ca` + `nebula-cert sign` built from the repository, outputs read back with the real decoders)
  norm <sig hex>  -> <IsNormalized 0|1|err> <Normalize hex|err> <Swap hex|err>
  sws <ver> <sig hex> -> ok <issued sig hex> <IsNormalized> | err:normalize | err:empty-signature   (SignWith, scripted signer)
-/
import Nebula.Driver.CertArgs
import Nebula.Driver.Certverify
import Nebula.Model.CertSign
import Nebula.Model.P256Sig
import Nebula.Driver.CertCliOps

namespace Nebula.Driver.Certsign
open Nebula.Driver Nebula.Net Nebula.Cert Nebula.Spec.Trust Nebula.Driver.Certverify

def invStr : InvErr → String
  | .name => "name" | .emptyGroup => "empty-group" | .publicKey => "public-key" | .noNetworks => "no-networks" | .invalidNetwork => "invalid-network"
  | .zeroAddress => "zero-address" | .fourInSix => "4in6" | .v1IPv6 => "v1-ipv6" | .duplicateNetwork => "duplicate-network"
  | .invalidUnsafe => "invalid-unsafe" | .v1IPv6Unsafe => "v1-ipv6-unsafe" | .unsafeNeedsV6 => "unsafe-needs-v6"
  | .unsafeNeedsV4 => "unsafe-needs-v4" | .duplicateUnsafe => "duplicate-unsafe"

def signErrStr : SignErr → String
  | .invalidCurve => "err:invalid-curve" | .keyParse => "err:key-parse" | .keyCurveMismatch => "err:key-curve"
  | .caSignedByAnother => "err:ca-by-ca" | .constraint e => "err:" ++ cerrStr e
  | .issuerFingerprint => "err:issuer-fingerprint" | .selfSignedNotCA => "err:self-not-ca"
  | .invalid e => "err:invalid:" ++ invStr e | .unknownVersion => "err:unknown-version" | .marshal => "err:marshal"
  | .signer => "err:signer" | .normalize => "err:normalize" | .emptySignature => "err:empty-signature"
  | .tooLarge => "err:invalid:too-large"

/-- same multiset of prefixes (lists are short). -/
def sameNets (a b : List Prefix) : Bool := a.length == b.length && a.all (b.contains ·) && b.all (a.contains ·)

/-- The property oracle on an `ok` answer: issuance stayed inside the signer, the issued certificate is what
was asked for, it verifies under its signer, and a P-256 signature is low-S. -/
def signVerdict (signer : Option (Cert × String)) (keyok : Bool) (t : Cert) (impl : String) : String :=
  if !impl.startsWith "ok " then (if impl.startsWith "err:" then "ok" else s!"bad sign-no-verdict impl={impl}") else
  match parseCert ((impl.splitOn " ").drop 1) with
  | some (c, [lowS, v1, v2]) =>
    let fieldsOk := c.version == t.version && c.curve == t.curve && c.name == t.name && c.groups == t.groups &&
      c.isCA == t.isCA && c.notBefore == floorSec t.notBefore && c.notAfter == floorSec t.notAfter && c.publicKey == t.publicKey &&
      sameNets c.networks t.networks && sameNets c.unsafeNetworks t.unsafeNetworks
    match signer with
    | some (ca, fp) =>
      if t.isCA then "bad signed-ca-by-ca"
      else if !withinFieldsB ca t.notBefore t.notAfter t.groups t.networks t.unsafeNetworks then
        "bad signed-outside-ca-constraints"
      else if ca.curve != t.curve then "bad sign-curve-differs-from-signer"
      else if !fieldsOk || c.issuer != fp then "bad issued-fields-differ"
      else if keyok && ca.isCA && ca.notBefore % 1000000000 == 0 && decide (floorSec t.notBefore ≤ floorSec t.notAfter) &&
          (v1 != "ok" || v2 != "ok") then
        s!"bad issued-does-not-verify {v1} {v2}"
      else if t.curve == curveP256 && lowS != "1" then "bad issued-high-s"
      else "ok"
    | none =>
      if !t.isCA then "bad self-signed-non-ca"
      else if !fieldsOk || c.issuer != "" then "bad issued-fields-differ"
      else if keyok && v1 != "ok" && v1 != "err:expired" then s!"bad self-signed-ca-refused {v1}"
      else if t.curve == curveP256 && lowS != "1" then "bad issued-high-s"
      else "ok"
  | _ => s!"bad sign-answer-unparsable"

def step (s : Unit) (args : List String) (impl : String) : Unit × Out :=
  match args with
  | "sign" :: kc :: keyok :: keyparses :: marshalok :: _key :: signerTag :: rest =>
    match natArg kc, parseCert rest with
    | some kc, some (t, rest) =>
      let signer : Option (Option (Cert × String)) :=
        if signerTag == "none" then (if rest.isEmpty then some none else none)
        else match parseCert rest with
          | some (ca, [fp]) => some (some (ca, fp))
          | _ => none
      match signer with
      | none => (s, badOp)
      | some signer =>
        let keyok := keyok == "1"
        let signerFp := match signer with | some (_, fp) => fp | none => ""
        let K : Crypto :=
          { fingerprint := fun x => if x.isCA && !t.isCA then some signerFp else some "issued",
            altFingerprint := fun _ => some "",
            checkSig := fun x _ => if x.isCA && !t.isCA then true else keyok }
        let E : SignEnv :=
          { K := K, tbsBytes := fun _ => if marshalok == "1" then some [0] else none,
            sign := fun _ => some [1], normalize := fun b => some b, tooLarge := fun _ => false }
        let m := match sign E (signer.map (·.1)) kc (keyparses == "1") t with
          | .error e => signErrStr e
          | .ok c =>
            let blank := { c with signature := [] }
            let lowS := if t.curve == curveP256 then "1" else "-"
            match signer with
            | some (ca, _) =>
              let p := (({} : Pool).addCA K 0 ca).1
              let v (tm : Int) := match p.verifyCertificate K tm c with | .ok _ => "ok" | .error e => verrStr e
              s!"ok {showCert blank} {lowS} {v c.notBefore} {v c.notAfter}"
            | none =>
              -- AddCA of the fresh CA at the synctest epoch
              let r := (({} : Pool).addCA { K with fingerprint := fun _ => some "issued", checkSig := fun _ _ => keyok }
                          946684800000000000 c).2
              s!"ok {showCert blank} {lowS} {addErrStr r} -"
        let tag := if m.startsWith "ok" then (if signer.isSome then "sign:ok" else "sign:ok-self") else "sign:" ++ m
        (s, { model := m, verdict := signVerdict signer keyok t impl, tag := tag })
    | _, _ => (s, badOp)
  | ["cli", caver, cacurve, cadur, canets, cauns, cagroups, _enc, ver, dur, name, nets, uns, groups] =>
    -- `nebula-cert ca` then `nebula-cert sign` as subprocesses: the flags become two to-be-signed certificates; wall
    -- clock instants are replaced by durations (CA: [0, cadur]; the host certificate starts in the CA's first second)
    match natArg caver, natArg cacurve, intArg cadur, optList parsePrefix canets, optList parsePrefix cauns,
          optList (parseTagged 'g') cagroups, natArg ver, intArg dur, parseTagged 'n' name, optList parsePrefix nets,
          optList parsePrefix uns, optList (parseTagged 'g') groups with
    | some caver, some cacurve, some cadur, some canets, some cauns, some cagroups, some ver, some dur, some name,
      some nets, some uns, some groups =>
      let K : Crypto := { fingerprint := fun _ => some "ca", altFingerprint := fun _ => some "", checkSig := fun _ _ => true }
      let E : SignEnv := { K := K, tbsBytes := fun _ => some [0], sign := fun _ => some [1], normalize := fun b => some b,
                           tooLarge := fun _ => false }
      let caT : Cert := { version := caver, curve := cacurve, name := [99, 97], networks := canets, unsafeNetworks := cauns,
                          groups := cagroups, isCA := true, notBefore := 0, notAfter := cadur * 1000000000, issuer := "",
                          publicKey := [1], signature := [] }
      let v := if ver == 0 then caver else ver
      let v4 (l : List Prefix) := l.filter (fun p => p.addr.fam == Fam.v4)
      let v6 (l : List Prefix) := l.filter (fun p => p.addr.fam != Fam.v4)
      let d := if dur ≤ 0 then cadur - 1 else dur
      let durTok := if dur ≤ 0 then "d" else toString dur
      -- what `sign` hands to TBSCertificate.Sign, or the flag-level refusal
      let tbs : Except String Cert :=
        if nets.isEmpty then .error "err:cli-no-networks"
        else if v == 1 then
          (if (v4 nets).length != 1 then .error "err:cli-v1-single"
           else if !(v6 nets).isEmpty then .error "err:cli-v1-ipv4"
           else if !(v6 uns).isEmpty then .error "err:cli-v1-unsafe-ipv4"
           else .ok { version := 1, curve := cacurve, name := name, networks := (v4 nets).take 1, unsafeNetworks := v4 uns,
                      groups := groups, isCA := false, notBefore := 0, notAfter := d * 1000000000, issuer := "",
                      publicKey := [2], signature := [] })
        else .ok { version := v, curve := cacurve, name := name, networks := v4 nets ++ v6 nets, unsafeNetworks := v4 uns ++ v6 uns,
                   groups := groups, isCA := false, notBefore := 0, notAfter := d * 1000000000, issuer := "",
                   publicKey := [2], signature := [] }
      let lowS := if cacurve == curveP256 then "1" else "-"
      let m := match sign E none cacurve true caT with
        | .error e => "ca:" ++ signErrStr e
        | .ok ca =>
          match tbs with
          | .error e => "sign:" ++ e
          | .ok t =>
            match sign E (some ca) cacurve true t with
            | .error e => "sign:" ++ signErrStr e
            | .ok c =>
              " ".intercalate ["ok", toString c.version, toString c.curve, boolStr c.isCA, durTok, "n" ++ bytesToHex c.name,
                showList showPrefix c.networks, showList showPrefix c.unsafeNetworks,
                showList (fun g => "g" ++ bytesToHex g) c.groups, "1", "1", "1", lowS, "ok", "1"]
      -- the property on what the binary did: nothing outside the CA is issued; what is issued is what was asked for,
      -- names the CA, matches its key, verifies now under a pool holding the CA, and is low-S on P-256
      let verdict :=
        if impl.startsWith "ok " then
          match impl.splitOn " " with
          | [_, iv, ic, ica, idur, iname, inets, iuns, igroups, issuerOk, keyOk, nbOk, ilowS, verify, caOk] =>
            match optList parsePrefix inets, optList parsePrefix iuns, optList (parseTagged 'g') igroups with
            | some inets, some iuns, some igroups =>
              let secs : Int := if idur == "d" then cadur - 1 else (idur.toInt?.getD (cadur + 1))
              if caOk != "1" then "bad cli-ca-not-as-requested"
              else if !withinFieldsB caT 0 (secs * 1000000000) igroups inets iuns then "bad cli-signed-outside-ca-constraints"
              else if ica != "0" || iv != toString v || ic != toString cacurve || iname != "n" ++ bytesToHex name ||
                      igroups != groups || !sameNets iuns uns || !(if v == 1 then inets == (v4 nets).take 1 else sameNets inets nets) ||
                      idur != durTok then "bad cli-issued-fields-differ"
              else if issuerOk != "1" || keyOk != "1" || nbOk != "1" || verify != "ok" then s!"bad cli-issued-does-not-verify {issuerOk}{keyOk}{nbOk} {verify}"
              else if cacurve == curveP256 && ilowS != "1" then "bad cli-issued-high-s"
              else "ok"
            | _, _, _ => "bad cli-answer-unparsable"
          | _ => "bad cli-answer-unparsable"
        else if impl.startsWith "sign:err:refused-but-wrote" then "bad cli-refused-but-wrote-certificate"
        else if impl.startsWith "ca:err:key-encryption" then "bad cli-key-encryption-flag-ignored"
        else if impl.startsWith "cli-unavailable" then s!"bad cli-unavailable {impl}"
        else "ok"
      let tag := if m.startsWith "ok" then s!"cli:ok:v{v}" else "cli:" ++ m
      (s, { model := m, verdict := verdict, tag := tag })
    | _, _, _, _, _, _, _, _, _, _, _, _ => (s, badOp)
  | ["norm", hex] =>
    -- cert/p256 on a signature encoding: the answers are fully determined (scalar model + DER)
    match hexToBytes hex with
    | none => (s, badOp)
    | some b =>
      let o (x : Option Bytes) := match x with | some y => bytesToHex y | none => "err"
      let n := match P256.isNormalized b with | some true => "1" | some false => "0" | none => "err"
      let m := s!"{n} {o (P256.normalize b)} {o (P256.swap b)}"
      (s, { model := m, verdict := expect "p256-normalize" impl m, tag := "norm:" ++ n })
  | ["sws", _ver, hex] =>
    -- SignWith (self-signed P-256 CA) with a scripted signer that returns this signature: what is issued must be
    -- low-S — `ok <issued signature hex> <IsNormalized 0|1>` | err:normalize | err:empty-signature
    match hexToBytes hex with
    | none => (s, badOp)
    | some b =>
      let m := match P256.normalize b with
        | none => "err:normalize"
        | some sg => if sg.isEmpty then "err:empty-signature" else s!"ok {bytesToHex sg} 1"
      -- the low-S bit of the answer is decided by the harness itself (big-integer comparison with N/2)
      let verdict :=
        if impl.startsWith "ok " && (impl.splitOn " ").getD 2 "" != "1" then "bad issued-high-s scripted-signer"
        else expect "signwith-normalize" impl m
      (s, { model := m, verdict := verdict, tag := "sws:" ++ ((m.splitOn " ").headD "") })
  | _ => (s, CertCliOps.cliStep args impl)   -- signCert in-process: Driver/CertCliOps.lean

def main : IO Unit := runEngine () step

end Nebula.Driver.Certsign
