/-
Line-protocol engine `dns` (C44); see harness/dns/engine_test.go for the op syntax.
-/
import Nebula.Driver.Common
import Nebula.Driver.NetArgs
import Nebula.Model.Dns
import Nebula.Spec.Dns

namespace Nebula.Driver.Dns
open Nebula.Driver Nebula.Net Nebula.Dns

def bytesStr (bs : List UInt8) : Name := bs.map (fun b => Char.ofNat b.toNat)
def strHex (s : Name) : String := bytesToHex (s.map (fun c => UInt8.ofNat c.toNat))
def strArg (s : String) : Option Name := (hexToBytes s).map bytesStr

def addrsArg (s : String) : Option (List Addr) :=
  if s == "-" then some [] else (s.splitOn ",").mapM parseAddr

structure S where
  st : St
  self : Spec.Dns.Self
  evs : List Ev      -- oldest first

def S.init : S := { st := St.init none, self := none, evs := [] }

def questionArg (s : String) : Option Question :=
  match s.splitOn ":" with
  | [t, n, o] =>
    match t.toNat?, strArg n with
    | some t, some n =>
      if o == "x" then some { qtype := t, name := n, parsed := none }
      else (parseAddr o).map (fun a => { qtype := t, name := n, parsed := some a })
    | _, _ => none
  | _ => none

def questionsArg (s : String) : Option (List Question) :=
  if s == "-" then some [] else (s.splitOn ";").mapM questionArg

def showCert : CertId → String
  | .self => "self"
  | .peer k => toString k

def showAnswer : Answer → String
  | .a n a => "A:" ++ strHex n ++ ":" ++ showAddr a
  | .aaaa n a => "AAAA:" ++ strHex n ++ ":" ++ showAddr a
  | .txt n c => "TXT:" ++ strHex n ++ ":" ++ showCert c

def showResp (r : Resp) : String :=
  "rc=" ++ toString r.rcode ++ " " ++ (if r.answers.isEmpty then "-" else ";".intercalate (r.answers.map showAnswer))

def parseAnswer (s : String) : Option Answer :=
  match s.splitOn ":" with
  | ["A", n, a] => match strArg n, parseAddr a with
    | some n, some a => some (.a n a)
    | _, _ => none
  | ["AAAA", n, a] => match strArg n, parseAddr a with
    | some n, some a => some (.aaaa n a)
    | _, _ => none
  | ["TXT", n, c] => match strArg n with
    | some n => if c == "self" then some (.txt n .self) else c.toNat?.map (fun k => .txt n (.peer k))
    | none => none
  | _ => none

def parseResp (s : String) : Option Resp :=
  match (s.splitOn " ").filter (· ≠ "") with
  | [rc, ans] =>
    if !rc.startsWith "rc=" then none else
    match (rc.drop 3).toNat? with
    | some rc =>
      if ans == "-" then some { rcode := rc, answers := [] }
      else ((ans.splitOn ";").mapM parseAnswer).map (fun as => { rcode := rc, answers := as })
    | none => none
  | _ => none

def ev (s : S) (e : Ev) : S × Out :=
  ({ s with st := apply s.st e, evs := s.evs ++ [e] },
   { model := "ok", tag := match e with
      | .seed => "ev:seed" | .disable => "ev:disable" | .enable => "ev:enable" | .hs _ _ _ => "ev:hs"
      | .drop _ => "ev:drop"
      | .renew n _ =>
        match Spec.Dns.selfAfter s.self s.evs with
        | some (n0, _) => if lower n0 == lower n then "ev:renew-same-name" else "ev:renew-rename"
        | none => "ev:renew-first-cert" })

def step (s : S) (args : List String) (impl : String) : S × Out :=
  match args with
  | ["reset", name, addrs] =>
    match (if name == "none" then some none else (strArg name).map some), addrsArg addrs with
    | some none, some _ => ({ st := St.init none, self := none, evs := [] }, { model := "ok", tag := "triv:reset" })
    | some (some n), some as =>
      ({ st := St.init (some (n, as)), self := some (n, as), evs := [] }, { model := "ok", tag := "triv:reset" })
    | _, _ => (s, badOp)
  | ["seed"] => ev s .seed
  | ["disable"] => ev s .disable
  | ["enable"] => ev s .enable
  | ["renew", name, addrs] =>
    match strArg name, addrsArg addrs with
    | some n, some as => ev s (.renew n as)
    | _, _ => (s, badOp)
  | ["drop", k] =>
    match k.toNat? with
    | some k => ev s (.drop k)
    | none => (s, badOp)
  | ["hs", k, name, addrs] =>
    match k.toNat?, strArg name, addrsArg addrs with
    | some k, some n, some as => ev s (.hs k n as)
    | _, _, _ => (s, badOp)
  | ["pq", client, qs] =>
    -- `parseQuery` on the whole message: every question counts
    match parseAddrPort client, questionsArg qs with
    | some (cl, _), some qs =>
      let r := parseQuery s.st cl qs
      let verdict :=
        match parseResp impl with
        | none => "bad unparsable-reply"
        | some ir =>
          match Spec.Dns.respViolation s.self s.evs cl qs ir with
          | some cls => "bad " ++ cls
          | none => "ok"
      let nKnown := (qs.filter (fun q => Spec.Dns.known s.self s.evs q.name)).length
      let loc := Spec.Dns.isLocal (Spec.Dns.selfAfter s.self s.evs) cl
      let txtAt := qs.findIdx? (fun q => q.qtype == typeTXT)
      let lastKnown := match qs.getLast? with
        | some q => Spec.Dns.known s.self s.evs q.name
        | none => false
      let tag :=
        if qs.length < 2 then "pq:single"
        else if !r.answers.isEmpty then
          (if r.answers.length > 1 then "pq:answers-several" else "pq:answer-one")
        else if txtAt.isSome && !loc then "pq:txt-remote-early-return"
        else if r.rcode == rcodeNameError then "pq:nxdomain-all-unknown"
        else if nKnown == qs.length then "pq:nodata-all-known"
        else if lastKnown then "pq:nodata-mixed-known-last"
        else "pq:nodata-mixed-unknown-last"
      (s, { model := showResp r, verdict := verdict, tag := tag })
    | _, _ => (s, badOp)
  | ["q", client, opcode, qs] =>
    match parseAddrPort client, opcode.toNat?, questionsArg qs with
    | some (cl, _), some opc, some qs =>
      let r := handle s.st cl opc qs
      let verdict :=
        match parseResp impl with
        | none => "bad unparsable-reply"
        | some ir =>
          -- the reply echoes (and is about) the first question only
          match Spec.Dns.respViolation s.self s.evs cl (qs.take 1) ir with
          | some cls => "bad " ++ cls
          | none => "ok"
      let qs1 := qs.take 1
      let anyKnown := qs1.any (fun q => Spec.Dns.known s.self s.evs q.name)
      let loc := Spec.Dns.isLocal (Spec.Dns.selfAfter s.self s.evs) cl
      let former := qs1.any (fun q => (Spec.Dns.formerOwnNames s.self s.evs).contains (lower q.name))
      let hasTxt := qs1.any (fun q => q.qtype == typeTXT)
      let hasOther := qs1.any (fun q => q.qtype != typeTXT && q.qtype != typeA && q.qtype != typeAAAA)
      let tag :=
        if opc != 0 then "q:other-opcode"
        else if qs.isEmpty then "triv:q:no-question"
        else if !r.answers.isEmpty then
          (if r.answers.any (fun a => match a with | .txt _ _ => true | _ => false) then "q:answer-txt" else
            (if qs.length > 1 then "q:answer-addr-multi-question" else "q:answer-addr"))
        else if r.rcode == rcodeNameError then
          (if former then "q:nxdomain-former-own-name" else if hasTxt then "q:nxdomain-txt" else if s.evs.isEmpty then "triv:q:nxdomain-empty-history" else "q:nxdomain")
        else if hasTxt && !loc then "q:txt-remote-refused"
        else if anyKnown then (if hasOther then "q:nodata-other-type" else if hasTxt then "q:nodata-txt" else "q:nodata-addr")
        else "q:noerror-empty"
      (s, { model := showResp r, verdict := verdict, tag := tag })
    | _, _, _ => (s, badOp)
  | _ => (s, badOp)

def main : IO Unit := runEngine S.init step

end Nebula.Driver.Dns
