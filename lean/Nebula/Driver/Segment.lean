/-
Line-protocol engine `segment` (C24).
ops:
  gso <flags> <gsoType> <hdrLen> <gsoSize> <csumStart> <csumOffset> <pkt hex>
        one tun read: Offload.decodeRead on the virtio header + body, then tio.SegmentSuperpacket
  tcp <hdrLen> <csumStart> <gsoSize> <pkt hex>      virtio.SegmentTCP directly
  udp <hdrLen> <csumStart> <gsoSize> <pkt hex>      virtio.SegmentUDP directly
  fold <u32>                                        foldComplement
  segcount <payLen> <gsoSize>                       segCount
answers:  `err:<kind>` | `panic` | `segs <n> <hex>…` | a decimal number
The oracle (Spec.Segment.check) is applied to the implementation's segments whenever the superpacket
is in the property's domain (well-formed header geometry, lengths representable in 16 bits).
-/
import Nebula.Driver.Common
import Nebula.Model.Segment
import Nebula.Spec.Segment

namespace Nebula.Driver.Segment
open Nebula.Driver Nebula.Segment

def showRes : R (List (List UInt8)) → String
  | .error e => if e == .panic then "panic" else "err:" ++ e.name
  | .ok segs => segs.foldl (fun acc s => acc ++ " " ++ bytesToHex s) s!"segs {segs.length}"

def parseSegs (impl : String) : Option (List (List UInt8)) :=
  match impl.splitOn " " with
  | "segs" :: _ :: rest => rest.mapM hexToBytes
  | _ => none

def nTag (n : Nat) : String :=
  if n ≤ 1 then "n1" else if n ≤ 8 then "n2-8" else if n ≤ 64 then "n9-64" else "n65+"

/-- oracle + tag for a segmentation answer. -/
def judge (guarded : Bool) (pkt : List UInt8) (l4 : Nat) (proto : Spec.Segment.L4) (g hdrLen : Nat)
    (impl : String) (m : R (List (List UInt8))) : String × String :=
  let pname := (if proto == .tcp then "tcp" else "udp") ++ (if Spec.Segment.isV4 pkt then "4" else "6")
  let inDomain := Spec.Segment.wellFormed pkt l4 proto && Spec.Segment.representable pkt l4 proto g
    && hdrLen == l4 + Spec.Segment.l4HdrLen pkt l4 proto && g != 0
  let tag := match m with
    | .error e => s!"err:{e.name}"
    | .ok segs => (if inDomain then pname else "nd-" ++ pname) ++ ":" ++ nTag segs.length
  if impl == "panic" || impl.startsWith "PANIC" then
    -- after decodeRead's guards no input may panic; a direct call is only claimed panic-free on
    -- arguments the guards let through
    (if guarded || inDomain then "bad panic the segmenter panicked" else "ok", tag)
  else if impl.startsWith "gopacket-reject" then ("bad gopacket-reject " ++ (impl.take 200).toString, tag)
  else if impl.startsWith "err:" then ("ok", tag)
  else match parseSegs impl with
    | none => ("bad seg-unparsable", tag)
    | some segs =>
      if !inDomain then ("ok", tag) else
      match Spec.Segment.check pkt l4 proto g segs with
      | none => ("ok", tag)
      | some c => (s!"bad {c}", tag)

def step (s : Unit) (args : List String) (impl : String) : Unit × Out :=
  match args with
  | ["gso", fl, gt, hl, gs, cs, co, hex] =>
    match natArg fl, natArg gt, natArg hl, natArg gs, natArg cs, natArg co, hexToBytes hex with
    | some fl, some gt, some hl, some gs, some cs, some co, some pkt =>
      let h : Hdr := { flags := fl % 256, gsoType := gt % 256, hdrLen := hl % 65536, gsoSize := gs % 65536,
                       csumStart := cs % 65536, csumOffset := co % 65536 }
      let m := readAndSegment h pkt
      if h.gso == GSO_NONE then
        let v := if impl == "panic" || impl.startsWith "PANIC" then "bad panic the reader panicked" else "ok"
        (s, { model := showRes m, verdict := v,
              tag := match m with | .error e => s!"plain:err:{e.name}" | .ok _ => if h.flags % 2 == 1 then "plain:csum" else "plain" })
      else
        let proto : Spec.Segment.L4 := if h.gso == GSO_UDP_L4 then .udp else .tcp
        let hdrLen := h.csumStart + Spec.Segment.l4HdrLen pkt h.csumStart proto
        let (v, tag) := judge true pkt h.csumStart proto h.gsoSize hdrLen impl m
        (s, { model := showRes m, verdict := v, tag := "gso:" ++ tag })
    | _, _, _, _, _, _, _ => (s, badOp)
  | [p, hl, cs, gs, hex] =>
    if p != "tcp" && p != "udp" then (s, badOp) else
    match natArg hl, natArg cs, natArg gs, hexToBytes hex with
    | some hl, some cs, some gs, some pkt =>
      let (hl, cs, gs) := (hl % 65536, cs % 65536, gs % 65536)
      let m := if p == "tcp" then segmentTCP pkt hl cs gs else segmentUDP pkt hl cs gs
      let proto : Spec.Segment.L4 := if p == "tcp" then .tcp else .udp
      let (v, tag) := judge false pkt cs proto gs hl impl m
      (s, { model := showRes m, verdict := v, tag := "direct:" ++ tag })
    | _, _, _, _ => (s, badOp)
  | ["fold", x] =>
    match natArg x with
    | some x =>
      let m := toString (foldComplement (x % 4294967296))
      -- property: the complement of the fully folded one's-complement sum
      let want := toString (65535 - Nebula.Csum.fold16 (x % 4294967296))
      (s, { model := m, verdict := expect "fold-complement" impl want, tag := "fold" })
    | none => (s, badOp)
  | ["segcount", n, g] =>
    match natArg n, natArg g with
    | some n, some g =>
      if g == 0 || n ≥ 2 ^ 62 || g ≥ 2 ^ 62 then (s, badOp) else
      (s, { model := toString (segCount n g), verdict := expect "seg-count" impl (toString (Spec.Segment.expectedCount n g)),
            tag := "segcount" })
    | _, _ => (s, badOp)
  | _ => (s, badOp)

def main : IO Unit := runEngine () step

end Nebula.Driver.Segment
