/-
Line-protocol engine `bits` (C11).
ops:
  reset <length>   -> `ok` | `PANIC Bits length must be a power of two, got <length>`
  check <ctr>      -> 0|1
  update <ctr>     -> `<0|1> <current>`
  dump             -> `<current> <bitmap words, 16 hex digits each, word 0 first>`
The oracle is the unbounded-naturals window of `Spec.Window`, driven by the ops.
-/
import Nebula.Driver.Common
import Nebula.Model.Bits
import Nebula.Spec.Window

namespace Nebula.Driver.Bits
open Nebula.Driver Nebula.Bits Nebula.Spec

structure S where
  b : Option Bits := none
  L : Nat := 0
  w : Window.W := Window.init

def hex16 (x : U64) : String :=
  String.ofList ((List.range 16).map (fun k => nibble ((x.toNat >>> (4 * (15 - k))) % 16)))

def dumpStr (b : Bits) : String :=
  s!"{b.current.toNat} " ++ String.join (b.bits.toList.map hex16)

/-- class of a wrong accept/reject answer -/
def wrongClass (pre : String) (L : Nat) (w : Window.W) (i : Nat) (got : Bool) : String :=
  let near := if Window.hi w + L ≥ 2 ^ 64 then "near-wrap-" else ""
  let kind :=
    if got then (if w.contains i then "accepted-twice" else "stale-accepted") else "fresh-rejected"
  s!"bad {pre}{near}{kind} hi={Window.hi w} L={L} ctr={i}"

def branchTag (pre : String) (L : Nat) (w : Window.W) (i : Nat) : String :=
  let h := Window.hi w
  let phase := if h + L ≥ 2 ^ 64 then ":wrap" else if h < L then ":warm" else ""
  let k :=
    if i == h + 1 then "next"
    else if i > h then (if i - h > L then "jump-beyond" else if i - h == L then "jump-window" else
      if (h + 1) / 64 != i / 64 then "jump-words" else "jump")
    else if i == h then "dupe-current"
    else if i + L > h then (if w.contains i then "dupe" else "backfill")
    else if i + L == h then "edge-stale"
    else "stale"
  s!"{pre}:{k}{phase}"

def step (s : S) (args : List String) (impl : String) : S × Out :=
  match args with
  | ["reset", len] =>
    match natArg len with
    | some n =>
      if n ≥ 2 ^ 64 then (s, badOp) else
      match newBits (BitVec.ofNat 64 n) with
      | none =>
        ({ b := none, L := 0, w := Window.init },
         { model := s!"PANIC Bits length must be a power of two, got {n}", tag := "triv:reset-panic" })
      | some b =>
        ({ b := some b, L := n, w := Window.init }, { model := "ok", tag := "triv:reset" })
    | none => (s, badOp)
  | ["check", c] =>
    match natArg c, s.b with
    | some i, some b =>
      if i ≥ 2 ^ 64 then (s, badOp) else
      let m := check b (BitVec.ofNat 64 i)
      let want := Window.accepts s.L s.w i
      let verdict :=
        if impl == boolStr want then "ok"
        else if impl == boolStr (!want) then wrongClass "check-" s.L s.w i (!want)
        else "bad check-unparsable"
      (s, { model := boolStr m, verdict := verdict, tag := branchTag "chk" s.L s.w i })
    | _, _ => (s, badOp)
  | ["update", c] =>
    match natArg c, s.b with
    | some i, some b =>
      if i ≥ 2 ^ 64 then (s, badOp) else
      let (b', m) := update b (BitVec.ofNat 64 i)
      let (w', want) := Window.step s.L s.w i
      let verdict :=
        match impl.splitOn " " with
        | [a, cur] =>
          if a != boolStr want then
            (if a == boolStr (!want) then wrongClass "" s.L s.w i (!want) else "bad update-unparsable")
          else if cur != toString (Window.hi w') then
            s!"bad current-not-highest want={Window.hi w'}"
          else "ok"
        | _ => "bad update-unparsable"
      ({ s with b := some b', w := w' },
       { model := s!"{boolStr m} {b'.current.toNat}", verdict := verdict, tag := branchTag "upd" s.L s.w i })
    | _, _ => (s, badOp)
  | ["dump"] =>
    match s.b with
    | some b => (s, { model := dumpStr b, tag := "dump" })
    | none => (s, badOp)
  | _ => (s, badOp)

def main : IO Unit := runEngine ({} : S) step

end Nebula.Driver.Bits
