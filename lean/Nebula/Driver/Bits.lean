/-
Line-protocol engine `bits` (C11).
ops:
  reset <length>   -> `ok` | `PANIC Bits length must be a power of two, got <length>`
  check <ctr>      -> 0|1
  update <ctr>     -> `<0|1> <current>`
  dump             -> `<current> <bitmap words, 16 hex digits each, word 0 first>`
  run <from> <n>   -> `<accepted> <current>`   (Update(from), Update(from+1), …, n calls)
  scan             -> `<lo> <hi> <run-length encoding of Check(c) for c = lo … hi>` where
                      lo = current-length-1 (saturating), hi = current+2 (saturating): the whole window
                      plus two counters on either side; runs are `<0|1>x<count>` joined by `,`
The oracle is the unbounded-naturals window of `Spec.Window`, driven by the ops.
-/
import Nebula.Driver.Common
import Nebula.Model.Bits
import Nebula.Spec.Window

namespace Nebula.Driver.Bits
open Nebula.Driver Nebula.Bits Nebula.Spec

structure S where
  b : Option Bits := none
  L : Nat := 0
  w : Window.W := Window.init

def hex16 (x : U64) : String :=
  String.ofList ((List.range 16).map (fun k => nibble ((x.toNat >>> (4 * (15 - k))) % 16)))

def dumpStr (b : Bits) : String :=
  s!"{b.current.toNat} " ++ String.join (b.bits.toList.map hex16)

/-- class of a wrong accept/reject answer -/
def wrongClass (pre : String) (L : Nat) (w : Window.W) (i : Nat) (got : Bool) : String :=
  let near := if Window.hi w + L ≥ 2 ^ 64 then "near-wrap-" else ""
  let kind :=
    if got then (if w.contains i then "accepted-twice" else "stale-accepted") else "fresh-rejected"
  s!"bad {pre}{near}{kind} hi={Window.hi w} L={L} ctr={i}"

def branchTag (pre : String) (L : Nat) (w : Window.W) (i : Nat) : String :=
  let h := Window.hi w
  let phase := if h + L ≥ 2 ^ 64 then ":wrap" else if h < L then ":warm" else ""
  let k :=
    if i == h + 1 then "next"
    else if i > h then (if i - h > L then "jump-beyond" else if i - h == L then "jump-window" else
      if (h + 1) / 64 != i / 64 then "jump-words" else "jump")
    else if i == h then "dupe-current"
    else if i + L > h then (if w.contains i then "dupe" else "backfill")
    else if i + L == h then "edge-stale"
    else "stale"
  s!"{pre}:{k}{phase}"

/-- run-length encoding of a Boolean array: `1x5,0x3,…` -/
def rle (a : Array Bool) : String :=
  let (runs, cur, cnt) := a.foldl (fun (acc : List String × Bool × Nat) b =>
    let (runs, cur, cnt) := acc
    if cnt == 0 then (runs, b, 1)
    else if b == cur then (runs, cur, cnt + 1)
    else (s!"{boolStr cur}x{cnt}" :: runs, b, 1)) ([], false, 0)
  let runs := if cnt == 0 then runs else s!"{boolStr cur}x{cnt}" :: runs
  ",".intercalate runs.reverse

def unrle (s : String) : Option (Array Bool) :=
  (s.splitOn ",").foldl (fun acc run =>
    match acc, run.splitOn "x" with
    | some a, [b, n] =>
      match n.toNat? with
      | some n => if b == "1" then some (a ++ Array.replicate n true)
                  else if b == "0" then some (a ++ Array.replicate n false) else none
      | none => none
    | _, _ => none) (some #[])

def scanLo (cur L : Nat) : Nat := cur - (L + 1)
def scanHi (cur : Nat) : Nat := min (2 ^ 64 - 1) (cur + 2)

def step (s : S) (args : List String) (impl : String) : S × Out :=
  match args with
  | ["reset", len] =>
    match natArg len with
    | some n =>
      if n ≥ 2 ^ 64 then (s, badOp) else
      match newBits (BitVec.ofNat 64 n) with
      | none =>
        ({ b := none, L := 0, w := Window.init },
         { model := s!"PANIC Bits length must be a power of two, got {n}", tag := "triv:reset-panic" })
      | some b =>
        ({ b := some b, L := n, w := Window.init }, { model := "ok", tag := "triv:reset" })
    | none => (s, badOp)
  | ["check", c] =>
    match natArg c, s.b with
    | some i, some b =>
      if i ≥ 2 ^ 64 then (s, badOp) else
      let m := check b (BitVec.ofNat 64 i)
      let want := Window.accepts s.L s.w i
      let verdict :=
        if impl == boolStr want then "ok"
        else if impl == boolStr (!want) then wrongClass "check-" s.L s.w i (!want)
        else "bad check-unparsable"
      (s, { model := boolStr m, verdict := verdict, tag := branchTag "chk" s.L s.w i })
    | _, _ => (s, badOp)
  | ["update", c] =>
    match natArg c, s.b with
    | some i, some b =>
      if i ≥ 2 ^ 64 then (s, badOp) else
      let (b', m) := update b (BitVec.ofNat 64 i)
      let (w', want) := Window.step s.L s.w i
      let verdict :=
        match impl.splitOn " " with
        | [a, cur] =>
          if a != boolStr want then
            (if a == boolStr (!want) then wrongClass "" s.L s.w i (!want) else "bad update-unparsable")
          else if cur != toString (Window.hi w') then
            s!"bad current-not-highest want={Window.hi w'}"
          else "ok"
        | _ => "bad update-unparsable"
      ({ s with b := some b', w := w' },
       { model := s!"{boolStr m} {b'.current.toNat}", verdict := verdict, tag := branchTag "upd" s.L s.w i })
    | _, _ => (s, badOp)
  | ["dump"] =>
    match s.b with
    | some b => (s, { model := dumpStr b, tag := "dump" })
    | none => (s, badOp)
  | ["run", from_, n] =>
    match natArg from_, natArg n, s.b with
    | some f, some n, some b =>
      if f + n > 2 ^ 64 then (s, badOp) else
      let (b', cnt) := (List.range n).foldl (fun (acc : Bits × Nat) k =>
        let (b', ok) := update acc.1 (BitVec.ofNat 64 (f + k))
        (b', if ok then acc.2 + 1 else acc.2)) (b, 0)
      let (w', want) := (List.range n).foldl (fun (acc : Window.W × Nat) k =>
        let (w', ok) := Window.step s.L acc.1 (f + k)
        (w', if ok then acc.2 + 1 else acc.2)) (s.w, 0)
      let wantStr := s!"{want} {Window.hi w'}"
      ({ s with b := some b', w := w' },
       { model := s!"{cnt} {b'.current.toNat}",
         verdict := if impl == wantStr then "ok" else s!"bad run-accept-count want={wantStr}",
         tag := if Window.hi s.w < s.L && s.L ≤ Window.hi w' then "run:leaves-warmup"
                else if s.L ≤ Window.hi s.w then "run:steady" else "run:warm" })
    | _, _, _ => (s, badOp)
  | ["scan"] =>
    match s.b with
    | some b =>
      let cur := b.current.toNat
      let lo := scanLo cur s.L
      let n := scanHi cur - lo + 1
      let m := (Array.range n).map (fun k => check b (BitVec.ofNat 64 (lo + k)))
      -- the oracle: the specification window over its own range
      let h := Window.hi s.w
      let slo := scanLo h s.L
      let sn := scanHi h - slo + 1
      let want := Window.scan s.L s.w slo sn
      let verdict :=
        match impl.splitOn " " with
        | [ilo, ihi, runs] =>
          if ilo != toString slo || ihi != toString (scanHi h) then
            s!"bad current-not-highest want={h} scan-range={ilo}..{ihi}"
          else if runs == rle want then "ok"
          else
            match unrle runs with
            | none => "bad scan-unparsable"
            | some got =>
              if got.size != sn then "bad scan-unparsable length" else
              match (List.range sn).find? (fun k => got[k]! != want[k]!) with
              | none => "ok"
              | some k => wrongClass "check-" s.L s.w (slo + k) got[k]!
        | _ => "bad scan-unparsable"
      (s, { model := s!"{lo} {scanHi cur} {rle m}", verdict := verdict,
            tag := if h + s.L ≥ 2 ^ 64 then "scan:wrap" else if h < s.L then "scan:warm" else "scan" })
    | none => (s, badOp)
  | _ => (s, badOp)

def main : IO Unit := runEngine ({} : S) step

end Nebula.Driver.Bits
