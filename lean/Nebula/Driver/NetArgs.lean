/-
Line-protocol syntax for addresses and prefixes (shared by engines; core only).
  address : hex of the 4 or 16 address bytes, e.g. `0a000001`, `fe80…01` (32 hex digits)
  prefix  : `<address>/<len>`
  addrport: `<address>:<port>`
-/
import Nebula.Driver.Common
import Nebula.Base.Net

namespace Nebula.Driver
open Nebula.Net

def bytesVal (bs : List UInt8) : Nat := bs.foldl (fun acc b => acc * 256 + b.toNat) 0

def parseAddr (s : String) : Option Addr :=
  match hexToBytes s with
  | some bs =>
    if bs.length == 4 then some { fam := .v4, val := bytesVal bs }
    else if bs.length == 16 then some { fam := .v6, val := bytesVal bs }
    else none
  | none => none

def natToBytes (n : Nat) (v : Nat) : List UInt8 :=
  (List.range n).map (fun i => UInt8.ofNat ((v >>> (8 * (n - 1 - i))) % 256))

def showAddr (a : Addr) : String :=
  match a.fam with
  | .v4 => bytesToHex (natToBytes 4 a.val)
  | .v6 => bytesToHex (natToBytes 16 a.val)

def parsePrefix (s : String) : Option Prefix :=
  match s.splitOn "/" with
  | [a, l] =>
    match parseAddr a, l.toNat? with
    | some a, some l => some { addr := a, len := l }
    | _, _ => none
  | _ => none

def showPrefix (p : Prefix) : String := showAddr p.addr ++ "/" ++ toString p.len

def parseAddrPort (s : String) : Option (Addr × Nat) :=
  match s.splitOn ":" with
  | [a, p] =>
    match parseAddr a, p.toNat? with
    | some a, some p => some (a, p)
    | _, _ => none
  | _ => none

def showAddrPort (ap : Addr × Nat) : String := showAddr ap.1 ++ ":" ++ toString ap.2

end Nebula.Driver
