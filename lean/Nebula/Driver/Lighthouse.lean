/-
Line-protocol engine `lighthouse` (C35, C36). Ops: see harness/lighthouse/engine_test.go.
-/
import Nebula.Driver.Common
import Nebula.Driver.NetArgs
import Nebula.Model.Lighthouse
import Nebula.Spec.Lighthouse
import Nebula.Model.CalcRemote

namespace Nebula.Driver.Lighthouse
open Nebula.Driver Nebula.Net Nebula.RemoteList Nebula.Lighthouse

def parseAP (s : String) : Option AP := (parseAddrPort s).map fun p => { addr := p.1, port := p.2 }
def showAP (a : AP) : String := showAddr a.addr ++ ":" ++ toString a.port

def parseList {α : Type} (f : String → Option α) (s : String) : Option (List α) :=
  if s == "-" then some [] else (s.splitOn ",").mapM f

def showList {α : Type} (f : α → String) (l : List α) (sep : String := ",") : String :=
  if l.isEmpty then "-" else sep.intercalate (l.map f)

structure State where
  cfg : Option Cfg := none
  lh : LH := {}
  /-- `lighthouse.calculated_remotes`: overlay prefix -> (mask prefix, port) list -/
  crTbl : List (Prefix × List (Prefix × Nat)) := []
  /-- the configuration file as last (re)loaded -/
  raw : RawCfg := {}
  /-- the handler's reused decode scratch -/
  scratchTyp : Nat := 0
  scratch : Details := {}
  /-- what each sender (primary authenticated address) put into DECODABLE answers / updates so far in this case:
  rendered addresses and relays -/
  sentBy : List (Addr × List String) := []
  /-- remote allow lists that were in force earlier in this case (before reloads) -/
  pastRals : List AllowList.Remote := []

def kvGet (kvs : List (String × String)) (k : String) : String := ((kvs.find? (·.1 == k)).map (·.2)).getD "-"

def parseStatics (s : String) : Option (List (Addr × List AP)) :=
  if s == "-" then some [] else
  (s.splitOn ";").mapM fun e =>
    match e.splitOn "@" with
    | [k, v] =>
      match parseAddr k, (v.splitOn "+").mapM parseAP with
      | some k, some v => some (k, v)
      | _, _ => none
    | _ => none

def parseEntries (toks : List String) : Option (List AllowList.Entry) :=
  toks.mapM fun (t : String) =>
    match t.splitOn "=" with
    | [k, v] => (parsePrefix k).map fun p => ({ key := some p, val := some (v == "T") } : AllowList.Entry)
    | _ => none

/-- split at the `R` markers: global tokens, then (range key, tokens) sections. -/
def splitRanges : List String → List String × List (String × List String)
  | [] => ([], [])
  | "R" :: k :: rest =>
    let (g, rs) := splitRanges rest
    ([], (k, g) :: rs)
  | t :: rest =>
    let (g, rs) := splitRanges rest
    (t :: g, rs)

def parseG (toks : List String) : Option (Option (List AllowList.Entry) × List AllowList.RangeEntry) :=
  let (g, rs) := splitRanges toks
  let gl : Option (Option (List AllowList.Entry)) :=
    match g with
    | ["-"] => some none
    | _ => (parseEntries g).map some
  let rl : Option (List AllowList.RangeEntry) := rs.mapM fun r =>
    match parsePrefix r.1, parseEntries r.2 with
    | some p, some es => some ({ key := some p, list := some es } : AllowList.RangeEntry)
    | _, _ => none
  match gl, rl with
  | some g, some r => some (g, r)
  | _, _ => none

def parseCalc (s : String) : Option (List (Prefix × List (Prefix × Nat))) :=
  if s == "-" then some [] else
  (s.splitOn ";").mapM fun e =>
    match e.splitOn "@" with
    | [k, v] =>
      match parsePrefix k, (v.splitOn "+").mapM (fun (x : String) =>
          match x.splitOn ":" with
          | [m, p] => match parsePrefix m, p.toNat? with
            | some m, some p => some (m, p)
            | _, _ => none
          | _ => none) with
      | some k, some l => some (k, l)
      | _, _ => none
    | _ => none

def hex16 (a : Addr) : String := bytesToHex (natToBytes 16 a.val)
def hex4 (n : Nat) : String := bytesToHex (natToBytes 4 n)

def showSent (s : Sent) : String :=
  match s.msg.details with
  | none => s!"{showAddr s.to}|{s.msg.typ}|nil|-|-|-"
  | some d =>
    let vpn := if d.oldVpn != 0 then "1/" ++ hex4 d.oldVpn else match d.vpn with
      | some a => "2/" ++ hex16 a
      | none => "0"
    let v4 := showList (fun (a : AP) => hex4 a.addr.val ++ ":" ++ toString a.port) d.v4
    let v6 := showList (fun (a : AP) => hex16 a.addr ++ ":" ++ toString a.port) d.v6
    let rel := showList id (d.oldRelays.map (fun r => "o" ++ hex4 r) ++ d.relays.map (fun r => "n" ++ hex16 r))
    s!"{showAddr s.to}|{s.msg.typ}|{vpn}|{v4}|{v6}|{rel}"

def strSort (l : List String) : List String := l.mergeSort (fun a b => !(b < a))

def showPunch (p : Punch) : String :=
  (match p.target with | some t => showAP t | none => "-") ++ ">" ++ showAddr p.vpn

def showOut (o : Outp) : String :=
  "S[" ++ showList showSent o.sent ";" ++ "] P[" ++ showList id (strSort (o.punches.map showPunch)) ++
    "] T[" ++ (match o.trigger with | some a => showAddr a | none => "-") ++ "]"

def showCache (me : Addr) (c : List (Addr × OwnerCache)) : String :=
  let sorted := c.mergeSort (fun a b => !(b.1.lt a.1))
  if sorted.isEmpty then "-" else
  ";".intercalate (sorted.map fun e =>
    let rep := (e.2.v4r ++ e.2.v6r.map AP.out).map showAP
    let rep := if e.1 = me then strSort rep else rep
    showAddr e.1 ++ "[L:" ++ showList showAP (e.2.v4l.toList ++ e.2.v6l.toList.map AP.out) ++
      "|R:" ++ showList id rep ++ "|Y:" ++ showList showAddr e.2.relay ++ "]")

def showDump (me : Addr) (s : LH) : String :=
  let keys := s.addrMap.mergeSort (fun a b => !(b.1.lt a.1))
  -- a list is named by its smallest key
  let name (id : Nat) : Addr := ((keys.find? (fun e => e.2 == id)).map (·.1)).getD ⟨.v4, 0⟩
  let parts := keys.map fun e => showAddr e.1 ++ ">" ++ showAddr (name e.2)
  let ids := keys.foldl (fun acc e => if acc.contains e.2 then acc else acc ++ [e.2]) ([] : List Nat)
  let lists := ids.map fun id =>
    match s.getList id with
    | some rl => showAddr (name id) ++ "{V:" ++ showList showAddr rl.vpnAddrs ++ " C:" ++ showCache me rl.cache ++ "}"
    | none => "?"
  showList id parts ++ " " ++ showList id lists " "

/-- the text between `tag[` and the next `]`. -/
def section_ (impl tag : String) : String :=
  match impl.splitOn (tag ++ "[") with
  | _ :: rest :: _ => ((rest.splitOn "]").headD "")
  | _ => "?"

def msgVerdict (c : Cfg) (from_ : List Addr) (typ : Nat) (impl : String) : String :=
  let s := section_ impl "S"
  let p := section_ impl "P"
  let t := section_ impl "T"
  if s == "?" || p == "?" || t == "?" then "bad lh-unparsable-answer" else
  if s != "-" && !Spec.Lighthouse.mayAnswer c then "bad lh-answers-when-not-lighthouse" else
  if (p != "-" || t != "-") && !Spec.Lighthouse.mayAct c from_ then "bad lh-acts-for-non-lighthouse" else
  if typ != typHostPunchNotification && p != "-" then "bad lh-punch-for-other-type" else
  -- C36: every punch target must be usable
  if p == "-" then "ok" else
  let bad := (p.splitOn ",").filterMap fun e =>
    match e.splitOn ">" with
    | [tg, v] =>
      if tg == "-" then none else
      match parseAP tg, parseAddr v with
      | some a, some v =>
        -- judged on what the socket layer will dial: `udp.writeSockaddr` unmaps the destination
        let u := a.addr.unmap
        if inMyNets c u || !c.ral.allow v u then
          some (if a.addr.is4in6 then "addr-mapped-v6-entry-bypasses-filter"
                else if inMyNets c u then "addr-punch-inside-overlay"
                else if AllowList.allow c.ral.allowList u then "addr-punch-denied-by-peer-range" else "addr-punch-denied")
        else none
      | _, _ => some "addr-punch-unparsable"
    | _ => some "addr-punch-unparsable"
  match bad with
  | [] => "ok"
  | b :: _ => "bad " ++ b

def step (s : State) (args : List String) (impl : String) : State × Out :=
  match args with
  | "reset" :: rest =>
    let (kvToks, gToks) := (rest.takeWhile (· != "G"), (rest.dropWhile (· != "G")).drop 1)
    let kvs := kvToks.filterMap fun t => match t.splitOn "=" with | [k, v] => some (k, v) | _ => none
    match parseList parsePrefix (kvGet kvs "nets"), parseList parseAddr (kvGet kvs "lhs"),
          parseStatics (kvGet kvs "st"), parseG gToks, parseCalc (kvGet kvs "cr") with
    | some nets, some lhs, some st, some (g, rs), some crs =>
      let al : Except AllowList.Err (Option (AllowList.Table Bool)) :=
        match g with
        | none => .ok none
        | some es => (AllowList.newAllowList es).map some
      let inside : Except AllowList.Err (Option (AllowList.Table (Option (AllowList.Table Bool)))) :=
        if rs.isEmpty then .ok none else (AllowList.rangesLoop [] rs).map some
      match al, inside with
      | .ok al, .ok inside =>
        let statics := st.map (·.1)
        if lhs.any (fun a => !memB statics a) then ({}, { model := "err", tag := "triv:reset-err" }) else
        let cfg : Cfg := { amLighthouse := kvGet kvs "lh" == "1", myNets := nets, lighthouses := lhs,
                           ral := { allowList := al, inside := inside },
                           initV := if kvGet kvs "v" == "1" then 1 else 2, staticList := statics }
        let lh := st.foldl (fun lh e => addStatic cfg lh e.1 e.2) ({} : LH)
        let raw : RawCfg := { hosts := lhs, statics := st, g := g, ranges := rs, amLighthouse := cfg.amLighthouse }
        ({ cfg := some cfg, lh := lh, crTbl := crs, raw := raw },
         { model := "ok", verdict := expect "lh-load" impl "ok",
           tag := if !rs.isEmpty then "reset:ranges" else if !crs.isEmpty then "reset:calc" else "triv:reset" })
      | _, _ => ({}, { model := "err", tag := "triv:reset-err" })
    | _, _, _, _, _ => ({}, badOp)
  | ["gate", kind, _, allow, from_] =>
    -- two real nodes: A = 10.0.0.1/24 (under test) and B = 10.0.0.2 at 192.0.2.2:4242
    -- <global entries>[~<range prefix>~<range entries>]
    let parts := allow.splitOn "~"
    let al : Option (Option (AllowList.Table Bool)) :=
      if allow == "-" then some none else
      match parseEntries ((parts.headD "").splitOn ",") with
      | some es => (match AllowList.newAllowList es with | .ok t => some (some t) | .error _ => none)
      | none => none
    let inside : Option (Option (AllowList.Table (Option (AllowList.Table Bool)))) :=
      match parts with
      | [_, rp, re] =>
        (match parsePrefix rp, parseEntries (re.splitOn ",") with
         | some p, some es =>
           (match AllowList.rangesLoop [] [{ key := some p, list := some es }] with
            | .ok t => some (some t) | .error _ => none)
         | _, _ => none)
      | _ => some none
    let k : Option LearnKind := if kind == "hs1" then some .stage1 else if kind == "hs2" then some .stage2
      else if kind == "roam" then some .roam else none
    match al, inside, k, parseAP from_ with
    | some al, some inside, some k, some fr =>
      let c : Cfg := { amLighthouse := false, myNets := [⟨⟨.v4, 0x0a000001⟩, 24⟩], lighthouses := [],
                       ral := { allowList := al, inside := inside }, initV := 2, staticList := [] }
      let bUdp : AP := ⟨⟨.v4, 0xc0000202⟩, 4242⟩
      let cur : Option AP := if kind == "roam" then some bUdp else none
      let g := learnGate c k [⟨.v4, 0x0a000002⟩] cur ⟨fr, false⟩ false
      let remote := match g with | some r => some r | none => cur
      let learned := g.isSome || (kind == "roam" && fr == bUdp) || (kind == "hs2" && fr == bUdp)
      let model := "remote=" ++ (remote.map showAP).getD "-" ++ " learned=" ++ boolStr learned
      -- C36 oracle on the implementation: the source became A's remote / a cached address only if it is usable
      let took := impl.startsWith ("remote=" ++ showAP fr) || impl.endsWith "learned=1"
      let known := fr == bUdp && kind != "hs1"
      let verdict :=
        if took && !known && inMyNets c fr.addr then "bad addr-learned-inside-overlay"
        else if took && !known && !c.ral.allowAll [⟨.v4, 0x0a000002⟩] fr.addr then "bad addr-learned-denied"
        else "ok"
      (s, { model := model, verdict := verdict,
            tag := s!"gate:{kind}:" ++ (if g.isSome then "learned" else if inMyNets c fr.addr then "inside-overlay" else "refused-or-same") })
    | _, _, _, _ => (s, badOp)
  | op :: rest =>
    match s.cfg with
    | none => (s, { model := "none", tag := "triv:none" })
    | some c =>
      let handleP (from_ : List Addr) (p : Packet) (tag : String) : State × Out :=
        let r := handlePacket c { lh := s.lh, scratchTyp := s.scratchTyp, scratch := s.scratch } from_ p
        let o := r.2
        let typ := p.msg.typ
        let d := p.details.getD {}
        -- what this message itself carries (the only source its effects may draw on)
        let own : List String := (d.v4.map showAP) ++ (d.v6.map (fun a => showAP a.out)) ++ ((getRelays d).map showAddr)
        let f0 := from_.headD ⟨.v4, 0⟩
        let sentBy' := if p.ok && (typ == typHostQueryReply || typ == typHostUpdateNotification) then (f0, own) :: s.sentBy else s.sentBy
        let base := msgVerdict c from_ typ impl
        -- C35: a punch is scheduled only to an address the (authorised) message itself carries
        let pSec := section_ impl "P"
        let foreign := pSec != "-" && pSec != "?" && (pSec.splitOn ",").any fun e =>
          match e.splitOn ">" with
          | [tg, _] => tg != "-" && !(own.contains tg) && !(d.v6.any (fun a => showAP a == tg))
          | _ => false
        let verdict := if base != "ok" then base else if !p.ok && (section_ impl "S" != "-" || pSec != "-" || section_ impl "T" != "-")
          then "bad lh-undecodable-packet-has-effect" else if foreign then "bad lh-punch-target-not-in-message" else "ok"
        ({ s with lh := r.1.lh, scratchTyp := r.1.scratchTyp, scratch := r.1.scratch, sentBy := sentBy' },
         { model := showOut o, verdict := verdict, tag := tag })
      let handle (from_ : List Addr) (m : Option Msg) (tag : String) : State × Out :=
        match m with
        | some m => handleP from_ { typ := some m.typ, details := m.details, ok := true } tag
        | none => handleP from_ { ok := false } tag
      -- `bad`: the bytes of a `msg` plus a tail that makes Unmarshal fail after the message was decoded into the scratch
      let op' := if op == "bad" then "msg" else op
      let rest' := if op == "bad" then rest.take 8 else rest
      match op', rest' with
      | "msg", [f, t, v, vpn, l4, l6, orl, rl] =>
        match parseList parseAddr f, t.toNat?, v.toNat?, (if vpn == "-" then some none else (parseAddr vpn).map some),
              parseList parseAP l4, parseList parseAP l6, parseList parseAddr orl, parseList parseAddr rl with
        | some f, some t, some v, some vpn, some l4, some l6, some orl, some rl =>
          let old : Nat := match vpn with
            | some a => if (v == 1 || v == 3) && a.unmap.is4 then a.unmap.val else 0
            | none => 0
          let nw : Option Addr := match vpn with
            | some a => if v == 2 then some (as16 a) else if v == 3 then some ⟨.v6, 0xfd990000000000000000000000000077⟩ else none
            | none => none
          let d : Details := { oldVpn := old, vpn := nw, v4 := l4, v6 := l6.map (fun (a : AP) => ({ addr := as16 a.addr, port := a.port } : AP)),
                               oldRelays := orl.map (·.val), relays := rl.map as16 }
          let fromLH := Spec.Lighthouse.fromLighthouse c f
          let tag := s!"{op}:t{t}:" ++ (if c.amLighthouse then "lh" else "node") ++ (if fromLH then ":from-lh" else ":from-peer")
          handleP f { typ := if t == 0 then none else some t, details := some d, ok := op == "msg" } tag
        | _, _, _, _, _, _, _, _ => (s, badOp)
      | "nodetails", [f, t] =>
        match parseList parseAddr f, t.toNat? with
        | some f, some t => handle f (some { typ := t, details := none }) "msg:nodetails"
        | _, _ => (s, badOp)
      | "raw", [f, _] =>
        -- arbitrary bytes: the harness generator only emits strings gogo-protobuf refuses or that decode to a
        -- message without Details; both have no effect
        match parseList parseAddr f with
        | some f => handle f none "msg:raw"
        | none => (s, badOp)
      | "dump", [] =>
        let m := showDump c.me s.lh
        -- C36 per-owner cap, on the implementation's dump: at most 2*MaxRemotes reported, MaxRemotes relays
        let capBad := (impl.splitOn "|R:").drop 1 |>.any fun seg =>
          let rep := (seg.splitOn "|Y:").headD ""
          let rel := (((seg.splitOn "|Y:").drop 1).headD "").splitOn "]" |>.headD ""
          (rep != "-" && (rep.splitOn ",").length > 2 * maxRemotes) || (rel != "-" && (rel.splitOn ",").length > maxRemotes)
        -- C35: what a list holds under an owner O (other than this node itself) was sent by O in a decodable message
        let foreign := (impl.splitOn "[L:").drop 1 |>.zip ((impl.splitOn "[L:").dropLast.map fun pre =>
            -- the owner is the token right before "[L:"
            let toks := pre.splitOn ";"
            let last := (toks.getLast?.getD "")
            ((last.splitOn ":").getLast?.getD last)) |>.any fun (seg, ownerTok) =>
          match parseAddr ownerTok with
          | none => false
          | some o =>
            if o = c.me then false else
            let mine := (s.sentBy.filter (fun e => e.1 = o)).flatMap (·.2)
            let rep := ((seg.splitOn "|R:").drop 1 |>.headD "").splitOn "|Y:" |>.headD ""
            let rel := ((seg.splitOn "|Y:").drop 1 |>.headD "").splitOn "]" |>.headD ""
            (rep != "-" && (rep.splitOn ",").any (fun x => !mine.contains x)) ||
              (rel != "-" && (rel.splitOn ",").any (fun x => !mine.contains x))
        (s, { model := m, verdict := if capBad then "bad addr-owner-cap" else if foreign then "bad lh-owner-holds-foreign-data" else expect "lh-cache-dump" impl m,
              tag := if s.lh.addrMap.isEmpty then "triv:dump" else "dump" })
      | "addrs", [v] =>
        match parseAddr v with
        | none => (s, badOp)
        | some v =>
          match s.lh.lookup v with
          | none => (s, { model := "none", verdict := expect "lh-addrs" impl "none", tag := "triv:addrs-none" })
          | some id =>
            match s.lh.getList id with
            | none => (s, badOp)
            | some rl =>
              let sa : Option (List Addr → Addr → Bool) := some (fun vs x => shouldAddAll c vs x)
              let rl' := rebuild rl sa []
              let verdict :=
                match parseList parseAP impl with
                | none => "bad addr-candidates-unparsable"
                | some l =>
                  -- every candidate is judged after unmapping (what the socket layer will actually dial): a 4-in-6
                  -- entry that survives only because the filters saw it as IPv6 is its own class
                  let badOne (a : AP) : Option String :=
                    let u := a.out
                    let cls (base : String) : String :=
                      if a.addr.is4in6 then "addr-mapped-v6-entry-bypasses-filter" else base
                    if rl.badRemotes.contains u then some (cls "addr-candidate-blocked")
                    else if inMyNets c u.addr then some (cls "addr-candidate-inside-overlay")
                    else if !AllowList.allow c.ral.allowList u.addr then
                      -- recorded under a remote allow list that a reload has since replaced: the code does not
                      -- re-filter the cache (known finding)
                      (if s.pastRals.any (fun r => AllowList.allow r.allowList u.addr) then some "addr-stale-after-allowlist-reload"
                       else some (cls "addr-candidate-denied"))
                    else none
                  match l.filterMap badOne with
                  | [] => "ok"
                  | b :: _ => "bad " ++ b
              let out := showList showAP rl'.addrs
              let s2 : State := { s with lh := s.lh.setList id rl' }
              (s2, { model := out, verdict := verdict, tag := if out == "-" then "addrs:empty" else "addrs" })
      | "reload", toks =>
        let (kvToks, gToks) := (toks.takeWhile (· != "G"), (toks.dropWhile (· != "G")).drop 1)
        let kvs := kvToks.filterMap fun t => match t.splitOn "=" with | [k, v] => some (k, v) | _ => none
        match parseList parseAddr (kvGet kvs "lhs"), parseStatics (kvGet kvs "st"), parseG gToks, parseCalc (kvGet kvs "cr") with
        | some lhs, some st, some (g, rs), some crs =>
          let new : RawCfg := { hosts := lhs, statics := st, g := g, ranges := rs, amLighthouse := kvGet kvs "lh" == "1" }
          let n' := reloadNode { cfg := c, lh := s.lh, raw := s.raw } new
          let allowChanged := decide (new.g ≠ s.raw.g ∨ new.ranges ≠ s.raw.ranges)
          let m := "lhs=" ++ showList showAddr n'.cfg.lighthouses
          -- C35: the list in force is the configured one (when every host has a static entry), whatever the old list was
          let valid := lhs.all (fun h => memB (staticsAfter { cfg := c, lh := s.lh, raw := s.raw } new) h)
          let hostsChanged := decide (lhs ≠ s.raw.hosts)
          let want := if hostsChanged && valid then "lhs=" ++ showList showAddr lhs else "lhs=" ++ showList showAddr c.lighthouses
          ({ s with cfg := some n'.cfg, lh := n'.lh, raw := n'.raw, crTbl := crs,
                    pastRals := if allowChanged then c.ral :: s.pastRals else s.pastRals },
           { model := m, verdict := expect "lh-reload-lighthouses" impl want,
             tag := if hostsChanged then (if valid then (if lhs.all (fun h => memB c.lighthouses h) then "reload:hosts-removed-or-permuted" else "reload:hosts-added") else "reload:hosts-refused")
                    else if allowChanged then "reload:allowlist" else "reload:other" })
        | _, _, _, _ => (s, badOp)
      | "roam", [vs, cur, via, rel] =>
        match parseList parseAddr vs, (if cur == "-" then some none else (parseAP cur).map some), parseAP via with
        | some vs, some cur, some via =>
          let v : Via := { udp := via, relayed := rel == "1" }
          let g := learnGate c .roam vs cur v false
          let remote := match g with | some r => some r | none => cur
          let verdict :=
            -- C36: a remote that was not there before must be usable for the peer
            if impl == "-" || some impl == cur.map showAP then "ok" else
            match parseAP impl with
            | none => "bad addr-roam-unparsable"
            | some r => if inMyNets c r.addr then "bad addr-roam-inside-overlay"
                        else if !c.ral.allowAll vs r.addr then "bad addr-roam-denied" else "ok"
          ({ s with lh := learnEvent c (queryCache s.lh vs) .roam vs cur v false },
           { model := (remote.map showAP).getD "-", verdict := verdict,
             tag := match g with | some _ => "roam:learned" | none => if v.relayed then "roam:relayed" else "roam:refused-or-same" })
        | _, _, _ => (s, badOp)
      | "calc", [v] =>
        match parseAddr v with
        | none => (s, badOp)
        | some v =>
          -- tree.Lookup: longest prefix; ApplyV4 on every entry (the generator uses IPv4 overlay addresses and masks)
          let entries := (lpm s.crTbl v).getD []
          let calc4 : List AP := entries.filterMap fun e =>
            match CalcRemote.newCalculatedRemote e.1 e.1 e.2 with
            | .ok cr => (match CalcRemote.applyV4 cr v with
                | .ok (ip, port) => some ({ addr := ⟨.v4, ip⟩, port := port } : AP)
                | .panic => none)
            | .error _ => none
          let added := v.is4 && !calc4.isEmpty
          let lh' := if added then addCalculated c s.lh v calc4 [] else s.lh
          ({ s with lh := lh' }, { model := boolStr added, verdict := "ok", tag := if added then "calc:added" else "calc:none" })
      | "block", [v, a] =>
        match parseAddr v, parseAP a with
        | some v, some a =>
          match s.lh.lookup v with
          | none => (s, { model := "none", tag := "triv:block-none" })
          | some id =>
            match s.lh.getList id with
            | none => (s, badOp)
            | some rl => ({ s with lh := s.lh.setList id (blockRemote rl a false) }, { model := "ok", tag := "op:block" })
        | _, _ => (s, badOp)
      | "delete", [vs] =>
        match parseList parseAddr vs with
        | some vs => ({ s with lh := deleteVpnAddrs c s.lh vs }, { model := "ok", tag := "op:delete" })
        | none => (s, badOp)
      | _, _ => (s, badOp)
  | _ => (s, badOp)

def main : IO Unit := runEngine ({} : State) step

end Nebula.Driver.Lighthouse
