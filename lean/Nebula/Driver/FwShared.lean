/-
Shared parsing / state for the firewall line-protocol engines `fwrules` (C16, C17) and `conntrack`
(C18, C19). No `main` here. Core Lean only.

Token syntax
  string   : a token of [A-Za-z0-9_.]; `-` is the empty string
  list     : comma separated strings; `-` is the empty list
  prefixes : comma separated `<addrhex>/<len>`; `-` is the empty list
  cidr     : `-` (not given) | `any` | `<addrhex>/<len>`
  cert     : 5 tokens  <name> <networks> <unsafeNetworks> <groups> <issuer>
  rule     : 10 tokens <in|out> <proto> <startPort> <endPort> <groups> <host> <cidr> <localCidr> <caName> <caSha>
  packet   : 6 tokens  <local> <remote> <localPort> <remotePort> <proto> <fragment 0|1>
-/
import Nebula.Driver.Common
import Nebula.Driver.NetArgs
import Nebula.Model.Conntrack
import Nebula.Spec.FwRules

namespace Nebula.Driver.Fw
open Nebula.Driver Nebula.Net Nebula.Fw

def strTok (s : String) : String := if s == "-" then "" else s

def listTok (s : String) : List String := if s == "-" then [] else s.splitOn ","

def prefixesTok (s : String) : Option (List Prefix) :=
  if s == "-" then some [] else (s.splitOn ",").mapM parsePrefix

def cidrTok (s : String) : Option CidrSel :=
  if s == "-" then some .none
  else if s == "any" then some .any
  else (parsePrefix s).map .pfx

def dirTok (s : String) : Option Bool :=
  if s == "in" then some true else if s == "out" then some false else none

def parseCert : List String → Option Cert
  | [name, nets, unsafeNets, groups, issuer] =>
    match prefixesTok nets, prefixesTok unsafeNets with
    | some n, some u =>
      some { name := strTok name, networks := n, unsafeNetworks := u, groups := listTok groups,
             issuer := strTok issuer }
    | _, _ => none
  | _ => none

def parseRule : List String → Option Rule
  | [dir, proto, sp, ep, groups, host, cidr, lcidr, caName, caSha] =>
    match dirTok dir, natArg proto, intArg sp, intArg ep, cidrTok cidr, cidrTok lcidr with
    | some d, some pr, some s, some e, some c, some lc =>
      some { incoming := d, proto := pr, startPort := s, endPort := e, groups := listTok groups,
             host := strTok host, cidr := c, localCidr := lc, caName := strTok caName, caSha := strTok caSha }
    | _, _, _, _, _, _ => none
  | _ => none

def parsePacket : List String → Option Packet
  | [la, ra, lp, rp, proto, frag] =>
    match parseAddr la, parseAddr ra, natArg lp, natArg rp, natArg proto with
    | some l, some r, some lp, some rp, some pr =>
      some { localAddr := l, remoteAddr := r, localPort := lp, remotePort := rp, proto := pr,
             fragment := frag == "1" }
    | _, _, _, _, _ => none
  | _ => none

def showVerdict : Verdict → String
  | .pass => "pass"
  | .invalidRemote => "remote"
  | .peerRejected => "peer"
  | .invalidLocal => "local"
  | .noRule => "norule"
  | .panicIndex => "PANIC"

def showAddErr : AddErr → String
  | .unknownProto => "err:proto"
  | .portOrder => "err:ports"

/-- `myVpnNetworksTable` of the cert state: the node's own networks. -/
def myNetsOf (my : Cert) : Lite := my.networks.foldl Lite.insert []

def emptyCert : Cert := { name := "", networks := [], unsafeNetworks := [], groups := [], issuer := "" }

/-- a tuple the spec considers tracked. -/
structure Flow where
  pkt : Packet
  expires : Nat        -- last pass + the timeout in force then
  lastPass : Nat
  incoming : Bool      -- direction of the rule-allowed packet that created it
  epoch : Nat          -- number of effective reloads seen when it was last validated against the rules
  deriving Repr

/-- what a reload is given: `NewFirewallFromConfig`'s inputs. -/
structure LoadCfg where
  dlca : Bool
  tcp : Nat
  udp : Nat
  dflt : Nat
  nonce : Nat
  rules : List String     -- the staged rule lines, verbatim
  deriving DecidableEq

/-- engine state: the model (`sys`) and the spec's own flat view (rule list, flows). -/
structure St where
  my : Cert := emptyCert
  dlca : Bool := false
  sys : Sys := Sys.new (Fw.new emptyCert false 1 1 1) 0
  rules : List Rule := []          -- spec: every rule handed to AddRule on the current firewall
  pool : Pool := []
  peers : List (String × Cert) := []
  flows : List Flow := []          -- spec: tracked tuples
  sure : List Flow := []           -- spec: tuples the implementation must still be tracking (lower bounds)
  epoch : Nat := 0                 -- spec: effective reloads so far
  staged : List (String × Rule) := []   -- rules of the next reload (line text, parsed)
  lastLoad : Option LoadCfg := none     -- the firewall section of the config as last loaded
  cachePeriod : Nat := 0
  wrapLost : List Flow := []       -- spec: flows that were live when a version wrap reset conntrack (F16)

def St.peer (s : St) (id : String) : Option Cert := aget sameStr s.peers id

def St.hostInfo (s : St) (c : Cert) : HostInfo :=
  { host := hostOf (myNetsOf s.my) c, peer := { cert := c, pool := s.pool } }

def St.cfg (s : St) : Cfg := cfgOf s.my s.dlca

def findFlow (fl : List Flow) (p : Packet) : Option Flow := fl.find? (fun f => decide (f.pkt = p))

def setFlow (fl : List Flow) (f : Flow) : List Flow := f :: fl.filter (fun g => !decide (g.pkt = f.pkt))

def dropFlow (fl : List Flow) (p : Packet) : List Flow := fl.filter (fun g => !decide (g.pkt = p))

/-- C17 oracle: a packet that passed must carry authentic addresses. -/
def addrVerdict (my peer : Cert) (p : Packet) (impl : String) : String :=
  if impl != "pass" then "ok"
  else if !Spec.Fw.remoteOK my peer p.remoteAddr then "bad c17-remote-addr-not-certified"
  else if !Spec.Fw.localAddrOK my p.localAddr then "bad c17-local-addr-not-own"
  else "ok"

def ruleTag (r : Rule) : String :=
  (if r.caName != "" || r.caSha != "" then "ca" else "noca") ++ "/" ++
  (if isAny r.groups r.host r.cidr then "anysel" else "sel")

/-- ops common to both engines: reset / ca / peer / rule / match / clear / sleep. -/
def stepSetup (s : St) (args : List String) (impl : String) : Option (St × Out) :=
  match args with
  | "reset" :: dlca :: tcp :: udp :: dflt :: cache :: cert =>
    match parseCert cert, natArg tcp, natArg udp, natArg dflt, natArg cache with
    | some my, some tcp, some udp, some dflt, some cache =>
      let d := dlca == "1"
      some ({ my := my, dlca := d, sys := Sys.new (Fw.new my d tcp udp dflt) cache, cachePeriod := cache },
            { model := "ok", tag := "triv:reset" })
    | _, _, _, _, _ => some (s, badOp)
  | ["ca", fp, name] =>
    some ({ s with pool := aset sameStr s.pool (strTok fp) (strTok name) }, { model := "ok", tag := "triv:ca" })
  | "peer" :: id :: cert =>
    match parseCert cert with
    | some c =>
      let m := if (buildNetworks (myNetsOf s.my) c).isNone then "simple" else "table"
      some ({ s with peers := aset sameStr s.peers id c }, { model := m, tag := "triv:peer:" ++ m })
    | none => some (s, badOp)
  | "rule" :: rule =>
    match parseRule rule with
    | some r =>
      let want := if Spec.Fw.ruleValid r then "ok"
        else if r.proto = 0 ∨ r.proto = 6 ∨ r.proto = 17 ∨ r.proto = 1 ∨ r.proto = 58 then "err:ports" else "err:proto"
      match s.sys.fw.addRule r with
      | .ok fw =>
        some ({ s with sys := { s.sys with fw := fw }, rules := s.rules ++ [r] },
              { model := "ok", verdict := expect "c16-rule-accept" impl want, tag := "rule:" ++ ruleTag r })
      | .error e =>
        some ({ s with rules := s.rules ++ [r] },
              { model := showAddErr e, verdict := expect "c16-rule-accept" impl want, tag := "rule:" ++ showAddErr e })
    | none => some (s, badOp)
  | "match" :: id :: dir :: pkt =>
    match s.peer id, dirTok dir, parsePacket pkt with
    | some c, some inc, some p =>
      let pr : Peer := { cert := c, pool := s.pool }
      let m := (s.sys.fw.table inc).matches p inc pr
      let want := Spec.Fw.allow s.cfg s.rules p inc pr
      some (s, { model := boolStr m, verdict := expect "c16-table-match" impl (boolStr want),
                 tag := "match:" ++ boolStr want })
    | _, _, _ => some (s, badOp)
  | ["clear"] =>
    some ({ s with sys := { s.sys with ct := { s.sys.ct with conns := [] } }, flows := [], sure := [], wrapLost := [] },
          { model := "ok", tag := "triv:clear" })
  | ["sleep", d] =>
    match natArg d with
    | some d => some ({ s with sys := s.sys.sleep d }, { model := "ok", tag := "triv:sleep" })
    | none => some (s, badOp)
  | _ => none

end Nebula.Driver.Fw
