/-
Shared parsing / state for the firewall line-protocol engines `fwrules` (C16, C17) and `conntrack`
(C18, C19). No `main` here. Core Lean only.

Token syntax
  string   : a token of [A-Za-z0-9_.]; `-` is the empty string
  list     : comma separated strings; `-` is the empty list
  prefixes : comma separated `<addrhex>/<len>`; `-` is the empty list
  cidr     : `-` (not given) | `any` | `<addrhex>/<len>`
  cert     : 5 tokens  <name> <networks> <unsafeNetworks> <groups> <issuer>
  rule     : 10 tokens <in|out> <proto> <startPort> <endPort> <groups> <host> <cidr> <localCidr> <caName> <caSha>
  packet   : 6 tokens  <local> <remote> <localPort> <remotePort> <proto> <fragment 0|1>
-/
import Nebula.Driver.Common
import Nebula.Driver.NetArgs
import Nebula.Model.Conntrack
import Nebula.Spec.FwRules

namespace Nebula.Driver.Fw
open Nebula.Driver Nebula.Net Nebula.Fw

def strTok (s : String) : String := if s == "-" then "" else s

def listTok (s : String) : List String := if s == "-" then [] else s.splitOn ","

def prefixesTok (s : String) : Option (List Prefix) :=
  if s == "-" then some [] else (s.splitOn ",").mapM parsePrefix

def cidrTok (s : String) : Option CidrSel :=
  if s == "-" then some .none
  else if s == "any" then some .any
  else (parsePrefix s).map .pfx

def dirTok (s : String) : Option Bool :=
  if s == "in" then some true else if s == "out" then some false else none

def parseCert : List String → Option Cert
  | [name, nets, unsafeNets, groups, issuer] =>
    match prefixesTok nets, prefixesTok unsafeNets with
    | some n, some u =>
      some { name := strTok name, networks := n, unsafeNetworks := u, groups := listTok groups,
             issuer := strTok issuer }
    | _, _ => none
  | _ => none

def parseRule : List String → Option Rule
  | [dir, proto, sp, ep, groups, host, cidr, lcidr, caName, caSha] =>
    match dirTok dir, natArg proto, intArg sp, intArg ep, cidrTok cidr, cidrTok lcidr with
    | some d, some pr, some s, some e, some c, some lc =>
      some { incoming := d, proto := pr, startPort := s, endPort := e, groups := listTok groups,
             host := strTok host, cidr := c, localCidr := lc, caName := strTok caName, caSha := strTok caSha }
    | _, _, _, _, _, _ => none
  | _ => none

def parsePacket : List String → Option Packet
  | [la, ra, lp, rp, proto, frag] =>
    match parseAddr la, parseAddr ra, natArg lp, natArg rp, natArg proto with
    | some l, some r, some lp, some rp, some pr =>
      some { localAddr := l, remoteAddr := r, localPort := lp, remotePort := rp, proto := pr,
             fragment := frag == "1" }
    | _, _, _, _, _ => none
  | _ => none

def showVerdict : Verdict → String
  | .pass => "pass"
  | .invalidRemote => "remote"
  | .peerRejected => "peer"
  | .invalidLocal => "local"
  | .noRule => "norule"
  | .panicIndex => "PANIC"

def showAddErr : AddErr → String
  | .unknownProto => "err:proto"
  | .portOrder => "err:ports"

/-- `myVpnNetworksTable` of the cert state: the node's own networks. -/
def myNetsOf (my : Cert) : Lite := my.networks.foldl Lite.insert []

def emptyCert : Cert := { name := "", networks := [], unsafeNetworks := [], groups := [], issuer := "" }

/-- a tuple the spec considers tracked. -/
structure Flow where
  pkt : Packet
  expires : Nat        -- last pass + the timeout in force then
  lastPass : Nat
  incoming : Bool      -- direction of the rule-allowed packet that created it
  epoch : Nat          -- number of reloads seen when it was last validated against the rules
  deriving Repr

/-- engine state: the model (`sys`) and the spec's own flat view (rule list, flows). -/
structure St where
  my : Cert := emptyCert
  dlca : Bool := false
  sys : Sys := Sys.new (Fw.new emptyCert false 1 1 1) 0
  rules : List Rule := []          -- spec: every rule handed to AddRule on the current firewall
  pool : Pool := []
  peers : List (String × Cert) := []
  flows : List Flow := []          -- spec: tracked tuples
  epoch : Nat := 0                 -- spec: reloads so far
  staged : List Rule := []         -- rules of the next reload

def St.peer (s : St) (id : String) : Option Cert := aget sameStr s.peers id

def St.hostInfo (s : St) (c : Cert) : HostInfo :=
  { host := hostOf (myNetsOf s.my) c, peer := { cert := c, pool := s.pool } }

def St.cfg (s : St) : Cfg := cfgOf s.my s.dlca

def findFlow (fl : List Flow) (p : Packet) : Option Flow := fl.find? (fun f => decide (f.pkt = p))

def setFlow (fl : List Flow) (f : Flow) : List Flow := f :: fl.filter (fun g => !decide (g.pkt = f.pkt))

def dropFlow (fl : List Flow) (p : Packet) : List Flow := fl.filter (fun g => !decide (g.pkt = p))

/-- C17 oracle: a packet that passed must carry authentic addresses. -/
def addrVerdict (my peer : Cert) (p : Packet) (impl : String) : String :=
  if impl != "pass" then "ok"
  else if !Spec.Fw.remoteOK my peer p.remoteAddr then "bad c17-remote-addr-not-certified"
  else if !Spec.Fw.localAddrOK my p.localAddr then "bad c17-local-addr-not-own"
  else "ok"

end Nebula.Driver.Fw
