/-
Line-protocol engine `writebatch` (C26).
op:
  wb <scratch> <isV4> <gso> <maxSeg> <dsts> <pkts> <script>
  wbq …same arguments…   the batch is queued in an overlay/batch.SendBatch (Reserve, Commit) and sent by Flush
  reset <scratch> <isV4> <gso> <maxSeg> <dsts>   a fresh writer that the following `send` ops share: the GSO flag
                                                  and the control side of the mmsghdr slots persist between them
  send <pkts> <script>                           one WriteBatch on that writer
  smsrc                                          skeleton of the retry loop of batchWriter.sendmmsg, from the source
  sys badfd|loop <scratch> <gso> <maxSeg> <len,…> WriteBatch with the production sendmmsg on an invalid descriptor /
                                                  through loopback; answer `w= e= g= rx=<tag>:<len>,…` (what arrived)
     dsts   : `<addrhex>:<port>;…`            destination table
     pkts   : `<len>@<dstIndex>,…` | `-`       the batch (bufs[k] has len bytes, addrs[k] = dsts[dstIndex])
     script : `<sent>:<ok|eio|other>,…` | `-`  results of the successive sendFn calls (`sent` is capped at the
                                               number of entries offered; after the script: all accepted)
answer:
  `w=<written> e=<0|1> g=<0|1>` then ` | <done>+<n>:<entry>/<entry>…=><sent>,<err>` per sendFn call
  entry = `<first>+<cnt>` (`z+1` for a zero-length packet, whose iovec base is nil) followed by `p` (no cmsg) or
  `x<gso_size>` and `@<d>`: the first index of the destination table with the wire address of the entry's sockaddr.
-/
import Nebula.Driver.Common
import Nebula.Driver.NetArgs
import Nebula.Model.Writebatch
import Nebula.Model.Sendmmsg
import Nebula.Spec.Writebatch

namespace Nebula.Driver.Writebatch
open Nebula.Driver Nebula.Writebatch Nebula.Net

abbrev Dst := Addr × Nat

def join (sep : String) (l : List String) : String := sep.intercalate l

/-- identity on the wire: the 16-byte form of the address, and the port. -/
def wireKey (d : Dst) : Nat × Nat :=
  (if d.1.fam == .v4 then 0xffff * 2 ^ 32 + d.1.val else d.1.val, d.2)

def wireIdx (dsts : List Dst) (d : Dst) : Nat :=
  (dsts.findIdx? (fun x => wireKey x == wireKey d)).getD 999999

/-- `writeSockaddr` succeeds: a v4-bound socket only reaches (possibly 4-in-6 mapped) v4 addresses. -/
def routable (isV4 : Bool) (d : Dst) : Bool := !isV4 || d.1.unmap.is4

def parseList {α : Type} (sep : String) (f : String → Option α) (s : String) : Option (List α) :=
  if s == "-" then some [] else (s.splitOn sep).mapM f

def parsePkt (dsts : List Dst) (s : String) : Option (Pkt Dst × Nat) :=
  match s.splitOn "@" with
  | [l, d] => match l.toNat?, d.toNat? with
    | some l, some d => (dsts[d]?).map (fun x => ({ len := l, dst := x }, d))
    | _, _ => none
  | _ => none

def parseOutcome (s : String) : Option Outcome :=
  match s.splitOn ":" with
  | [n, e] => match n.toInt? with
    | some n => some { sent := n, err := if e == "ok" then .none else if e == "eio" then .eio else .other }
    | none => none
  | _ => none

def errStr : Err → String
  | .none => "ok" | .eio => "eio" | .other => "other"

def showEntry (pk : List (Pkt Dst)) (dsts : List Dst) (ec : Entry × Option Nat) : String :=
  let e := ec.1
  let p := pk[e.start]?
  let isZero := e.cnt == 1 && (p.map (·.len)).getD 1 == 0
  (if isZero then "z" else toString e.start) ++ "+" ++ toString e.cnt ++
  (match ec.2 with | some sg => "x" ++ toString sg | none => "p") ++ "@" ++
  toString ((p.map (fun p => wireIdx dsts p.dst)).getD 999999)

def showCall (pk : List (Pkt Dst)) (dsts : List Dst) (c : Call) : String :=
  s!"{c.done}+{c.ents.length}:" ++ join "/" ((c.ents.zip (c.ctl ++ List.replicate c.ents.length none)).map (showEntry pk dsts)) ++ s!"=>{c.out.sent},{errStr c.out.err}"

def showResult (pk : List (Pkt Dst)) (dsts : List Dst) (r : Result) : String :=
  if r.overrun then "OVERRUN" else
  s!"w={r.written} e={boolStr r.err} g={boolStr r.gso}" ++ String.join (r.calls.map (fun c => " | " ++ showCall pk dsts c))

/-! parsing the implementation's answer into the specification's trace -/

def parseIdxs (s : String) : Option (List Nat × Bool × Nat) :=
  -- `<first>+<cnt>` | `z+1` | `[a;b;c]+<cnt>`
  match s.splitOn "+" with
  | [a, c] =>
    match c.toNat? with
    | none => none
    | some c =>
      if a == "z" then some ([], true, c)
      else if a.startsWith "[" then
        let inner := (a.drop 1).dropEnd 1 |>.toString
        match (inner.splitOn ";").mapM (·.toNat?) with
        | some l => some (l, false, c)
        | none => none
      else match a.toNat? with
        | some a => some (List.range' a c, false, c)
        | none => none
  | _ => none

def parseSEntry (s : String) : Option Spec.Writebatch.SEntry :=
  match s.splitOn "@" with
  | [body, d] =>
    match d.toNat? with
    | none => none
    | some d =>
      let (ix, seg) : String × Option (Option Nat) :=
        if body.endsWith "p" then ((body.dropEnd 1).toString, some none)
        else match body.splitOn "x" with
          | [a, sg] => (a, sg.toNat?.map some)
          | _ => (body, none)
      match seg, parseIdxs ix with
      | some seg, some (l, z, c) =>
        if z then (if c == 1 then some { idxs := [], zero := true, seg := seg, dst := d } else none)
        else if l.length == c then some { idxs := l, zero := false, seg := seg, dst := d } else none
      | _, _ => none
  | _ => none

def parseSCall (s : String) : Option Spec.Writebatch.SCall :=
  match s.splitOn "=>" with
  | [lhs, rhs] =>
    match lhs.splitOn ":", rhs.splitOn "," with
    | [dn, ents], [sent, err] =>
      match dn.splitOn "+" with
      | [d, n] =>
        match d.toNat?, n.toNat?, sent.toInt?, (ents.splitOn "/").mapM parseSEntry with
        | some d, some n, some sent, some ents => some { done := d, n := n, ents := ents, sent := sent, errOk := err == "ok" }
        | _, _, _, _ => none
      | _ => none
    | _, _ => none
  | _ => none

def parseTrace (s : String) : Option Spec.Writebatch.STrace :=
  match s.splitOn " | " with
  | hd :: calls =>
    match hd.splitOn " " with
    | [w, e, _g] =>
      match (w.drop 2).toString.toNat?, calls.mapM parseSCall with
      | some wn, some cs =>
        if w.startsWith "w=" && (e == "e=0" || e == "e=1") then some { written := wn, err := e == "e=1", calls := cs } else none
      | _, _ => none
    | _ => none
  | [] => none

def tagOf (pk : List (Pkt Dst)) (isV4 : Bool) (r : Result) (gso0 : Bool) : String :=
  if pk.isEmpty then "triv:wb-empty"
  else if r.calls.isEmpty then "wb:nothing-routable"
  else if r.err then "wb:no-progress"
  else if gso0 && !r.gso then "wb:gso-disabled-replay"
  else
    let rejects := r.calls.any (fun c => decide (c.out.sent ≤ 0))
    let partials := r.calls.any (fun c => decide (c.out.sent > 0 ∧ c.out.sent < (c.ents.length : Int)))
    let skips := pk.any (fun p => !routable isV4 p.dst)
    let chunks := (r.calls.filter (fun c => c.done == 0)).length
    let runs := r.calls.any (fun c => c.ents.any (fun e => decide (e.cnt ≥ 2)))
    "wb:" ++ (if runs then "gso" else "plain") ++ (if rejects then "+reject" else "") ++
      (if partials then "+partial" else "") ++ (if skips then "+skip" else "") ++ (if chunks > 1 then "+chunks" else "")

/-- the writer: configuration, `w.gsoSupported`, and the control side of its mmsghdr slots. -/
structure W where
  n : Nat
  isV4 : Bool
  maxSeg : Int
  dsts : List Dst
  gso : Bool
  ctl : Ctl

/-- one `WriteBatch` on writer `w`: (model answer, verdict, tag, writer afterwards) -/
def doBatch (w : W) (pkts script impl : String) (sfx : String) : Option (Out × W) :=
  match parseList "," (parsePkt w.dsts) pkts, parseList "," parseOutcome script with
  | some pks, some script =>
    let pk := pks.map (·.1)
    let cfg : Cfg Dst := { n := w.n, maxSeg := w.maxSeg, routable := routable w.isV4 }
    let r := writeBatch cfg (scriptKern script) pk w.gso w.ctl
    let m := showResult pk w.dsts r
    let inp : Spec.Writebatch.SInput :=
      { scratch := w.n, maxSeg := w.maxSeg, maxBytes := maxGSOBytes,
        routable := fun d => ((w.dsts[d]?).map (routable w.isV4)).getD false,
        pkts := pks.map (fun p => (p.1.len, wireIdx w.dsts p.1.dst)) }
    let verdict :=
      match parseTrace impl with
      | none => if impl.startsWith "PANIC" then "bad wb-panic " ++ impl else "bad wb-unparsable"
      | some t =>
        match Spec.Writebatch.check inp t with
        | some cls => "bad " ++ cls
        | none => "ok"
    some ({ model := m, verdict := verdict, tag := tagOf pk w.isV4 r w.gso ++ sfx }, { w with gso := r.gso, ctl := r.ctl })
  | _, _ => none

def mkW (n v4 gso maxSeg dsts : String) : Option W :=
  match natArg n, natArg v4, natArg gso, intArg maxSeg, parseList ";" parseAddrPort dsts with
  | some n, some v4, some gso, some maxSeg, some dsts =>
    some { n := n, isV4 := v4 != 0, maxSeg := maxSeg, dsts := dsts, gso := gso != 0, ctl := List.replicate n none }
  | _, _, _, _, _ => none

/-- The retry loop of `batchWriter.sendmmsg` as rendered from the repository source by the harness op `smsrc`
(retry constant, loop header, syscall, switch cases with their statements, final return): this is what
`Nebula.Sendmmsg.loop` models, clause by clause. -/
def sendmmsgShape : String :=
  "const enobufsRetries = 3|for[enobufs := 0][][]|r1,_,errno=unix.Syscall6(unix.SYS_SENDMMSG,…)|switch[]|" ++
  "case[errno == unix.EINTR]{continue}|case[errno == unix.ENOBUFS && enobufs < enobufsRetries]{enobufs++;continue}|" ++
  "case[errno != 0]{return int(r1), &net.OpError{Op: \"sendmmsg\", Err: errno}}|return int(r1), nil"

/-- kernel function of `WriteBatch` when `sendFn` is the production wrapper over a raw kernel `sys`. -/
def kernOfSys (sys : Nat → Nat → List Sendmmsg.Sys) (k n : Nat) : Outcome :=
  match Sendmmsg.sendmmsg (sys k n) with
  | .ret sent err _ => { sent := sent, err := match err with | .ok => .none | .eio => .eio | _ => .other }
  | .spinning _ => { sent := 0, err := .other }

def step (s : Option W) (args : List String) (impl : String) : Option W × Out :=
  match args with
  | ["reset", n, v4, gso, maxSeg, dsts] =>
    match mkW n v4 gso maxSeg dsts with
    | some w => (some w, { model := "ok", verdict := "ok", tag := "triv:reset" })
    | none => (none, badOp)
  | ["smsrc"] =>
    (s, { model := sendmmsgShape, verdict := expect "sendmmsg-loop-shape" impl sendmmsgShape, tag := "smsrc" })
  | ["sys", mode, n, gso, maxSeg, lens] =>
    match natArg n, natArg gso, intArg maxSeg, parseList "," String.toNat? lens with
    | some n, some gso, some maxSeg, some lens =>
      let pk : List (Pkt Dst) := lens.map (fun l => { len := l, dst := ({ fam := .v4, val := 0x7f000001 }, 0) })
      let cfg : Cfg Dst := { n := n, maxSeg := maxSeg, routable := fun _ => true }
      -- raw kernel: an invalid descriptor fails every syscall with EBADF (r1 = -1); loopback accepts everything
      let sys : Nat → Nat → List Sendmmsg.Sys :=
        if mode == "badfd" then fun _ _ => [⟨-1, .other⟩] else fun _ n => [⟨n, .ok⟩]
      let r := writeBatch cfg (kernOfSys sys) pk (gso != 0) (List.replicate n none)
      -- what the receiver must see: every accepted datagram, whole, in order (the kernel cuts an offloaded run
      -- into gso_size pieces, which are its datagrams because all but the last have that size)
      let rx := (sentIdxs r.calls).map (fun i => let l := (lens[i]?).getD 0; (if l == 0 then "z" else toString (i % 256)) ++ ":" ++ toString l)
      let m := s!"w={r.written} e={boolStr r.err} g={boolStr r.gso} rx=" ++ (if rx.isEmpty then "-" else join "," rx)
      (s, { model := m, verdict := expect "sys-kernel-delivery" impl m, tag := "sys:" ++ mode ++ (if r.calls.any (fun c => c.ctl.any (·.isSome)) then "+gso" else "") })
    | _, _, _, _ => (s, badOp)
  | ["send", pkts, script] =>
    match s with
    | some w =>
      match doBatch w pkts script impl (if w.ctl.any (·.isSome) then "+stale" else "+seq") with
      | some (o, w') => (some w', o)
      | none => (s, badOp)
    | none => (s, badOp)
  | [op, n, v4, gso, maxSeg, dsts, pkts, script] =>
    if op != "wb" && op != "wbq" then (s, badOp) else
    match mkW n v4 gso maxSeg dsts with
    | some w =>
      match doBatch w pkts script impl (if op == "wbq" then "+q" else "") with
      | some (o, _) => (s, o)
      | none => (s, badOp)
    | none => (s, badOp)
  | _ => (s, badOp)

def main : IO Unit := runEngine (none : Option W) step

end Nebula.Driver.Writebatch
