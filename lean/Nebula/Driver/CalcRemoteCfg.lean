/-
Helpers of the `calcremote` engine for the configuration ops (`reset` / `cfgload` / `cfgreload` / `probe`):
token syntax of a configuration value (see harness/calcremote/reload_test.go), canonical table dump, and the
specification-side expectations.  No `main` here (the engine is Driver/CalcRemote.lean).
-/
import Nebula.Driver.Common
import Nebula.Driver.NetArgs
import Nebula.Model.CalcRemoteCfg
import Nebula.Spec.CalcRemoteCfg

namespace Nebula.Driver.CalcRemoteCfg
open Nebula.Driver Nebula.CalcRemote Nebula.Net
open Nebula.Spec.CalcRemote (Entry cfgRanges cfgValid)

def stripPre (pre t : String) : Option String :=
  let p := pre.toList
  let l := t.toList
  if l.take p.length == p then some (String.ofList (l.drop p.length)) else none

def variantOf (pre t : String) : Option Nat := (stripPre pre t).bind (·.toNat?)

def parsePfxTok (badPre t : String) : Option PfxV :=
  match variantOf badPre t with
  | some v => some (.bad v)
  | none => (parsePrefix t).map .ok

def parseMaskTok (t : String) : Option MaskV :=
  match variantOf "mmissing:" t, variantOf "mnonstr:" t with
  | some v, _ => some (.missing v)
  | _, some v => some (.nonString v)
  | _, _ => (parsePfxTok "mbad:" t).map .str

def parsePortTok (t : String) : Option PortV :=
  match variantOf "sbad:" t, variantOf "pmissing:" t, variantOf "pother:" t with
  | some v, _, _ => some (.strBad v)
  | _, some v, _ => some (.missing v)
  | _, _, some v => some (.other v)
  | _, _, _ =>
    match (stripPre "s" t).bind (·.toInt?), (stripPre "i" t).bind (·.toInt?) with
    | some n, _ => some (.str n)
    | _, some n => some (.int n)
    | _, _ => none

def parseItems : Nat → List String → Option (List ItemV × List String)
  | 0, rest => some ([], rest)
  | n + 1, t :: rest =>
    match variantOf "nonmapitem:" t with
    | some v => (parseItems n rest).map fun r => (.nonMap v :: r.1, r.2)
    | none =>
      if t != "e" then none else
      match rest with
      | m :: p :: rest' =>
        match parseMaskTok m, parsePortTok p, parseItems n rest' with
        | some m, some p, some r => some (.entry m p :: r.1, r.2)
        | _, _, _ => none
      | _ => none
  | _ + 1, [] => none

def parseEnt : List String → Option (EntV × List String)
  | t :: rest =>
    match variantOf "nonlist:" t with
    | some v => some (.nonList v, rest)
    | none =>
      if t != "list" then none else
      match rest with
      | k :: rest' =>
        match k.toNat? with
        | some k => (parseItems k rest').map fun r => (.list r.1, r.2)
        | none => none
      | [] => none
  | [] => none

def parseMap : Nat → List String → Option (List (PfxV × EntV) × List String)
  | 0, rest => some ([], rest)
  | n + 1, c :: rest =>
    match parsePfxTok "badcidr:" c, parseEnt rest with
    | some k, some (e, rest') => (parseMap n rest').map fun r => ((k, e) :: r.1, r.2)
    | _, _ => none
  | _ + 1, [] => none

def parseCfg : List String → Option CfgV
  | [t] =>
    match variantOf "absent:" t, variantOf "nonmap:" t with
    | some _, _ => some .absent
    | _, some v => some (.nonMap v)
    | _, _ => none
  | "map" :: n :: rest =>
    match n.toNat? with
    | some n => match parseMap n rest with
      | some (es, []) => some (.map es)
      | _ => none
    | none => none
  | _ => none

def joinOr (sep : String) (l : List String) : String := if l.isEmpty then "-" else sep.intercalate l

def keyLe (a b : Prefix) : Bool :=
  if a.addr.fam != b.addr.fam then a.addr.fam == .v4
  else if a.addr.val != b.addr.val then a.addr.val < b.addr.val
  else a.len ≤ b.len

/-- canonical dump of a table given as (key, [(mask, port)]). -/
def dumpRows (rows : Option (List (Prefix × List (Prefix × Nat)))) : String :=
  match rows with
  | none => "nil"
  | some rows =>
    let sorted := rows.mergeSort (fun x y => keyLe x.1 y.1)
    joinOr ";" (sorted.map fun r =>
      showPrefix r.1 ++ "=" ++ joinOr "+" (r.2.map fun mp => s!"{showPrefix mp.1}:{mp.2}"))

/-- the model's table. -/
def dumpTable (t : Option Table) : String :=
  dumpRows (t.map fun t => t.map fun e => (e.1, e.2.map fun c => (c.ipNet, c.port)))

/-- what the specification expects the table in force to contain for a configuration. -/
def dumpSpec (c : CfgV) : String :=
  match cfgRanges c with
  | some rs => dumpRows (rs.map fun rs => rs.map fun r => (r.1.masked, r.2.map fun e => (e.mask, e.port)))
  | none => "invalid"

/-- the ranges of a configuration in the form the `add` specification takes. -/
def specCfg (c : CfgV) : List (Prefix × List (Prefix × Int)) :=
  match cfgRanges c with
  | some (some rs) => rs.map fun r => (r.1, r.2.map fun e => (e.mask, (e.port : Int)))
  | _ => []

/-- every remote string (`ip:port` / `hi:lo:port`) derivable for `a` from a configuration: the splice of an entry
whose range contains `a`, all of one family. -/
def derivable (c : CfgV) (a : Addr) : List String :=
  ((Nebula.Spec.CalcRemote.cfgEntries c).filter (·.appliesTo a)).map fun e =>
    let r := e.produce a
    match a.fam with
    | .v4 => s!"{r.1}:{r.2}"
    | .v6 => s!"{r.1 / 2 ^ 64}:{r.1 % 2 ^ 64}:{r.2}"

/-- the remotes named in an answer `<0|1> v4=… v6=…`. -/
def answerRemotes (impl : String) : List String :=
  ((impl.splitOn " ").drop 1).flatMap fun f =>
    match stripPre "v4=" f, stripPre "v6=" f with
    | some l, _ | _, some l => if l == "-" then [] else l.splitOn ","
    | _, _ => []

structure St where
  myNet : Prefix := ⟨⟨.v4, 0⟩, 32⟩
  model : Option LHState := none
  force : Option CfgV := none        -- the specification's configuration in force (`none`: no lighthouse)
  /-- a reload failed in an earlier block of `LightHouse.reload` and no later reload has stored a table since:
  the known finding `stale-after-failed-reload` may show. -/
  poisoned : Bool := false

/-- while `poisoned`, a violation that is exactly the modelled behaviour of the known defect gets its class. -/
def knownClass (poisoned : Bool) (model impl verdict : String) : String :=
  if poisoned && impl == model && verdict.startsWith "bad " then
    "bad stale-after-failed-reload " ++ String.ofList (verdict.toList.drop 4)
  else verdict

end Nebula.Driver.CalcRemoteCfg
