/-
Line-protocol engine `inside` (outbound packet path, C17): `Interface.consumeInsidePacket` on a real Interface whose
firewall, CA pool and peers are the ones of the surrounding firewall case (ops `reset` / `ca` / `peer` / `rule` /
`clear` / `sleep` of Driver/FwShared.lean). The same op is understood by the `fwrules` engine (Driver/Fwrules.lean
calls `stepInside`), which is how the stream reaches `./check C17`.

  ipkt <flags> <hosts> <pending> <routes> <ctr> <hex>   ->   <tun> <udp> <pend>
    flags    4 characters 0|1: dropLocalBroadcast, dropMulticast, immediatelyForwardToSelf (the build constant, as the
             harness read it), firewall.OutboundSendReject
    hosts    `-` | peer ids, comma separated: established tunnels, registered in the main hostmap in this order
    pending  `-` | addresses, comma separated: overlay addresses with a pending handshake (empty packet store)
    routes   `-` | `<prefix>=<gw>:<weight>+<gw>:<weight>…` separated by `;`: the unsafe routes of the tun device
    ctr      messageCounter of every tunnel before the call
    hex      the packet read from tun
  answer
    tun      `-` | hex of what was written to the tun device (several writes joined by `,`)
    udp      `-` | `<peer id>:<header counter>:<ok|bad>` per datagram (tunnel by its remote index; `ok` = the payload is the packet)
    pend     `-` | `<addr>=<n>` per pending handshake after the call, sorted (n = cached packets; `!` appended if a
             cached packet is not the packet)

Oracle (C17, outbound direction; classes `c17-out-…`): computed from the certificates, the rule list and the
tracked flows of the spec state — nothing is sent for a packet that does not parse, to one of our own addresses, with
a source that is not ours, to a destination the tunnel's peer is not certified for, on a tunnel routing would not
choose, or that no rule / tracked flow allows (checked when the routine-local conntrack cache is off); a packet is cached only on the pending handshake of the destination or
of a gateway of its route; a reject reply is written only when configured and never together with a send.
Core Lean only.
-/
import Nebula.Driver.FwShared
import Nebula.Model.Inside
import Nebula.Model.Reject
import Nebula.Gen.Inside

namespace Nebula.Driver.Inside
open Nebula.Driver Nebula.Driver.Fw Nebula.Net Nebula.Fw Nebula.Inside

def parseGw (s : String) : Option (Addr × Int) :=
  match s.splitOn ":" with
  | [a, w] => match parseAddr a, w.toInt? with
    | some a, some w => some (a, w)
    | _, _ => none
  | _ => none

def parseRoute (s : String) : Option (Prefix × List (Addr × Int)) :=
  match s.splitOn "=" with
  | [p, gws] => match parsePrefix p, (gws.splitOn "+").mapM parseGw with
    | some p, some g => some (p, g)
    | _, _ => none
  | _ => none

def parseRoutes (s : String) : Option (List (Prefix × List (Addr × Int))) :=
  if s == "-" then some [] else (s.splitOn ";").mapM parseRoute

def parseAddrs (s : String) : Option (List Addr) :=
  if s == "-" then some [] else (s.splitOn ",").mapM parseAddr

def flagAt (s : String) (i : Nat) : Bool := s.toList[i]? == some '1'

/-- the route table of the tun device: `bart.Table.Lookup`, insert replaces an equal prefix. -/
def routeTable (rs : List (Prefix × List (Addr × Int))) : List (Prefix × List (Addr × Int)) :=
  rs.foldl (fun t r => aset samePfx t r.1 r.2) []

def certHas (c : Cert) (a : Addr) : Bool := c.networks.any (fun n => decide (n.addr = a))

/-- `mainHostMap.Hosts[a]` after the tunnels were added in order: the last one added is the primary. -/
def hostFor (s : St) (hosts : List String) (a : Addr) : Option String :=
  hosts.reverse.find? (fun id => match s.peer id with
    | some c => certHas c a
    | none => false)

def sortAddrs (l : List Addr) : List Addr := l.mergeSort (fun a b => a.lt b || a == b)

def joinOr (l : List String) : String := if l.isEmpty then "-" else ",".intercalate l

structure Case where
  cfg : Nebula.Inside.Cfg
  hosts : List String
  pending : List Addr
  routes : List (Prefix × List (Addr × Int))
  ctr : Nat
  bytes : List UInt8

def Case.routesFor (c : Case) (a : Addr) : List (Addr × Int) := (lpm (routeTable c.routes) a).getD []

def parseCase (s : St) : List String → Option Case
  | [flags, hosts, pending, routes, ctr, hex] =>
    match parseAddrs pending, parseRoutes routes, natArg ctr, hexToBytes hex with
    | some pend, some rts, some ctr, some bs =>
      let hs := listTok hosts
      if hs.all (fun id => (s.peer id).isSome) then
        some { cfg := cfgOfCert s.my (flagAt flags 0) (flagAt flags 1) (flagAt flags 2) (flagAt flags 3),
               hosts := hs, pending := pend, routes := rts, ctr := ctr, bytes := bs }
      else none
    | _, _, _, _ => none
  | _ => none

def showPend (pend : List (Addr × Nat)) : String :=
  joinOr (pend.map (fun e => showAddr e.1 ++ "=" ++ toString e.2))

/-- the implementation's answer, read back. -/
structure Ans where
  tun : List String
  udp : List (String × String × String)     -- peer id, counter, payload flag
  pend : List (String × String)             -- address, count (with `!` if altered)

def splitList (s : String) : List String := if s == "-" then [] else s.splitOn ","

def parseAns (impl : String) : Option Ans :=
  match impl.splitOn " " with
  | [tun, udp, pend] =>
    let u := (splitList udp).mapM (fun t => match t.splitOn ":" with
      | [id, c, f] => some (id, c, f)
      | _ => none)
    let p := (splitList pend).mapM (fun t => match t.splitOn "=" with
      | [a, n] => some (a, n)
      | _ => none)
    match u, p with
    | some u, some p => some { tun := splitList tun, udp := u, pend := p }
    | _, _ => none
  | _ => none

def outcomeTag : Outcome String → String
  | .dropParse => "drop-parse"
  | .dropBroadcast => "drop-broadcast"
  | .loopback => "loopback"
  | .dropSelf => "drop-self"
  | .dropMulticast => "drop-multicast"
  | .noRoute r => if r then "no-route:reject" else "no-route"
  | .queued _ st => if st.isEmpty then "queued:existing" else if st.length > 1 then "queued:new:fallback-started" else "queued:new"
  | .fwDrop _ _ r => if r then "fw-drop:reject" else "fw-drop"
  | .send _ st => if st.isEmpty then "send" else "send:fallback"
  | .panic => "panic"

/-- the C17 oracle of the outbound direction, on the implementation's answer. -/
def oracle (s : St) (c : Case) (pkt : Option Packet) (impl : String) : String :=
  if impl.startsWith "PANIC" then "bad c17-out-panic " ++ impl else
  match parseAns impl with
  | none => "bad c17-out-unreadable-answer"
  | some a =>
    let hexPkt := bytesToHex c.bytes
    let queued := a.pend.filter (fun e => e.2 != "0")
    match pkt with
    | none =>
      if !a.udp.isEmpty then "bad c17-out-sent-unparsable"
      else if !queued.isEmpty then "bad c17-out-queued-unparsable"
      else if !a.tun.isEmpty then "bad c17-out-tun-write-unparsable"
      else "ok"
    | some p =>
      let dst := p.remoteAddr
      let self := certHas s.my dst
      let inNets := s.my.networks.any (·.contains dst)
      let gws := (c.routesFor dst).map (·.1)
      -- the overlay addresses whose tunnel / pending handshake may carry this packet
      let via : List Addr := if inNets then [dst] else gws
      let sentBad : Option String := a.udp.findSome? (fun (id, _, flag) =>
        if self then some "c17-out-sent-to-self"
        else match s.peer id with
          | none => some "c17-out-sent-on-unknown-tunnel"
          | some pc =>
            if !Spec.Fw.localAddrOK s.my p.localAddr then some "c17-out-local-addr-not-own"
            else if !Spec.Fw.remoteOK s.my pc dst then some "c17-out-remote-addr-not-certified"
            else if !via.any (certHas pc) then some "c17-out-sent-on-wrong-tunnel"
            -- (the spec state does not follow the routine-local conntrack cache, which outlives `clear`: the rule
            -- clause only speaks when that cache is off)
            else if s.cachePeriod == 0 &&
                !((findFlow s.flows p).isSome || Spec.Fw.allow s.cfg s.rules p false { cert := pc, pool := s.pool }) then
              some "c17-out-sent-firewall-denied"
            else if flag != "ok" then some "c17-out-payload-altered"
            else none)
      match sentBad with
      | some cls => "bad " ++ cls
      | none =>
        if a.udp.length > 1 then "bad c17-out-sent-twice"
        else if !queued.isEmpty && !a.udp.isEmpty then "bad c17-out-sent-and-queued"
        else if queued.any (fun e => self || !via.any (fun g => showAddr g == e.1)) then "bad c17-out-queued-wrong-address"
        else if queued.any (fun e => e.2 != "1") then "bad c17-out-queue-content"
        else if a.tun.length > 1 then "bad c17-out-tun-written-twice"
        else match a.tun with
          | [] => "ok"
          | t :: _ =>
            if t == hexPkt then
              (if self && c.cfg.fwdSelf then "ok" else "bad c17-out-loopback-not-self")
            else if !c.cfg.sendReject then "bad c17-out-reject-not-configured"
            else if !a.udp.isEmpty || !queued.isEmpty then "bad c17-out-reject-and-sent"
            else if self then "bad c17-out-reject-to-self"
            else "ok"

def stepInside (s : St) (args : List String) (impl : String) : Option (St × Out) :=
  match args with
  | "ipkt" :: rest =>
    match parseCase s rest with
    | none => some (s, badOp)
    | some c =>
      match parseOutbound c.bytes with
      | none => some (s, { model := "PANIC model-parse", verdict := oracle s c none impl, tag := "parse-panic" })
      | some pkt =>
        let certOf (id : String) : Cert := (s.peer id).getD emptyCert
        let env : Env String :=
          { hosts := hostFor s c.hosts, pending := fun a => c.pending.contains a, routes := c.routesFor,
            fwPass := fun p id => decide ((s.sys.packet p false (s.hostInfo (certOf id))).1 = .pass) }
        let o := consume c.cfg env pkt
        -- the firewall was consulted exactly when a ready hostinfo was found: thread its state like the `drop` op
        let s' : St :=
          match pkt, o with
          | some p, .send id _ =>
            { s with sys := (s.sys.packet p false (s.hostInfo (certOf id))).2,
                     flows := setFlow s.flows { pkt := p, expires := 0, lastPass := 0, incoming := false, epoch := 0 } }
          | some p, .fwDrop id _ _ => { s with sys := (s.sys.packet p false (s.hostInfo (certOf id))).2 }
          | _, _ => s
        let reject : String :=
          match Nebula.Reject.createRejectPacket c.bytes Gen.inside_mtu with
          | .ok (some b) => bytesToHex b
          | .ok none => "-"
          | .err _ => "-"
          | .panic => "PANIC-reject"
        let tun := if o.loops then bytesToHex c.bytes else if o.rejects then reject else "-"
        let udp := match o.wire with
          | some id => id ++ ":" ++ toString (c.ctr + 1) ++ ":ok"
          | none => "-"
        let pendAddrs := sortAddrs ((c.pending ++ o.started).eraseDups)
        let pend := showPend (pendAddrs.map (fun a => (a, if o.cachedOn == some a then 1 else 0)))
        let model := match o with
          | .panic => "PANIC model"
          | _ => tun ++ " " ++ udp ++ " " ++ pend
        some (s', { model := model, verdict := oracle s c pkt impl,
                    tag := (if pkt.isNone then "triv:ipkt:" else "ipkt:") ++ outcomeTag o ++
                      (match pkt with
                       | some p => if p.remoteAddr.fam == .v6 then ":v6" else ""
                       | none => "") })
  | _ => none

/-- the stand-alone engine: firewall set-up ops + `ipkt`. -/
def step (s : St) (args : List String) (impl : String) : St × Out :=
  match stepInside s args impl with
  | some r => r
  | none =>
    match stepSetup s args impl with
    | some r => r
    | none => (s, badOp)

def main : IO Unit := runEngine ({} : St) step

end Nebula.Driver.Inside
