/-
Line-protocol engine `pkireload` (C42): sequences of configurations (inline PEM) through `NewPKIFromConfig`
(initial = 1: a failed first load leaves no PKI) and the reload callback it registers (`ReloadConfigString`),
virtual wall clock starting at 2000-01-01T00:00:00Z.

ops (CERT = 12-token descriptor; `src` = `<version>:<hex of the encoding>`, ignored here):
  reset                      -> ok
  reload <initial 0|1> <sleep ns> <keyok 0|1> <keysrc> <initver|-> <blocklist fp,fp|-> <ncert|-1> <nca|-1>
         [<src> CERT <keyok 0|1>]*ncert  [<src> CERT <fp> <selfsig 0|1>]*nca
      -> <certs ok|err:kind> <ca ok|err:kind|-> iv=<n> curve=<n> nets=<prefixes> v1=<sig8|-> v2=<sig8|-> cas=<fps|-> bl=<n>
         ncert / nca: -1 = a PEM block that does not decode, 0 = nothing configured
         the state after the reload is reported whether or not parts of it were refused (`-` fields before the
         first successful load)
-/
import Nebula.Driver.CertArgs
import Nebula.Model.PkiReload

namespace Nebula.Driver.Pkireload
open Nebula.Driver Nebula.Net Nebula.Cert Nebula.Pki

structure St where
  pki : PKI := {}
  now : Int := 946684800000000000

def loadErrStr : LoadErr → String
  | .key => "key" | .certFile => "cert-file" | .expired => "expired" | .noNetworks => "no-networks" | .isCA => "is-ca"
  | .dupV1 => "dup-v1" | .dupV2 => "dup-v2" | .unknownVersion => "unknown-version" | .noCerts => "no-certs"
  | .initVerNeedsV1 => "initver-needs-v1" | .initVerUnknown => "initver-unknown"
  | .pairKey => "pair-key" | .pairCurve => "pair-curve" | .pairNetwork => "pair-network"
  | .keyMismatch => "key-mismatch" | .curveUnsupported => "curve-unsupported"
  | .v1Networks => "v1-networks" | .v1Curve => "v1-curve" | .v2Networks => "v2-networks" | .v2Curve => "v2-curve"
  | .removeV2Networks => "remove-v2-networks" | .removeV2Curve => "remove-v2-curve"
  | .v1ToV2Networks => "v1-to-v2-networks" | .v1ToV2Curve => "v1-to-v2-curve"

def caErrStr : CAErr → String
  | .caFile => "ca-file" | .addFailed => "ca-add" | .allExpired => "ca-all-expired"

def sig8 (c : Option Cert) : String :=
  match c with
  | some c => bytesToHex (c.signature.take 8)
  | none => "-"

def insertStr (a : String) : List String → List String
  | [] => [a]
  | b :: rest => if a < b then a :: b :: rest else b :: insertStr a rest

def showState (p : PKI) (bl : List String) : String :=
  let cs := match p.cs with
    | some s => s!"iv={s.initiating} curve={s.curve} nets={showList showPrefix s.networks} v1={sig8 s.v1} v2={sig8 s.v2}"
    | none => "iv=- curve=- nets=- v1=- v2=-"
  let pool := match p.pool with
    | some pl =>
      let fps := (pl.cas.map (·.1)).foldr insertStr []
      s!"cas={if fps.isEmpty then "-" else ",".intercalate fps} bl={(bl.filter (pl.block.contains ·)).length}"
    | none => "cas=- bl=0"
  cs ++ " " ++ pool

def parseCerts : Nat → List String → Option (List CertIn × List String)
  | 0, rest => some ([], rest)
  | n + 1, _src :: rest =>
    match parseCert rest with
    | some (c, k :: rest) => (parseCerts n rest).map (fun (l, r) => (⟨c, k == "1"⟩ :: l, r))
    | _ => none
  | _, _ => none

def parseCAs : Nat → List String → Option (List CAIn × List String)
  | 0, rest => some ([], rest)
  | n + 1, _src :: rest =>
    match parseCert rest with
    | some (c, fp :: sg :: rest) => (parseCAs n rest).map (fun (l, r) => (⟨c, fp, sg == "1"⟩ :: l, r))
    | _ => none
  | _, _ => none

def field (impl : String) (k : String) : String :=
  (((impl.splitOn " ").filter (·.startsWith (k ++ "="))).headD "").drop (k.length + 1) |>.toString

/-- The property oracle on the implementation's answer: a reload never changes curve or overlay networks
(nor anything at all when it is refused); a refused CA bundle keeps the previous trust store. `prev` is the
state in use before the op. -/
def reloadVerdict (prev : PKI) (bl : List String) (initial : Bool) (wantPool : Option Pool) (impl : String) : String :=
  let toks := impl.splitOn " "
  let certsOk := toks.headD "" == "ok"
  let caTok := (toks.drop 1).headD ""
  let prevS := showState prev bl
  let keep (k : String) := field impl k == field prevS k
  if initial then "ok" else
  match prev.cs with
  | none => "ok"
  | some cur =>
    -- whatever became of the host certificate, an acceptable CA bundle / blocklist is the one in use afterwards
    let stale := match wantPool with
      | some pl =>
        let w := showState { cs := none, pool := some pl } bl
        field impl "cas" != field w "cas" || field impl "bl" != field w "bl"
      | none => false
    if stale then "bad reload-trust-store-stale" else
    if !certsOk then
      (if keep "iv" && keep "curve" && keep "nets" && keep "v1" && keep "v2" then
        (if caTok.startsWith "err" && !(keep "cas") then "bad reload-bad-ca-replaced-pool" else "ok")
       else "bad reload-refused-but-state-changed")
    else if !(keep "curve") then
      (if cur.v2.isNone && field impl "v1" == "-" then "bad reload-v1-to-v2-identity-change curve"
       else if cur.v1.isNone && field impl "v2" == "-" then "bad reload-v2-to-v1-curve-change"
       else "bad reload-curve-changed")
    else if !(keep "nets") then
      (if cur.v2.isNone && field impl "v1" == "-" then "bad reload-v1-to-v2-identity-change networks"
       else if cur.v2.isNone && field impl "v1" != "-" && field impl "v2" != "-" then "bad reload-add-v2-extra-networks"
       else "bad reload-networks-changed")
    else if caTok.startsWith "err" && !(keep "cas") then "bad reload-bad-ca-replaced-pool"
    else "ok"

def step (s : St) (args : List String) (impl : String) : St × Out :=
  match args with
  | ["reset"] => ({}, { model := "ok", tag := "triv:reset" })
  | "reload" :: initial :: sleep :: keyok :: _keysrc :: initver :: bl :: ncert :: nca :: rest =>
    match intArg sleep, intArg ncert, intArg nca with
    | some sleep, some ncert, some nca =>
      let certs : Option (Option (List CertIn) × List String) :=
        if ncert < 0 then some (none, rest) else (parseCerts ncert.toNat rest).map (fun (l, r) => (some l, r))
      match certs with
      | none => (s, badOp)
      | some (certs, rest) =>
        let cas : Option (Option (List CAIn)) :=
          if nca ≤ 0 then (if rest.isEmpty then some none else none)
          else match parseCAs nca.toNat rest with
            | some (l, []) => some (some l)
            | _ => none
        match cas with
        | none => (s, badOp)
        | some cas =>
          let blocklist := if bl == "-" then [] else bl.splitOn ","
          let cfg : Config := { keyOK := keyok == "1", certs := certs, initVer := if initver == "-" then none else initver.toNat?,
                                cas := cas, blocklist := blocklist }
          let initial := initial == "1"
          if !initial && s.pki.cs.isNone then (s, { model := "not-loaded", verdict := "ok", tag := "triv:not-loaded" }) else
          let now := s.now + sleep
          -- the first load builds a new PKI; when any part of it is refused there is none
          let (p', ce, cae) := (if initial then ({} : PKI) else s.pki).reload now cfg initial
          let p' := if initial && (ce.isSome || (match cae with | some (some _) => true | _ => false)) then ({} : PKI) else p'
          let wantPool := match loadCAPool now cfg with | .ok pl => some pl | .error _ => none
          let c1 := match ce with | none => "ok" | some e => "err:" ++ loadErrStr e
          let c2 := match cae with | none => "-" | some none => "ok" | some (some e) => "err:" ++ caErrStr e
          let m := s!"{c1} {c2} {showState p' blocklist}"
          let trans := match s.pki.cs, p'.cs with
            | some a, some b => s!"{if a.v1.isSome then "1" else ""}{if a.v2.isSome then "2" else ""}>{if b.v1.isSome then "1" else ""}{if b.v2.isSome then "2" else ""}"
            | _, _ => "init"
          let tag := if initial then s!"initial:{c1}" else if c1 == "ok" then s!"reload:ok:{trans}:{c2}" else s!"reload:{c1}"
          ({ pki := p', now := now }, { model := m, verdict := reloadVerdict s.pki blocklist initial wantPool impl, tag := tag })
    | _, _, _ => (s, badOp)
  | _ => (s, badOp)

def main : IO Unit := runEngine ({} : St) step

end Nebula.Driver.Pkireload
