/-
Line-protocol engine `conntrack` (C18, C19): Firewall.Drop over timed histories with reloads.
ops (token syntax in Driver/FwShared.lean; the setup ops reset/ca/peer/rule/clear/sleep are shared):
  drop <peer> <in|out> <packet…6>        -> pass|remote|peer|local|norule   cache := ticker.Get(); Firewall.Drop
  sleep <ns>                             -> ok      virtual time passes
  version <v>                            -> ok      preset Firewall.rulesVersion (only right after reset)
  stage <rule…10>                        -> ok      a rule of the next configuration
  reload <dlca> <tcp> <udp> <dflt> <nonce> [<unsafeNetworks>] -> reloaded <version> | unchanged
                                            | failed
                                            Interface.reloadFirewall with a config made of the staged rules
  conns                                  -> number of entries in Conntrack.Conns

Spec state (`St.flows`): per tuple, when it last passed, the expiry that pass gave it, the direction of the
rule-allowed packet that created it and the reload epoch in which it was last validated. The oracle:
  a packet that passed although no rule of its direction allows it must belong to a flow that is live
  (C18: tracked, not expired — with a routine cache: or passed within the current cache tick) and valid
  under the current rules in its original direction (C19);
  a tracked flow that was never idle for its timeout must still pass (C18 `c18-live-flow-dropped`; with a routine
  cache of period d the guaranteed timeout is the configured one minus the part of the cache tick already elapsed);
  a packet whose local address is not routable under the certificate in force must not pass, tracked or not
  (C19 `c19-stale-flow-unroutable-local` when the spec tracks the tuple, else `c17-local-addr-not-routable-passed`);
  a live flow whose original direction is still allowed must not be cut by a reload (C19) — except that the
  65 536th reload does cut it (known finding F16, class `c19-version-wrap-conntrack-reset`).
-/
import Nebula.Driver.FwShared

namespace Nebula.Driver.Conntrack
open Nebula.Driver Nebula.Driver.Fw Nebula.Net Nebula.Fw

def tickOf (period t : Nat) : Nat := if period = 0 then 0 else t / period

def step (s : St) (args : List String) (impl : String) : St × Out :=
  match stepSetup s args impl with
  | some r => r
  | none =>
  match args with
  | "drop" :: id :: dir :: pkt =>
    match s.peer id, dirTok dir, parsePacket pkt with
    | some c, some inc, some p =>
      let h := s.hostInfo c
      let now := s.sys.now
      let (v, sys) := s.sys.packet p inc h
      let addrOK := (addrCheck s.sys.fw.routable h.host p).isNone
      let allowed := Spec.Fw.allow s.cfg s.rules p inc h.peer
      let flow := findFlow s.flows p
      let timeout := s.sys.fw.timeoutFor p.proto
      -- spec: is the flow live, and valid under the current rules?
      let fresh := match flow with
        | some f => decide (now < f.expires)
        | none => false
      let inCacheTick := match flow with
        | some f => s.cachePeriod != 0 && tickOf s.cachePeriod f.lastPass == tickOf s.cachePeriod now
        | none => false
      let valid := match flow with
        | some f => f.epoch == s.epoch || Spec.Fw.allow s.cfg s.rules p f.incoming h.peer
        | none => false
      let viaFlow := (fresh && valid) || inCacheTick
      let specPass := addrOK && (viaFlow || allowed)
      let flows :=
        if !addrOK then s.flows
        else if viaFlow then
          match flow with
          | some f => setFlow s.flows { f with expires := now + timeout, lastPass := now, epoch := s.epoch }
          | none => s.flows
        else if allowed then
          setFlow s.flows { pkt := p, expires := now + timeout, lastPass := now, incoming := inc, epoch := s.epoch }
        else dropFlow s.flows p
      -- liveness side: `sure` holds, per tuple, a lower bound of the entry's `Expires` (every pass through conntrack
      -- or a rule sets now + timeout; a routine-cache hit refreshes nothing, but then the entry was refreshed
      -- earlier in the same cache tick)
      let sureFlow := findFlow s.sure p
      let sureLive := match sureFlow with
        | some f => decide (now < f.expires)
                      && (f.epoch == s.epoch || Spec.Fw.allow s.cfg s.rules p f.incoming h.peer)
        | none => false
      let lower := if s.cachePeriod == 0 then now + timeout else (now / s.cachePeriod) * s.cachePeriod + timeout
      let sure :=
        if !addrOK then s.sure
        else if sureLive then
          match sureFlow with
          | some f => setFlow s.sure { f with expires := lower, lastPass := now, epoch := s.epoch }
          | none => s.sure
        else if allowed then
          setFlow s.sure { pkt := p, expires := lower, lastPass := now, incoming := inc, epoch := s.epoch }
        else dropFlow s.sure p
      let lost := findFlow s.wrapLost p
      let wrapLost := if addrOK && allowed then dropFlow s.wrapLost p else s.wrapLost
      -- spec (C17 / C19): the node-side address must be one of the node's own addresses or inside an unsafe network
      -- of the certificate *in force* (`s.my` follows the reloads); a fresh packet of this tuple would be refused,
      -- so a tracked flow must not carry it either (seeded C19-5: conntrack consulted before the local-address check)
      let localOK := Spec.Fw.localAddrOK s.my p.localAddr
      let verdict :=
        if impl == "pass" && !localOK then
          match flow with
          | some f => s!"bad c19-stale-flow-unroutable-local validated-in-epoch={f.epoch} now={s.epoch}"
          | none => "bad c17-local-addr-not-routable-passed"
        else if impl == "pass" && addrOK && !specPass then
          match flow with
          | none => "bad c18-untracked-flow-passed"
          | some f =>
            if !fresh then s!"bad c18-expired-flow-honoured idle={now - f.lastPass}"
            else "bad c19-stale-flow-not-revalidated"
        else if impl == "norule" && addrOK && sureLive then
          -- a tracked flow that was never idle for its timeout (and that the rules still allow) was dropped
          (match sureFlow with
           | some f => if f.epoch != s.epoch then "bad c19-flow-cut-after-reload"
                       else s!"bad c18-live-flow-dropped idle={now - f.lastPass}"
           | none => "ok")
        else if impl == "norule" && addrOK && s.cachePeriod == 0 then
          match lost with
            | some f =>
              if decide (now < f.expires) && Spec.Fw.allow s.cfg s.rules p f.incoming h.peer
              then "bad c19-version-wrap-conntrack-reset" else "ok"
            | none => "ok"
        else "ok"
      let how :=
        if v != .pass then ""
        else if viaFlow then (match flow with
          | some f => if f.epoch != s.epoch then ":revalidated" else ":tracked"
          | none => ":tracked")
        else ":rule"
      let why :=
        if v == .invalidLocal && flow.isSome then ":tracked-unroutable"
        else if v == .noRule then
          (match flow with
           | some f => if !fresh then ":expired" else if !valid then ":stale" else ""
           | none => "")
        else ""
      ({ s with sys := sys, flows := flows, sure := sure, wrapLost := wrapLost },
       { model := showVerdict v, verdict := verdict, tag := "drop:" ++ showVerdict v ++ how ++ why })
    | _, _, _ => (s, badOp)
  | ["version", v] =>
    match natArg v with
    | some v => ({ s with sys := { s.sys with fw := { s.sys.fw with rulesVersion := v % 65536 } } },
                 { model := "ok", tag := "triv:version" })
    | none => (s, badOp)
  | "stage" :: rule =>
    match parseRule rule with
    | some r => ({ s with staged := s.staged ++ [(" ".intercalate rule, r)] }, { model := "ok", tag := "triv:stage" })
    | none => (s, badOp)
  | "reload" :: dlca :: tcp :: udp :: dflt :: nonce :: rest =>
    -- an optional 6th argument: the unsafe networks of the node's (re-issued) certificate
    let newUnsafe : Option (List Prefix) := match rest with
      | [] => some s.my.unsafeNetworks
      | [t] => prefixesTok t
      | _ => none
    match natArg tcp, natArg udp, natArg dflt, natArg nonce, newUnsafe with
    | some tcp, some udp, some dflt, some nonce, some newUnsafe =>
      let d := dlca == "1"
      let lc : LoadCfg := { dlca := d, tcp := tcp, udp := udp, dflt := dflt, nonce := nonce,
                            rules := s.staged.map (·.1) }
      -- `certUnsafeChanged`: the certificate's unsafe networks differ from those the firewall was built with
      let certChanged := decide (newUnsafe ≠ s.sys.fw.cfg.unsafeNetworks)
      let my : Cert := { s.my with unsafeNetworks := newUnsafe }
      if s.lastLoad == some lc && !certChanged then
        -- `c.HasChanged("firewall")` is false and the certificate's unsafe networks are the same: nothing happens
        ({ s with staged := [] }, { model := "unchanged", verdict := expect "c19-noop-reload" impl "unchanged",
                                    tag := "reload:unchanged" })
      else if s.staged.any (fun x => !Spec.Fw.ruleValid x.2) then
        -- `NewFirewallFromConfig` fails on the first refused rule: the old firewall stays
        ({ s with staged := [], lastLoad := some lc }, { model := "failed", tag := "reload:failed" })
      else
        let rules := s.staged.map (·.2)
        let newFw := (Fw.new my d tcp udp dflt).addRules rules
        let sys := s.sys.reloadFirewall true (some newFw)
        let wrapped := sys.fw.rulesVersion == 0
        -- spec: flows survive a reload (they are revalidated lazily); the version wrap forgets them (F16)
        let live := s.flows.filter (fun f => decide (s.sys.now < f.expires))
        let tag := if wrapped then "reload:wrap"
          else if certChanged then "reload:cert"
          else if d != s.dlca then "reload:dlca" else "reload:changed"
        ({ s with sys := sys, my := my, dlca := d, rules := rules, staged := [], lastLoad := some lc,
                  epoch := s.epoch + 1,
                  flows := if wrapped then [] else s.flows,
                  sure := if wrapped then [] else s.sure,
                  wrapLost := if wrapped then live else s.wrapLost },
         { model := s!"reloaded {sys.fw.rulesVersion}", tag := tag })
    | _, _, _, _, _ => (s, badOp)
  | ["conns"] =>
    (s, { model := toString s.sys.ct.conns.length, tag := "conns" })
  | _ => (s, badOp)

def main : IO Unit := runEngine ({} : St) step

end Nebula.Driver.Conntrack
