/-
Line-protocol engine `fwrules` (C16, C17).
ops (token syntax in Driver/FwShared.lean):
  reset <defaultLocalCIDRAny 0|1> <tcp> <udp> <default> <cachePeriod> <mycert…5>  (timeouts in ns) -> ok          fresh firewall for this node, empty pool
  ca <fingerprint> <name>                           -> ok          add a CA to the pool
  peer <id> <cert…5>                                -> simple|table    HostInfo via buildNetworks
  rule <rule…10>                                    -> ok | err:proto | err:ports     Firewall.AddRule
  match <peer> <in|out> <packet…6>                  -> 0|1         FirewallTable.match directly
  drop <peer> <in|out> <packet…6>                   -> pass|remote|peer|local|norule  Firewall.Drop
  clear                                             -> ok          forget all tracked flows
  sleep <ns>                                        -> ok
  recert <unsafeNetworks>                           -> reloaded <version>   the node's certificate is re-issued with
                                                       these unsafe networks and Interface.reloadFirewall installs a
                                                       firewall with the allow-everything configuration (both
                                                       directions: port any, proto any, host any, local_cidr any; same
                                                       timeouts and default_local_cidr_any); conntrack is shared
  ipkt …                                            -> <tun> <udp> <pend>   consumeInsidePacket around this firewall (Driver/Inside.lean)
-/
import Nebula.Driver.FwShared
import Nebula.Driver.Inside

namespace Nebula.Driver.Fwrules
open Nebula.Driver Nebula.Driver.Fw Nebula.Net Nebula.Fw

/-- the rule of the `recert` configuration: port any, proto any, host any, local_cidr any. -/
def allowAll (incoming : Bool) : Rule :=
  { incoming := incoming, proto := 0, startPort := 0, endPort := 0, groups := [], host := "any", cidr := .none,
    localCidr := .any, caName := "", caSha := "" }

def step (s : St) (args : List String) (impl : String) : St × Out :=
  match stepSetup s args impl with
  | some r => r
  | none =>
  match Nebula.Driver.Inside.stepInside s args impl with
  | some r => r
  | none =>
  match args with
  | "drop" :: id :: dir :: pkt =>
    match s.peer id, dirTok dir, parsePacket pkt with
    | some c, some inc, some p =>
      let h := s.hostInfo c
      let (v, sys) := s.sys.packet p inc h
      let tracked := (findFlow s.flows p).isSome
      let allowed := Spec.Fw.allow s.cfg s.rules p inc h.peer
      let addrOK := (addrCheck s.sys.fw.routable h.host p).isNone
      let flows := if addrOK && (tracked || allowed) then
          setFlow s.flows { pkt := p, expires := 0, lastPass := 0, incoming := inc, epoch := 0 } else s.flows
      -- C17 first, then C16: when the address checks let the packet through, the verdict is the rules'
      let v17 := addrVerdict s.my c p impl
      -- a tuple the spec tracks (established before the certificate lost the network) is its own class
      let v17 := if v17 == "bad c17-local-addr-not-own" && tracked then "bad c17-local-addr-not-routable-passed" else v17
      let v16 :=
        if impl == "pass" || impl == "norule" then
          if tracked then expect "c16-tracked-flow-not-honoured" impl "pass"
          else expect "c16-untracked-verdict" impl (if allowed then "pass" else "norule")
        else "ok"
      let tag := "drop:" ++ showVerdict v ++
        (if v = .pass then (if tracked then ":tracked" else ":rule")
         else if v = .invalidLocal ∧ tracked then ":tracked-unroutable" else "")
      ({ s with sys := sys, flows := flows },
       { model := showVerdict v, verdict := if v17 != "ok" then v17 else v16,
         tag := if v = .invalidRemote ∧ !Spec.Fw.remoteOK s.my c p.remoteAddr ∧ h.host.networks.isNone
                then "triv:" ++ tag else tag })
    | _, _, _ => (s, badOp)
  | ["recert", u] =>
    match prefixesTok u with
    | some newUnsafe =>
      let my : Cert := { s.my with unsafeNetworks := newUnsafe }
      let rules := [allowAll true, allowAll false]
      let old := s.sys.fw
      let newFw := (Fw.new my s.dlca old.tcpTimeout old.udpTimeout old.defaultTimeout).addRules rules
      let sys := s.sys.reloadFirewall true (some newFw)
      let wrapped := sys.fw.rulesVersion == 0
      ({ s with sys := sys, my := my, rules := rules, flows := if wrapped then [] else s.flows },
       { model := s!"reloaded {sys.fw.rulesVersion}",
         tag := if newUnsafe == s.my.unsafeNetworks then "recert:same" else "recert:changed" })
    | none => (s, badOp)
  | _ => (s, badOp)

def main : IO Unit := runEngine ({} : St) step

end Nebula.Driver.Fwrules
