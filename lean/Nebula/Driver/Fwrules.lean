/-
Line-protocol engine `fwrules` (C16, C17).
ops (token syntax in Driver/FwShared.lean):
  reset <defaultLocalCIDRAny 0|1> <tcp> <udp> <default> <cachePeriod> <mycert…5>  (timeouts in ns) -> ok          fresh firewall for this node, empty pool
  ca <fingerprint> <name>                           -> ok          add a CA to the pool
  peer <id> <cert…5>                                -> simple|table    HostInfo via buildNetworks
  rule <rule…10>                                    -> ok | err:proto | err:ports     Firewall.AddRule
  match <peer> <in|out> <packet…6>                  -> 0|1         FirewallTable.match directly
  drop <peer> <in|out> <packet…6>                   -> pass|remote|peer|local|norule  Firewall.Drop
  clear                                             -> ok          forget all tracked flows
  sleep <ns>                                        -> ok
  ipkt …                                            -> <tun> <udp> <pend>   consumeInsidePacket around this firewall (Driver/Inside.lean)
-/
import Nebula.Driver.FwShared
import Nebula.Driver.Inside

namespace Nebula.Driver.Fwrules
open Nebula.Driver Nebula.Driver.Fw Nebula.Net Nebula.Fw

def step (s : St) (args : List String) (impl : String) : St × Out :=
  match stepSetup s args impl with
  | some r => r
  | none =>
  match Nebula.Driver.Inside.stepInside s args impl with
  | some r => r
  | none =>
  match args with
  | "drop" :: id :: dir :: pkt =>
    match s.peer id, dirTok dir, parsePacket pkt with
    | some c, some inc, some p =>
      let h := s.hostInfo c
      let (v, sys) := s.sys.packet p inc h
      let tracked := (findFlow s.flows p).isSome
      let allowed := Spec.Fw.allow s.cfg s.rules p inc h.peer
      let addrOK := (addrCheck s.sys.fw.routable h.host p).isNone
      let flows := if addrOK && (tracked || allowed) then
          setFlow s.flows { pkt := p, expires := 0, lastPass := 0, incoming := inc, epoch := 0 } else s.flows
      -- C17 first, then C16: when the address checks let the packet through, the verdict is the rules'
      let v17 := addrVerdict s.my c p impl
      let v16 :=
        if impl == "pass" || impl == "norule" then
          if tracked then expect "c16-tracked-flow-not-honoured" impl "pass"
          else expect "c16-untracked-verdict" impl (if allowed then "pass" else "norule")
        else "ok"
      let tag := "drop:" ++ showVerdict v ++
        (if v = .pass then (if tracked then ":tracked" else ":rule") else "")
      ({ s with sys := sys, flows := flows },
       { model := showVerdict v, verdict := if v17 != "ok" then v17 else v16,
         tag := if v = .invalidRemote ∧ !Spec.Fw.remoteOK s.my c p.remoteAddr ∧ h.host.networks.isNone
                then "triv:" ++ tag else tag })
    | _, _, _ => (s, badOp)
  | _ => (s, badOp)

def main : IO Unit := runEngine ({} : St) step

end Nebula.Driver.Fwrules
