/-
Line-protocol engine `fwrules` (C16, C17).
ops (token syntax in Driver/FwShared.lean):
  reset <defaultLocalCIDRAny 0|1> <tcp> <udp> <default> <cachePeriod> <mycert…5>  (timeouts in ns) -> ok          fresh firewall for this node, empty pool
  ca <fingerprint> <name>                           -> ok          add a CA to the pool
  peer <id> <cert…5>                                -> simple|table    HostInfo via buildNetworks
  rule <rule…10>                                    -> ok | err:proto | err:ports     Firewall.AddRule
  match <peer> <in|out> <packet…6>                  -> 0|1         FirewallTable.match directly
  drop <peer> <in|out> <packet…6>                   -> pass|remote|peer|local|norule  Firewall.Drop
  clear                                             -> ok          forget all tracked flows
-/
import Nebula.Driver.FwShared

namespace Nebula.Driver.Fwrules
open Nebula.Driver Nebula.Driver.Fw Nebula.Net Nebula.Fw

def ruleTag (r : Rule) : String :=
  (if r.caName != "" || r.caSha != "" then "ca" else "noca") ++ "/" ++
  (if isAny r.groups r.host r.cidr then "anysel" else "sel")

def step (s : St) (args : List String) (impl : String) : St × Out :=
  match args with
  | "reset" :: dlca :: tcp :: udp :: dflt :: cache :: cert =>
    match parseCert cert, natArg tcp, natArg udp, natArg dflt, natArg cache with
    | some my, some tcp, some udp, some dflt, some cache =>
      let d := dlca == "1"
      ({ my := my, dlca := d, sys := Sys.new (Fw.new my d tcp udp dflt) cache },
       { model := "ok", tag := "triv:reset" })
    | _, _, _, _, _ => (s, badOp)
  | ["ca", fp, name] =>
    ({ s with pool := aset sameStr s.pool (strTok fp) (strTok name) }, { model := "ok", tag := "triv:ca" })
  | "peer" :: id :: cert =>
    match parseCert cert with
    | some c =>
      let m := if (buildNetworks (myNetsOf s.my) c).isNone then "simple" else "table"
      ({ s with peers := aset sameStr s.peers id c }, { model := m, tag := "triv:peer:" ++ m })
    | none => (s, badOp)
  | "rule" :: rule =>
    match parseRule rule with
    | some r =>
      let want := if Spec.Fw.ruleValid r then "ok"
        else if r.proto = 0 ∨ r.proto = 6 ∨ r.proto = 17 ∨ r.proto = 1 ∨ r.proto = 58 then "err:ports" else "err:proto"
      match s.sys.fw.addRule r with
      | .ok fw =>
        ({ s with sys := { s.sys with fw := fw }, rules := s.rules ++ [r] },
         { model := "ok", verdict := expect "c16-rule-accept" impl want, tag := "rule:" ++ ruleTag r })
      | .error e =>
        ({ s with rules := s.rules ++ [r] },
         { model := showAddErr e, verdict := expect "c16-rule-accept" impl want, tag := "rule:" ++ showAddErr e })
    | none => (s, badOp)
  | "match" :: id :: dir :: pkt =>
    match s.peer id, dirTok dir, parsePacket pkt with
    | some c, some inc, some p =>
      let pr : Peer := { cert := c, pool := s.pool }
      let m := (s.sys.fw.table inc).matches p inc pr
      let want := Spec.Fw.allow s.cfg s.rules p inc pr
      (s, { model := boolStr m, verdict := expect "c16-table-match" impl (boolStr want),
            tag := "match:" ++ boolStr want })
    | _, _, _ => (s, badOp)
  | "drop" :: id :: dir :: pkt =>
    match s.peer id, dirTok dir, parsePacket pkt with
    | some c, some inc, some p =>
      let h := s.hostInfo c
      let (v, sys) := s.sys.packet p inc h
      let tracked := (findFlow s.flows p).isSome
      let allowed := Spec.Fw.allow s.cfg s.rules p inc h.peer
      let addrOK := (addrCheck s.sys.fw.routable h.host p).isNone
      let flows := if addrOK && (tracked || allowed) then
          setFlow s.flows { pkt := p, expires := 0, lastPass := 0, incoming := inc, epoch := 0 } else s.flows
      -- C17 first, then C16: when the address checks let the packet through, the verdict is the rules'
      let v17 := addrVerdict s.my c p impl
      let v16 :=
        if impl == "pass" || impl == "norule" then
          if tracked then expect "c16-tracked-flow-not-honoured" impl "pass"
          else expect "c16-untracked-verdict" impl (if allowed then "pass" else "norule")
        else "ok"
      let tag := "drop:" ++ showVerdict v ++
        (if v = .pass then (if tracked then ":tracked" else ":rule") else "")
      ({ s with sys := sys, flows := flows },
       { model := showVerdict v, verdict := if v17 != "ok" then v17 else v16,
         tag := if v = .invalidRemote ∧ !Spec.Fw.remoteOK s.my c p.remoteAddr ∧ h.host.networks.isNone
                then "triv:" ++ tag else tag })
    | _, _, _ => (s, badOp)
  | ["clear"] =>
    ({ s with sys := { s.sys with ct := { s.sys.ct with conns := [] } }, flows := [] },
     { model := "ok", tag := "triv:clear" })
  | _ => (s, badOp)

def main : IO Unit := runEngine ({} : St) step

end Nebula.Driver.Fwrules
