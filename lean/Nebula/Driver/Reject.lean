/-
Line-protocol engine `reject` (C21).
ops:
  reject <cap> <hex>            -> `nil` | hex of the reply   (iputil.CreateRejectPacket(packet, out) with cap(out) = cap, dirty buffer)
  csum <init> <hex>             -> decimal                    (tcpipChecksum)
  ps4 <src> <dst> <proto> <len> -> decimal                    (ipv4PseudoheaderChecksum)
  ps6 <src> <dst> <proto> <len> -> decimal                    (ipv6PseudoheaderChecksum)
  maxsize                       -> decimal                    (iputil.MaxRejectPacketSize)
-/
import Nebula.Driver.Common
import Nebula.Model.Reject
import Nebula.Spec.Reject

namespace Nebula.Driver.Reject
open Nebula.Driver Nebula.Pkt Nebula.Reject
open Nebula.Spec

def showOut : Res (Option (List UInt8)) → String
  | .ok none => "nil"
  | .ok (some b) => if b.isEmpty then "empty" else bytesToHex b
  | .err _ => "err"
  | .panic => "PANIC model"

def replyClass (_orig : List UInt8) (o : IP.Pkt) (reply : List UInt8) : String :=
  match IP.parse reply with
  | none => "reply-unparsable"
  | some r =>
    if !(Spec.Reject.ipOK o r reply) then
      (if reply.length > Spec.Reject.maxReplySize then "reply-too-big"
       else if !(r.src == o.dst && r.dst == o.src) then "reply-addresses"
       else if o.version == 4 && !(PktCsum.verifies (reply.take 20) 0) then "reply-ip-checksum"
       else "reply-ip-header")
    else if o.proto == 6 then
      (if !(PktCsum.verifies r.upper (Spec.Reject.replyPseudo r)) then "reply-tcp-checksum" else "reply-rst")
    else
      (if !(PktCsum.verifies r.upper (if o.version == 4 then 0 else Spec.Reject.replyPseudo r)) then "reply-icmp-checksum"
       else "reply-unreachable")

def step (s : Unit) (args : List String) (impl : String) : Unit × Out :=
  match args with
  | ["reject", cap, hex] =>
    match natArg cap, hexToBytes hex with
    | some cap, some p =>
      let m := createRejectPacket p cap
      let sp := IP.parse p
      let verdict :=
        if impl.startsWith "PANIC" then "bad panic"
        else if impl == "nil" then "ok"
        else match hexToBytes impl, sp with
          | none, _ => "bad unreadable-answer"
          | some _, none => "ok"                     -- not an IP packet: the property does not speak
          | some reply, some o =>
            if o.nonFirstFrag then "bad reply-to-fragment"
            else if Spec.Reject.isIcmpError o then "bad reply-to-icmp-error"
            else if cap < Spec.Reject.replySize p o then "bad reply-exceeds-buffer"
            else if Spec.Reject.goodReply p o reply then "ok"
            else s!"bad {replyClass p o reply}"
      let tag :=
        match sp, m with
        | none, .ok none => if p.length < 20 then "triv:nil:short" else "nil:unparsable"
        | none, _ => "replied-to-unparsable"
        | some o, .ok none =>
          if o.nonFirstFrag then s!"nil:v{o.version}:fragment"
          else if Spec.Reject.isIcmpError o then s!"nil:v{o.version}:icmp-error"
          else if cap < Spec.Reject.replySize p o then s!"nil:v{o.version}:small-buffer"
          else if o.proto == 6 then s!"nil:v{o.version}:tcp-short"
          else if o.nExt > 8 then "nil:v6:ext-gt-8"
          else s!"nil:v{o.version}:other"
        | some o, .ok (some _) =>
          s!"v{o.version}:" ++ (if o.proto == 6 then "rst" else if o.isIcmp then "unreach-icmp" else "unreach") ++
            (if o.nExt > 0 then ":ext" else "") ++ (if o.hdrLen > 20 && o.version == 4 then ":opts" else "") ++
            (if p.length > 1000 then ":big" else "") ++ (if cap == Spec.Reject.replySize p o then ":exact-buffer" else "")
        | _, _ => "model-panic"
      (s, { model := showOut m, verdict := verdict, tag := tag })
    | _, _ => (s, badOp)
  | ["csum", init, hex] =>
    match natArg init, hexToBytes hex with
    | some init, some d =>
      let m := tcpipChecksum d init
      let want := 0xffff - PktCsum.fold16 (PktCsum.sum16 d + init)
      (s, { model := toString m, verdict := expect "checksum-value" impl (toString want),
            tag := if d.length % 2 == 1 then "csum:odd" else if init > 0 then "csum:init" else "csum:even" })
    | _, _ => (s, badOp)
  | ["ps4", src, dst, proto, len] =>
    match hexToBytes src, hexToBytes dst, natArg proto, natArg len with
    | some src, some dst, some proto, some len =>
      let m := ipv4Pseudo src dst proto len
      let want := PktCsum.fold16 (PktCsum.pseudo src dst proto len)
      let verdict := match impl.toNat? with
        | some v => if PktCsum.fold16 v == want then "ok" else s!"bad pseudo-header-sum want~{want}"
        | none => "bad unreadable-answer"
      (s, { model := toString m, verdict := verdict, tag := "ps4" })
    | _, _, _, _ => (s, badOp)
  | ["ps6", src, dst, proto, len] =>
    match hexToBytes src, hexToBytes dst, natArg proto, natArg len with
    | some src, some dst, some proto, some len =>
      let m := ipv6Pseudo src dst proto len
      let want := PktCsum.fold16 (PktCsum.pseudo src dst proto len)
      let verdict := match impl.toNat? with
        | some v => if PktCsum.fold16 v == want then "ok" else s!"bad pseudo-header-sum want~{want}"
        | none => "bad unreadable-answer"
      (s, { model := toString m, verdict := verdict, tag := "ps6" })
    | _, _, _, _ => (s, badOp)
  | ["maxsize"] =>
    (s, { model := toString maxRejectPacketSize, verdict := expect "max-size" impl (toString Spec.Reject.maxReplySize),
          tag := "maxsize" })
  | _ => (s, badOp)

def main : IO Unit := runEngine () step

end Nebula.Driver.Reject
