/-
Line-protocol engine `payload` (C08, and the tie of `Base/Wire` to protowire).
ops (answers as produced by harness/payload):
  mar <cert> <ii> <ri> <time> <cv>  -> `<hs> <pb> ; <hs.Unmarshal hs> ; <pb.Unmarshal hs> ; <hs.Unmarshal pb>`
                                        hs = handshake.MarshalPayload, pb = schema (protobuf-go) encoding
  unm <hex>                         -> `<hs result> ; <pb result>`
                                        hs result: `ok <cert> <ii> <ri> <time> <cv>` | `err:message` | `err:details`
                                        pb result: `ok <cert> <ii> <ri> <time> <cv>` | `err`
  avarint <v>                       -> hex                       (protowire.AppendVarint)
  cvarint <hex>                     -> `<v> <n>` | `err:<code>`  (protowire.ConsumeVarint)
  ctag <hex>                        -> `<num> <typ> <n>` | `err:<code>`
  cbytes <hex>                      -> `<hex> <n>` | `err:<code>`
  cfv <num> <typ> <hex>             -> `<n>` | `err:<code>`      (protowire.ConsumeFieldValue)
-/
import Nebula.Driver.Common
import Nebula.Model.Payload
import Nebula.Spec.HandshakeSchema

namespace Nebula.Driver.Payload
open Nebula.Driver Nebula.Wire Nebula.Payload
open Nebula.Spec

def showP (c : Bytes) (ii ri t cv : Nat) : String := s!"ok {bytesToHex c} {ii} {ri} {t} {cv}"

def showPRes : PRes → String
  | .ok p => showP p.cert p.initiatorIndex p.responderIndex p.time p.certVersion
  | .errMessage => "err:message"
  | .errDetails => "err:details"
  | .panic => "PANIC model"
  | .stuck => "STUCK model"

def showSchema : Option HandshakeSchema.Msg → String
  | none => "err"
  | some m => showP m.details.cert m.details.initiatorIndex m.details.responderIndex m.details.time m.details.certVersion

def errStr (e : Err) : String := s!"err:{e.code}"

/-- known field of `NebulaHandshakeDetails` carrying a wire type other than the schema's. -/
def wrongType (t : HandshakeSchema.Tok) : Bool :=
  match t.num, t.val with
  | 1, .bytes _ => false
  | 1, _ => true
  | 2, .varint _ | 3, .varint _ | 5, .varint _ | 8, .varint _ => false
  | 2, _ | 3, _ | 5, _ | 8, _ => true
  | _, _ => false

def outOfRange (t : HandshakeSchema.Tok) : Bool :=
  match t.num, t.val with
  | 2, .varint v | 3, .varint v | 8, .varint v => v ≥ 2 ^ 32
  | _, _ => false

/-- all `Details` records of a message, when the whole message tokenises. -/
def detailToks (b : Bytes) : Option (List HandshakeSchema.Tok) :=
  match HandshakeSchema.tokenize (b.length + 1) b with
  | none => none
  | some ts =>
    ts.foldl (fun acc t =>
      match acc, t.num, t.val with
      | some l, 1, .bytes d =>
        (match HandshakeSchema.tokenize (d.length + 1) d with
         | none => none
         | some ds => some (l ++ ds))
      | acc, _, _ => acc) (some [])

/-- the values the schema gives to the occurrences of singular field `num` of `NebulaHandshakeDetails`
(records with the schema's wire type only), in message order, formatted as in the answers. -/
def occurrences (ts : List HandshakeSchema.Tok) (num : Nat) : List String :=
  ts.filterMap (fun t =>
    if t.num != num then none else
    match t.val with
    | .bytes b => if num == 1 then some (bytesToHex b) else none
    | .varint v => if num == 1 then none else some (toString (if num == 5 then v else v % 2 ^ 32))
    | _ => none)

def singularFields : List (Nat × String × Nat) :=
  [(1, "Cert", 1), (2, "InitiatorIndex", 2), (3, "ResponderIndex", 3), (5, "Time", 4), (8, "CertVersion", 5)]

/-- proto3: a singular field that occurs more than once (inside one `Details`, or across occurrences of
`Details`, which merge field-wise) has the value of its LAST occurrence.  `none` = respected. -/
def repeatedNotLastWins (ts : List HandshakeSchema.Tok) (implHs : String) : Option String :=
  if !implHs.startsWith "ok" then none else
  let parts := implHs.splitOn " "
  singularFields.findSome? (fun (num, name, idx) =>
    let o := occurrences ts num
    if o.length < 2 then none else
    let want := o.getLastD ""
    let got := parts.getD idx ""
    if got == want then none else
    some s!"bad repeated-field-not-last-wins field={name} occurrences={o.length} want={want} got={got}")

def repTag (ts : List HandshakeSchema.Tok) : String :=
  let c := occurrences ts 1
  if c.length ≥ 2 then
    (if c.dropLast.any (· != "-") then ":rep-cert-earlier-nonempty" else ":rep-cert-earlier-empty")
  else if [2, 3, 5, 8].any (fun n => (occurrences ts n).length ≥ 2) then ":rep-varint" else ""

def splitSemi (s : String) : List String := (s.splitOn " ; ").map (fun x => (x.trimAscii).toString)

def step (s : Unit) (args : List String) (impl : String) : Unit × Out :=
  match args with
  | ["mar", c, ii, ri, t, cv] =>
    match hexToBytes c, natArg ii, natArg ri, natArg t, natArg cv with
    | some c, some ii, some ri, some t, some cv =>
      let p : Payload := { cert := c, initiatorIndex := ii, responderIndex := ri, time := t, certVersion := cv }
      let hs := marshalPayload [] p
      let d : HandshakeSchema.Details :=
        { cert := c, initiatorIndex := ii, responderIndex := ri, time := t, certVersion := cv }
      let pb := HandshakeSchema.encode { hasDetails := true, details := d }
      let want := showP c ii ri t cv
      let m := s!"{bytesToHex hs} {bytesToHex pb} ; {showPRes (unmarshalPayload hs)} ; {showSchema (HandshakeSchema.decode hs)} ; {showPRes (unmarshalPayload pb)}"
      -- property: what the implementation wrote is read back losslessly by itself and by the schema,
      -- and the schema's own encoding of the same message is read back by the implementation
      let verdict :=
        if impl.startsWith "PANIC" then "bad mar-panic" else
        match impl.splitOn " " with
        | hsHex :: _ =>
          (match hexToBytes hsHex with
           | none => "bad mar-unparsable"
           | some b =>
             if showSchema (HandshakeSchema.decode b) != want then "bad mar-not-schema-readable" else
             match splitSemi impl with
             | [_, a, b2, c2] =>
               if a != want then s!"bad mar-roundtrip got={a}"
               else if b2 != want then s!"bad mar-schema-read got={b2}"
               else if c2 != want then s!"bad unm-schema-written got={c2}"
               else "ok"
             | _ => "bad mar-roundtrip-missing")
        | _ => "bad mar-unparsable"
      (s, { model := m, verdict := verdict,
            tag := if c.isEmpty && ii == 0 && ri == 0 && t == 0 && cv == 0 then "mar:empty" else "mar" })
    | _, _, _, _, _ => (s, badOp)
  | ["unm", hex] =>
    match hexToBytes hex with
    | none => (s, badOp)
    | some b =>
      let r := unmarshalPayload b
      let sp := HandshakeSchema.decode b
      let m := s!"{showPRes r} ; {showSchema sp}"
      let implHs := (splitSemi impl).headD ""
      let dts := detailToks b
      let wt := match dts with | some l => l.any wrongType | none => false
      let oor := match dts with | some l => l.any outOfRange | none => false
      let verdict :=
        if impl.startsWith "PANIC" then "bad unm-panic" else
        if wt && implHs.startsWith "ok" then "bad wrong-wiretype-accepted" else
        if oor && implHs.startsWith "ok" then "bad out-of-range-accepted" else
        match (match dts with | some l => repeatedNotLastWins l implHs | none => none) with
        | some v => v
        | none =>
        match sp with
        | some _ => if implHs.startsWith "ok" && implHs != showSchema sp then s!"bad schema-disagree want={showSchema sp}" else "ok"
        | none => "ok"
      let tag :=
        match r, sp with
        | .ok _, some _ => (if wt || oor then "unm:IMPOSSIBLE" else "unm:ok-both" ++ repTag (dts.getD []))
        | .ok _, none => "unm:ok-hs-only"
        | .errMessage, some _ => "unm:errmsg-schema-ok"
        | .errDetails, some _ => (if wt then "unm:wrong-wiretype" else if oor then "unm:out-of-range" else "unm:errdet-schema-ok")
        | .errMessage, none => "triv:unm:errmsg"
        | .errDetails, none => "unm:errdet"
        | _, _ => "unm:model-panic"
      (s, { model := m, verdict := verdict, tag := tag })
  | ["avarint", v] =>
    match natArg v with
    | some v =>
      let m := appendVarint v
      let verdict :=
        match hexToBytes impl with
        | none => "bad avarint-unparsable"
        | some b =>
          match consumeVarint b with
          | .ok (v', n) => if v' == v && n == b.length then "ok" else "bad avarint-roundtrip"
          | .error _ => "bad avarint-roundtrip"
      (s, { model := bytesToHex m, verdict := verdict, tag := s!"avarint:{m.length}" })
    | none => (s, badOp)
  | ["cvarint", hex] =>
    match hexToBytes hex with
    | none => (s, badOp)
    | some b =>
      match consumeVarint b with
      | .ok (v, n) => (s, { model := s!"{v} {n}", tag := s!"cvarint:{n}" })
      | .error e => (s, { model := errStr e, tag := s!"cvarint:{errStr e}" })
  | ["ctag", hex] =>
    match hexToBytes hex with
    | none => (s, badOp)
    | some b =>
      match consumeTag b with
      | .ok (num, typ, n) => (s, { model := s!"{num} {typ} {n}", tag := "ctag:ok" })
      | .error e => (s, { model := errStr e, tag := s!"ctag:{errStr e}" })
  | ["cbytes", hex] =>
    match hexToBytes hex with
    | none => (s, badOp)
    | some b =>
      match consumeBytes b with
      | .ok (v, n) => (s, { model := s!"{bytesToHex v} {n}", tag := "cbytes:ok" })
      | .error e => (s, { model := errStr e, tag := s!"cbytes:{errStr e}" })
  | ["cfv", num, typ, hex] =>
    match natArg num, natArg typ, hexToBytes hex with
    | some num, some typ, some b =>
      match consumeFieldValue num typ b with
      | .ok n => (s, { model := s!"{n}", tag := s!"cfv:ok:{typ}" })
      | .error e => (s, { model := errStr e, tag := s!"cfv:{errStr e}" })
    | _, _, _ => (s, badOp)
  | _ => (s, badOp)

def main : IO Unit := runEngine () step

end Nebula.Driver.Payload
