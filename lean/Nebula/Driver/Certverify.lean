/-
Line-protocol engine `certverify` (C01): `cert.CAPool` — AddCA, blocklist, VerifyCertificate,
VerifyCachedCertificate. The crypto observations (fingerprint, alternate fingerprint, signature check
against the signer found in the pool) are carried by the op (the harness observed them on the real
certificate and re-checks them at execution time).

ops (CERT = 12-token descriptor, see Driver/CertArgs.lean; `src` = `stub` or hex of the real encoding, ignored here):
  reset                                         -> ok      (empty pool, virtual clock 2000-01-01T00:00:00Z)
  sleep <ns>                                    -> ok
  newpool                                       -> ok      (trust store replaced by an empty one; accepted records kept)
  addca <src> CERT <fp|!> <selfsig 0|1>         -> ok | err:not-ca | err:not-self-signed | err:fingerprint | err:expired
  block <fp> | unblock                          -> ok
  verify <reg> <now ns> <src> CERT <fp|!> <fp2|!|-> <sig 0|1>  -> ok | err:<kind>   (accepted record kept in <reg>)
  cached <reg> <now ns>                         -> ok | err:<kind> | noreg
-/
import Nebula.Driver.CertArgs
import Nebula.Spec.Trust

namespace Nebula.Driver.Certverify
open Nebula.Driver Nebula.Net Nebula.Cert Nebula.Spec.Trust

structure Obs where
  fp : Option String
  fp2 : Option String
  sig : Bool

def Obs.crypto (o : Obs) : Crypto :=
  { fingerprint := fun _ => o.fp, altFingerprint := fun _ => o.fp2, checkSig := fun _ _ => o.sig }

structure St where
  pool : Pool := {}
  now : Int := 946684800000000000
  regs : List (Nat × (Cached × Obs)) := []

def cerrStr : CErr → String
  | .expiresAfterCA => "after-ca" | .validBeforeCA => "before-ca" | .group => "group"
  | .network => "network" | .unsafeNetwork => "unsafe-network"

def verrStr : VErr → String
  | .fingerprint => "err:fingerprint" | .blocklisted => "err:blocklisted" | .noIssuer => "err:no-issuer"
  | .caNotFound => "err:ca-not-found" | .curveMismatch => "err:curve" | .rootExpired => "err:root-expired"
  | .expired => "err:expired" | .fingerprintMismatch => "err:fp-mismatch"
  | .signatureMismatch => "err:signature" | .constraint e => "err:" ++ cerrStr e
  | .altFingerprint => "err:alt-fingerprint"

def addErrStr : Option AddErr → String
  | none => "ok" | some .notCA => "err:not-ca" | some .notSelfSigned => "err:not-self-signed"
  | some .fingerprint => "err:fingerprint" | some .expired => "err:expired"

def optFp (s : String) : Option String := if s == "!" then none else some (dashStr s)

/-- the property oracle: the implementation's accept/reject against the trust rule. -/
def ruleVerdict (pfx : String) (impl : String) (K : Crypto) (p : Pool) (t : Int) (c : Cert) : String :=
  let implOk := impl.startsWith "ok"
  match failingClause K p t c with
  | none => if implOk then "ok" else s!"bad {pfx}rejected-trusted impl={impl}"
  | some cl => if implOk then s!"bad {pfx}accepted-{cl}" else
      (if impl.startsWith "err:" then "ok" else s!"bad {pfx}no-verdict impl={impl}")

def step (s : St) (args : List String) (impl : String) : St × Out :=
  match args with
  | ["reset"] => ({}, { model := "ok", tag := "triv:reset" })
  | ["newpool"] => ({ s with pool := {} }, { model := "ok", verdict := expect "newpool" impl "ok", tag := "triv:newpool" })
  | ["sleep", d] =>
    match intArg d with
    | some d => ({ s with now := s.now + d }, { model := "ok", tag := "triv:sleep" })
    | none => (s, badOp)
  | ["block", fp] => ({ s with pool := s.pool.blocklist fp }, { model := "ok", verdict := expect "block" impl "ok", tag := "triv:block" })
  | ["unblock"] => ({ s with pool := s.pool.resetBlocklist }, { model := "ok", verdict := expect "unblock" impl "ok", tag := "triv:unblock" })
  | "addca" :: _src :: rest =>
    match parseCert rest with
    | some (c, [fp, sig]) =>
      let K := ({ fp := optFp fp, fp2 := some "", sig := sig == "1" } : Obs).crypto
      let (p', e) := s.pool.addCA K s.now c
      let m := addErrStr e
      ({ s with pool := p' }, { model := m, verdict := expect "addca" impl m, tag := "addca:" ++ m })
    | _ => (s, badOp)
  | "verify" :: reg :: now :: _src :: rest =>
    match natArg reg, intArg now, parseCert rest with
    | some reg, some now, some (c, [fp, fp2, sig]) =>
      let o : Obs := { fp := optFp fp, fp2 := optFp fp2, sig := sig == "1" }
      let K := o.crypto
      let (m, regs) := match s.pool.verifyCertificate K now c with
        | .ok cc => ("ok", (reg, (cc, o)) :: s.regs.filter (fun e => e.1 != reg))
        | .error e => (verrStr e, s.regs.filter (fun e => e.1 != reg))
      ({ s with regs := regs }, { model := m, verdict := ruleVerdict "" impl K s.pool now c, tag := "verify:" ++ m })
    | _, _, _ => (s, badOp)
  | ["cached", reg, now] =>
    match natArg reg, intArg now with
    | some reg, some now =>
      match s.regs.lookup reg with
      | none => (s, { model := "noreg", verdict := expect "cached-noreg" impl "noreg", tag := "triv:noreg" })
      | some (cc, o) =>
        let K := o.crypto
        let m := match s.pool.verifyCached K now cc with
          | .ok _ => "ok"
          | .error e => verrStr e
        (s, { model := m, verdict := ruleVerdict "cached-" impl K s.pool now cc.cert, tag := "cached:" ++ m })
    | _, _ => (s, badOp)
  | _ => (s, badOp)

def main : IO Unit := runEngine ({} : St) step

end Nebula.Driver.Certverify
