/-
Line-protocol engine `fwconfig` (C22): convertRule / parsePort / AddFirewallRulesFromConfig.
The setup ops of Driver/FwShared.lean (reset, ca, peer, rule, match, clear, sleep) are available, so a loaded
configuration can be probed with packets (`match`).

value tokens (no blanks):  n | s<hex> | i<decimal> | f<go %v text> | b0 | b1 | l[v,v,…] | m{<hexkey>=v,…}
ops:
  port s<hex>                     -> ok <start> <end> | err:nan | err:range | err:rangefmt          parsePort
  conv <value>                    -> ok <port> <code> <proto> <host> <groups> <cidr> <localCidr> <caName> <caSha>
                                     (strings as x<hex>, groups comma separated, `-` = none)
                                     | err:notmap | err:groupmulti | err:groupempty | err:groupsnil
                                     | err:groupselem | err:both                                     convertRule
  load <in|out> <value|none> <oracle>  -> ok | err:notarray | err:convert | err:portandcode | err:noselector
                                     | err:proto | err:port | err:cidr | err:localcidr | err:addrule
                                     AddFirewallRulesFromConfig into the current firewall.
                                     oracle: `-` or comma separated x<hex>=<prefixhex>: the strings for which
                                     netip.ParsePrefix succeeds, with the prefix it returns.
-/
import Nebula.Driver.FwShared
import Nebula.Spec.FwConfig

namespace Nebula.Driver.Fwconfig
open Nebula.Driver Nebula.Driver.Fw Nebula.Net Nebula.Fw Nebula.FwCfg

def bytesToString (bs : List UInt8) : String :=
  match String.fromUTF8? (ByteArray.mk bs.toArray) with
  | some s => s
  | none => String.ofList (bs.map (fun b => Char.ofNat b.toNat))

def hexStr (s : String) : Option String :=
  if s.isEmpty then some "" else (hexToBytes s).map bytesToString

def stringHex (s : String) : String := "x" ++ (if s.isEmpty then "" else bytesToHex s.toUTF8.toList)

/-- characters up to the next `,` `]` `}`. -/
def scalarText (cs : List Char) : List Char × List Char :=
  cs.span (fun c => c != ',' && c != ']' && c != '}')

mutual
  partial def parseY (cs : List Char) : Option (Y × List Char) :=
    match cs with
    | 'n' :: rest => some (.null, rest)
    | 's' :: rest =>
      let (t, rest) := scalarText rest
      (hexStr (String.ofList t)).map (fun s => (.str s, rest))
    | 'i' :: rest =>
      let (t, rest) := scalarText rest
      (String.ofList t).toInt?.map (fun i => (.int i, rest))
    | 'f' :: rest =>
      let (t, rest) := scalarText rest
      some (.float (String.ofList t), rest)
    | 'b' :: '0' :: rest => some (.bool false, rest)
    | 'b' :: '1' :: rest => some (.bool true, rest)
    | 'l' :: '[' :: ']' :: rest => some (.list [], rest)
    | 'l' :: '[' :: rest => (parseYs rest []).map (fun (l, rest) => (.list l, rest))
    | 'm' :: '{' :: '}' :: rest => some (.map [], rest)
    | 'm' :: '{' :: rest => (parseKVs rest []).map (fun (m, rest) => (.map m, rest))
    | _ => none
  partial def parseYs (cs : List Char) (acc : List Y) : Option (List Y × List Char) :=
    match parseY cs with
    | some (v, ',' :: rest) => parseYs rest (v :: acc)
    | some (v, ']' :: rest) => some ((v :: acc).reverse, rest)
    | _ => none
  partial def parseKVs (cs : List Char) (acc : List (String × Y)) : Option (List (String × Y) × List Char) :=
    let (k, rest) := cs.span (· != '=')
    match hexStr (String.ofList k), rest with
    | some k, '=' :: rest =>
      match parseY rest with
      | some (v, ',' :: rest) => parseKVs rest ((k, v) :: acc)
      | some (v, '}' :: rest) => some (((k, v) :: acc).reverse, rest)
      | _ => none
    | _, _ => none
end

def parseValue (s : String) : Option Y :=
  match parseY s.toList with
  | some (v, []) => some v
  | _ => none

def parseOracle (s : String) : Option (List (String × Prefix)) :=
  if s == "-" then some [] else
  (s.splitOn ",").mapM (fun e =>
    match e.splitOn "=" with
    | [k, p] =>
      match hexStr (k.drop 1).toString, parsePrefix p with
      | some k, some p => some (k, p)
      | _, _ => none
    | _ => none)

def showPortErr : PortErr → String
  | .nan => "err:nan"
  | .range => "err:range"
  | .rangeFmt => "err:rangefmt"

def showConvErr : ConvErr → String
  | .notMap => "err:notmap"
  | .groupMulti => "err:groupmulti"
  | .groupEmpty => "err:groupempty"
  | .groupsNil => "err:groupsnil"
  | .groupsElem => "err:groupselem"
  | .both => "err:both"
  | .panicIndex | .panicAssert | .panicNilType => "PANIC"

def showLoadErr : LoadErr → String
  | .notArray => "err:notarray"
  | .convert _ => "err:convert"
  | .portAndCode => "err:portandcode"
  | .noSelector => "err:noselector"
  | .proto => "err:proto"
  | .port _ => "err:port"
  | .cidr => "err:cidr"
  | .localCidr => "err:localcidr"
  | .addRule _ => "err:addrule"

def showCRule (r : CRule) : String :=
  " ".intercalate [stringHex r.port, stringHex r.code, stringHex r.proto, stringHex r.host,
    (if r.groups.isEmpty then "-" else ",".intercalate (r.groups.map stringHex)),
    stringHex r.cidr, stringHex r.localCidr, stringHex r.caName, stringHex r.caSha]

/-- which port numbers are admitted, in canonical form: everything / nothing / an interval. -/
inductive Admit where
  | all
  | nothing
  | interval (a b : Int)
  deriving DecidableEq

def admitOfBounds (a b : Int) : Admit :=
  if a ≤ 0 ∧ 0 ≤ b then .all else if a > b then .nothing else .interval a b

/-- a port text admits every port when it contains the wildcard 0 (`any`, `0`, a range from 0). -/
def admitOfText : Spec.FwCfg.PortText → Admit
  | .any => .all
  | .fragment => .interval (-1) (-1)
  | .single n => if n = 0 then .all else .interval n n
  | .range a b => if a = 0 then .all else if a > b then .nothing else .interval a b

def portVerdict (s : String) (impl : String) : String :=
  if impl.startsWith "PANIC" then "bad c22-load-panics" else
  match Spec.FwCfg.portText s, impl.splitOn " " with
  | none, _ => if impl.startsWith "err:" then "ok" else "bad c22-invalid-port-text-accepted"
  | some t, ["ok", a, b] =>
    match a.toInt?, b.toInt? with
    | some a, some b =>
      if admitOfBounds a b == admitOfText t then "ok" else "bad c22-port-text-reinterpreted"
    | _, _ => "bad c22-port-answer-unreadable"
  | some _, _ => "bad c22-valid-port-text-rejected"

/-- spec for a whole list: every element converts (in the sense of the model's non-panicking answers) and loads. -/
def specListLoads (pp : String → Option Prefix) (v : Option Y) : Bool :=
  match v with
  | none => true
  | some .null => true
  | some (.list rs) => rs.all (fun t =>
      match convertRule t with
      | .ok cr => Spec.FwCfg.ruleLoads pp cr
      | .error _ => false)
  | some _ => false

def step (s : St) (args : List String) (impl : String) : St × Out :=
  match stepSetup s args impl with
  | some r => r
  | none =>
  match args with
  | ["port", tok] =>
    match parseValue tok with
    | some (.str str) =>
      let m := match parsePort str with
        | .ok (a, b) => s!"ok {a} {b}"
        | .error e => showPortErr e
      let tag := match Spec.FwCfg.portText str with
        | some .any => "port:any"
        | some .fragment => "port:fragment"
        | some (.single _) => "port:single"
        | some (.range a _) => if a = 0 then "port:range0" else "port:range"
        | none => "port:" ++ m
      (s, { model := m, verdict := portVerdict str impl, tag := tag })
    | _ => (s, badOp)
  | ["conv", tok] =>
    match parseValue tok with
    | some v =>
      let m := match convertRule v with
        | .ok r => "ok " ++ showCRule r
        | .error e => showConvErr e
      let verdict := if impl.startsWith "PANIC" then "bad c22-load-panics" else "ok"
      (s, { model := m, verdict := verdict,
            tag := if m.startsWith "ok" then "conv:ok" else "conv:" ++ m })
    | none => (s, badOp)
  | ["load", dir, tok, oracle] =>
    match dirTok dir, (if tok == "none" then some none else (parseValue tok).map some), parseOracle oracle with
    | some inbound, some v, some orc =>
      let pp : String → Option Prefix := fun str => aget sameStr orc str
      let (err, fw) := addRulesFromConfig pp inbound v s.sys.fw
      let m := match err with
        | none => "ok"
        | some e => showLoadErr e
      -- the rules that reached AddRule, for the C16 oracle of later `match` ops
      let added : List Rule := match v with
        | some (.list rs) =>
          (rs.foldl (fun (acc : List Rule × Bool) t =>
            if acc.2 then acc else
            match convertRule t with
            | .ok cr =>
              match ruleOfConfig pp inbound cr with
              | .ok r => (acc.1 ++ [r], !Spec.Fw.ruleValid r)
              | .error _ => (acc.1, true)
            | .error _ => (acc.1, true)) ([], false)).1
        | _ => []
      let want := specListLoads pp v
      let verdict :=
        if impl.startsWith "PANIC" then "bad c22-load-panics"
        else if impl == "ok" && !want then "bad c22-invalid-rule-loaded"
        else if impl != "ok" && want then "bad c22-valid-rule-refused"
        else "ok"
      ({ s with sys := { s.sys with fw := fw }, rules := s.rules ++ added },
       { model := m, verdict := verdict, tag := "load:" ++ m })
    | _, _, _ => (s, badOp)
  | _ => (s, badOp)

def main : IO Unit := runEngine ({} : St) step

end Nebula.Driver.Fwconfig
