/-
`kdftamper` op of the `certkeys` engine (C43), called from `Driver/Certkeys.lean`:

  kdftamper <banner hex> <pass hex|-> <orig body hex> <altered body hex> <field> <orig key hex>
      -> ok <curve> <key hex> | err:<kind> | op-inconsistent
      the executor first checks with its own implementation of the format that <orig body> opens to <orig key>
      under <pass>; the answer is the real DecryptAndUnmarshalSigningPrivateKey on the ALTERED body.

Oracle (property clause "refused with … any alteration of the encrypted data", restricted to what the clause can
mean for data outside the GCM tag): if any *decoded* metadata field of the altered message differs from the
original's, a returned key is a violation (`kdf-metadata-not-bound <fields>`); a returned key other than the
original one is `encrypted-key-opened-to-other-key`. Re-encodings that decode to the same fields (a varint
≥ 2^32 in a uint32 field, the hand-written writer's field order) are not alterations of any field.
-/
import Nebula.Driver.Common
import Nebula.Model.CertKeysKdfParams

namespace Nebula.Driver.KeysKdfParams
open Nebula.Driver Nebula.Cert Nebula.CertKeys

def decErrStr : DecErr → String
  | .pem => "err:pem" | .banner => "err:banner" | .empty => "err:empty" | .proto => "err:proto"
  | .noMetadata => "err:no-metadata" | .noArgon => "err:no-argon" | .version => "err:version" | .memory => "err:memory"
  | .parallelism => "err:parallelism" | .iterations => "err:iterations" | .algorithm => "err:algorithm"
  | .argonVersion => "err:argon-version" | .saltMissing => "err:salt-missing" | .saltShort => "err:salt-short"
  | .blobShort => "err:blob-short" | .aead => "err:aead" | .keyLength => "err:key-length"

def bannerOf (hex : String) : Option String := (hexToBytes hex).map (fun b => String.fromUTF8! (ByteArray.mk b.toArray))

def step (args : List String) (impl : String) : Option Out :=
  match args with
  | ["kdftamper", banner, pass, orig, alt, field, key] =>
    match bannerOf banner, hexToBytes pass, hexToBytes orig, hexToBytes alt, hexToBytes key with
    | some banner, some pass, some orig, some alt, some key =>
      let inconsistent : Out := { model := "op-inconsistent", verdict := "ok", tag := "triv:kdftamper-inconsistent" }
      match decEncData (orig.length + 1) {} orig with
      | none => some inconsistent
      | some d0 =>
        match d0.metadata.bind (·.argon) with
        | none => some inconsistent
        | some a0 =>
          let K := bindingCrypto a0 d0.ciphertext key
          -- the original must open in the model too (parameters in range, key of the banner's length)
          match decrypt K pass banner orig with
          | .error _ => some inconsistent
          | .ok _ =>
            let m := match decrypt K pass banner alt with
              | .ok (c, k) => s!"ok {c} {bytesToHex k}"
              | .error e => decErrStr e
            let changed := match decEncData (alt.length + 1) {} alt with
              | some d1 => changedFields d0 d1
              | none => ["undecodable"]
            let verdict :=
              if impl.startsWith "ok " then
                if !changed.isEmpty then "bad kdf-metadata-not-bound " ++ ",".intercalate changed ++ " impl=" ++ impl
                else if (impl.splitOn " ").getD 2 "" != bytesToHex key then "bad encrypted-key-opened-to-other-key"
                else "ok"
              else if changed.isEmpty then s!"bad encrypted-key-not-recovered impl={impl}"
              else "ok"
            let tag := s!"kdftamper:{field}:" ++ (if changed.isEmpty then "same-fields:" else "") ++ ((m.splitOn " ").headD "")
            some { model := m, verdict := verdict, tag := tag }
    | _, _, _, _, _ => some badOp
  | _ => none

end Nebula.Driver.KeysKdfParams
