/-
Line-protocol engine `pktparse` (C20).
ops:
  parse <incoming 0|1> <hex> <gp>   -> `err:<kind>` | `ok <local> <remote> <lport> <rport> <proto> <frag> <hdrlen> <fragany>`
        <gp> is what gopacket (a second, unrelated decoder, run by the harness when it generated the op)
        found: `-` (no clean decode) or `<proto>:<hdrlen>:<sport>:<dport>` for an unfragmented TCP/UDP packet.
        The executor parses every packet twice, into two reused ParsedPackets pre-filled with complementary
        garbage in every field; when the two answers differ it reports `<answer A> ## <answer B>`
        (class `history-dependent` unless one of the two is already bad on its own).
  upper <hex>                       -> `err` | `ok <nextHeader> <offset> <isFragment> <anyFragment>`   (iputil.IPv6FindUpperProtocol)
-/
import Nebula.Driver.Common
import Nebula.Model.PktParse
import Nebula.Spec.IP
import Nebula.Spec.IPPorts

namespace Nebula.Driver.PktParse
open Nebula.Driver Nebula.Pkt

def errStr : Err → String
  | .packetTooShort => "err:short"
  | .unknownIPVersion => "err:version"
  | .v4InvalidHeaderLength => "err:v4hdrlen"
  | .v4PacketTooShort => "err:v4short"
  | .v6PacketTooShort => "err:v6short"
  | .v6NoPayload => "err:v6nopayload"

def showParsed (p : Parsed) : String :=
  s!"ok {bytesToHex p.localAddr} {bytesToHex p.remoteAddr} {p.localPort} {p.remotePort} {p.proto} {boolStr p.fragment} {p.ipHdrLen} {boolStr p.fragAny}"

def showRes : Res Parsed → String
  | .ok p => showParsed p
  | .err e => errStr e
  | .panic => "PANIC model"

def parseBool (s : String) : Option Bool :=
  if s == "1" then some true else if s == "0" then some false else none

/-- parse the implementation's `ok …` answer back into a classification -/
def readClass (impl : String) : Option Spec.IP.Class :=
  match impl.splitOn " " with
  | ["ok", l, r, lp, rp, pr, fr, hl, fa] =>
    match hexToBytes l, hexToBytes r, lp.toNat?, rp.toNat?, pr.toNat?, parseBool fr, hl.toNat?, parseBool fa with
    | some l, some r, some lp, some rp, some pr, some fr, some hl, some fa =>
      some { localAddr := l, remoteAddr := r, localPort := lp, remotePort := rp, proto := pr,
             fragment := fr, ipHdrLen := hl, fragAny := fa }
    | _, _, _, _, _, _, _, _ => none
  | _ => none

/-- failing-input class of an accepted packet that the specification does not accept that way -/
def badClass (d : Bytes) (sp : Option Spec.IP.Pkt) (inc : Bool) (c : Spec.IP.Class) : String :=
  let v6 := Spec.IP.byte d 0 / 16 == 6
  let k := Spec.IP.extCount d
  if v6 && k ≥ 9 then "ext-headers-ge-9"
  else if v6 && k ≥ 7 && sp.isNone then "ext-headers-8-past-end"
  else match sp with
    | none => if v6 then "v6-unresolved-accepted" else "unparsable-accepted"
    | some p =>
      if !(Spec.IP.addrsOK p inc c) then "addresses"
      else if c.proto != p.proto then (if Spec.IP.isExtHeader c.proto then "proto-is-ext-header" else "proto")
      else if c.fragment != p.nonFirstFrag || c.fragAny != p.anyFrag then "fragment-status"
      else if c.ipHdrLen != p.hdrLen then "header-length"
      else "ports"

def protoTag (p : Nat) : String :=
  if p == 6 then "tcp" else if p == 17 then "udp" else if p == 1 then "icmp" else if p == 58 then "icmp6"
  else if Spec.IP.isExtHeader p then "ext" else "other"

def gpVerdict (gp : String) (sp : Option Spec.IP.Pkt) : String :=
  if gp == "-" then "ok" else
  match sp with
  | none => "bad spec-vs-gopacket spec=none gp=" ++ gp
  | some p =>
    let mine := match p.ports with
      | some (s, t) => s!"{p.proto}:{p.hdrLen}:{s}:{t}"
      | none => s!"{p.proto}:{p.hdrLen}:-"
    if mine == gp then "ok" else s!"bad spec-vs-gopacket spec={mine} gp={gp}"

def step (s : Unit) (args : List String) (impl : String) : Unit × Out :=
  match args with
  | ["parse", inc, hex, gp] =>
    match parseBool inc, hexToBytes hex with
    | some inc, some d =>
      let m := newPacket d inc
      let sp := Spec.IP.parse d
      let one (impl : String) : String :=
        if impl.startsWith "PANIC" then "bad panic"
        else if impl.startsWith "err:" then "ok"          -- rejecting is always allowed by the property
        else match readClass impl with
          | none => "bad unreadable-answer"
          | some c =>
            match sp with
            | some p =>
              if !(Spec.IP.acceptable p inc c) then s!"bad {badClass d sp inc c}"
              -- every reported port must be found in the packet (Props/C20.lean: model_ports_from_packet)
              else if !(Spec.IP.portsFromPacket p inc c) then
                s!"bad ports-not-from-packet proto={c.proto} lport={c.localPort} rport={c.remotePort}"
              else "ok"
            | none => s!"bad {badClass d sp inc c}"
      -- the answer must be a function of (bytes, direction): two dirty ParsedPackets, one answer
      let verdict :=
        match impl.splitOn " ## " with
        | [a] => one a
        | [a, b] =>
          let va := one a
          if va != "ok" then va else
          let vb := one b
          if vb != "ok" then vb else "bad history-dependent"
        | _ => "bad unreadable-answer"
      let verdict := if verdict == "ok" then gpVerdict gp sp else verdict
      let k := Spec.IP.extCount d
      let ver := Spec.IP.byte d 0 / 16
      let tag :=
        match m, sp with
        | .ok p, _ =>
          if ver == 4 then s!"v4:{protoTag p.proto}" ++ (if p.fragment then ":frag" else if p.fragAny then ":first-frag" else "") ++
            (if p.ipHdrLen > 20 then ":opts" else "")
          else s!"v6:ext{k}:{protoTag p.proto}" ++ (if p.fragment then ":frag" else if p.fragAny then ":first-frag" else "")
        | .err e, some _ => s!"rej-parsable:{errStr e}" ++ (if ver == 6 then s!":ext{k}" else "")
        | .err e, none =>
          if d.length < 20 || (ver != 4 && ver != 6) then s!"triv:{errStr e}"
          else s!"rej:{errStr e}" ++ (if ver == 6 then s!":ext{k}" else "")
        | .panic, _ => "model-panic"
      (s, { model := showRes m, verdict := verdict, tag := tag })
    | _, _ => (s, badOp)
  | ["upper", hex] =>
    match hexToBytes hex with
    | some d =>
      let m := match findUpper d with
        | .ok w => s!"ok {w.nh} {w.off} {boolStr w.isFrag} {boolStr w.anyFrag}"
        | .err _ => "err"
        | .panic => "PANIC model"
      -- property: an accepted chain is the one the specification resolves, protocol and offset included
      let verdict :=
        if impl.startsWith "PANIC" then "bad panic"
        else if impl == "err" then "ok"
        else match impl.splitOn " ", Spec.IP.parse6 d with
          | ["ok", nh, off, fr, af], some p =>
            if nh.toNat? == some p.proto && off.toNat? == some p.hdrLen && parseBool fr == some p.nonFirstFrag
               && parseBool af == some p.anyFrag then "ok"
            else if Spec.IP.extCount d ≥ 9 then "bad ext-headers-ge-9"
            else "bad upper-mismatch"
          | ["ok", _, _, _, _], none =>
            let k := Spec.IP.extCount d
            if k ≥ 9 then "bad ext-headers-ge-9"
            else if k ≥ 7 then "bad ext-headers-8-past-end"
            else "bad v6-unresolved-accepted"
          | _, _ => "bad unreadable-answer"
      let tag := if d.length < 40 then "triv:upper-short"
                 else s!"upper:ext{Spec.IP.extCount d}:" ++ (if m == "err" then "err" else "ok")
      (s, { model := m, verdict := verdict, tag := tag })
    | none => (s, badOp)
  | _ => (s, badOp)

def main : IO Unit := runEngine () step

end Nebula.Driver.PktParse
