/-
Line-protocol engine `cpupick` (C46).  State: the previous op and the implementation's answer to it
(a repeated question must get the same answer — "the same for the same instance key and topology").
ops:
  arr <routines> <h> <zeroCore> <n> { <cpu> <node|x> <core|x> }*n   -> pin list `a,b,…` | `-`
  flat <routines> <h> <n> <cpu>*n                                   -> arrange over flatTopology
  pick <routines> <na> <allowed…|-> <np> <perf…|->                  -> candidate list
  mix <x>                                                          -> splitmix64(x)
  parse <hex>                                                      -> `ok a,b,…` | `ok -` | `err`
-/
import Nebula.Driver.Common
import Nebula.Model.Cpupick
import Nebula.Spec.Cpupick

namespace Nebula.Driver.Cpupick
open Nebula.Driver Nebula.Cpupick

structure St where
  lastOp : String := ""
  lastImpl : String := ""

def showInts (l : List Int) : String := if l.isEmpty then "-" else ",".intercalate (l.map toString)

def parseIntsComma (s : String) : Option (List Int) :=
  if s == "-" then some [] else (s.splitOn ",").mapM intArg

def parseTriples : Nat → List String → Option (List (Int × Option Int × Option Int))
  | 0, [] => some []
  | 0, _ => none
  | n + 1, c :: nd :: cr :: rest =>
    match intArg c, parseTriples n rest with
    | some c, some l =>
      let f := fun (s : String) => if s == "x" then some none else (intArg s).map some
      match f nd, f cr with
      | some nd, some cr => some ((c, nd, cr) :: l)
      | _, _ => none
    | _, _ => none
  | _, _ => none

/-- Go map built by assigning in order: later entries shadow earlier ones. -/
def mkMap (l : List (Int × Option Int)) : List (Int × Int) :=
  (l.filterMap (fun e => e.2.map (fun v => (e.1, v)))).reverse

def pinVerdict (cands : List Int) (t : Topology) (routines : Int) (impl : String) : String :=
  -- the executor asks the same question several times; differing answers are reported as `unstable a | b`
  if impl.startsWith "unstable" then s!"bad pin-unstable {impl}" else
  if Spec.Cpupick.hasDup cands then "ok" else    -- duplicate candidates: outside the property
  match parseIntsComma impl with
  | none => "bad pin-unparsable"
  | some out =>
    match Spec.Cpupick.checkPinList cands (mapGet t.nodeOf) (onZeroCore t) routines out with
    | some cls => s!"bad {cls} out={impl}"
    | none => "ok"

def arrTag (cands : List Int) (t : Topology) (routines : Int) : String :=
  if cands.isEmpty then "triv:arr:empty" else
  if Spec.Cpupick.hasDup cands then "arr:dup-cands" else
  let nodes := (cands.map (mapGet t.nodeOf)).eraseDups
  let big := nodes.filter (fun n => ((cands.filter (fun c => mapGet t.nodeOf c == n)).length : Int) ≥ routines)
  let z := if cands.any (onZeroCore t) then "+zero-sibling" else if cands.contains 0 then "+zero" else ""
  (if nodes.length == 1 then "arr:one-node" else if big.isEmpty then "arr:span-nodes"
   else if big.length == 1 then "arr:one-eligible" else "arr:many-eligible") ++ z

def classifyNonKernel (s : List Nat) : String :=
  if s.any (fun c => c == 0x2b) then "sign-plus"
  else if s.any (fun c => c == 0x3a || c == 0x2f) then "stride-group"
  else if s.any (fun c => c == 0x20 || c == 0x09 || c == 0x0a) then "whitespace"
  else if s.any (fun c => (0x41 ≤ c && c ≤ 0x5a) || (0x61 ≤ c && c ≤ 0x7a)) then "letters"
  else if s.any (fun c => c ≥ 0x80) then "non-ascii"
  else "commas-dashes"

def stable (s : St) (op impl : String) : Option String :=
  if s.lastOp == op && s.lastImpl != impl then some s!"bad pin-unstable before={s.lastImpl}" else none

def step (s : St) (args : List String) (impl : String) : St × Out :=
  let op := " ".intercalate args
  let s' : St := { lastOp := op, lastImpl := impl }
  match args with
  | "arr" :: routines :: h :: zc :: n :: rest =>
    match intArg routines, natArg h, intArg zc, natArg n with
    | some routines, some h, some zc, some n =>
      match parseTriples n rest with
      | none => (s', badOp)
      | some tr =>
        let cands := tr.map (·.1)
        let t : Topology := { nodeOf := mkMap (tr.map fun e => (e.1, e.2.1)), coreOf := mkMap (tr.map fun e => (e.1, e.2.2)), zeroCore := zc }
        let out := arrange cands t routines h
        let v := match stable s op impl with
          | some b => b
          | none => pinVerdict cands t routines impl
        (s', { model := showInts out, verdict := v, tag := (if s.lastOp == op then "again:" else "") ++ arrTag cands t routines })
    | _, _, _, _ => (s', badOp)
  | "flat" :: routines :: h :: n :: rest =>
    match intArg routines, natArg h, natArg n with
    | some routines, some h, some n =>
      match (if n == 0 then some [] else rest.mapM intArg) with
      | none => (s', badOp)
      | some cands =>
        let t := flatTopology cands
        let out := arrange cands t routines h
        (s', { model := showInts out, verdict := pinVerdict cands t routines impl,
               tag := if cands.isEmpty then "triv:flat:empty" else "flat" })
    | _, _, _ => (s', badOp)
  | "pick" :: routines :: na :: rest =>
    match intArg routines, natArg na with
    | some routines, some na =>
      let (al, rest) := if na == 0 then ([], rest.drop 1) else (rest.take na, rest.drop na)
      match rest with
      | np :: pf =>
        match natArg np, al.mapM intArg, (if np == "0" then some [] else pf.mapM intArg) with
        | some _, some al, some pf =>
          let out := pickCandidates al pf routines
          -- property: the perf filter is used only when it leaves enough CPUs for every routine
          let want := if (pf.length : Int) ≥ routines then pf else al
          (s', { model := showInts out, verdict := expect "candidates-enough-for-everyone" impl (showInts want),
                 tag := if (pf.length : Int) ≥ routines then "pick:perf" else "pick:allowed" })
        | _, _, _ => (s', badOp)
      | _ => (s', badOp)
    | _, _ => (s', badOp)
  | ["mix", x] =>
    match natArg x with
    | some x => (s', { model := toString (splitmix64 x), verdict := "ok", tag := "mix" })
    | none => (s', badOp)
  | ["parse", hex] =>
    match hexToBytes hex with
    | none => (s', badOp)
    | some bs =>
      let b := bs.map (·.toNat)
      let m := parseCPUList b
      let model := match m with | none => "err" | some l => "ok " ++ showInts l
      match Spec.Cpupick.printed? b with
      | some rs =>
        if rs.any (fun r => r.2 ≥ 2 ^ 63) then
          -- a number no Go int (and no kernel CPU id) can hold: outside the reading
          (s', { model := model, verdict := "ok", tag := "parse:printed-beyond-int" })
        else if rs.any (fun r => r.2 - r.1 > 8192) then
          -- wider than any mask the kernel can print (NR_CPUS ≤ 8192): outside the reading
          (s', { model := model, verdict := "ok", tag := "parse:printed-wider-than-8192" })
        else
          (s', { model := model, verdict := expect "cpulist-printed-syntax" impl ("ok " ++ showInts (Spec.Cpupick.expand rs)),
                 tag := if rs.isEmpty then "parse:printed-empty" else if rs.length == 1 then "parse:printed-one" else "parse:printed-many" })
      | none =>
        -- not a string the kernel prints: documented reading (F15), measured by tag
        (s', { model := model, verdict := "ok",
               tag := "parse:nonkernel-" ++ (if m.isSome then "accepted-" else "rejected-") ++ classifyNonKernel b })
  | _ => (s', badOp)

def main : IO Unit := runEngine ({} : St) step

end Nebula.Driver.Cpupick
