/-
Line-protocol engine `machine` (C05, C06, C07): `handshake.Machine` over observed oracle answers.
Everything after ` | ` on an op line is the oracle annotation the harness observed from flynn/noise,
`cert.Recombine`, the CA pool and the clock (key=value tokens); the executor re-observes and answers
`ORACLE-DRIFT …` if they differ.

  reset <curve> <cipher>
  new <m> <ident> <ver> <init> <alloc|err> <seed> <sub> | hv=<bitmask of available cert versions>
        -> ok | err:nocred | err:subtype
  init <m> <reg> | wr=<ok|err> now=<ns>
        -> ok hdr=<ver>,<type>,<sub>,<ri>,<ctr> f=<failed> mi=<msgidx> | err:<kind> f= mi=
  pp <m> <reg> <outreg> | len= st= rd=<ok|err0|err1:why> msg=<hex> k1= k2= ps=<hex> rc=<err|pub:ver> vf=<-|cert> wr=<na|err|okXY> now=
        -> ok resp=<hdr|-> res=<-|ek,dk,cert,ri,li,time,mi,init,certkey> f= mi= | err:<kind> f= mi=
           (certkey = Result.RemoteCert.Certificate.PublicKey())
  mut <dst> <src> <kind> <args…> | len=<n>      -> ok len=<n>
  forge <dst> <role> <static-ident> <cert-ident> <cert-ver> <hs|full> <CertVersion> <ii> <ri> <seed> <m1reg|-> | len=<n>
        -> ok len=<n>    (a hand-driven noise peer with its own static key sends a crafted payload)
  pair <mI> <mR> | same=<0|1>                   -> none | ek= ke= xx= ri= li= mi= nz=
  ilv <mA> <init|pp> <args…> // <mB> <init|pp> <args…> | <annA> // <annB>
        -> <answer A> ;; <answer B> ;; nested=<0|1>   (B's call runs while noise draws A's ephemeral key)
  seed <m> <mi|->                               -> none | err | ok mc=<messageCounter> chk=<Check of the probe counters>
        (newConnectionStateFromResult on m's Result, MessageIndex optionally overridden)
-/
import Nebula.Driver.Common
import Nebula.Model.Machine
import Nebula.Spec.Handshake
import Nebula.Model.WindowSeed
import Nebula.Spec.Window

namespace Nebula.Driver.Machine
open Nebula.Driver Nebula.Wire Nebula.Machine
open Nebula.Spec

structure M where
  cfg : Cfg
  st : St
  result : Option Result := none
  dirty : Option String := none   -- spec state for C07: a rejection mutated the transcript (class)

structure S where
  ms : List (String × M) := []
  regs : List (String × Sent) := []   -- what the model says an (unmodified) produced packet carries

def findM (s : S) (m : String) : Option M := (s.ms.find? (·.1 == m)).map (·.2)
def setM (s : S) (m : String) (v : M) : S := { s with ms := (m, v) :: s.ms.filter (·.1 != m) }
def findR (s : S) (r : String) : Option Sent := (s.regs.find? (·.1 == r)).map (·.2)
def setR (s : S) (r : String) (v : Option Sent) : S :=
  { s with regs := (match v with | some x => [(r, x)] | none => []) ++ s.regs.filter (·.1 != r) }

def splitAnn (args : List String) : List String × List String :=
  (args.takeWhile (· != "|"), (args.dropWhile (· != "|")).drop 1)

def kv (ann : List String) (k : String) : Option String :=
  (ann.find? (fun t => t.startsWith (k ++ "="))).map (fun t => (t.drop (k.length + 1)).toString)

def errName : Nebula.Machine.Err → String
  | .machineFailed => "failed" | .packetTooShort => "short" | .subtypeMismatch => "subtype"
  | .initiateNotCalled => "initiate-not-called" | .noiseRead => "noise-read"
  | .missingContent => "missing-content" | .unmarshal => "unmarshal"
  | .unexpectedContent => "unexpected-content" | .invalidRemoteIndex => "invalid-remote-index"
  | .noCredential => "nocred" | .recombine => "recombine" | .publicKeyMismatch => "pubkey-mismatch"
  | .verify => "verify" | .asymmetricKeys => "asymmetric-keys" | .incomplete => "incomplete"
  | .indexAllocation => "index-allocation" | .noiseWrite => "noise-write"
  | .initiateOnResponder => "initiate-on-responder" | .initiateAlreadyCalled => "initiate-already-called"

def keyStr : KeyId → String | .cs1 => "cs1" | .cs2 => "cs2"

def hdrStr (c : Cfg) (x : Sent) : String :=
  s!"{Gen.header_Version},{Gen.header_Handshake},{c.subtype},{x.headerRemoteIndex},{x.headerCounter}"

def resStr (r : Result) : String :=
  s!"{keyStr r.eKey},{keyStr r.dKey},{r.remoteCert.getD "nil"},{r.remoteIndex},{r.localIndex},{r.handshakeTime},{r.messageIndex},{boolStr r.initiator},{bytesToHex r.remoteKey}"

def showOutcome (c : Cfg) (s : St) (o : Outcome) (isInit : Bool) : String :=
  let tail := s!"f={boolStr s.failed} mi={s.msgIdx}"
  match o with
  | .err e => s!"err:{errName e} {tail}"
  | .ok sent res =>
    if isInit then s!"ok hdr={(sent.map (hdrStr c)).getD "-"} {tail}"
    else s!"ok resp={(sent.map (hdrStr c)).getD "-"} res={(res.map resStr).getD "-"} {tail}"

def parseWr (w : String) : WriteOut :=
  if w == "ok11" then .ok true true else if w == "ok00" || w == "ok" then .ok false false
  else if w == "ok10" then .ok true false else if w == "ok01" then .ok false true else .err

def parseRd (ann : List String) : Option (ReadOut × String) :=
  match kv ann "rd" with
  | none => none
  | some r =>
    if r == "ok" then
      match (kv ann "msg").bind hexToBytes, (kv ann "ps").bind hexToBytes, kv ann "k1", kv ann "k2" with
      | some msg, some ps, some k1, some k2 => some (.ok msg (k1 == "1") (k2 == "1") ps, "")
      | _, _, _, _ => none
    else if r == "err0" then some (.err false, "")
    else if r.startsWith "err1" then some (.err true, (r.drop 5).toString)
    else none

def parseCo (ann : List String) : CertOut :=
  let rc := match kv ann "rc" with
    | some x =>
      if x == "err" then none else
      match x.splitOn ":" with
      | [pub, ver] => (match hexToBytes pub, ver.toNat? with | some p, some v => some (p, v) | _, _ => none)
      | _ => none
    | none => none
  let vf := match kv ann "vf" with
    | some x => if x == "-" then none else some x
    | none => none
  { recombine := rc, verify := vf }

/-- the field `res=` of an implementation answer: the reported certificate label, if any. -/
def implRes (impl : String) : Option (List String) :=
  match kv (impl.splitOn " ") "res" with
  | some x => if x == "-" then none else some (x.splitOn ",")
  | none => none

def implFailed (impl : String) : Option Bool := (kv (impl.splitOn " ") "f").map (· == "1")

def bit (b : Bool) : String := boolStr b

/-- the counters probed with `Check` after seeding: around 0, around `mi`, around the far window edge. -/
def seedProbes (mi : Nat) : List Nat :=
  [0, 1, 2] ++ (if mi ≥ 1 then [mi - 1] else []) ++ [mi, mi + 1, mi + 2, mi + 8191, mi + 8192, mi + 8193]

def bitsStr (l : List Bool) : String := String.ofList (l.map (fun b => if b then '1' else '0'))

def stepCore (s : S) (args : List String) (impl : String) : S × Out :=
  let (op, ann) := splitAnn args
  match op with
  | ["reset", _, _] => ({}, { model := "ok", tag := "triv:reset" })
  | ["new", m, _ident, ver, ini, alloc, _seed, sub] =>
    match ver.toNat?, sub.toNat?, (kv ann "hv").bind (·.toNat?) with
    | some ver, some sub, some hv =>
      if sub ≠ Gen.header_HandshakeIXPSK0 then (s, { model := "err:subtype", tag := "new:err-subtype" }) else
      let have_ : Nat → Bool := fun v => v ≥ 1 && v ≤ 2 && (hv >>> (v - 1)) % 2 == 1
      if !have_ ver then (s, { model := "err:nocred", tag := "new:err-nocred" }) else
      let cfg : Cfg := { initiator := ini == "1", subtype := sub, msgs := ixMsgs, haveCred := have_,
                         credVersion := id, alloc := alloc.toNat? }
      (setM s m { cfg := cfg, st := { myVersion := ver } }, { model := "ok", tag := "triv:new" })
    | _, _, _ => (s, badOp)
  | ["init", m, reg] =>
    match findM s m, (kv ann "now").bind (·.toNat?), kv ann "wr" with
    | some mm, some now, some wr =>
      let (st', o) := initiate mm.cfg mm.st now (parseWr wr)
      let sent := match o with | .ok x _ => x | _ => none
      let s' := setR (setM s m { mm with st := st' }) reg sent
      let verdict :=
        if impl.startsWith "ORACLE-DRIFT" || impl == "bad-op" then "ok" else
        if mm.st.failed && !(impl.startsWith "err:failed") then "bad failed-not-absorbing" else "ok"
      (s', { model := showOutcome mm.cfg st' o true, verdict := verdict,
             tag := match o with | .ok _ _ => "init:ok" | .err e => s!"init:err:{errName e}" })
    | _, _, _ => (s, badOp)
  | ["pp", m, reg, outreg] =>
    match findM s m, (kv ann "len").bind (·.toNat?), (kv ann "st").bind (·.toNat?), parseRd ann,
          (kv ann "now").bind (·.toNat?), kv ann "wr" with
    | some mm, some len, some st, some (rd, why), some now, some wr =>
      let co := parseCo ann
      let (st', o) := processPacket mm.cfg mm.st len st rd co now (parseWr wr)
      let (sent, res) := match o with | .ok x r => (x, r) | _ => (none, none)
      -- reached the noise library at all? (pre-checks of ProcessPacket)
      let reached := !mm.st.failed && len ≥ Gen.header_Len && st == mm.cfg.subtype &&
                     !(mm.cfg.initiator && mm.st.msgIdx == 0)
      let dirty' := if reached && !Handshake.rejectionClean rd then some why else mm.dirty
      let mm' : M := { mm with st := st', result := (match res with | some r => some r | none => mm.result), dirty := dirty' }
      let s' := setR (setM s m mm') outreg sent
      -- property oracles on the implementation's answer
      let iFailed := implFailed impl
      let verdict :=
        if impl.startsWith "PANIC" then "bad panic" else
        if impl.startsWith "ORACLE-DRIFT" || impl == "bad-op" then "ok" else
        -- C07 (b): once failed, every later input is refused
        if mm.st.failed && !(impl.startsWith "err:failed") then "bad failed-not-absorbing" else
        -- C07 (a): a rejection that mutated the noise transcript must not leave the machine usable
        if reached && !Handshake.rejectionClean rd && iFailed == some false then s!"bad wedged-{why}" else
        -- C07 (a'): a rejection after the noise library consumed the message (successful read) cannot leave
        -- the machine usable either: the noise state has advanced past the genuine message
        if reached && (match rd with | .ok _ _ _ _ => true | _ => false) && impl.startsWith "err:" &&
           iFailed == some false then "bad wedged-noise-advanced" else
        -- C05: a completion must rest on an accepted certificate bound to the peer's noise static key
        match implRes impl with
        | some (_ :: _ :: cert :: rest) =>
          -- C06: the message count a Result reports is the noise message index of this side (2 for IX),
          -- whatever the unauthenticated header of the packet says
          if (match rest with
              | _ :: _ :: _ :: mi :: _ => some mi != kv (impl.splitOn " ") "mi" || mi != "2"
              | _ => true) then s!"bad message-index-not-noise-index res={rest}"
          else
          if !reached then "bad complete-without-read"
          -- C05: the reported certificate carries exactly the static key the peer used in the exchange
          else if (match Handshake.readStatic rd, rest.getLast? with
                   | some ps, some pk => pk != bytesToHex ps
                   | _, _ => true) then s!"bad complete-cert-key-not-peer-static cert={cert}"
          else if !Handshake.accepts rd co cert then s!"bad complete-unverified cert={cert}"
          else if !Handshake.carriesIndex mm.cfg.initiator rd then "bad complete-without-index"
          else
            -- C06: index placement of the sender, seen in what the receiver decrypted
            (match findR s reg, rd with
             | some x, .ok msg _ _ _ =>
               (match Payload.unmarshalPayload msg with
                | .ok p =>
                  if p.initiatorIndex != x.initiatorIndex || p.responderIndex != x.responderIndex ||
                     p.certVersion != x.certVersion || (p.cert.length > 0) != x.hasCert
                  then "bad index-placement" else "ok"
                | _ => "ok")
             | _, _ => "ok")
        | _ => "ok"
      let tag :=
        match o with
        | .err .machineFailed => "triv:pp:failed"
        | .err .noiseRead => (match rd with | .err true => s!"pp:noise-read-mutated:{why}" | _ => "pp:noise-read")
        | .err e => s!"pp:err:{errName e}"
        | .ok _ (some _) => (if mm.cfg.initiator then "pp:complete-initiator" else "pp:complete-responder")
        | .ok _ none => "pp:continue"
      (s', { model := showOutcome mm.cfg st' o false, verdict := verdict, tag := tag })
    | _, _, _, _, _, _ => (s, badOp)
  | "forge" :: dst :: _ =>
    (setR s dst none, { model := s!"ok len={(kv ann "len").getD "?"}", tag := "triv:forge" })
  | "mut" :: dst :: src :: "hdr" :: _ =>
    -- only the unauthenticated header changes: the noise message (and what the model says it carries) is the sender's
    (setR s dst (findR s src), { model := s!"ok len={(kv ann "len").getD "?"}", tag := "triv:mut-hdr" })
  | "mut" :: dst :: _ =>
    (setR s dst none, { model := s!"ok len={(kv ann "len").getD "?"}", tag := "triv:mut" })
  | ["seed", m, mi] =>
    match findM s m with
    | some mm =>
      match mm.result with
      | none => (s, { model := "none", tag := "triv:seed:incomplete" })
      | some r =>
        let mi := (mi.toNat?).getD r.messageIndex
        let model :=
          match WindowSeed.seed mi with
          | none => "err"
          | some (b, mc) => s!"ok mc={mc} chk={bitsStr ((seedProbes mi).map (fun i => Bits.check b (BitVec.ofNat 64 i)))}"
        -- C06 / replay protection: the handshake's own counters 0..mi count as seen, mi+1 is the next
        -- one accepted and sent — computed from the specification window (Spec/Window), not the model
        let want :=
          if mi ≥ 8192 then "err" else
          let w : Window.W := (List.range (mi + 1)).reverse
          s!"ok mc={mi} chk={bitsStr ((seedProbes mi).map (fun i => Window.accepts 8192 w i))}"
        (s, { model := model, verdict := expect "window-seed" impl want,
              tag := if mi ≥ 8192 then "seed:refused" else if mi == r.messageIndex then "seed:actual" else "seed:override" })
    | none => (s, badOp)
  | ["pair", mi, mr] =>
    match findM s mi, findM s mr, kv ann "same" with
    | some a, some b, some same =>
      match a.result, b.result with
      | some i, some r =>
        let same := same == "1"
        let m := s!"ek={bit (same && i.eKey == r.dKey)} ke={bit (same && r.eKey == i.dKey)} xx={bit (i.eKey == i.dKey)} ri={bit (i.remoteIndex == r.localIndex)} li={bit (r.remoteIndex == i.localIndex)} mi={bit (i.messageIndex == r.messageIndex)} nz={bit (i.localIndex != 0 && r.localIndex != 0)}"
        -- C06 on the implementation's observation: over the same session everything pairs up
        let want := "ek=1 ke=1 xx=0 ri=1 li=1 mi=1 nz=1"
        let verdict := if same && impl != want then s!"bad pair-mismatch got={impl}" else "ok"
        (s, { model := m, verdict := verdict,
              tag := if same then (if Handshake.paired i r then "pair:same-session" else "pair:same-session-model-unpaired")
                     else "pair:different-sessions" })
      | _, _ => (s, { model := "none", tag := "triv:pair:incomplete" })
    | _, _, _ => (s, badOp)
  | _ => (s, badOp)

def splitAt2 (l : List String) (sep : String) : List String × List String :=
  (l.takeWhile (· != sep), (l.dropWhile (· != sep)).drop 1)

/-- `ilv <mA> <kind> <args…> // <mB> <kind> <args…> | annA // annB`: two calls on two Machines of one node,
the second executed inside the first (the Machines share nothing in the model, so each is a plain step). -/
def step (s : S) (args : List String) (impl : String) : S × Out :=
  match args with
  | "ilv" :: rest =>
    let (op, ann) := splitAnn rest
    let (oa, ob) := splitAt2 op "//"
    let (aa, ab) := splitAt2 ann "//"
    let mk (o : List String) (a : List String) : List String :=
      match o with
      | m :: k :: r => (k :: m :: r) ++ ["|"] ++ a
      | _ => []
    let parts := (impl.splitOn " ;; ").map (fun x => (x.trimAscii).toString)
    let ia := parts.getD 0 ""
    let ib := parts.getD 1 ""
    let nested := parts.getD 2 "nested=?"
    let (s1, o1) := stepCore s (mk oa aa) ia
    let (s2, o2) := stepCore s1 (mk ob ab) ib
    -- whether the second call really ran inside the first is the harness's observation, echoed
    (s2, { model := s!"{o1.model} ;; {o2.model} ;; {nested}",
           verdict := if o1.verdict.startsWith "bad" then o1.verdict else o2.verdict,
           tag := s!"ilv:{o1.tag}+{o2.tag}:{nested}" })
  | _ => stepCore s args impl

def main : IO Unit := runEngine ({} : S) step

end Nebula.Driver.Machine
