/-
Line-protocol engine `hostmap` (C28, C29).  Tunnels are object ids (1, 2, …) handed out in creation order on both
sides; addresses and indexes are decimal numbers; an index stream `v,v,…` is what `crypto/rand` yields (cyclically).

ops (every answer is `<result>;<dump of all maps>`):
  reset
  start a                      StartHandshake(a)                              -> new h | have h
  alloc a v,v,…                index part of buildStage0Packet (allocateIndex)-> nopending | ready | idx n | err:exhausted
  fin i a,a,… r t              continueHandshake tail: pending index i answered by a cert with addrs, remote index r,
                               handshake time t: Complete, or wrong-host restart -> nopending | ok h | wrong new h' | wrong have h'
  resp a,a,… r p t v,v,…       beginHandshake tail: generateIndex, new hostinfo, CheckAndComplete
                                                                              -> new h idx n (ok e|ok nil|seen x|existing x|collision x)
  del h                        HostMap.DeleteHostInfo                         -> final 0|1
  pdel h                       HandshakeManager.DeleteHostInfo                -> ok
  prim h                       MakePrimary                                    -> prim 0|1
  relay h peer ty st v,v,…     AddRelay(type ty, state st)                    -> idx n | err:unlinked | err:exhausted
  relayto h a                  relayState.InsertRelayTo(a)                    -> ok
dump: H a:h… | M a:h,h… | I i:h… | R r:h… | L i:h… | V a:h… | P i:h… | N next |
      O h:lidx:ridx:addrs:ready:byIdx:byAddr:relaysTo …   (every referenced tunnel; byIdx = idx/peer/type/state,…
      byAddr = peer/idx/type/state,…; ready only for pending tunnels)
-/
import Nebula.Driver.Common
import Nebula.Model.HostMap
import Nebula.Spec.HostMap

namespace Nebula.Driver.Hostmap
open Nebula.Driver Nebula.HostMap
open Nebula.Spec.HostMap (invCheck stepCheck deleteCheck handedOutCheck relayHandedOutCheck mainRefs pendingRefs)

/-! ### printing -/

def natList (l : List Nat) : String := if l.isEmpty then "-" else ",".intercalate (l.map toString)

def sortKeys {β : Type} (m : FMap β) : List (Nat × β) := m.mergeSort (fun a b => a.1 ≤ b.1)

def sect {β : Type} (name : String) (m : FMap β) (f : β → String) : String :=
  name ++ String.join ((sortKeys m).map fun (k, v) => s!" {k}:{f v}")

def refsOf (s : State) : List Nat := (mainRefs s ++ pendingRefs s).eraseDups.mergeSort (· ≤ ·)

def relList (m : FMap Relay) (f : Nat → Relay → String) : String :=
  if m.isEmpty then "-" else ",".intercalate ((sortKeys m).map fun (k, r) => f k r)

def dump (s : State) : String :=
  let os := (refsOf s).map fun h =>
    let o := s.obj h
    let r := s.rstate h
    let rdy := boolStr (o.ready && (pendingRefs s).contains h)
    s!" {h}:{o.lidx}:{o.ridx}:{natList o.addrs}:{rdy}:" ++
      relList r.byIdx (fun k x => s!"{k}/{x.peer}/{x.type}/{x.state}") ++ ":" ++
      relList r.byAddr (fun k x => s!"{k}/{x.lidx}/{x.type}/{x.state}") ++ ":" ++ natList r.relaysTo
  "|".intercalate [sect "H" s.hosts toString, sect "M" s.more natList, sect "I" s.indexes toString,
    sect "R" s.rindexes toString, sect "L" s.relays toString, sect "V" s.vpnIps toString, sect "P" s.pidx toString,
    s!"N {s.next}", "O" ++ String.join os]

/-! ### parsing an implementation dump back into a `State` (objects: only the referenced ones) -/

def parseNatList (t : String) : Option (List Nat) :=
  if t == "-" then some [] else (t.splitOn ",").mapM (·.toNat?)

def parseSect {β : Type} (t : String) (name : String) (f : String → Option β) : Option (FMap β) :=
  match (t.splitOn " ").filter (· ≠ "") with
  | [] => none
  | n :: items =>
    if n ≠ name then none else
    items.foldlM (fun m it =>
      match it.splitOn ":" with
      | [k, v] => do let k ← k.toNat?; let v ← f v; pure (m.set k v)
      | _ => none) []

/-- `k/a/type/state,…`; `byIdx = true`: k is the local index and a the peer, else the other way round -/
def parseRelList (t : String) (byIdx : Bool) : Option (FMap Relay) :=
  if t == "-" then some [] else
  (t.splitOn ",").foldlM (fun m it =>
    match it.splitOn "/" with
    | [k, a, ty, st] => do
      let k ← k.toNat?; let a ← a.toNat?; let ty ← ty.toNat?; let st ← st.toNat?
      pure (m.set k (if byIdx then { type := ty, state := st, lidx := k, peer := a } else { type := ty, state := st, lidx := a, peer := k }))
    | _ => none) []

def parseObjs (t : String) : Option (FMap Obj × FMap RelayState) :=
  match (t.splitOn " ").filter (· ≠ "") with
  | "O" :: items =>
    items.foldlM (fun (m, rs) it =>
      match it.splitOn ":" with
      | [h, li, ri, ad, rdy, bi, ba, rt] => do
        let h ← h.toNat?; let li ← li.toNat?; let ri ← ri.toNat?; let ad ← parseNatList ad
        let bi ← parseRelList bi true; let ba ← parseRelList ba false; let rt ← parseNatList rt
        pure (m.set h { addrs := ad, lidx := li, ridx := ri, ready := rdy == "1" },
              if bi.isEmpty && ba.isEmpty && rt.isEmpty then rs else rs.set h { relaysTo := rt, byAddr := ba, byIdx := bi })
      | _ => none) ([], [])
  | _ => none

def parseDump (t : String) : Option State :=
  match t.splitOn "|" with
  | [h, m, i, r, l, v, p, n, o] => do
    let h ← parseSect h "H" String.toNat?
    let m ← parseSect m "M" parseNatList
    let i ← parseSect i "I" String.toNat?
    let r ← parseSect r "R" String.toNat?
    let l ← parseSect l "L" String.toNat?
    let v ← parseSect v "V" String.toNat?
    let p ← parseSect p "P" String.toNat?
    let (o, rs) ← parseObjs o
    let n ← match (n.splitOn " ").filter (· ≠ "") with | ["N", x] => x.toNat? | _ => none
    pure { objs := o, rs := rs, next := n, hosts := h, more := m, indexes := i, rindexes := r, relays := l, vpnIps := v, pidx := p }
  | _ => none

/-! ### the oracle on an implementation answer -/

inductive OpKind where
  | plain                     -- only the general clauses
  | delete (h : Nat)
  | handOut                   -- result `idx n`: pending-namespace index
  | handOutRelay              -- result `idx n`: relay index
  | respond                   -- result `new h idx n …`

def firstSome (l : List (Unit → Option String)) : Option String := l.findSome? (· ())

def verdictOf (pre : State) (kind : OpKind) (fresh : List Nat) (impl : String) : String :=
  match impl.splitOn ";" with
  | [res, d] =>
    match parseDump d with
    | none => "bad unparsable-dump"
    | some post =>
      let rw := (res.splitOn " ").filter (· ≠ "")
      let opc : Unit → Option String := fun _ =>
        match kind, rw with
        | .delete h, ["final", f] => deleteCheck pre post h (f == "1")
        | .delete _, _ => some "delete-answer-malformed"
        | .handOut, ["idx", n] => match n.toNat? with | some n => handedOutCheck pre n | none => some "answer-malformed"
        | .handOutRelay, ["idx", n] => match n.toNat? with | some n => relayHandedOutCheck pre n | none => some "answer-malformed"
        | .respond, "new" :: _ :: "idx" :: n :: "ok" :: _ =>
          match n.toNat? with | some n => handedOutCheck pre n | none => some "answer-malformed"
        | .respond, "new" :: _ :: "idx" :: n :: _ => if n == "0" then some "handed-out-zero-index" else none
        | _, _ => none
      match firstSome [opc, fun _ => stepCheck pre post fresh, fun _ => invCheck post] with
      | none => "ok"
      | some c => s!"bad {c}"
  | _ => if impl.startsWith "PANIC" then "bad panic" else "bad unparsable-answer"

/-! ### the engine -/

/-- the cyclic `crypto/rand` stream, unrolled far enough for 32 candidates -/
def unroll (vs : List Nat) : List Nat := (List.replicate 33 vs).flatten

def streamArg (t : String) : Option (List Nat) :=
  match parseNatList t with
  | some vs => if vs.isEmpty || vs.all (· == 0) || vs.any (fun v => decide (v ≥ 2 ^ 32)) then none else some (unroll vs)
  | none => none

def addrsArg (t : String) : Option (List Nat) :=
  match parseNatList t with
  | some vs => if vs.isEmpty then none else some vs
  | none => none

def isObj (s : State) (h : Nat) : Bool := decide (1 ≤ h) && decide (h < s.next)

def allocStr : AllocRes → String
  | .ok i => s!"idx {i}"
  | .exhausted => "err:exhausted"
  | .randErr => "err:rand"
  | .unlinked => "err:unlinked"

def optStr : Option Nat → String
  | some h => toString h
  | none => "nil"

def finish (pre s' : State) (res : String) (kind : OpKind) (fresh : List Nat) (tag : String) (impl : String) : State × Out :=
  (s', { model := res ++ ";" ++ dump s', verdict := verdictOf pre kind fresh impl, tag := tag })

def step (s : State) (args : List String) (impl : String) : State × Out :=
  match args with
  | ["reset"] => finish {} {} "ok" .plain [] "triv:reset" impl
  | ["start", a] =>
    match natArg a with
    | some a =>
      let (s', h, isNew) := startHandshake s a
      finish s s' (if isNew then s!"new {h}" else s!"have {h}") .plain [] (if isNew then "start:new" else "start:have") impl
    | none => (s, badOp)
  | ["alloc", a, vs] =>
    match natArg a, streamArg vs with
    | some a, some st =>
      let (s', r) := opAlloc s a st
      let collided : Bool := match genIndex st with
        | some (i, _) => (s.pidx.get i).isSome || (s.indexes.get i).isSome | none => false
      match r with
      | none =>
        if (s.vpnIps.get a).isNone then finish s s' "nopending" .plain [] "triv:alloc:nopending" impl
        else finish s s' "ready" .plain [] "triv:alloc:ready" impl
      | some r =>
        finish s s' (allocStr r) .handOut []
          (match r with | .ok _ => (if collided then "alloc:ok-after-collision" else "alloc:ok") | _ => "alloc:" ++ allocStr r) impl
    | _, _ => (s, badOp)
  | ["fin", i, ads, r, t] =>
    match natArg i, addrsArg ads, natArg r, natArg t with
    | some i, some ads, some r, some t =>
      let (s', fr) := opFin s i ads r t
      match fr with
      | .noPending => finish s s' "nopending" .plain (freshOf s (.fin i ads r t)) "triv:fin:nopending" impl
      | .completed h =>
        let evict : Bool := ads.any fun a => decide ((hostList s a).length ≥ maxHostInfos)
        finish s s' s!"ok {h}" .plain [h] (if evict then "fin:ok-evict" else "fin:ok") impl
      | .wrongHost h' isNew =>
        finish s s' (if isNew then s!"wrong new {h'}" else s!"wrong have {h'}") .plain (freshOf s (.fin i ads r t)) "fin:wrong-host" impl
    | _, _, _, _ => (s, badOp)
  | ["resp", ads, r, p, t, vs] =>
    match addrsArg ads, natArg r, natArg p, natArg t, streamArg vs with
    | some ads, some r, some p, some t, some st =>
      match opResp s ads r p t st with
      | none => (s, badOp)
      | some (s', h, idx, cr) =>
        let (rs, tag) := match cr with
          | .added e => (s!"ok {optStr e}",
              if ads.any (fun a => decide ((hostList s a).length ≥ maxHostInfos)) then "resp:ok-evict"
              else if e.isSome then "resp:ok-replace" else "resp:ok-first")
          | .alreadySeen x => (s!"seen {x}", "resp:already-seen")
          | .existingHostInfo x => (s!"existing {x}", "resp:existing-newer")
          | .collision x => (s!"collision {x}", if (s.indexes.get idx).isSome then "resp:collision-main" else "resp:collision-pending")
        finish s s' s!"new {h} idx {idx} {rs}" .respond [h] tag impl
    | _, _, _, _, _ => (s, badOp)
  | ["del", h] =>
    match natArg h with
    | some h =>
      if !isObj s h then (s, badOp) else
      let (s', final) := deleteHost s h
      let stale := !(mainRefs s).contains h
      let reused : Bool := stale && ((s.indexes.get (s.obj h).lidx).isSome || (s.rstate h).byIdx.keys.any fun i => (s.relays.get i).isSome)
      finish s s' s!"final {boolStr final}" (.delete h) []
        (if reused then "del:stale-index-reused" else if stale then "del:stale"
         else if final && s'.rs != s.rs then "del:final-disestablishes" else if final then "del:final"
         else if !(s.rstate h).byIdx.isEmpty then "del:not-final-with-relays" else "del:not-final") impl
    | none => (s, badOp)
  | ["pdel", h] =>
    match natArg h with
    | some h =>
      if !isObj s h then (s, badOp) else
      let s' := pendingDelete s h
      let stale := !(pendingRefs s).contains h
      let reused : Bool := stale && (s.pidx.get (s.obj h).lidx).isSome
      finish s s' "ok" .plain []
        (if reused then "pdel:stale-index-reused" else if stale then "pdel:stale" else "pdel:pending") impl
    | none => (s, badOp)
  | ["prim", h] =>
    match natArg h with
    | some h =>
      if !isObj s h then (s, badOp) else
      let (s', ok) := makePrimary s h
      let already := (s.obj h).addrs.all fun a => s.hosts.get a == some h
      finish s s' s!"prim {boolStr ok}" .plain []
        (if !ok then "prim:not-live" else if already then "prim:already" else "prim:promoted") impl
    | none => (s, badOp)
  | ["relay", h, peer, ty, st, vs] =>
    match natArg h, natArg peer, natArg ty, natArg st, streamArg vs with
    | some h, some peer, some ty, some rst, some st =>
      if !isObj s h then (s, badOp) else
      let (s', r) := addRelay s h { type := ty, state := rst, peer := peer } st
      let collided : Bool := match genIndex st with | some (i, _) => (s.relays.get i).isSome | none => false
      let again : Bool := ((s.rstate h).byAddr.get peer).isSome
      finish s s' (allocStr r) .handOutRelay []
        (match r with
          | .ok _ => (if again then "relay:ok-same-peer-again" else if collided then "relay:ok-after-collision" else "relay:ok")
          | _ => "relay:" ++ allocStr r) impl
    | _, _, _, _, _ => (s, badOp)
  | ["relayto", h, a] =>
    match natArg h, natArg a with
    | some h, some a =>
      if !isObj s h then (s, badOp) else
      finish s (s.setRs h (insertRelayTo (s.rstate h) a)) "ok" .plain [] "relayto" impl
    | _, _ => (s, badOp)
  | _ => (s, badOp)

def main : IO Unit := runEngine ({} : State) step

end Nebula.Driver.Hostmap
