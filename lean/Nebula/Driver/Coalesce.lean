/-
Line-protocol engine `coalesce` (C23). One case = one flush batch of a `MultiCoalescer`.
ops:
  reset <tso 0|1> <uso 0|1>                          -> ok
  c  <epoch> <counter> <proto> <frag 0|1> <iphl> <hex> -> `<proto> <frag> <iphl>` as the real `newPacket`
                                                        computes them for these bytes (the op carries the
                                                        values the generator observed); stages the packet
  cf <epoch> <counter> <proto> <frag 0|1> <iphl> <hex> -> ok     (forged ParsedPacket: model tie only)
  flush                                              -> the writes the recording tio.GSOWriter saw:
        `W:<hex>` | `G:<t|u>:<hdr>:<thdr>:<pay>,<pay>,…` separated by blanks (`-` if none), `E:<n>` appended
        if Flush returned n joined errors
The oracle on `flush` re-segments the implementation's writes with the reference kernel segmenter
(Spec/KernelGSO) and compares with the staged batch.
-/
import Nebula.Driver.Common
import Nebula.Model.Coalesce
import Nebula.Spec.CoalesceObs

namespace Nebula.Driver.Coalesce
open Nebula.Driver Nebula.Coalesce
open Nebula.Spec

structure St where
  /-- the coalescer between batches: capability flags and the slot pools carried from earlier flushes -/
  m : Multi := {}
  staged : List Staged := []      -- reverse arrival order
  forged : Bool := false

def showWr : Wr → String
  | .write b => "W:" ++ bytesToHex b
  | .gso h t ps tcp =>
    "G:" ++ (if tcp then "t" else "u") ++ ":" ++ bytesToHex h ++ ":" ++ bytesToHex t ++ ":" ++
      String.intercalate "," (ps.map bytesToHex)

def showWrs (ws : List Wr) : String :=
  if ws.isEmpty then "-" else String.intercalate " " (ws.map showWr)

def parseWr (s : String) : Option Wr :=
  match s.splitOn ":" with
  | ["W", h] => (hexToBytes h).map Wr.write
  | ["G", p, h, t, ps] =>
    match hexToBytes h, hexToBytes t, (ps.splitOn ",").mapM hexToBytes with
    | some h, some t, some ps =>
      if p == "t" then some (.gso h t ps true) else if p == "u" then some (.gso h t ps false) else none
    | _, _, _ => none
  | _ => none

def parseWrs (s : String) : Option (List Wr) :=
  if s == "-" then some [] else ((s.splitOn " ").filter (· ≠ "")).mapM parseWr

def keyLe (a b : Staged) : Bool := a.epoch < b.epoch || (a.epoch == b.epoch && a.counter ≤ b.counter)

def strLe (a b : String) : Bool := decide (a ≤ b)

/-- first element of sorted `a` that is missing from sorted `b` (multiset difference). -/
partial def firstMissing : List String → List String → Option String
  | [], _ => none
  | x :: _, [] => some x
  | x :: xs, y :: ys =>
    if x == y then firstMissing xs ys
    else if strLe x y then some x
    else firstMissing (x :: xs) ys

def isUdpShort (p : Bytes) : Bool :=
  let t := KernelGSO.trim p
  match KernelGSO.classify t with
  | some (_, l4, false) => KernelGSO.be16 t (l4 + 4) < t.length - l4
  | _ => false

def dedup {α} [BEq α] (l : List α) : List α :=
  l.foldl (fun acc x => if acc.contains x then acc else acc ++ [x]) []

/-- the property oracle for one flushed batch: `ins` in arrival order, `ws` what the writer saw. -/
def oracle (ins : List Staged) (ws : List Wr) : String :=
  let out := ws.flatMap KernelGSO.kernelSeg
  let mIn := ins.map (fun sp => KernelGSO.mask sp.pkt)
  let mOut := out.map KernelGSO.mask
  let sIn := (mIn.map bytesToHex).mergeSort strLe
  let sOut := (mOut.map bytesToHex).mergeSort strLe
  -- geometry of every offloaded write
  let badGeo := ws.find? (fun w => !KernelGSO.writeGeometryOk w)
  let badSeed := ws.find? (fun w => !KernelGSO.writeSeedOk w)
  match badGeo with
  | some w => "bad gso-geometry " ++ (showWr w).take 160
  | none =>
  match firstMissing sIn sOut with
  | some x =>
    let cls := if ins.any (fun sp => isUdpShort sp.pkt && bytesToHex (KernelGSO.mask sp.pkt) == x)
      then "udp-length-short-trailing-bytes-dropped" else "packet-lost-or-altered"
    s!"bad {cls} missing={x.take 160}"
  | none =>
  match firstMissing sOut sIn with
  | some x => s!"bad packet-duplicated-or-invented extra={x.take 160}"
  | none =>
  match badSeed with
  | some w => "bad csum-seed " ++ (showWr w).take 160
  | none =>
    -- ordering: per flow, the non-pure-ACK packets come out in (epoch, counter) order
    let sorted := ins.mergeSort keyLe
    let flows := dedup (sorted.filterMap (fun sp => KernelGSO.flowOf sp.pkt))
    let bad := flows.find? (fun f =>
      let a := (sorted.filter (fun sp => KernelGSO.flowOf sp.pkt == some f && !KernelGSO.pureAck sp.pkt)).map
        (fun sp => KernelGSO.mask sp.pkt)
      let b := (out.filter (fun p => KernelGSO.flowOf p == some f && !KernelGSO.pureAck p)).map KernelGSO.mask
      a != b)
    match bad with
    | some f => s!"bad flow-order flow={bytesToHex f.src}:{f.sport}>{bytesToHex f.dst}:{f.dport}/{f.proto}"
    | none => "ok"

def flushTag (ws : List Wr) : String :=
  let nt := (ws.filter (fun w => match w with | .gso _ _ _ true => true | _ => false)).length
  let nu := (ws.filter (fun w => match w with | .gso _ _ _ false => true | _ => false)).length
  let nw := (ws.filter (fun w => match w with | .write _ => true | _ => false)).length
  let big := ws.any (fun w => match w with | .gso _ _ ps _ => ps.length ≥ 8 | _ => false)
  let b (n : Nat) : String := if n == 0 then "0" else if n == 1 then "1" else "n"
  if ws.isEmpty then "triv:flush-empty" else
  s!"flush:tcp{b nt}-udp{b nu}-w{b nw}" ++ (if big then "-long" else "")

def commitTag (sp : Staged) : String :=
  let kind :=
    if sp.fragAny then "frag" else
    if sp.proto == 6 then
      match parseAt true sp.pkt sp.ipHdrLen with
      | none => "tcp-noparse"
      | some i =>
        if !hasAck i.flags || hasOther i.flags then "tcp-flags" else
        if i.payLen == 0 then "tcp-ack" else if hasPsh i.flags then "tcp-psh" else "tcp-data"
    else if sp.proto == 17 then
      match parseAt false sp.pkt sp.ipHdrLen with
      | none => "udp-noparse"
      | some i => if i.payLen == 0 then "udp-empty" else "udp-data"
    else "other"
  "c:" ++ kind ++ (if Nebula.Coalesce.byteAt sp.pkt 0 / 16 == 6 then "6" else "4")

def step (s : St) (args : List String) (impl : String) : St × Out :=
  match args with
  | ["reset", a, b] => ({ m := { tso := a == "1", uso := b == "1" } }, { model := "ok", tag := "triv:reset" })
  | [op, e, c, pr, fr, ih, hex] =>
    if op != "c" && op != "cf" then (s, badOp) else
    match natArg e, natArg c, natArg pr, natArg ih, hexToBytes hex with
    | some e, some c, some pr, some ih, some pkt =>
      let sp : Staged := { pkt := pkt, epoch := e, counter := c, proto := pr, fragAny := fr == "1", ipHdrLen := ih }
      let cons := KernelGSO.ppConsistent pkt pr ih (fr == "1")
      if op == "c" then
        let m := s!"{pr} {fr} {ih}"
        -- oracle on the real parser's answer: it must satisfy the consistency the theorems assume
        let verdict :=
          match (impl.splitOn " ").map String.toNat? with
          | [some ipr, some ifr, some iih] =>
            if KernelGSO.ppConsistent pkt ipr iih (ifr == 1) then "ok" else s!"bad pp-inconsistent got={impl}"
          | _ => s!"bad pp-inconsistent got={impl}"
        ({ s with staged := sp :: s.staged, forged := s.forged || !cons }, { model := m, verdict := verdict, tag := commitTag sp })
      else
        ({ s with staged := sp :: s.staged, forged := s.forged || !cons },
         { model := "ok", tag := if cons then "cf:" ++ (commitTag sp).drop 2 else "cf:inconsistent" })
    | _, _, _, _, _ => (s, badOp)
  | ["flush"] =>
    let ins := s.staged.reverse
    -- the checked, pooled model: every Go slice bound is asserted, slot objects are recycled
    let (m, ws, next) :=
      match s.m.roundC ins with
      | .ok (ws, m') => (showWrs ws, ws, m')
      | .error e => ("PANIC " ++ e, [], (s.m.round ins).2)
    let verdict :=
      if s.forged then "ok" else
      match parseWrs impl with
      | none => "bad unparsable-answer " ++ impl.take 80
      | some iw => oracle ins iw
    ({ m := next, staged := [], forged := false },
     { model := m, verdict := verdict,
       tag := (if s.forged then "forged-" else "") ++ flushTag ws ++
         (if s.m.tcp.pool.isEmpty && s.m.udp.pool.isEmpty then "" else "-reused") })
  | _ => (s, badOp)

def main : IO Unit := runEngine ({} : St) step

end Nebula.Driver.Coalesce
