/-
Line-protocol engine `routing` (C40).  Stateless.
ops:
  calc w…                          -> bounds `b…` (`-` for no gateways) | `panic`
  hash lp rp                       -> hash
  bal lp rp protoA fragA laA raA protoB fragB laB raB w…
                                   -> `<idxA> <okA> <hashA> <idxB> <okB> <hashB>` | `panic`
        (two packets of one flow differing only in unrelated fields, balanced over freshly calculated gateways)
  balraw lp rp b…                  -> `<idx> <ok> <hash>` | `panic`   (bounds set directly; fallback path)
-/
import Nebula.Driver.Common
import Nebula.Model.Routing
import Nebula.Spec.Routing

namespace Nebula.Driver.Routing
open Nebula.Driver Nebula.Routing

def showInts (l : List Int) : String := if l.isEmpty then "-" else " ".intercalate (l.map toString)

def parseInts (l : List String) : Option (List Int) := l.mapM intArg

def mkGateways (ws : List Int) : List Gateway := ws.mapIdx (fun i w => newGateway i w)

def showBal : BalRes → Int → String
  | .panic, _ => "panic"
  | .chosen i ok, h => s!"{i} {boolStr ok} {h}"

/-- the specification's choice for hash `h`: the gateway whose share of `Spec.bounds ws` contains `h`. -/
def specChoice (ws : List Nat) (h : Int) : Option Nat :=
  (Spec.Routing.bounds ws).findIdx? (fun b => h ≤ b)

def weightsTag (ws : List Int) : String :=
  let W := ws.foldl (· + ·) 0
  if ws.isEmpty then "empty"
  else if ws.any (· ≤ 0) then "nonpositive-weight"
  else if W ≥ 2 ^ 33 then "total-ge-2^33"
  else if W ≥ 2 ^ 31 then "total-ge-2^31"
  else if ws.length == 1 then "single"
  else "small"

def step (s : Unit) (args : List String) (impl : String) : Unit × Out :=
  match args with
  | "calc" :: ws =>
    match parseInts ws with
    | none => (s, badOp)
    | some ws =>
      let model := match calculateBuckets (mkGateways ws) with
        | none => "panic"
        | some out => showInts (out.map (·.bound))
      let inDomain := ws.all (fun w => 0 ≤ w ∧ w ≤ 2 ^ 31 - 1) && ws.foldl (· + ·) 0 > 0
      let verdict :=
        if !inDomain then "ok" else
        if impl == "panic" then "bad calc-panic" else
        match parseInts ((impl.splitOn " ").filter (· ≠ "")) with
        | none => "bad calc-unparsable"
        | some bs =>
          match Spec.Routing.firstBad (ws.map Int.toNat) bs with
          | some cls => s!"bad {cls} bounds={impl}"
          | none => "ok"
      (s, { model := model, verdict := verdict, tag := "calc:" ++ weightsTag ws })
  | ["hash", lp, rp] =>
    match natArg lp, natArg rp with
    | some lp, some rp =>
      let h := hashPacket { localAddr := 0, remoteAddr := 0, localPort := lp, remotePort := rp, protocol := 0, fragment := false }
      let verdict := match intArg impl with
        | some v => if 0 ≤ v ∧ v < 2 ^ 31 then "ok" else "bad hash-out-of-range"
        | none => "bad hash-unparsable"
      (s, { model := toString h, verdict := verdict, tag := "hash" })
    | _, _ => (s, badOp)
  | "balraw" :: lp :: rp :: bs =>
    match natArg lp, natArg rp, parseInts bs with
    | some lp, some rp, some bs =>
      let p : Packet := { localAddr := 0, remoteAddr := 0, localPort := lp, remotePort := rp, protocol := 0, fragment := false }
      let gs := bs.mapIdx (fun i b => ({ addr := i, weight := b, bound := b } : Gateway))
      let r := balancePacket p gs
      let tag := match r with
        | .panic => "balraw:panic"
        | .chosen _ true => "balraw:hit"
        | .chosen _ false => "balraw:fallback"
      (s, { model := showBal r (hashPacket p), verdict := "ok", tag := tag })
    | _, _, _ => (s, badOp)
  | "bal" :: lp :: rp :: pa :: fa :: la :: ra :: pb :: fb :: lb :: rb :: ws =>
    match natArg lp, natArg rp, natArg pa, natArg pb, parseInts ws with
    | some lp, some rp, some pa, some pb, some ws =>
      -- addresses are opaque to the model: keep their text length as a stand-in
      let pA : Packet := { localAddr := la.length, remoteAddr := ra.length, localPort := lp, remotePort := rp, protocol := pa, fragment := fa == "1" }
      let pB : Packet := { localAddr := lb.length + 1, remoteAddr := rb.length + 1, localPort := lp, remotePort := rp, protocol := pb, fragment := fb == "1" }
      let model := match calculateBuckets (mkGateways ws) with
        | none => "panic"
        | some out =>
          match balancePacket pA out, balancePacket pB out with
          | .panic, _ => "panic"
          | _, .panic => "panic"
          | a, b => showBal a (hashPacket pA) ++ " " ++ showBal b (hashPacket pB)
      let inDomain := !ws.isEmpty && ws.all (fun w => 0 ≤ w ∧ w ≤ 2 ^ 31 - 1) && ws.foldl (· + ·) 0 > 0
      let verdict :=
        if !inDomain then "ok" else
        match (impl.splitOn " ").filter (· ≠ "") with
        | [ia, oa, ha, ib, ob, hb] =>
          if ha != hb || ia != ib then s!"bad flow-not-deterministic a={ia}/{ha} b={ib}/{hb}" else
          if oa != "1" || ob != "1" then "bad balance-fell-back" else
          match intArg ha, natArg ia with
          | some h, some i =>
            if h < 0 || h ≥ 2 ^ 31 then "bad hash-out-of-range" else
            match specChoice (ws.map Int.toNat) h with
            | some want => if want == i then "ok" else s!"bad balance-wrong-share want={want} hash={h}"
            | none => "bad balance-no-share"
          | _, _ => "bad balance-unparsable"
        | _ => if impl == "panic" then "bad balance-panic" else "bad balance-unparsable"
      (s, { model := model, verdict := verdict, tag := "bal:" ++ weightsTag ws })
    | _, _, _, _, _ => (s, badOp)
  | _ => (s, badOp)

def main : IO Unit := runEngine () step

end Nebula.Driver.Routing
