/-
Line-protocol engine `outside` (C14, C15).  Cluster: 0 = A (receiver under test), 1 = B (direct peer),
2 = R (relay), 3 = X (reaches A only through R).

ops
  reset <base> <accept_recv_error> <send_recv_error> [pref]   -> `ok 1 xr=0`   (pref: A's preferred_ranges: none|relay|peer|other|all)
  pkt <kind> <src> <scope> <mut…>                              -> digest difference at the receiver
      kind : msg | testreq | testrep | close | ctrl (B -> A) | rmsg (X -> R -> A) | fwd (X -> R, receiver R)
      src  : own | other | mynet        (underlay source address the datagram is injected from)
      scope: out  (the datagram itself is mutated)
             lie  (rmsg only: the relay rewrites the relayed payload and seals it again with its own key)
      mut  : none | replay | flipbody <permille> <bit> | trunc <len> | settype t | setver v | setsub s |
             setres v | setidx <B|R|X|rB|relay|zero|unknown> | ctr <delta>
  recverr <idxsym> <src>                                       -> digest difference at A
  hsdup <src> <relay|flip|direct> [X|B]                        -> digest difference at A: after the relayed tunnel X-A
      completed, the relay hands A the stage-0 handshake packet of X once more in a fresh relay frame
      (byte-identical, or with one bit flipped)
  xdirect <own|other> <allow|deny>                             -> `tun=<n> remote=<E|relay|elsewhere|none> lrelay=<0|1> xr=<0|1>`: A's
      hostinfo for X is given the direct remote E, an authentic packet of X arrives through the relay, the remote and
      the learned addresses of X are read back (then the tunnel is made relay-only again)
  reply                                                        -> digest difference at A when its tun emits a packet for X
answer: `tun=<n> out=<t/s>node,…> del=<peers> roam=<peers> in=<peers> win=<peers> rs=<peers> lh=<0|1> pend=<0|1> used=<n> ru=<names> seen=<0|1>`
        (`ru`: the relay indexes marked used, by name: `r<peer>` a relay index on the tunnel with <peer>,
         `<peer>` a hostinfo index, `zero`, `other`)
        (`seen`: the datagram handed to the relay contained the end-to-end plaintext;
         `xr`: A's hostinfo for X — a relay-only tunnel — has a direct underlay remote)

The AEAD oracle is instantiated *by construction*: a level authenticates iff its header and body are
exactly what the tunnel's peer sealed (no mutation touched it), it arrives on that tunnel's index, and it
is not a replay.
-/
import Nebula.Driver.Common
import Nebula.Model.Outside
import Nebula.Spec.Outside
import Nebula.Model.ViaRemote

namespace Nebula.Driver.Outside
open Nebula.Driver Nebula.Outside Nebula.Gen

structure St where
  live : List Nat := [1, 2, 3]                 -- A's live tunnels (peer node numbers)
  cur : List (Nat × String) := []              -- (receiver*10+peer) ↦ current underlay remote, default "own"
  lastRoam : List (Nat × String) := []         -- (receiver*10+peer) ↦ lastRoamRemote
  ctrlDone : Bool := false
  accept : Bool := true
  sendErr : Bool := true
  ready : Bool := false
  pref : String := "none"                      -- A's preferred_ranges configuration
  bRelayTo : Bool := false                     -- A's hostinfo for B already lists R in relayState.relays
  xGhost : Bool := false                       -- X's tunnel was closed at A and then re-created from the re-delivered stage-0 (X itself still uses the old one)
  xPending : Bool := false                     -- A has a pending handshake for X
  recDis : Bool := false                       -- the Terminal relay record on A's tunnel with R is Disestablished
  front : List (Nat × String) := []            -- (receiver*10+peer) ↦ most recently learned underlay address (default "own")
  lhRoam : Bool := false                       -- the last op's roaming changed the learned-address list
  deriving Repr

def lookupS (l : List (Nat × String)) (k : Nat) : Option String := (l.find? (·.1 == k)).map (·.2)
def setS (l : List (Nat × String)) (k : Nat) (v : String) : List (Nat × String) := (k, v) :: l.filter (·.1 != k)

def St.curOf (s : St) (rx p : Nat) : String := (lookupS s.cur (rx * 10 + p)).getD "own"
def St.frontOf (s : St) (rx p : Nat) : String := (lookupS s.front (rx * 10 + p)).getD "own"

structure SymHdr where
  ver : Nat := 1
  type : Nat
  sub : Nat
  res : Nat := 0
  idx : String
  ctr : Int := 0
  bodyTouched : Bool := false
  len : Option Nat := none     -- truncated length
  replay : Bool := false
  deriving DecidableEq, Repr

def applyMut (h : SymHdr) : List String → Option SymHdr
  | ["none"] => some h
  | ["replay"] => some { h with replay := true }
  | ["flipbody", _, _] => some { h with bodyTouched := true }
  | ["trunc", n] => n.toNat?.map (fun n => { h with len := some n, bodyTouched := true })
  | ["settype", t] => t.toNat?.map (fun t => { h with type := t % 16 })
  | ["setver", v] => v.toNat?.map (fun v => { h with ver := v % 16 })
  | ["setsub", v] => v.toNat?.map (fun v => { h with sub := v % 256 })
  | ["setres", v] => v.toNat?.map (fun v => { h with res := v % 65536 })
  | ["setidx", s] => some { h with idx := s }
  | ["ctr", d] => d.toInt?.map (fun d => { h with ctr := d })
  | _ => none

def peerName : Nat → String
  | 1 => "B" | 2 => "R" | 3 => "X" | _ => "?"

def setStr (l : List String) : String := if l.isEmpty then "-" else ",".intercalate l

def insertStr (x : String) : List String → List String
  | [] => [x]
  | y :: ys => if x ≤ y then x :: y :: ys else y :: insertStr x ys
def sortStr (l : List String) : List String := l.foldr insertStr []
def dedup (l : List String) : List String := l.foldr (fun x acc => if acc.contains x then acc else x :: acc) []

/-- node a reply to the hostinfo `p` of receiver `rx` is written to (‑1: an address nobody owns). -/
def replyNode (s : St) (rx p : Nat) : String :=
  if rx == 0 && p == 3 then (if s.curOf 0 2 == "own" then "2" else "-1")      -- via the relay R
  else if s.curOf rx p == "own" then toString p else "-1"

def render (s : St) (rx sender : Nat) (src : String) (effs : List Effect) (rsPeers : List String)
    (extraOut : List String := []) (extraUsed : Nat := 0) (extraDel : List String := []) (forceLh : Bool := false)
    (pend : Bool := false) : String :=
  let tun := (effs.filter (fun e => match e with | .deliver _ => true | _ => false)).length
  let out := effs.filterMap (fun e => match e with
    | .testReply p => some ((if rx == 0 && p == 3 then "1/1>" else "4/1>") ++ replyNode s rx p)
    | .control p => some ("6/0>" ++ replyNode s rx p)
    | .forward t _ => some ("1/1>" ++ toString t)
    | .sendRecvError _ => some ("2/0>" ++ (if src == "own" then toString sender else "-1"))
    | _ => none)
  let out := out ++ extraOut
  let del := effs.filterMap (fun e => match e with
    | .close p => some (peerName p) | .recvErrorClose p => some (peerName p) | _ => none)
  let roam := effs.filterMap (fun e => match e with | .roam p => some (peerName p) | _ => none)
  let roam := roam.filter (fun p => !del.contains p)
  let inn := effs.filterMap (fun e => match e with | .markIn p => some (peerName p) | _ => none)
  let inn := inn.filter (fun p => !del.contains p)
  let used := (effs.filter (fun e => match e with | .relayUsed _ => true | .forward _ _ => true | _ => false)).length
  -- names of the relay indexes marked used: the carrying index lives on the tunnel with the relay (R at
  -- receiver A, X at receiver R); a forward goes out on R's relay index towards A; `reply` uses A's index on R
  let ru := effs.filterMap (fun e => match e with
    | .relayUsed _ => some (if rx == 0 then "rR" else "rX")
    | .forward _ _ => some "rA"
    | _ => none)
  let ru := ru ++ (if extraUsed > 0 then ["rR"] else [])
  let lh := (!roam.isEmpty && s.lhRoam) || !del.isEmpty || forceLh
  let del := del ++ extraDel
  s!"tun={tun} out={setStr (sortStr out)} del={setStr (sortStr (dedup del))} roam={setStr (sortStr roam)} in={setStr (sortStr (dedup inn))} win={setStr (sortStr (dedup inn))} rs={setStr rsPeers} lh={boolStr lh} pend={boolStr pend} used={used + extraUsed} ru={setStr (sortStr (dedup ru))} seen=0 xr=0"

/-- lookups of one level at receiver `rx`. `own` = the peer whose tunnel sealed this level. -/
def mkLook (s : St) (rx : Nat) (relayedLevel : Bool) (src : String) (h base : SymHdr) (own : Nat)
    (innerRelayRec : Option RelayL) : Hdr × Look :=
  let isRelayMsg := h.type == header_Message && h.sub == header_MessageRelay
  let hostPeer : Option Nat :=
    if rx == 0 then
      if isRelayMsg then (if h.idx == "relay" && s.live.contains 2 then some 2 else none)
      else if h.idx == "B" && s.live.contains 1 then some 1
      else if h.idx == "R" && s.live.contains 2 then some 2
      else if h.idx == "X" && s.xGhost && own == 3 && base.idx == "X" then none   -- X's own packets still carry the old index
      else if h.idx == "X" && (s.live.contains 3 || s.xGhost) then some 3
      else none
    else
      if isRelayMsg && h.idx == "rfwd" then some 3 else none
  let same := h == base
  let wouldRoam (p : Nat) : Bool :=
    !(rx == 0 && p == 3) && src != s.curOf rx p && lookupS s.lastRoam (rx * 10 + p) != some src
  let host : Option HostL := hostPeer.map (fun p =>
    { id := p, wouldRoam := wouldRoam p, relayRec := if isRelayMsg then innerRelayRec else none })
  let parseOK := match h.len with | some n => n ≥ 16 | none => true
  let lenGt1 := match h.len with | some n => n > 1 | none => true
  let recvErr : RecvErrL :=
    { accept := s.accept
      host := if rx == 0 && h.idx == "rB" && s.live.contains 1 then some 1 else none
      remoteOK := s.curOf 0 1 == src }
  ({ ver := h.ver, type := h.type, sub := h.sub, idx := 0 },
   { parseOK := parseOK, lenGt1 := lenGt1, fromMyNet := !relayedLevel && src == "mynet", host := host,
     sendRecvErr := if rx == 0 then s.sendErr else false,
     longEnough := true, authOK := same && hostPeer == some own, fw := .pass, recvErr := recvErr })

def kindInfo : String → Option (Nat × Nat × SymHdr × Option SymHdr)
  | "msg" => some (0, 1, { type := 1, sub := 0, idx := "B" }, none)
  | "testreq" => some (0, 1, { type := 4, sub := 0, idx := "B" }, none)
  | "testrep" => some (0, 1, { type := 4, sub := 1, idx := "B" }, none)
  | "close" => some (0, 1, { type := 5, sub := 0, idx := "B" }, none)
  | "ctrl" => some (0, 1, { type := 6, sub := 0, idx := "B" }, none)
  | "rmsg" => some (0, 2, { type := 1, sub := 1, idx := "relay" }, some { type := 1, sub := 0, idx := "X" })
  | "rclose" => some (0, 2, { type := 1, sub := 1, idx := "relay" }, some { type := 5, sub := 0, idx := "X" })
  | "fwd" => some (2, 3, { type := 1, sub := 1, idx := "rfwd" }, none)
  | _ => none

/-- apply the state changes the effects imply. -/
def advance (s : St) (rx : Nat) (src : String) (effs : List Effect) : St :=
  effs.foldl (fun s e => match e with
    | .roam p => { s with lastRoam := setS s.lastRoam (rx * 10 + p) (s.curOf rx p), cur := setS s.cur (rx * 10 + p) src,
                          -- SetRemote → LearnRemote: the learned list changes unless this address is already its head
                          lhRoam := s.lhRoam || s.frontOf rx p != src, front := setS s.front (rx * 10 + p) src }
    | .close p => if rx == 0 then { s with live := s.live.filter (· != p), recDis := s.recDis || p == 3 } else s
    | .recvErrorClose p => if rx == 0 then { s with live := s.live.filter (· != p) } else s
    | .control _ => { s with ctrlDone := true }
    | _ => s) { s with lhRoam := false }

/-- property oracle on the implementation's answer: when no level of the datagram is authentic, the
receiver's state must not change and nothing may be delivered or sent, except a recv_error reply
(`2/0`) — and, for the unencrypted-by-design recv_error type, exactly what the carve-out admits. -/
def noEffectVerdict (impl : String) (allowRecvErrReply : Bool) : String :=
  let toks := impl.splitOn " "
  let get (k : String) : String := ((toks.find? (·.startsWith (k ++ "="))).getD (k ++ "=?")).drop (k.length + 1) |>.toString
  if get "tun" != "0" then "bad unauth-delivered"
  else if get "del" != "-" then "bad unauth-tunnel-closed"
  else if get "roam" != "-" then "bad unauth-roamed"
  else if get "in" != "-" || get "win" != "-" || get "used" != "0" then "bad unauth-liveness"
  else if get "rs" != "-" then "bad unauth-relay-state"
  else if get "lh" != "0" || get "pend" != "0" then "bad unauth-lighthouse-state"
  else if get "seen" != "0" then "bad relay-saw-plaintext"
  else if get "out" == "-" then "ok"
  else if allowRecvErrReply && ((get "out").splitOn ",").all (·.startsWith "2/0>") then "ok"
  else "bad unauth-reply-sent"

/-- C15 attribution oracle for the relay-only tunnel X-A, applied to every answer of receiver A: whatever
arrived through a relay (`ViaSender{IsRelayed}`: roaming, handshake retransmits, LearnRemote, handshake
completion) must never make A record an underlay address for X, and whatever A emits while only traffic
for X is in flight must be a Message/Relay frame (`1/1`), never a bare packet. -/
def relayOnlyVerdict (impl : String) (onlyRelayFrames : Bool) (noRoam : List String := ["X"]) : String :=
  let toks := impl.splitOn " "
  let get (k : String) : String := ((toks.find? (·.startsWith (k ++ "="))).getD (k ++ "=?")).drop (k.length + 1) |>.toString
  if onlyRelayFrames && get "out" != "-" && !(((get "out").splitOn ",").all (·.startsWith "1/1>")) then
    "bad e2e-packet-left-relay-tunnel"
  else if get "xr" == "1" || ((get "roam").splitOn ",").any (noRoam.contains ·) then "bad relayed-via-recorded-as-remote"
  else "ok"

def andVerdict (a b : String) : String := if a == "ok" then b else a

/-- C14 relay-usage oracle for an AUTHENTIC outer relay frame received by A on its relay index with R
(`rR`): the frame marks exactly the index that carried it.  An inner packet that did not authenticate
must not add (or substitute) any other index (`Props.C14.unauth_inner_marks_only_carrier`). -/
def carrierOnlyVerdict (impl : String) (innerAuth : Bool) : String :=
  let toks := impl.splitOn " "
  let get (k : String) : String := ((toks.find? (·.startsWith (k ++ "="))).getD (k ++ "=?")).drop (k.length + 1) |>.toString
  let ru := (get "ru").splitOn ","
  if ru.any (fun x => x != "rR" && x != "-") then
    (if innerAuth then "bad relay-used-wrong-index" else "bad unauth-inner-marked-relay-used")
  else if !ru.contains "rR" then "bad relay-used-not-marked"
  else "ok"

def evalPkt (s : St) (kind src scope : String) (mutArgs : List String) (impl : String) : St × Out :=
  match kindInfo kind with
  | none => (s, badOp)
  | some (rx, sender, outerBase, innerBase) =>
    let lie := scope == "lie" && (kind == "rmsg" || kind == "rclose")
    -- symbolic headers after mutation
    let outerM := if lie then some outerBase else applyMut outerBase mutArgs
    let innerM := match innerBase with
      | some ib => if lie then applyMut ib mutArgs else some ib
      | none => none
    match outerM with
    | none => (s, badOp)
    | some oh =>
      if lie && innerM.isNone then (s, badOp) else
      -- a replayed / out-mutated relay datagram: the inner level is never reached unless outer is authentic
      let innerPkt : Option Pkt := match innerBase, innerM with
        | some ib, some ih =>
          let ih := if oh.replay then { ih with replay := true } else ih
          let (h2, l2) := mkLook s rx true src ih ib 3 none
          some (.mk h2 l2 none)
        | _, _ => none
      let relayRec : Option RelayL :=
        if rx == 0 then some { type := nebula_TerminalType, peer := 3 }
        else some { type := nebula_ForwardingType, peer := 0, fwd := .forward 0 0 }
      let (h1, l1) := mkLook s rx false src oh outerBase sender relayRec
      let pkt := Pkt.mk h1 l1 innerPkt
      let effs := readOutside false pkt
      let rs := if effs.any (fun e => match e with | .control _ => true | _ => false) && !s.ctrlDone then ["B"] else []
      -- closing the last tunnel to X disestablishes the relay record it was reached through (on R's hostinfo)
      let rs := if rx == 0 && effs.any (fun e => match e with | .close 3 => true | _ => false) then rs ++ ["R"] else rs
      let s' := advance s rx src effs
      let model := render s' rx sender src effs rs
      let anyAuth := (Spec.Outside.levels pkt).any (fun hl => hl.2.authOK)
      let outerAuth := l1.authOK
      let innerAuth := match innerPkt with | some (.mk _ l2 _) => l2.authOK | none => false
      let unencrypted := oh.type == header_Handshake || oh.type == header_RecvError
      -- the outer level reached `handleOutsideRelayPacket` (not dropped before the lookup, e.g. a source inside our own networks)
      let carried := effs.any (fun e => match e with | .relayUsed _ => true | _ => false)
      let carrierOnlyVerdict := fun (impl : String) (ia : Bool) => if carried then carrierOnlyVerdict impl ia else "ok"
      let verdict :=
        if unencrypted then "ok"
        else if !outerAuth then noEffectVerdict impl true
        else if innerBase.isSome && !innerAuth then
          -- the relay's own tunnel may be marked alive / used; nothing may be delivered, closed, or attributed
          (let toks := impl.splitOn " "
           let get (k : String) : String := ((toks.find? (·.startsWith (k ++ "="))).getD (k ++ "=?")).drop (k.length + 1) |>.toString
           if get "tun" != "0" then "bad unauth-inner-delivered"
           else if get "del" != "-" then "bad unauth-inner-tunnel-closed"
           else if ((get "in").splitOn ",").contains "X" || ((get "win").splitOn ",").contains "X" then "bad unauth-inner-attributed"
           else if get "rs" != "-" then "bad unauth-relay-state"
           else carrierOnlyVerdict impl false)
        else if innerBase.isSome && rx == 0 then carrierOnlyVerdict impl true
        else "ok"
      let tag :=
        if unencrypted then "pkt:unencrypted-type"
        else if anyAuth && (innerBase.isNone || innerAuth) then s!"pkt:authentic-{kind}"
        else if outerAuth then s!"pkt:inner-forged-{kind}"
        else if l1.host.isNone then s!"pkt:forged-unknown-index"
        else s!"pkt:forged-{kind}-{mutArgs.headD ""}"
      (s', { model := model, verdict := andVerdict verdict (if rx == 0 then relayOnlyVerdict impl false else "ok"), tag := tag })


-- concrete underlay addresses of the cluster (harness/relaynet): node i is 192.0.2.(i+1):4242
def v4 (a b c d : Nat) : Nebula.Net.Addr := { fam := .v4, val := ((a * 256 + b) * 256 + c) * 256 + d }
def srcAddr (src : String) (sender : Nat) : Nebula.ViaRemote.AddrPort :=
  if src == "other" then (v4 198 51 100 7, 999)
  else if src == "mynet" then (v4 10 0 0 77, 4242)
  else (v4 192 0 2 (sender + 1), 4242)
def prefList (p : String) : List Nebula.Net.Prefix :=
  if p == "relay" then [{ addr := v4 192 0 2 3, len := 32 }]
  else if p == "peer" then [{ addr := v4 192 0 2 2, len := 32 }]
  else if p == "other" then [{ addr := v4 198 51 100 0, len := 24 }]
  else if p == "all" then [{ addr := v4 192 0 2 0, len := 24 }, { addr := v4 198 51 100 0, len := 24 }]
  else []
def maskLh (s : String) : String := (s.replace " lh=0" " lh=x").replace " lh=1" " lh=x"

/-- `hsdup … B`: B's stage-0 packet (direct tunnel, A responder) arrives again — through the relay in a
fresh relay frame (`relay` / `flip`) or bare from `src` (`direct`). ErrAlreadySeen → `SetRemoteIfPreferred`
(model `Nebula.ViaRemote.setRemoteIfPreferred`) → cached response re-sent the way the packet came in. -/
def evalHsdupB (s : St) (src mode : String) (impl : String) : St × Out :=
  if !s.live.contains 1 then (s, { model := "no-tunnel", tag := "triv:hsdup-no-tunnel" }) else
  let relayed := mode != "direct"
  let curSym := s.curOf 0 1
  let hostR : Nebula.ViaRemote.HostR :=
    { remote := some (srcAddr curSym 1), lastRoamRemote := (lookupS s.lastRoam 1).map (srcAddr · 1) }
  let via : Nebula.ViaRemote.Via := { udp := srcAddr src (if relayed then 2 else 1), isRelayed := relayed }
  let (hostR', changed) := Nebula.ViaRemote.setRemoteIfPreferred (prefList s.pref) hostR via
  let moved := changed && hostR'.remote != hostR.remote
  if relayed then
    let oh : SymHdr := { type := 1, sub := 1, idx := "relay" }
    let (h2, l2) := mkLook s 0 true src { type := 0, sub := 0, idx := "zero" } { type := 0, sub := 0, idx := "zero" } 1 none
    let (h1, l1) := mkLook s 0 false src oh oh 2 (some { type := nebula_TerminalType, peer := 3 })
    let effs := readOutside false (.mk h1 l1 (some (.mk h2 l2 none)))
    let reached := effs.any (fun e => match e with | .handshakeIn => true | _ => false)
    let dup := reached && mode == "relay"
    let s' := advance s 0 src effs
    let s' := if dup then { s' with bRelayTo := true, recDis := false } else s'
    let extra := if dup then ["1/1>" ++ replyNode s' 0 3] else []
    -- by `relayed_via_keeps_remote` the model never moves B here; `moved` is false
    let effs' := if dup && moved then effs ++ [Effect.roam 1] else effs
    let model := render s' 0 2 src effs' ((if dup && !s.bRelayTo then ["B"] else []) ++ (if dup && s.recDis then ["R"] else [])) extra
    (s', { model := model, verdict := relayOnlyVerdict impl true ["X", "B"],
           tag := if !reached then "hsdupB:not-reached" else if dup then s!"hsdupB:already-seen-pref-{s.pref}" else "hsdupB:garbled" })
  else
    let (h1, l1) := mkLook s 0 false src { type := 0, sub := 0, idx := "zero" } { type := 0, sub := 0, idx := "zero" } 1 none
    let effs := readOutside false (.mk h1 l1 none)
    let reached := effs.any (fun e => match e with | .handshakeIn => true | _ => false)
    let effs' := if reached && moved then effs ++ [Effect.roam 1] else effs
    let s' := advance s 0 src effs'
    -- the fresh hostinfo of the duplicate handshake learns the source address (shared remote list)
    let s' := if reached then { s' with front := setS s'.front 1 src } else s'
    let node := if src == "own" then "1" else "-1"
    let extra := if reached then (if moved then ["4/0>" ++ node] else []) ++ ["0/0>" ++ node] else []
    let model := maskLh (render s' 0 1 src effs' [] extra)
    (s', { model := model, verdict := "ok",
           tag := if !reached then "hsdupB:direct-not-reached" else if moved then "hsdupB:direct-moved-to-preferred" else "hsdupB:direct-kept" })

def step (s : St) (args : List String) (impl : String) : St × Out :=
  match args with
  | "reset" :: _ :: acc :: snd :: prefArg =>
    ({ accept := acc == "always", sendErr := snd == "always", ready := true, pref := prefArg.headD "none" },
     { model := "ok 1 xr=0",
       verdict := if impl == "ok 1 xr=1" then "bad relayed-via-recorded-as-remote handshake-completion" else expect "reset" impl "ok 1 xr=0",
       tag := "triv:reset" })
  | "pkt" :: kind :: src :: scope :: mutArgs =>
    if !s.ready then (s, badOp) else
    -- a replay is the second injection of the same datagram: the first (authentic) one happens first
    let s0 := if mutArgs == ["replay"] then (evalPkt s kind src scope ["none"] impl).1 else s
    evalPkt s0 kind src scope mutArgs impl
  | ["hsdup", src, mode, "B"] =>
    if !s.ready then (s, badOp) else evalHsdupB s src mode impl
  | "hsdup" :: src :: mode :: _ =>
    if !s.ready then (s, badOp) else
    -- outer level: a fresh relay frame sealed by R (authentic on R's tunnel); inner level: X's stage-0
    -- handshake packet (type Handshake: unauthenticated by design, handled by the handshake manager)
    let oh : SymHdr := { type := 1, sub := 1, idx := "relay" }
    let (h2, l2) := mkLook s 0 true src { type := 0, sub := 0, idx := "zero" } { type := 0, sub := 0, idx := "zero" } 3 none
    let (h1, l1) := mkLook s 0 false src oh oh 2 (some { type := nebula_TerminalType, peer := 3 })
    let effs := readOutside false (.mk h1 l1 (some (.mk h2 l2 none)))
    let s' := advance s 0 src effs
    -- a byte-identical stage-0 of a completed tunnel (ErrAlreadySeen): the cached response is sent again,
    -- through the relay it came in on; a garbled one fails Noise and is dropped
    let reached := effs.any (fun e => match e with | .handshakeIn => true | _ => false)
    let dup := reached && mode == "relay"
    let extra := if dup then ["1/1>" ++ replyNode s' 0 3] else []
    -- no tunnel to X any more (closed): the replayed stage-0 builds a new relayed tunnel (that this is possible
    -- is C10's subject) and the relay record it arrived on is marked Established again
    let fresh := dup && !s.live.contains 3 && !s.xGhost
    let s' := if fresh then { s' with xGhost := true } else s'
    -- sendHandshakeResponse through a relay marks the relay record Established again
    let rsR := if dup && s.recDis then ["R"] else []
    let s' := if dup then { s' with recDis := false } else s'
    let model := render s' 0 2 src effs rsR extra 0 (if fresh then ["+X"] else []) fresh
    (s', { model := model, verdict := relayOnlyVerdict impl true,
           tag := if !reached then "hsdup:not-reached" else if fresh then "hsdup:reestablish-over-relay"
                  else if mode == "relay" then "hsdup:already-seen" else "hsdup:garbled" })
  | ["xdirect", _, allow] =>
    if !s.ready then (s, badOp) else
    if !s.live.contains 3 && !s.xGhost then (s, { model := "no-tunnel", tag := "triv:xdirect-no-tunnel" }) else
    -- A's hostinfo for X holds the direct remote E; an AUTHENTIC data packet of X arrives through the relay
    -- (`ViaSender{UdpAddr: R's address, IsRelayed}`): `Nebula.ViaRemote.handleHostRoaming` keeps the remote
    -- (`Props.C15.relayed_via_never_roams`), nothing is learned.  (X's own packets still carry the old index
    -- after a re-created tunnel: then nothing is delivered.)
    let hostR : Nebula.ViaRemote.HostR := { remote := some (srcAddr "other" 3), lastRoamRemote := none }
    let via : Nebula.ViaRemote.Via := { udp := srcAddr "own" 2, isRelayed := true }
    let kept := (Nebula.ViaRemote.handleHostRoaming (allow != "deny") false hostR via).remote == hostR.remote
    let tun := if s.xGhost then 0 else 1
    let model := s!"tun={tun} remote={if kept then "E" else "relay"} lrelay=0 xr=0"
    let toks := impl.splitOn " "
    let get (k : String) : String := ((toks.find? (·.startsWith (k ++ "="))).getD (k ++ "=?")).drop (k.length + 1) |>.toString
    let verdict :=
      if get "remote" != "E" then "bad relayed-packet-changed-remote"
      else if get "lrelay" != "0" then "bad relayed-via-recorded-as-remote learned"
      else if get "xr" != "0" then "bad relayed-via-recorded-as-remote"
      else "ok"
    (s, { model := model, verdict := verdict, tag := s!"xdirect:{if tun == 1 then "delivered" else "not-delivered"}" })
  | ["reply"] =>
    if !s.ready then (s, badOp) else
    if !s.live.contains 3 && !s.xGhost then
      -- no tunnel to X: the packet is cached behind a (new) pending handshake, nothing leaves
      let model := render s 0 0 "own" [] [] [] 0 [] false (!s.xPending)
      ({ s with xPending := true }, { model := model, verdict := relayOnlyVerdict impl true, tag := "reply:no-tunnel" })
    else
    -- sendInsideMessage relay branch: X has no direct remote, so the packet leaves as a relay frame to R
    let model := render s 0 0 "own" [] [] ["1/1>" ++ replyNode s 0 3] 1
    (s, { model := model, verdict := relayOnlyVerdict impl true, tag := "reply:relayed" })
  | ["recverr", idx, src] =>
    if !s.ready then (s, badOp) else
    let h : SymHdr := { type := 2, sub := 0, idx := idx }
    let (h1, l1) := mkLook s 0 false src h h 1 none
    let effs := readOutside false (.mk h1 l1 none)
    let s' := advance s 0 src effs
    let model := render s' 0 1 src effs []
    -- carve-out oracle: a tunnel may be closed only if accept_recv_error admits it, the index is B's,
    -- and the source is the tunnel's current remote
    let allowed := s.accept && idx == "rB" && s.live.contains 1 && s.curOf 0 1 == src && src != "mynet"
    let toks := impl.splitOn " "
    let get (k : String) : String := ((toks.find? (·.startsWith (k ++ "="))).getD (k ++ "=?")).drop (k.length + 1) |>.toString
    let verdict :=
      if get "del" == "-" then noEffectVerdict impl false
      else if allowed && get "del" == "B" && get "tun" == "0" then "ok"
      else "bad recverr-closed-outside-carveout"
    (s', { model := model, verdict := andVerdict verdict (relayOnlyVerdict impl false), tag := if effs.isEmpty then "recverr:ignored" else "recverr:closed" })
  | _ => (s, badOp)

def main : IO Unit := runEngine ({} : St) step

end Nebula.Driver.Outside
