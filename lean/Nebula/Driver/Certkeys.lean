/-
Line-protocol engine `certkeys` (C43): key PEM banners and encrypted signing keys.

ops (banners are hex of the banner text):
  unkey <fn pub|spub|priv|spriv> <banner hex> <bytes hex|->  -> ok <curve> <len> | err:banner | err:length | err:encrypted
  mkey <fn pub|spub|priv|spriv|enc> <curve>                   -> <banner hex> | nil
  dec <banner hex> <pass hex|-> <body hex|-> <aead 0|1> <plain hex|-> <kind orig|wrongpass|tampered|kdfparam|crafted> <origkey hex|->
      -> ok <curve> <key hex> | err:<kind>
      aead / plain: what AES-256-GCM open answers for this (passphrase, parameters, blob) — computed by the harness's
      own implementation of the format (x/crypto argon2 + crypto/cipher), re-validated by the executor
  enc <curve> <pass hex|-> <key hex|-> <mem> <par> <iter>
      -> ok <curve> <key hex> <mem> <par> <iter> <salt length> | err:curve | err:indep-open …
  kdftamper …  see Driver/KeysKdfParams.lean
-/
import Nebula.Driver.Common
import Nebula.Model.CertKeys
import Nebula.Driver.KeysKdfParams

namespace Nebula.Driver.Certkeys
open Nebula.Driver Nebula.Cert Nebula.CertKeys

def bannerOf (hex : String) : Option String := (hexToBytes hex).map (fun b => String.fromUTF8! (ByteArray.mk b.toArray))

def strHex (s : String) : String := bytesToHex s.toUTF8.toList

def keyErrStr : KeyErr → String
  | .banner => "err:banner" | .length => "err:length" | .encrypted => "err:encrypted"

def decErrStr : DecErr → String
  | .pem => "err:pem" | .banner => "err:banner" | .empty => "err:empty" | .proto => "err:proto"
  | .noMetadata => "err:no-metadata" | .noArgon => "err:no-argon" | .version => "err:version" | .memory => "err:memory"
  | .parallelism => "err:parallelism" | .iterations => "err:iterations" | .algorithm => "err:algorithm"
  | .argonVersion => "err:argon-version" | .saltMissing => "err:salt-missing" | .saltShort => "err:salt-short"
  | .blobShort => "err:blob-short" | .aead => "err:aead" | .keyLength => "err:key-length"

def step (s : Unit) (args : List String) (impl : String) : Unit × Out :=
  match args with
  | ["unkey", fn, banner, hex] =>
    match bannerOf banner, hexToBytes hex with
    | some banner, some b =>
      let r := if fn == "pub" then unmarshalPublicKey banner b
               else if fn == "spub" then unmarshalSigningPublicKey banner b
               else if fn == "priv" then unmarshalPrivateKey banner b
               else unmarshalSigningPrivateKey banner b
      let m := match r with
        | .ok (k, c) => s!"ok {c} {k.length}"
        | .error e => keyErrStr e
      (s, { model := m, verdict := expect "key-pem" impl m, tag := s!"unkey:{fn}:" ++ ((m.splitOn " ").headD "") })
    | _, _ => (s, badOp)
  | ["mkey", fn, curve] =>
    match natArg curve with
    | some curve =>
      let r := if fn == "pub" then publicKeyBanner curve
               else if fn == "spub" then signingPublicKeyBanner curve
               else if fn == "priv" then privateKeyBanner curve
               else if fn == "spriv" then signingPrivateKeyBanner curve
               else encryptedKeyBanner curve
      let m := match r with | some b => strHex b | none => "nil"
      (s, { model := m, verdict := expect "key-banner" impl m, tag := s!"mkey:{fn}:{if m == "nil" then "nil" else "ok"}" })
    | none => (s, badOp)
  | ["dec", banner, pass, body, aead, plain, kind, orig] =>
    match bannerOf banner, hexToBytes pass, hexToBytes body, hexToBytes plain, hexToBytes orig with
    | some banner, some pass, some body, some plain, some orig =>
      let K : KeyCrypto := { kdf := fun _ _ => [], aeadSeal := fun _ _ m => m,
                             aeadOpen := fun _ _ _ => if aead == "1" then some plain else none }
      let m := match decrypt K pass banner body with
        | .ok (c, k) => s!"ok {c} {bytesToHex k}"
        | .error e => decErrStr e
      -- property: the right passphrase gives exactly the original key; anything else is refused or gives the same key
      let verdict :=
        if kind == "orig" then
          (if impl.startsWith "ok " && (impl.splitOn " ").getD 2 "" == bytesToHex orig then "ok"
           else s!"bad encrypted-key-not-recovered impl={impl}")
        else if kind == "kdfparam" then
          -- one of memory / iterations / parallelism / salt / nonce differs from what the key was sealed under
          (if impl.startsWith "ok " then "bad encrypted-key-opened-with-altered-kdf-parameter" else "ok")
        else if kind == "wrongpass" || kind == "tampered" then
          (if impl.startsWith "ok " && (impl.splitOn " ").getD 2 "" != bytesToHex orig then "bad encrypted-key-opened-to-other-key"
           else if kind == "wrongpass" && impl.startsWith "ok " then "bad encrypted-key-opened-with-wrong-passphrase"
           else "ok")
        else "ok"
      (s, { model := m, verdict := verdict, tag := s!"dec:{kind}:" ++ ((m.splitOn " ").headD "") })
    | _, _, _, _, _ => (s, badOp)
  | ["enc", curve, _pass, key, mem, par, iter] =>
    -- the real encryption, opened by the harness's second implementation of the format (x/crypto argon2 over the
    -- recorded parameters + AES-256-GCM): `ok <banner curve> <key> <memory> <parallelism> <iterations> <salt length>`
    match natArg curve, hexToBytes key, natArg mem, natArg par, natArg iter with
    | some curve, some key, some mem, some par, some iter =>
      let m := match encryptedKeyBanner curve with
        | none => "err:curve"
        | some _ => s!"ok {curve} {bytesToHex key} {mem} {par} {iter} 32"
      (s, { model := m, verdict := expect "encrypted-key-not-interoperable" impl m, tag := "enc:" ++ ((m.splitOn " ").headD "") })
    | _, _, _, _, _ => (s, badOp)
  | _ =>
    -- kdftamper (metadata binding): Driver/KeysKdfParams.lean
    match KeysKdfParams.step args impl with
    | some o => (s, o)
    | none => (s, badOp)

def main : IO Unit := runEngine () step

end Nebula.Driver.Certkeys
