/-
Line-protocol engine `remotelist` (C37). Ops: see harness/remotelist/engine_test.go.
-/
import Nebula.Driver.Common
import Nebula.Driver.NetArgs
import Nebula.Model.RemoteList
import Nebula.Spec.RemoteList

namespace Nebula.Driver.Remotelist
open Nebula.Driver Nebula.Net Nebula.RemoteList

def parseAP (s : String) : Option AP := (parseAddrPort s).map fun p => { addr := p.1, port := p.2 }
def showAP (a : AP) : String := showAddr a.addr ++ ":" ++ toString a.port

def parseList {α : Type} (f : String → Option α) (s : String) : Option (List α) :=
  if s == "-" then some [] else (s.splitOn ",").mapM f

def showList {α : Type} (f : α → String) (l : List α) : String :=
  if l.isEmpty then "-" else ",".intercalate (l.map f)

structure State where
  rl : Option RL := none
  /-- `none` = nil shouldAdd / accept-all check -/
  deny : Option (List Prefix) := none

def State.check (s : State) : Addr → Bool :=
  match s.deny with
  | none => fun _ => true
  | some d => fun x => !d.any (fun p => p.contains x)

def State.shouldAdd (s : State) : Option (List Addr → Addr → Bool) :=
  match s.deny with
  | none => none
  | some d => some (fun _ x => !d.any (fun p => p.contains x))

def showCache (c : List (Addr × OwnerCache)) : String :=
  let sorted := c.mergeSort (fun a b => !(b.1.lt a.1))
  if sorted.isEmpty then "-" else
  ";".intercalate (sorted.map fun e =>
    showAddr e.1 ++ "[L:" ++ showList showAP (e.2.v4l.toList ++ e.2.v6l.toList.map AP.out) ++
      "|R:" ++ showList showAP (e.2.v4r ++ e.2.v6r.map AP.out) ++ "|Y:" ++ showList showAddr e.2.relay ++ "]")

def ok (s : State) (r : RL) (tag : String) : State × Out :=
  ({ s with rl := some r }, { model := "ok", verdict := "ok", tag := tag })

def step (s : State) (args : List String) (impl : String) : State × Out :=
  match args with
  | ["reset", vpn, deny] =>
    match parseList parseAddr vpn, (if deny == "nil" then some none else (parseList parsePrefix deny).map some) with
    | some v, some d => ({ rl := some { vpnAddrs := v }, deny := d }, { model := "ok", tag := "triv:reset" })
    | _, _ => ({}, badOp)
  | op :: rest =>
    match s.rl with
    | none => (s, badOp)
    | some r =>
      match op, rest with
      | "learn", [o, a] =>
        match parseAddr o, parseAP a with
        | some o, some a => ok s (learn r o a) "op:learn"
        | _, _ => (s, badOp)
      | "setv4", [o, l] =>
        match parseAddr o, parseList parseAP l with
        | some o, some l => ok s (setV4 r o l s.check) "op:set"
        | _, _ => (s, badOp)
      | "setv6", [o, l] =>
        match parseAddr o, parseList parseAP l with
        | some o, some l => ok s (setV6 r o l s.check) "op:set"
        | _, _ => (s, badOp)
      | "prev4", [o, a] =>
        match parseAddr o, parseAP a with
        | some o, some a => ok s (prependV4 r o a) "op:prepend"
        | _, _ => (s, badOp)
      | "prev6", [o, a] =>
        match parseAddr o, parseAP a with
        | some o, some a => ok s (prependV6 r o a) "op:prepend"
        | _, _ => (s, badOp)
      | "setrelay", [o, l] =>
        match parseAddr o, parseList parseAddr l with
        | some o, some l => ok s (setRelay r o l) "op:set"
        | _, _ => (s, badOp)
      | "dns", [l] =>
        match parseList parseAP l with
        | some l => ok s (setDNS r l) "op:dns"
        | none => (s, badOp)
      | "cleardns", [] => ok s (clearHostnameResults r) "op:dns"
      | "resetowner", [o] =>
        match parseAddr o with
        | some o => ok s (resetForOwner r o) "op:resetowner"
        | none => (s, badOp)
      | "block", [a] =>
        match parseAP a with
        | some a => ok s (blockRemote r a false) "op:block"
        | none => (s, badOp)
      | "blockrelayed", [a] =>
        match parseAP a with
        | some a => ok s (blockRemote r a true) "op:block"
        | none => (s, badOp)
      | "unblock", [] => ok s (resetBlockedRemotes r) "op:unblock"
      | "refresh", [v] =>
        match parseList parseAddr v with
        | some v => ok s (refreshFromHandshake r v) "op:refresh"
        | none => (s, badOp)
      | "addrs", [p] =>
        match parseList parsePrefix p with
        | none => (s, badOp)
        | some pref =>
          let stale := !r.shouldRebuild
          let r' := rebuild r s.shouldAdd pref
          let want := Spec.RemoteList.refList pref (Spec.RemoteList.candidates r s.shouldAdd)
          let n := want.length
          ({ s with rl := some r' },
           { model := showList showAP r'.addrs,
             verdict := expect (if stale then "addrs-no-rebuild" else "addrs") impl (showList showAP want),
             tag := if n < 2 then "addrs:lt2" else if pref.isEmpty then "addrs:nopref" else
                      if want.any (fun a => isPreferred a.addr pref) then "addrs:pref-hit" else "addrs:pref-miss" })
      | "relays", [p] =>
        match parseList parsePrefix p with
        | none => (s, badOp)
        | some pref =>
          let r' := rebuild r s.shouldAdd pref
          -- the relay list is collected only when the cache changed: the reference is what the sources
          -- contributed at the last collection (tracked by the model state), see Props/C37
          let reported := if r.shouldRebuild then r.cache.flatMap (fun e => e.2.relay) else r.relays
          let want := Spec.RemoteList.refRelays reported
          ({ s with rl := some r' },
           { model := showList showAddr r'.relays, verdict := expect "relays" impl (showList showAddr want),
             tag := if want.length < 2 then "relays:lt2" else "relays" })
      | "cache", [] =>
        let m := showCache r.cache
        (s, { model := m, verdict := expect "cache-dump" impl m, tag := if r.cache.isEmpty then "triv:cache" else "cache" })
      | "blocked", [] =>
        let m := showList showAP r.badRemotes
        (s, { model := m, verdict := expect "blocked-dump" impl m, tag := if r.badRemotes.isEmpty then "triv:blocked" else "blocked" })
      | _, _ => (s, badOp)
  | _ => (s, badOp)

def main : IO Unit := runEngine ({} : State) step

end Nebula.Driver.Remotelist
