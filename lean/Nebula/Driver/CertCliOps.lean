/-
`clisign` op of the line-protocol engine `certsign` (C04): `signCert` of cmd/nebula-cert called in-process (the
repository's `verif` test hook, inside a testing/synctest bubble: `time.Now()` is 2000-01-01T00:00:00Z) against
`Model/CertCli.lean`. No `main` here: `Driver/Certsign.lean` hands every op it does not know to `cliStep`.

  clisign <ca.crt text> <ca.key text> <keymatches 0|1> <version> <duration ns> n<name> N<-networks> I<-ip> U<-unsafe-networks>
          S<-subnets> G<-groups> <-in-pub file text | none> <-out-key given 0|1> <parse oracle>
      -> err:<kind> | op-inconsistent
       | ok CERT(issuer `ca` = the CA's fingerprint; key and signature blanked) <key ok 0|1> <lowS 0|1|-> <verify at notBefore>
  texts / flag values are hex (`N` alone = flag not given); the parse oracle is `-` or a comma separated list of
  `<item hex>:<prefix | x>` — what `netip.ParsePrefix` answers for each distinct trimmed item (re-validated by the
  executor).
-/
import Nebula.Driver.CertArgs
import Nebula.Driver.Certverify
import Nebula.Model.CertCli

namespace Nebula.Driver.CertCliOps
open Nebula.Driver Nebula.Net Nebula.Cert Nebula.Spec.Trust Nebula.Driver.Certverify Nebula.CertCli

def invStrS : InvErr → String
  | .name => "name" | .emptyGroup => "empty-group" | .publicKey => "public-key" | .noNetworks => "no-networks" | .invalidNetwork => "invalid-network"
  | .zeroAddress => "zero-address" | .fourInSix => "4in6" | .v1IPv6 => "v1-ipv6" | .duplicateNetwork => "duplicate-network"
  | .invalidUnsafe => "invalid-unsafe" | .v1IPv6Unsafe => "v1-ipv6-unsafe" | .unsafeNeedsV6 => "unsafe-needs-v6"
  | .unsafeNeedsV4 => "unsafe-needs-v4" | .duplicateUnsafe => "duplicate-unsafe"

def signErrStrS : SignErr → String
  | .invalidCurve => "err:invalid-curve" | .keyParse => "err:key-parse" | .keyCurveMismatch => "err:key-curve"
  | .caSignedByAnother => "err:ca-by-ca" | .constraint e => "err:" ++ cerrStr e
  | .issuerFingerprint => "err:issuer-fingerprint" | .selfSignedNotCA => "err:self-not-ca"
  | .invalid e => "err:invalid:" ++ invStrS e | .unknownVersion => "err:unknown-version" | .marshal => "err:marshal"
  | .signer => "err:signer" | .normalize => "err:normalize" | .emptySignature => "err:empty-signature"
  | .tooLarge => "err:invalid:too-large"

def cliErrStr : CliErr → String
  | .nameRequired => "err:cli-name-required" | .inPubAndOutKey => "err:cli-inpub-and-outkey"
  | .networksRequired => "err:cli-no-networks" | .badVersion => "err:cli-bad-version"
  | .caKeyEncrypted => "err:cli-ca-key-encrypted" | .caKeyParse => "err:cli-ca-key" | .caCrtParse => "err:cli-ca-crt"
  | .keyMismatch => "err:cli-key-mismatch" | .caExpired => "err:cli-ca-expired" | .badNetworks => "err:cli-bad-networks"
  | .badUnsafeNetworks => "err:cli-bad-unsafe-networks" | .inPubParse => "err:cli-inpub-parse" | .inPubCurve => "err:cli-inpub-curve"
  | .v1Single => "err:cli-v1-single" | .v1Networks6 => "err:cli-v1-ipv4" | .v1Unsafe6 => "err:cli-v1-unsafe-ipv4"
  | .invalidVersion => "err:cli-invalid-version" | .sign e => signErrStrS e

/-- the synctest epoch, 2000-01-01T00:00:00Z, in nanoseconds. -/
def epochNs : Int := 946684800000000000

def flagArg (tag : Char) (s : String) : Option Bytes := parseTagged tag s

def parseOracle (s : String) : Option (List (Bytes × Option Prefix)) :=
  optList (fun e =>
    match e.splitOn ":" with
    | [item, "x"] => (hexToBytes item).map (fun i => (i, none))
    | [item, p] => match hexToBytes item, parsePrefix p with
      | some i, some p => some (i, some p)
      | _, _ => none
    | _ => none) s

def cliStep (args : List String) (impl : String) : Out :=
  match args with
  | ["clisign", cacrt, cakey, keymatches, ver, dur, name, nets, ip, uns, subnets, groups, inpub, outkey, oracle] =>
    match hexToBytes cacrt, hexToBytes cakey, natArg ver, intArg dur, flagArg 'n' name, flagArg 'N' nets, flagArg 'I' ip,
          flagArg 'U' uns, flagArg 'S' subnets, flagArg 'G' groups,
          (if inpub == "none" then some none else (hexToBytes inpub).map some), parseOracle oracle with
    | some cacrt, some cakey, some ver, some dur, some name, some nets, some ip, some uns, some subnets, some groups,
      some inpub, some oracle =>
      let K : Crypto := { fingerprint := fun x => if x.isCA then some "ca" else some "issued", altFingerprint := fun _ => some "",
                          checkSig := fun _ _ => true }
      let E : SignEnv := { K := K, tbsBytes := fun _ => some [0], sign := fun _ => some [1], normalize := fun b => some b,
                           tooLarge := fun _ => false }
      let env : Env := { now := epochNs, caCrt := cacrt, caKey := cakey, keyMatches := keymatches == "1", keyParses := true,
                         parsePrefix := fun item => (oracle.lookup item).join, newPub := fun _ => [1] }
      let f : Flags := { version := ver, name := name, networks := nets, ip := ip, unsafeNetworks := uns, subnets := subnets,
                         groups := groups, duration := dur, inPub := inpub, outKeySet := outkey == "1" }
      let ca := caOf env
      let (m, tag) := match signCert E env f with
        | .error e => (cliErrStr e, "clisign:" ++ cliErrStr e)
        | .ok [c] =>
          let blank := { c with publicKey := [], signature := [] }
          let lowS := if c.curve == curveP256 then "1" else "-"
          let v := match ca with
            | none => "err:no-ca"
            | some ca =>
              let p := (({} : Pool).addCA K 0 ca).1
              match p.verifyCertificate K c.notBefore c with | .ok _ => "ok" | .error e => verrStr e
          (s!"ok {showCert blank} 1 {lowS} {v}",
           s!"clisign:ok:v{c.version}:{if dur ≤ 0 then "default-expiry" else "duration"}{if inpub.isSome then ":in-pub" else ""}")
        | .ok _ => ("model-emits-several", "clisign:several")
      -- the property (C04) on what the CLI did: whatever it wrote lies within the CA (validity window, groups, networks,
      -- unsafe networks), is not a CA, names the CA, matches its key, verifies under a pool holding the CA and is low-S;
      -- with no -duration it expires one second before the CA
      let verdict :=
        if impl.startsWith "PANIC" then "bad clisign-panic"
        else if impl.startsWith "err:refused-but-wrote" then "bad clisign-refused-but-wrote-certificate"
        else if impl.startsWith "ok " then
          match ca, parseCert ((impl.splitOn " ").drop 1) with
          | some ca, some (c, [keyOk, lowS, verify]) =>
            if !withinFieldsB ca c.notBefore c.notAfter c.groups c.networks c.unsafeNetworks then "bad clisign-issued-outside-ca"
            else if c.isCA then "bad clisign-issued-a-ca"
            else if c.issuer != "ca" then "bad clisign-issuer-is-not-the-ca"
            else if c.version != (if ver == 0 then ca.version else ver) then "bad clisign-version-not-as-requested"
            else if dur ≤ 0 && c.notAfter != ca.notAfter - 1000000000 then "bad clisign-default-expiry"
            else if c.version == 1 && !(c.networks.length == 1 && c.networks.all (·.addr.fam == Fam.v4) && c.unsafeNetworks.all (·.addr.fam == Fam.v4)) then
              "bad clisign-v1-shape"
            else if keyOk != "1" then "bad clisign-key-does-not-match"
            else if decide (c.notBefore ≤ c.notAfter) && verify != "ok" then s!"bad clisign-issued-does-not-verify {verify}"
            else if c.curve == curveP256 && lowS != "1" then "bad clisign-issued-high-s"
            else "ok"
          | none, _ => "bad clisign-issued-without-readable-ca"
          | _, _ => "bad clisign-answer-unparsable"
        else "ok"
      { model := m, verdict := verdict, tag := tag }
    | _, _, _, _, _, _, _, _, _, _, _, _ => badOp
  | _ => badOp

end Nebula.Driver.CertCliOps
