/-
Line-protocol engine `decrypt` (C12). Two tunnels: 0 = end-to-end tunnel, 1 = relay tunnel.
ops (t = thread id = one received UDP packet being handled by one goroutine):
  reset <windowLength>                 -> ok          (both tunnels get a fresh window of that length)
  pkt <t> <ctr> <kind>                 one layer on tunnel 0; kind: valid | forged | relabel (Decrypt),
                                       relay | relayforged (VerifyRelay)                          -> ok
  npkt <t> <ctrRelay> <ctrInner> <kind>  relay envelope on tunnel 1 carrying a direct packet for tunnel 0
                                       (VerifyRelay, then readOutsidePackets recurses into Decrypt);
                                       kind: ok | outerforged | innerforged                       -> ok
  step <t>   next atomic step of t     -> check:ok | check:seen | auth:ok | auth:fail | delivered | update:seen | noop
  full <t>   all layers as uninterrupted calls (thread must not have started)
                                       -> delivered | seen@<layer> | auth:fail@<layer> | noop
  burst <t0> <from> <n>                n authentic direct packets with counters from, from+1, … handled one
                                       after the other by threads t0, t0+1, … (each an uninterrupted Decrypt)
                                       -> `delivered=<k>`
  dump [<tunnel>]                      -> `<current> <bitmap words hex>` (default tunnel 0)
Oracle: the (tunnel, counter) pairs already acted upon; acting on one of them again, or on a layer that
does not authenticate, violates the property.
-/
import Nebula.Driver.Common
import Nebula.Model.Decrypt
import Nebula.Driver.Bits

namespace Nebula.Driver.Decrypt
open Nebula.Driver Nebula.Bits Nebula.Decrypt

structure S where
  m : Option State := none
  base : Option Bits := none
  pk : Nat → Pkt := fun _ => []
  /-- (tunnel, counter) acted upon so far (spec state) -/
  seen : List (Nat × Nat) := []

/-- same state with the window table re-tabulated (the engine only uses tunnels 0 and 1; every other
tunnel still has the window both started with), so that lookups do not walk a chain of updates -/
def flat (base : Bits) (m : State) : State :=
  let w0 := m.win 0
  let w1 := m.win 1
  { m with win := fun T => if T = 0 then w0 else if T = 1 then w1 else base }

def resStr : StepResult → String
  | .noop => "noop" | .checkOK => "check:ok" | .checkSeen => "check:seen" | .authOK => "auth:ok"
  | .authFail => "auth:fail" | .delivered => "delivered" | .updateSeen => "update:seen"

def layerVerdict (seen : List (Nat × Nat)) (ly : Layer) : String :=
  if !ly.authOK then s!"bad unauthenticated-delivered tunnel={ly.tunnel} ctr={ly.ctr.toNat}"
  else if seen.contains (ly.tunnel, ly.ctr.toNat) then s!"bad delivered-twice tunnel={ly.tunnel} ctr={ly.ctr.toNat}"
  else "ok"

/-- verdict on the claim that the first `n` layers of `p` were acted upon -/
def layersVerdict (seen : List (Nat × Nat)) (p : Pkt) (n : Nat) : String :=
  ((p.take n).foldl (fun (a : String × List (Nat × Nat)) ly =>
    if a.1 != "ok" then a else (layerVerdict a.2 ly, (ly.tunnel, ly.ctr.toNat) :: a.2)) ("ok", seen)).1

def note (s : S) (ly : Layer) (r : StepResult) : S :=
  if r == .delivered then { s with seen := (ly.tunnel, ly.ctr.toNat) :: s.seen } else s

/-- run thread `t` until it stops; returns the outcome string of `full` -/
def runFull (pk : Nat → Pkt) (s : S) (m : State) (t : Nat) (fuel : Nat) : S × State × String :=
  match fuel with
  | 0 => (s, m, "delivered")
  | fuel + 1 =>
    let li := (m.pc t).1
    match (pk t)[li]? with
    | none => (s, m, "delivered")
    | some ly =>
      let (m', r) := Nebula.Decrypt.step pk m t
      let s' := note s ly r
      match r with
      | .checkSeen | .updateSeen => (s', m', s!"seen@{li}")
      | .authFail => (s', m', s!"auth:fail@{li}")
      | _ => runFull pk s' m' t fuel

def step (s : S) (args : List String) (impl : String) : S × Out :=
  match args with
  | ["reset", len] =>
    match natArg len with
    | some n =>
      match (if n < 2 ^ 64 then newBits (BitVec.ofNat 64 n) else none) with
      | some b => ({ m := some (init (fun _ => b)), base := some b }, { model := "ok", tag := "triv:reset" })
      | none => (s, badOp)
    | none => (s, badOp)
  | ["pkt", t, c, kind] =>
    match natArg t, natArg c with
    | some t, some c =>
      if c ≥ 2 ^ 64 then (s, badOp) else
      let ok := kind == "valid" || kind == "relay"
      ({ s with pk := fun t' => if t' = t then [{ tunnel := 0, ctr := BitVec.ofNat 64 c, authOK := ok }] else s.pk t' },
       { model := "ok", tag := "triv:pkt" })
    | _, _ => (s, badOp)
  | ["npkt", t, cr, ce, kind] =>
    match natArg t, natArg cr, natArg ce with
    | some t, some cr, some ce =>
      if cr ≥ 2 ^ 64 || ce ≥ 2 ^ 64 then (s, badOp) else
      let p : Pkt := [{ tunnel := 1, ctr := BitVec.ofNat 64 cr, authOK := kind != "outerforged" },
                      { tunnel := 0, ctr := BitVec.ofNat 64 ce, authOK := kind != "innerforged" }]
      ({ s with pk := fun t' => if t' = t then p else s.pk t' }, { model := "ok", tag := "triv:npkt" })
    | _, _, _ => (s, badOp)
  | ["step", t] =>
    match natArg t, s.m with
    | some t, some m =>
      if (s.pk t).isEmpty then (s, badOp) else
      let li := (m.pc t).1
      match (s.pk t)[li]? with
      | none => (s, { model := "noop", tag := "triv:noop" })
      | some ly =>
        let (m', r) := Nebula.Decrypt.step s.pk m t
        let m' := match s.base with | some b => flat b m' | none => m'
        let dup := s.seen.contains (ly.tunnel, ly.ctr.toNat)
        (note { s with m := some m' } ly r,
         { model := resStr r, verdict := if impl == "delivered" then layerVerdict s.seen ly else "ok",
           tag := s!"step:{resStr r}" ++ (if (s.pk t).length > 1 then s!":nested{li}" else "") ++ (if dup then ":replay" else "") })
    | _, _ => (s, badOp)
  | ["full", t] =>
    match natArg t, s.m with
    | some t, some m =>
      if (s.pk t).isEmpty then (s, badOp) else
      if m.pc t != (0, PC.start) then (s, { model := "noop", tag := "triv:noop" }) else
      let (s', m', out) := runFull s.pk s m t (3 * (s.pk t).length + 1)
      let m' := match s.base with | some b => flat b m' | none => m'
      -- how many layers the implementation claims to have acted upon
      let claimed : Option Nat :=
        if impl == "delivered" then some (s.pk t).length
        else match impl.splitOn "@" with
          | [_, n] => n.toNat?
          | _ => none
      let verdict := match claimed with
        | some n => layersVerdict s.seen (s.pk t) n
        | none => if impl == "noop" then "ok" else "bad full-unparsable"
      let dup := (s.pk t).any (fun ly => s.seen.contains (ly.tunnel, ly.ctr.toNat))
      ({ s' with m := some m' },
       { model := out, verdict := verdict,
         tag := "full:" ++ out ++ (if (s.pk t).length > 1 then ":nested" else "") ++ (if dup then ":replay" else "") })
    | _, _ => (s, badOp)
  | ["burst", t0, from_, n] =>
    match natArg t0, natArg from_, natArg n, s.m with
    | some t0, some f, some n, some m =>
      if f + n > 2 ^ 64 then (s, badOp) else
      let pk' : Nat → Pkt := fun t =>
        if t0 ≤ t ∧ t < t0 + n then [{ tunnel := 0, ctr := BitVec.ofNat 64 (f + (t - t0)), authOK := true }] else s.pk t
      -- every thread of the burst starts fresh and runs to completion before the next one starts; the
      -- program counters are folded into one range test afterwards (same function, no closure chain)
      let start : Nat → Nat × PC := fun _ => (0, .start)
      let (acc, k, seen') := (List.range n).foldl (fun (a : State × Nat × List (Nat × Nat)) i =>
        let (m0, k, seen) := a
        let t := t0 + i
        let (m1, r1) := Nebula.Decrypt.step pk' { m0 with pc := start } t
        let (m2, r2) := if r1 == .checkOK then Nebula.Decrypt.step pk' m1 t else (m1, r1)
        let (m3, r3) := if r2 == .authOK then Nebula.Decrypt.step pk' m2 t else (m2, r2)
        let m3 := match s.base with | some b => flat b m3 | none => m3
        if r3 == .delivered then (m3, k + 1, (0, f + i) :: seen) else (m3, k, seen)) (m, 0, s.seen)
      let m' : State := { acc with pc := fun t => if t0 ≤ t ∧ t < t0 + n then (1, .start) else m.pc t }
      -- oracle: at most the counters of the burst that were never delivered before may be delivered
      let fresh := (List.range n).foldl (fun c i => if s.seen.contains (0, f + i) then c else c + 1) 0
      let verdict :=
        match impl.splitOn "=" with
        | ["delivered", ks] =>
          match ks.toNat? with
          | some ki => if ki > fresh then s!"bad delivered-twice burst from={f} n={n} delivered={ki} fresh={fresh}" else "ok"
          | none => "bad burst-unparsable"
        | _ => "bad burst-unparsable"
      ({ s with m := some m', pk := pk', seen := seen' },
       { model := s!"delivered={k}", verdict := verdict, tag := if k == n then "burst:all" else "burst:some" })
    | _, _, _, _ => (s, badOp)
  | "dump" :: rest =>
    match s.m with
    | some m =>
      let T := match rest with | [x] => x.toNat?.getD 0 | _ => 0
      (s, { model := Bits.dumpStr (m.win T), tag := s!"dump{T}" })
    | none => (s, badOp)
  | _ => (s, badOp)

def main : IO Unit := runEngine ({} : S) step

end Nebula.Driver.Decrypt
