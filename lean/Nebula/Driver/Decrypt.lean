/-
Line-protocol engine `decrypt` (C12).
ops (t = thread id = one received packet being handled by one goroutine):
  reset <windowLength>                 -> ok
  pkt <t> <ctr> <kind>                 kind: valid | forged | relabel | relay | relayforged   -> ok
  step <t>   next atomic step of t     -> check:ok | check:seen | auth:ok | auth:fail | delivered | update:seen | noop
  full <t>   the real Decrypt / VerifyRelay as one uninterrupted call (thread must not have started)
                                       -> delivered | seen | auth:fail | noop
  burst <t0> <from> <n>                n authentic direct packets with counters from, from+1, … handled one
                                       after the other by threads t0, t0+1, … (each an uninterrupted Decrypt)
                                       -> `delivered=<k>`
  dump                                 -> `<current> <bitmap words hex>`
Oracle: the list of counters already delivered on this tunnel; delivering one of them again, or
delivering a packet that does not authenticate, violates the property.
-/
import Nebula.Driver.Common
import Nebula.Model.Decrypt
import Nebula.Driver.Bits

namespace Nebula.Driver.Decrypt
open Nebula.Driver Nebula.Bits Nebula.Decrypt

structure S where
  m : Option State := none
  pk : Nat → Pkt := fun _ => { ctr := 0#64, authOK := false }
  known : Nat → Bool := fun _ => false
  /-- counters delivered so far (spec state) -/
  seen : List Nat := []

def resStr : StepResult → String
  | .noop => "noop" | .checkOK => "check:ok" | .checkSeen => "check:seen" | .authOK => "auth:ok"
  | .authFail => "auth:fail" | .delivered => "delivered" | .updateSeen => "update:seen"

def deliverVerdict (s : S) (t : Nat) (impl : String) : String :=
  if impl != "delivered" then "ok" else
  let p := s.pk t
  if !p.authOK then s!"bad unauthenticated-delivered ctr={p.ctr.toNat}"
  else if s.seen.contains p.ctr.toNat then s!"bad delivered-twice ctr={p.ctr.toNat}"
  else "ok"

def note (s : S) (t : Nat) (r : StepResult) : S :=
  if r == .delivered then { s with seen := (s.pk t).ctr.toNat :: s.seen } else s

def step (s : S) (args : List String) (impl : String) : S × Out :=
  match args with
  | ["reset", len] =>
    match natArg len with
    | some n =>
      match (if n < 2 ^ 64 then newBits (BitVec.ofNat 64 n) else none) with
      | some b => ({ m := some (init b) }, { model := "ok", tag := "triv:reset" })
      | none => (s, badOp)
    | none => (s, badOp)
  | ["pkt", t, c, kind] =>
    match natArg t, natArg c with
    | some t, some c =>
      if c ≥ 2 ^ 64 then (s, badOp) else
      let ok := kind == "valid" || kind == "relay"
      ({ s with pk := fun t' => if t' = t then { ctr := BitVec.ofNat 64 c, authOK := ok } else s.pk t',
                known := fun t' => t' = t || s.known t' },
       { model := "ok", tag := "triv:pkt" })
    | _, _ => (s, badOp)
  | ["step", t] =>
    match natArg t, s.m with
    | some t, some m =>
      if !s.known t then (s, badOp) else
      let (m', r) := Nebula.Decrypt.step s.pk m t
      let dup := s.seen.contains (s.pk t).ctr.toNat
      (note { s with m := some m' } t r,
       { model := resStr r, verdict := deliverVerdict s t impl,
         tag := if r == .noop then "triv:noop" else "step:" ++ resStr r ++ (if dup then ":replay" else "") })
    | _, _ => (s, badOp)
  | ["full", t] =>
    match natArg t, s.m with
    | some t, some m =>
      if !s.known t then (s, badOp) else
      if m.pc t != .start then (s, { model := "noop", tag := "triv:noop" }) else
      let (m1, r1) := Nebula.Decrypt.step s.pk m t
      let (m2, r2) := if r1 == .checkOK then Nebula.Decrypt.step s.pk m1 t else (m1, r1)
      let (m3, r3) := if r2 == .authOK then Nebula.Decrypt.step s.pk m2 t else (m2, r2)
      let out := match r3 with
        | .delivered => "delivered"
        | .authFail => "auth:fail"
        | _ => "seen"
      let dup := s.seen.contains (s.pk t).ctr.toNat
      (note { s with m := some m3 } t r3,
       { model := out, verdict := deliverVerdict s t impl,
         tag := "full:" ++ out ++ (if dup then ":replay" else "") })
    | _, _ => (s, badOp)
  | ["burst", t0, from_, n] =>
    match natArg t0, natArg from_, natArg n, s.m with
    | some t0, some f, some n, some m =>
      if f + n > 2 ^ 64 then (s, badOp) else
      let pk' : Nat → Pkt := fun t =>
        if t0 ≤ t ∧ t < t0 + n then { ctr := BitVec.ofNat 64 (f + (t - t0)), authOK := true } else s.pk t
      -- every thread of the burst starts fresh and runs to completion before the next one starts; the
      -- program counters are folded into one range test afterwards (same function, no closure chain)
      let start : Nat → PC := fun _ => .start
      let (acc, k, seen') := (List.range n).foldl (fun (a : State × Nat × List Nat) i =>
        let (m0, k, seen) := a
        let t := t0 + i
        let (m1, r1) := Nebula.Decrypt.step pk' { m0 with pc := start } t
        let (m2, r2) := if r1 == .checkOK then Nebula.Decrypt.step pk' m1 t else (m1, r1)
        let (m3, r3) := if r2 == .authOK then Nebula.Decrypt.step pk' m2 t else (m2, r2)
        if r3 == .delivered then (m3, k + 1, (f + i) :: seen) else (m3, k, seen)) (m, 0, s.seen)
      let m' : State := { acc with pc := fun t => if t0 ≤ t ∧ t < t0 + n then .done else m.pc t }
      -- oracle: at most the counters of the burst that were never delivered before may be delivered
      let fresh := (List.range n).foldl (fun c i => if s.seen.contains (f + i) then c else c + 1) 0
      let verdict :=
        match impl.splitOn "=" with
        | ["delivered", ks] =>
          match ks.toNat? with
          | some ki => if ki > fresh then s!"bad delivered-twice burst from={f} n={n} delivered={ki} fresh={fresh}" else "ok"
          | none => "bad burst-unparsable"
        | _ => "bad burst-unparsable"
      ({ s with m := some m', pk := pk', known := fun t => (t0 ≤ t && t < t0 + n) || s.known t, seen := seen' },
       { model := s!"delivered={k}", verdict := verdict, tag := if k == n then "burst:all" else "burst:some" })
    | _, _, _, _ => (s, badOp)
  | ["dump"] =>
    match s.m with
    | some m => (s, { model := Bits.dumpStr m.window, tag := "dump" })
    | none => (s, badOp)
  | _ => (s, badOp)

def main : IO Unit := runEngine ({} : S) step

end Nebula.Driver.Decrypt
