/-
Line-protocol engine `csum` (C25).
ops:
  sum <hex> <seed>                          explicit buffer
  pat <kind> <pseed> <len> <off> <seed>     patterned buffer of <len> bytes placed <off> bytes past a 64-byte
                                            boundary on the Go side (the model has no addresses)
     kind 0: 00…   1: ff…   2: ff 00 ff 00…   3: 00 ff 00 ff…   4: splitmix64(pseed) low bytes
          5: splitmix64 bytes with three quarters forced to ff (long carry chains)
  asmshape                                  instruction skeleton of checksum_amd64.s (structural tie, class avx2-asm-shape)
answer (both sides):  a=<checksumAVX2|na> d=<checksum.Checksum> g=<gvisor checksum.Checksum>
The oracle demands that each of the three equals the literal RFC 1071 specification; `a=na` (CPU
without AVX2: the assembly was not exercised) is reported, never passed.
-/
import Nebula.Driver.Common
import Nebula.Model.ChecksumAVX2
import Nebula.Spec.Rfc1071

namespace Nebula.Driver.Csum
open Nebula.Driver Nebula.ChecksumAVX2

def smNext (s : UInt64) : UInt64 × UInt64 :=
  let s := s + 0x9e3779b97f4a7c15
  let z := s
  let z := (z ^^^ (z >>> 30)) * 0xbf58476d1ce4e5b9
  let z := (z ^^^ (z >>> 27)) * 0x94d049bb133111eb
  (s, z ^^^ (z >>> 31))

def patLoop (kind : Nat) : Nat → Nat → UInt64 → List UInt8 → List UInt8
  | 0, _, _, acc => acc.reverse
  | n + 1, i, s, acc =>
    match kind with
    | 0 => patLoop kind n (i + 1) s (0 :: acc)
    | 1 => patLoop kind n (i + 1) s (0xff :: acc)
    | 2 => patLoop kind n (i + 1) s ((if i % 2 == 0 then 0xff else 0) :: acc)
    | 3 => patLoop kind n (i + 1) s ((if i % 2 == 0 then 0 else 0xff) :: acc)
    | 4 =>
      let (s, z) := smNext s
      patLoop kind n (i + 1) s (z.toUInt8 :: acc)
    | _ =>
      let (s, z) := smNext s
      patLoop kind n (i + 1) s ((if (z >>> 8) &&& 3 == 0 then z.toUInt8 else 0xff) :: acc)

def patBytes (kind pseed len : Nat) : List UInt8 :=
  patLoop kind len 0 (UInt64.ofNat pseed * 0x9e3779b97f4a7c15 + 0x1234567) []

def lenTag (n : Nat) : String :=
  if n == 0 then "len:0" else if n < 8 then "len:1-7" else if n < 32 then "len:8-31"
  else if n < 64 then "len:32-63" else if n < 128 then "len:64-127" else if n < 1024 then "len:128-1023"
  else "len:1024+"

def field (kv : String) (k : String) : Option String :=
  if kv.startsWith (k ++ "=") then some ((kv.drop (k.length + 1)).toString) else none

def answer (buf : List UInt8) (seed : Nat) (impl : String) (tag : String) : Out :=
  let a := checksumAVX2 buf seed
  let d := a   -- `dispatch true buf seed` unfolds to `checksumAVX2 buf seed`; not recomputed
  let g := Nebula.Csum.checksum buf seed
  let want := toString (Nebula.Spec.Rfc1071.checksum buf seed)
  let verdict :=
    match impl.splitOn " " with
    | [ia, id, ig] =>
      match field ia "a", field id "d", field ig "g" with
      | some ia, some id, some ig =>
        if ia == "na" then "bad avx2-not-exercised the CPU lacks AVX2; the assembly was not run"
        else if ia != want then s!"bad avx2-mismatch want={want} got={ia}"
        else if id != want then s!"bad dispatch-mismatch want={want} got={id}"
        else if ig != want then s!"bad fallback-mismatch want={want} got={ig}"
        else "ok"
      | _, _, _ => "bad csum-unparsable"
    | _ => "bad csum-unparsable"
  { model := s!"a={a} d={d} g={g}", verdict := verdict, tag := tag }

def step (s : Unit) (args : List String) (impl : String) : Unit × Out :=
  match args with
  | ["asmshape"] =>
    (s, { model := asmSkeleton, verdict := expect "avx2-asm-shape" impl asmSkeleton, tag := "asmshape" })
  | ["sum", hex, seed] =>
    match hexToBytes hex, natArg seed with
    | some b, some seed =>
      if seed < 65536 then (s, answer b seed impl ("sum:" ++ lenTag b.length)) else (s, badOp)
    | _, _ => (s, badOp)
  | ["pat", kind, pseed, len, _off, seed] =>
    match natArg kind, natArg pseed, natArg len, natArg seed with
    | some kind, some pseed, some len, some seed =>
      if seed < 65536 ∧ len ≤ 1048576 then
        (s, answer (patBytes kind pseed len) seed impl (s!"pat{kind}:" ++ lenTag len))
      else (s, badOp)
    | _, _, _, _ => (s, badOp)
  | _ => (s, badOp)

def main : IO Unit := runEngine () step

end Nebula.Driver.Csum
