/-
Line-protocol syntax for certificates (shared by the `cert*` / `pkireload` engines; core only).

A certificate descriptor is 12 tokens:
  <version> <curve> <isCA 0|1> <notBefore ns> <notAfter ns> <issuer|-> n<name hex> <networks> <unsafe> <groups> <pub hex|-> <sig hex|->
  networks / unsafe : `-` or comma separated `<addr hex>/<len>` (len 255 = invalid prefix, Go `Bits() = -1`)
  groups            : `-` or comma separated `g<hex>` (`g` alone is the empty group string)
-/
import Nebula.Driver.NetArgs
import Nebula.Model.Cert

namespace Nebula.Driver
open Nebula.Net Nebula.Cert

def optList {α : Type} (f : String → Option α) (s : String) : Option (List α) :=
  if s == "-" then some [] else (s.splitOn ",").mapM f

def parseTagged (tag : Char) (s : String) : Option Bytes :=
  match s.toList with
  | c :: rest => if c == tag then (if rest.isEmpty then some [] else hexToBytes (String.ofList rest)) else none
  | [] => none

def dashStr (s : String) : String := if s == "-" then "" else s
def strDash (s : String) : String := if s == "" then "-" else s

def parseCert : List String → Option (Cert × List String)
  | ver :: curve :: ca :: nb :: na :: iss :: name :: nets :: uns :: groups :: pub :: sig :: rest =>
    match natArg ver, natArg curve, natArg ca, intArg nb, intArg na, parseTagged 'n' name,
          optList parsePrefix nets, optList parsePrefix uns, optList (parseTagged 'g') groups,
          hexToBytes pub, hexToBytes sig with
    | some ver, some curve, some ca, some nb, some na, some name, some nets, some uns, some groups,
      some pub, some sig =>
      some ({ version := ver, curve := curve, name := name, networks := nets, unsafeNetworks := uns,
              groups := groups, isCA := ca != 0, notBefore := nb, notAfter := na, issuer := dashStr iss,
              publicKey := pub, signature := sig }, rest)
    | _, _, _, _, _, _, _, _, _, _, _ => none
  | _ => none

def showList {α : Type} (f : α → String) (l : List α) : String :=
  if l.isEmpty then "-" else ",".intercalate (l.map f)

def showCert (c : Cert) : String :=
  " ".intercalate [toString c.version, toString c.curve, boolStr c.isCA, toString c.notBefore,
    toString c.notAfter, strDash c.issuer,
    "n" ++ (if c.name.isEmpty then "" else bytesToHex c.name),
    showList showPrefix c.networks, showList showPrefix c.unsafeNetworks,
    showList (fun g => "g" ++ (if g.isEmpty then "" else bytesToHex g)) c.groups,
    bytesToHex c.publicKey, bytesToHex c.signature]

end Nebula.Driver
