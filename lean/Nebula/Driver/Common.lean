/-
Shared plumbing for the line-protocol drivers (core Lean only; must stay free of Mathlib so that the
`driver` executable links).

Protocol (one line in, one line out):
  input  : `<op> <arg>…\t<implOut>`   -- the op as written by the Go harness, a TAB, and what the real
                                          nebula code answered for that op
  output : `<modelOut>\t<verdict>\t<tag>\t<modelVerdict>` -- what the executable Lean model answers, a TAB, the verdict
                                          of the *property oracle* on the implementation's answer
                                          (`ok`, or `bad <class> <detail…>`), a TAB, and a branch tag
                                          used for the input-distribution histogram (a tag starting
                                          with `triv` marks the case as trivial).
An engine is `init : σ` and `step : σ → List String → String → σ × Out`.
-/
namespace Nebula.Driver

def hexDigit (c : Char) : Option Nat :=
  if '0' ≤ c ∧ c ≤ '9' then some (c.toNat - '0'.toNat)
  else if 'a' ≤ c ∧ c ≤ 'f' then some (c.toNat - 'a'.toNat + 10)
  else if 'A' ≤ c ∧ c ≤ 'F' then some (c.toNat - 'A'.toNat + 10)
  else none

def hexToBytesAux : List Char → List UInt8 → Option (List UInt8)
  | [], acc => some acc.reverse
  | [_], _ => none
  | a :: b :: rest, acc =>
    match hexDigit a, hexDigit b with
    | some x, some y => hexToBytesAux rest (UInt8.ofNat (x * 16 + y) :: acc)
    | _, _ => none

/-- `"-"` denotes the empty byte string (so that every argument is a non-empty token). -/
def hexToBytes (s : String) : Option (List UInt8) :=
  if s == "-" then some [] else hexToBytesAux s.toList []

def nibble (n : Nat) : Char :=
  if n < 10 then Char.ofNat ('0'.toNat + n) else Char.ofNat ('a'.toNat + (n - 10))

def bytesToHex (bs : List UInt8) : String :=
  if bs.isEmpty then "-" else
  String.ofList (bs.foldr (fun b acc => nibble (b.toNat / 16) :: nibble (b.toNat % 16) :: acc) [])

structure Out where
  model : String
  verdict : String := "ok"
  tag : String := ""

def badOp : Out := { model := "bad-op", verdict := "ok", tag := "triv:bad-op" }

def natArg (s : String) : Option Nat := s.toNat?
def intArg (s : String) : Option Int := s.toInt?

def boolStr (b : Bool) : String := if b then "1" else "0"

/-- verdict helper: compare the implementation's answer with what the property demands. -/
def expect (cls : String) (impl want : String) : String :=
  if impl == want then "ok" else s!"bad {cls} want={want}"

partial def loop {σ : Type} (h : IO.FS.Stream) (out : IO.FS.Stream)
    (step : σ → List String → String → σ × Out) (s : σ) : IO Unit := do
  let line ← h.getLine
  if line.isEmpty then return ()
  let line := (line.dropEndWhile (fun c => c == '\n' || c == '\r')).toString
  let (opPart, implOut) :=
    match line.splitOn "\t" with
    | [a] => (a, "")
    | a :: b :: _ => (a, b)
    | [] => ("", "")
  let args := (opPart.splitOn " ").filter (· ≠ "")
  let (s', o) := step s args implOut
  let tag := if o.tag.isEmpty then args.headD "" else o.tag
  -- the oracle's verdict on the model's own answer: lets the orchestrator tell "the model (of a known
  -- defect) is wrong here and the implementation is right" from a plain disagreement
  let mv := if implOut == o.model then o.verdict else (step s args o.model).2.verdict
  out.putStrLn (o.model ++ "\t" ++ o.verdict ++ "\t" ++ tag ++ "\t" ++ mv)
  loop h out step s'

def runEngine {σ : Type} (init : σ)
    (step : σ → List String → String → σ × Out) : IO Unit := do
  let stdin ← IO.getStdin
  let stdout ← IO.getStdout
  loop stdin stdout step init
  stdout.flush

end Nebula.Driver
