/-
Line-protocol engine `allowlist` (C38). Ops: see harness/allowlist/engine_test.go.
-/
import Nebula.Driver.Common
import Nebula.Driver.NetArgs
import Nebula.Model.AllowList
import Nebula.Spec.AllowList

namespace Nebula.Driver.Allowlist
open Nebula.Driver Nebula.Net Nebula.AllowList

def parseVal (s : String) : Option (Option Bool) :=
  if s == "T" || s == "y" || s == "yes" then some (some true)
  else if s == "F" || s == "n" || s == "no" then some (some false)
  else if s == "X" || s == "7" then some none
  else none

def parseEntry (tok : String) : Option Entry :=
  match tok.splitOn "=" with
  | [k, v] =>
    match parseVal v with
    | none => none
    | some val =>
      if k == "bad" then some { key := none, val := val }
      else match parsePrefix k with
        | some p => some { key := some p, val := val }
        | none => none
  | _ => none

inductive RawList where
  | absent | notMap | entries (es : List Entry)

def parseList (toks : List String) : Option RawList :=
  match toks with
  | ["-"] => some .absent
  | ["!"] => some .notMap
  | _ => (toks.mapM parseEntry).map .entries

/-- split `toks` into the part before the first marker and the rest (starting at the marker). -/
def splitAtMarker : List String → List String × List String
  | [] => ([], [])
  | t :: ts => if t == "R" || t == "I" then ([], t :: ts) else
    let (a, b) := splitAtMarker ts; (t :: a, b)

/-- the `R <key> <list>` sections. -/
def parseRanges (fuel : Nat) (toks : List String) : Option (List RangeEntry) :=
  match fuel, toks with
  | _, [] => some []
  | 0, _ => none
  | fuel + 1, "R" :: key :: rest =>
    let (l, rest') := splitAtMarker rest
    let k : Option (Option Prefix) := if key == "bad" then some none else (parsePrefix key).map some
    let lst : Option (Option (List Entry)) :=
      match parseList l with
      | some .absent => none
      | some .notMap => some none
      | some (.entries es) => some (some es)
      | none => none
    match k, lst, parseRanges fuel rest' with
    | some k, some lst, some more => some ({ key := k, list := lst } :: more)
    | _, _, _ => none
  | _, _ => none

/-- name patterns: `(` does not compile; `stem.*` is a prefix match; anything else an exact match. -/
def patCompiles (p : String) : Bool := p != "("
def patMatch (p name : String) : Bool :=
  if p.endsWith ".*" then (p.dropEnd 2).toString.isPrefixOf name else p == name

structure NameEntry where
  pat : String
  val : Option Bool

def parseNames (toks : List String) : Option (List NameEntry) :=
  toks.mapM fun t =>
    match t.splitOn "=" with
    | [k, v] => (parseVal v).map fun val => { pat := k, val := val }
    | _ => none

inductive Mode where
  | none
  | remote (r : Remote)
  | local (al : Option (Table Bool)) (rules : List (NameRule String))

structure State where
  mode : Mode := .none
  -- the configuration as the specification sees it (only meaningful when it was valid)
  g : Option Spec.AllowList.Cfg := none
  ranges : Spec.AllowList.Ranges := []
  pats : List (String → Bool) := []
  nameVal : Bool := false

def cfgOf (es : List Entry) : Option Spec.AllowList.Cfg :=
  es.mapM fun e => match e.key, e.val with
    | some p, some v => some (p, v)
    | _, _ => none

def mappedKey (es : List Entry) : Bool := es.any fun e => match e.key with | some p => p.addr.is4in6 | none => false

def resOut (r : Except Err α) : String := match r with | .ok _ => "ok" | .error e => e.show

/-- verdict on a load result: `valid` = every entry well-formed, `refuse` = some list must be refused. -/
def loadVerdict (impl : String) (valid refuse mapped : Bool) : String :=
  let sfx := if mapped then "-mapped-cidr" else ""
  if !valid then (if impl.startsWith "err:" then "ok" else s!"bad load-accepts-invalid{sfx}")
  else if refuse then (if impl.startsWith "err:mixed" then "ok" else s!"bad load-mixed-not-refused{sfx} want=refused")
  else (if impl == "ok" then "ok" else s!"bad load-refuses-valid{sfx} want=ok")

def queryClass (s : State) (addrs : List Addr) (base : String) : String :=
  let mappedCfg := (match s.g with | some es => es.any (·.1.addr.is4in6) | none => false) ||
    s.ranges.any (fun r => r.1.addr.is4in6 || r.2.any (·.1.addr.is4in6))
  if addrs.any (·.is4in6) then base ++ "-mapped-lookup"
  else if mappedCfg then base ++ "-mapped-cidr" else base

def boolOf (impl : String) : Option Bool :=
  if impl == "1" then some true else if impl == "0" then some false else none

def qVerdict (s : State) (addrs : List Addr) (base impl : String) (adm : Bool → Bool) : String :=
  match boolOf impl with
  | none => s!"bad {queryClass s addrs base} unparsable"
  | some b => if adm b then "ok" else s!"bad {queryClass s addrs base} want={boolStr (!b)}"

def parseAddrs (s : String) : Option (List Addr) :=
  if s == "-" then some [] else (s.splitOn ",").mapM parseAddr

def step (s : State) (args : List String) (impl : String) : State × Out :=
  match args with
  | "reset" :: kind :: "G" :: rest =>
    let (gl, rest) := splitAtMarker rest
    match parseList gl with
    | none => ({}, badOp)
    | some g =>
      if kind == "remote" then
        match parseRanges (rest.length + 1) rest with
        | none => ({}, badOp)
        | some rs =>
          -- model: NewRemoteAllowListFromConfig
          let gm : Except Err (Option (Table Bool)) :=
            match g with
            | .absent => .ok none
            | .notMap => .error .type
            | .entries es => (newAllowList es).map some
          let m : Except Err Remote :=
            match gm with
            | .error x => .error x
            | .ok al =>
              if rs.isEmpty then .ok { allowList := al, inside := none } else
              match rangesLoop [] rs with
              | .error x => .error x
              | .ok t => .ok { allowList := al, inside := some t }
          -- spec view
          let gcfg : Option (Option Spec.AllowList.Cfg) :=
            match g with
            | .absent => some none
            | .notMap => none
            | .entries es => (cfgOf es).map some
          let rcfg : Option Spec.AllowList.Ranges := rs.mapM fun r =>
            match r.key, r.list with
            | some p, some l => (cfgOf l).map fun c => (p, c)
            | _, _ => none
          let valid := gcfg.isSome && rcfg.isSome
          let refuse := (match gcfg with | some (some c) => Spec.AllowList.refused c | _ => false) ||
            (match rcfg with | some rc => rc.any (fun r => Spec.AllowList.refused r.2) | none => false)
          let mapped := (match g with | .entries es => mappedKey es | _ => false) ||
            rs.any (fun r => (match r.key with | some p => p.addr.is4in6 | none => false) ||
              (match r.list with | some l => mappedKey l | none => false))
          let st : State := match m with
            | .ok r => { mode := .remote r, g := gcfg.getD none, ranges := rcfg.getD [] }
            | .error _ => {}
          let tag := match m with
            | .ok _ => (if mapped then "load:ok-mapped" else "load:ok")
            | .error e => "load:" ++ e.show
          (st, { model := resOut m, verdict := loadVerdict impl valid refuse mapped, tag := tag })
      else if kind == "local" then
        let names : Option (Option (Option (List NameEntry))) :=   -- outer none: bad op; then absent / notMap / entries
          match rest with
          | [] => some none
          | ["I", "!"] => some (some none)
          | "I" :: ns => (parseNames ns).map (fun l => some (some l))
          | _ => none
        match names with
        | none => ({}, badOp)
        | some names =>
          let g : RawList := match g, names with
            | .absent, some _ => .entries []
            | g, _ => g
          match g with
          | .notMap =>
            ({}, { model := "err:type", verdict := loadVerdict impl false false false, tag := "load:err:type" })
          | _ =>
          -- model: NewLocalAllowListFromConfig; the `interfaces` key is taken first (see harness note)
          let nm : Except Err (List (NameRule String)) :=
            match names with
            | none => .ok []
            | some none => .error .type
            | some (some l) =>
              match namesLoop none (l.map fun e => (patCompiles e.pat, e.val)) with
              | .error x => .error x
              | .ok _ => .ok (l.map fun e => { pat := patMatch e.pat, allow := e.val.getD false })
          let gm : Except Err (Option (Table Bool)) :=
            match g with
            | .absent => .ok none
            | .notMap => .error .type
            | .entries es => (newAllowList es).map some
          let m : Except Err (Option (Table Bool) × List (NameRule String)) :=
            match nm with
            | .error x =>
              -- an erroneous entry in the list itself is met in the same loop (generator emits at most one)
              (match g with
               | .entries es => (match es.find? (fun e => e.val.isNone || e.key.isNone) with
                  | some e => if e.val.isNone then .error .value else .error .cidr
                  | none => .error x)
               | _ => .error x)
            | .ok rules => match gm with
              | .error x => .error x
              | .ok al => .ok (al, rules)
          let gcfg : Option (Option Spec.AllowList.Cfg) :=
            match g with
            | .absent => some none
            | .notMap => none
            | .entries es => (cfgOf es).map some
          let namesValid : Bool := match names with
            | none => true
            | some none => false
            | some (some l) => l.all (fun e => e.val.isSome && patCompiles e.pat) &&
                AllowList.namesUniform (l.map fun e => e.val.getD false)
          let valid := gcfg.isSome && namesValid
          let refuse := match gcfg with | some (some c) => Spec.AllowList.refused c | _ => false
          let mapped := match g with | .entries es => mappedKey es | _ => false
          let st : State := match m with
            | .ok (al, rules) => { mode := .local al rules, g := gcfg.getD none,
                                   pats := rules.map (·.pat), nameVal := (rules.head?.map (·.allow)).getD false }
            | .error _ => {}
          let tag := match m with
            | .ok _ => (if names.isSome then "load:ok-local-names" else "load:ok-local")
            | .error e => "load:" ++ e.show
          (st, { model := resOut m, verdict := loadVerdict impl valid refuse mapped, tag := tag })
      else ({}, badOp)
  | ["allow", a] =>
    match parseAddr a with
    | none => (s, badOp)
    | some a =>
      let mk (al : Option (Table Bool)) : State × Out :=
        let m := allow al a
        (s, { model := boolStr m, verdict := qVerdict s [a] "allow" impl (Spec.AllowList.listAdmissible s.g a),
              tag := if al.isNone then "allow:nil" else if a.is4in6 then "allow:mapped" else
                if (match s.g with | some c => (Spec.AllowList.matching c a).isEmpty | none => true) then "allow:default" else "allow:lpm" })
      match s.mode with
      | .none => (s, { model := "none", tag := "triv:none" })
      | .remote r => mk r.allowList
      | .local al _ => mk al
  | ["runknown", a] =>
    match parseAddr a, s.mode with
    | some a, .remote r =>
      (s, { model := boolStr (r.allowUnknownVpnAddr a),
            verdict := qVerdict s [a] "unknown" impl (Spec.AllowList.listAdmissible s.g a), tag := "runknown" })
    | some _, _ => (s, { model := "none", tag := "triv:none" })
    | none, _ => (s, badOp)
  | ["rallow", v, u] =>
    match parseAddr v, parseAddr u, s.mode with
    | some v, some u, .remote r =>
      (s, { model := boolStr (r.allow v u),
            verdict := qVerdict s [v, u] "remote" impl (Spec.AllowList.remoteAdmissible s.g s.ranges v u),
            tag := if (Spec.AllowList.matchingRanges s.ranges v).isEmpty then "rallow:global-only" else "rallow:range" })
    | some _, some _, _ => (s, { model := "none", tag := "triv:none" })
    | _, _, _ => (s, badOp)
  | ["rallowall", vs, u] =>
    match parseAddrs vs, parseAddr u, s.mode with
    | some vs, some u, .remote r =>
      (s, { model := boolStr (r.allowAll vs u),
            verdict := qVerdict s (u :: vs) "remote-all" impl (Spec.AllowList.remoteAllAdmissible s.g s.ranges vs u),
            tag := s!"rallowall:{vs.length}" })
    | some _, some _, _ => (s, { model := "none", tag := "triv:none" })
    | _, _, _ => (s, badOp)
  | ["name", n] =>
    match s.mode with
    | .local _ rules =>
      let want := Spec.AllowList.nameAnswer s.pats s.nameVal n
      (s, { model := boolStr (allowName rules n), verdict := expect "name-rule" impl (boolStr want),
            tag := if rules.isEmpty then "name:norules" else if s.pats.any (fun p => p n) then "name:match" else "name:default" })
    | _ => (s, { model := "none", tag := "triv:none" })
  | _ => (s, badOp)

def main : IO Unit := runEngine ({} : State) step

end Nebula.Driver.Allowlist
