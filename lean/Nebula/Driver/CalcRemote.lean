/-
Line-protocol engine `calcremote` (C48).  Stateless; addresses/prefixes as in `NetArgs`.
ops:
  new <cidr> <mask> <port>          -> `ok <ipNet> <maskedMask> <port>` | `err:family` | `err:port`
  v4  <cidr> <mask> <port> <addr>   -> `<ip> <port>` | `panic` | `err:…`     (newCalculatedRemote, then ApplyV4)
  v6  <cidr> <mask> <port> <addr>   -> `<hi> <lo> <port>` | `panic` | `err:…`
  add <myNet> <vpnAddr> <n> { <cidr> <k> { <mask> <port> }*k }*n
                                    -> `<0|1> v4=<ip:port,…|-> v6=<hi:lo:port,…|->` | `panic` | `err:new`
-/
import Nebula.Driver.Common
import Nebula.Driver.NetArgs
import Nebula.Model.CalcRemote
import Nebula.Spec.CalcRemote

namespace Nebula.Driver.CalcRemote
open Nebula.Driver Nebula.CalcRemote Nebula.Net
open Nebula.Spec.CalcRemote (splice Entry)

def errStr : NewErr → String
  | .family => "err:family"
  | .port => "err:port"

/-- what the property demands of construction: same family, port in range. -/
def specNew (cidr mask : Prefix) (port : Int) : Option String :=
  if mask.addr.fam != cidr.addr.fam then some "err:family"
  else if port < 0 || port > 65535 then some "err:port"
  else none

def joinOr (l : List String) : String := if l.isEmpty then "-" else ",".intercalate l

def showAdd (o : AddOut) : String :=
  s!"{boolStr o.added} v4={joinOr (o.v4.map fun r => s!"{r.1}:{r.2}")} v6={joinOr (o.v6.map fun r => s!"{r.1}:{r.2.1}:{r.2.2}")}"

/-- parse `{ <cidr> <k> { <mask> <port> }*k }*n`. -/
def parseEntries : Nat → Nat → List String → Option (List (Prefix × List (Prefix × Int)))
  | 0, _, [] => some []
  | 0, _, _ => none
  | _ + 1, 0, _ => none
  | n + 1, fuel + 1, cidr :: k :: rest =>
    match parsePrefix cidr, k.toNat? with
    | some c, some k =>
      let ms := rest.take (2 * k)
      if ms.length != 2 * k then none else
      let rec pairs : List String → Option (List (Prefix × Int))
        | [] => some []
        | m :: p :: r => match parsePrefix m, p.toInt?, pairs r with
          | some m, some p, some l => some ((m, p) :: l)
          | _, _, _ => none
        | _ => none
      match pairs ms, parseEntries n fuel (rest.drop (2 * k)) with
      | some l, some es => some ((c, l) :: es)
      | _, _ => none
    | _, _ => none
  | _, _, _ => none

def buildTable : List (Prefix × List (Prefix × Int)) → Option (List (Prefix × List CR))
  | [] => some []
  | (c, ms) :: rest =>
    let crs := ms.map (fun mp => newCalculatedRemote c mp.1 mp.2)
    if crs.any (fun r => match r with | .error _ => true | .ok _ => false) then none else
    match buildTable rest with
    | none => none
    | some t => some ((c, crs.filterMap (fun r => match r with | .ok x => some x | .error _ => none)) :: t)

/-- The specification's answer for `add` (independent of the bit-level model): longest configured range
containing the overlay address, entries of the same family spliced arithmetically, first `MaxRemotes`
that are not inside my own overlay network. -/
def specAdd (myNet : Prefix) (cfg : List (Prefix × List (Prefix × Int))) (a : Addr) : String :=
  match lpm (cfg.map fun e => (e.1, e)) a with
  | none => "0 v4=- v6=-"
  | some (cidr, ms) =>
    let es : List Entry := (ms.map (fun mp => { cidr := cidr, mask := mp.1, port := mp.2.toNat })).filter (·.appliesTo a)
    let rs := es.map (fun e => e.produce a)
    let kept := (rs.take 10)
    match a.fam with
    | .v4 =>
      let k := kept.filter (fun r => !myNet.contains { fam := .v4, val := r.1 })
      s!"{boolStr (!rs.isEmpty)} v4={joinOr (k.map fun r => s!"{r.1}:{r.2}")} v6=-"
    | .v6 =>
      let k := kept.filter (fun r => !myNet.contains ({ fam := .v6, val := r.1 } : Addr).unmap)
      s!"{boolStr (!rs.isEmpty)} v4=- v6={joinOr (k.map fun r => s!"{r.1 / 2 ^ 64}:{r.1 % 2 ^ 64}:{r.2}")}"

def lenTag (w len : Nat) : String :=
  if len == 0 then "len0" else if len == w then "lenfull" else if len % 8 == 0 then "lenbyte" else "lenbit"

def step (s : Unit) (args : List String) (impl : String) : Unit × Out :=
  match args with
  | ["new", cidr, mask, port] =>
    match parsePrefix cidr, parsePrefix mask, intArg port with
    | some c, some m, some p =>
      let model := match newCalculatedRemote c m p with
        | .error e => errStr e
        | .ok cr => s!"ok {showPrefix cr.ipNet} {showPrefix cr.mask} {cr.port}"
      let want := match specNew c m p with
        | some e => e
        | none => s!"ok {showPrefix m} {showPrefix m.masked} {p}"
      (s, { model := model, verdict := expect "new-accepts-exactly" impl want,
            tag := match specNew c m p with | some e => "new:" ++ e | none => "new:ok" })
    | _, _, _ => (s, badOp)
  | [op, cidr, mask, port, addr] =>
    if op != "v4" && op != "v6" then (s, badOp) else
    match parsePrefix cidr, parsePrefix mask, intArg port, parseAddr addr with
    | some c, some m, some p, some a =>
      let is4 := op == "v4"
      let model := match newCalculatedRemote c m p with
        | .error e => errStr e
        | .ok cr =>
          if is4 then match applyV4 cr a with
            | .panic => "panic"
            | .ok r => s!"{r.1} {r.2}"
          else match applyV6 cr a with
            | .panic => "panic"
            | .ok r => s!"{r.1} {r.2.1} {r.2.2}"
      match specNew c m p with
      | some e => (s, { model := model, verdict := expect "new-accepts-exactly" impl e, tag := op ++ ":" ++ e })
      | none =>
        let fam := if is4 then Fam.v4 else Fam.v6
        if m.addr.fam == fam && a.fam == fam then
          let v := splice fam.bits m.len m.addr.val a.val
          let want := if is4 then s!"{v} {p}" else s!"{v / 2 ^ 64} {v % 2 ^ 64} {p}"
          (s, { model := model, verdict := expect (op ++ "-splice") impl want,
                tag := op ++ ":" ++ lenTag fam.bits m.len })
        else
          -- ApplyV4/V6 called across families: outside the property (addCalculatedRemotes never does it)
          (s, { model := model, verdict := "ok", tag := op ++ ":cross-family" })
    | _, _, _, _ => (s, badOp)
  | "add" :: myNet :: vpn :: n :: rest =>
    match parsePrefix myNet, parseAddr vpn, n.toNat? with
    | some my, some a, some n =>
      match parseEntries n (n + 1) rest with
      | none => (s, badOp)
      | some cfg =>
        match buildTable cfg with
        | none => (s, { model := "err:new", verdict := expect "new-accepts-exactly" impl "err:new", tag := "add:err" })
        | some tbl =>
          let model := match addCalculatedRemotes my (if n == 0 then none else some tbl) a with
            | .panic => "panic"
            | .ok o => showAdd o
          let want := specAdd my cfg a
          let tag := match lpm cfg a with
            | none => if n == 0 then "triv:add:unconfigured" else "add:outside"
            | some ms => if ms.length > 10 then "add:inside-gt10" else
                if want.endsWith "v4=- v6=-" then "add:inside-all-filtered" else "add:inside"
          (s, { model := model, verdict := expect "add-range-splice" impl want, tag := tag })
    | _, _, _ => (s, badOp)
  | _ => (s, badOp)

def main : IO Unit := runEngine () step

end Nebula.Driver.CalcRemote
