/-
Line-protocol engine `calcremote` (C48).  Addresses/prefixes as in `NetArgs`.  The first four ops are stateless;
the configuration ops carry a state (own overlay network, the model's `LHState`, the specification's configuration
in force) that `reset` clears.
ops:
  new <cidr> <mask> <port>          -> `ok <ipNet> <maskedMask> <port>` | `err:family` | `err:port`
  v4  <cidr> <mask> <port> <addr>   -> `<ip> <port>` | `panic` | `err:…`     (newCalculatedRemote, then ApplyV4)
  v6  <cidr> <mask> <port> <addr>   -> `<hi> <lo> <port>` | `panic` | `err:…`
  add <myNet> <vpnAddr> <n> { <cidr> <k> { <mask> <port> }*k }*n
                                    -> `<0|1> v4=<ip:port,…|-> v6=<hi:lo:port,…|->` | `panic` | `err:new`
  reset <myNet>                     -> `ok`
  cfgload <cfg>                     -> `ok tbl=<dump>` | `fatal`                  (NewLightHouseFromConfig)
  cfgreload <cfg>                   -> `<changed|unchanged|err> tbl=<dump>` | `nolh`  (ReloadConfigString)
  cfgreloadx <cfg>                  the same reload, but the file also has an invalid lighthouse.remote_allow_list:
                                    LightHouse.reload returns before the calculated_remotes block
                                    -> `earlier-err tbl=<dump>` | `nolh`
  probe <addr>                      -> as `add`, on the table in force | `nolh`
  (<cfg>, <dump>: see Driver/CalcRemoteCfg.lean and harness/calcremote/reload_test.go)
-/
import Nebula.Driver.Common
import Nebula.Driver.NetArgs
import Nebula.Model.CalcRemote
import Nebula.Spec.CalcRemote
import Nebula.Driver.CalcRemoteCfg

namespace Nebula.Driver.CalcRemote
open Nebula.Driver Nebula.CalcRemote Nebula.Net
open Nebula.Spec.CalcRemote (splice Entry cfgValid inForce1)
open Nebula.Driver.CalcRemoteCfg (St parseCfg dumpTable dumpSpec specCfg derivable answerRemotes knownClass)

def errStr : NewErr → String
  | .family => "err:family"
  | .port => "err:port"

/-- what the property demands of construction: same family, port in range. -/
def specNew (cidr mask : Prefix) (port : Int) : Option String :=
  if mask.addr.fam != cidr.addr.fam then some "err:family"
  else if port < 0 || port > 65535 then some "err:port"
  else none

def joinOr (l : List String) : String := if l.isEmpty then "-" else ",".intercalate l

def showAdd (o : AddOut) : String :=
  s!"{boolStr o.added} v4={joinOr (o.v4.map fun r => s!"{r.1}:{r.2}")} v6={joinOr (o.v6.map fun r => s!"{r.1}:{r.2.1}:{r.2.2}")}"

/-- parse `{ <cidr> <k> { <mask> <port> }*k }*n`. -/
def parseEntries : Nat → Nat → List String → Option (List (Prefix × List (Prefix × Int)))
  | 0, _, [] => some []
  | 0, _, _ => none
  | _ + 1, 0, _ => none
  | n + 1, fuel + 1, cidr :: k :: rest =>
    match parsePrefix cidr, k.toNat? with
    | some c, some k =>
      let ms := rest.take (2 * k)
      if ms.length != 2 * k then none else
      let rec pairs : List String → Option (List (Prefix × Int))
        | [] => some []
        | m :: p :: r => match parsePrefix m, p.toInt?, pairs r with
          | some m, some p, some l => some ((m, p) :: l)
          | _, _, _ => none
        | _ => none
      match pairs ms, parseEntries n fuel (rest.drop (2 * k)) with
      | some l, some es => some ((c, l) :: es)
      | _, _ => none
    | _, _ => none
  | _, _, _ => none

def buildTable : List (Prefix × List (Prefix × Int)) → Option (List (Prefix × List CR))
  | [] => some []
  | (c, ms) :: rest =>
    let crs := ms.map (fun mp => newCalculatedRemote c mp.1 mp.2)
    if crs.any (fun r => match r with | .error _ => true | .ok _ => false) then none else
    match buildTable rest with
    | none => none
    | some t => some ((c, crs.filterMap (fun r => match r with | .ok x => some x | .error _ => none)) :: t)

/-- The specification's answer for `add` (independent of the bit-level model): longest configured range
containing the overlay address, entries of the same family spliced arithmetically, first `MaxRemotes`
that are not inside my own overlay network. -/
def specAdd (myNet : Prefix) (cfg : List (Prefix × List (Prefix × Int))) (a : Addr) : String :=
  match lpm (cfg.map fun e => (e.1, e)) a with
  | none => "0 v4=- v6=-"
  | some (cidr, ms) =>
    let es : List Entry := (ms.map (fun mp => { cidr := cidr, mask := mp.1, port := mp.2.toNat })).filter (·.appliesTo a)
    let rs := es.map (fun e => e.produce a)
    let kept := (rs.take 10)
    match a.fam with
    | .v4 =>
      let k := kept.filter (fun r => !myNet.contains { fam := .v4, val := r.1 })
      s!"{boolStr (!rs.isEmpty)} v4={joinOr (k.map fun r => s!"{r.1}:{r.2}")} v6=-"
    | .v6 =>
      let k := kept.filter (fun r => !myNet.contains ({ fam := .v6, val := r.1 } : Addr).unmap)
      s!"{boolStr (!rs.isEmpty)} v4=- v6={joinOr (k.map fun r => s!"{r.1 / 2 ^ 64}:{r.1 % 2 ^ 64}:{r.2}")}"

def lenTag (w len : Nat) : String :=
  if len == 0 then "len0" else if len == w then "lenfull" else if len % 8 == 0 then "lenbyte" else "lenbit"

def cfgTag (c : CfgV) : String :=
  match c with
  | .absent => "absent"
  | .nonMap _ => "invalid:nonmap"
  | .map es =>
    if cfgValid c then (if es.isEmpty then "emptymap" else if es.length == 1 then "one-range" else "ranges")
    else if es.any (fun e => match e.1 with | .bad _ => true | .ok _ => false) then "invalid:cidr"
    else if es.any (fun e => match e.2 with | .nonList _ => true | .list _ => false) then "invalid:nonlist"
    else
      let items := es.flatMap (fun e => match e.2 with | .list l => l | .nonList _ => [])
      if items.any (fun i => match i with | .nonMap _ => true | _ => false) then "invalid:item"
      else if items.any (fun i => match i with | .entry (.missing _) _ => true | _ => false) then "invalid:mask-missing"
      else if items.any (fun i => match i with | .entry (.nonString _) _ => true | _ => false) then "invalid:mask-type"
      else if items.any (fun i => match i with | .entry (.str (.bad _)) _ => true | _ => false) then "invalid:mask-parse"
      else if items.any (fun i => match i with | .entry _ (.missing _) => true | _ => false) then "invalid:port-missing"
      else if items.any (fun i => match i with | .entry _ (.other _) => true | _ => false) then "invalid:port-type"
      else if items.any (fun i => match i with | .entry _ (.strBad _) => true | _ => false) then "invalid:port-atoi"
      else if items.any (fun i => match i with
          | .entry _ (.int n) | .entry _ (.str n) => n < 0 || n > 65535 | _ => false) then "invalid:port-range"
      else "invalid:family"

/-- the configuration ops. -/
def cfgOps (s : St) (args : List String) (impl : String) : Option (St × Out) :=
  match args with
  | ["reset", myNet] =>
    match parsePrefix myNet with
    | some my => some ({ myNet := my }, { model := "ok", verdict := "ok", tag := "triv:reset" })
    | none => some (s, badOp)
  | "cfgload" :: toks =>
    match parseCfg toks with
    | none => some (s, badOp)
    | some c =>
      let (m', _) := cfgRun1 none (.load c)
      let force' := inForce1 none (.load c)
      let model := match m' with | none => "fatal" | some st => "ok tbl=" ++ dumpTable st.tbl
      let want := match force' with | none => "fatal" | some f => "ok tbl=" ++ dumpSpec f
      some ({ s with model := m', force := force', poisoned := false },
        { model := model, verdict := expect "reload-table-mismatch" impl want, tag := "load:" ++ cfgTag c })
  | "cfgreloadx" :: toks =>
    match parseCfg toks with
    | none => some (s, badOp)
    | some c =>
      let (m', _) := cfgRun1 s.model (.reloadEarlierErr c)
      let force' := inForce1 s.force (.reloadEarlierErr c)
      let model := match m' with | some st => "earlier-err tbl=" ++ dumpTable st.tbl | none => "nolh"
      let want := match force' with | some f => "earlier-err tbl=" ++ dumpSpec f | none => "nolh"
      some ({ s with model := m', force := force', poisoned := m'.isSome },
        { model := model, verdict := knownClass s.poisoned model impl (expect "reload-table-mismatch" impl want),
          tag := if m'.isNone then "triv:reloadx:nolh" else "reloadx:" ++ cfgTag c })
  | "cfgreload" :: toks =>
    match parseCfg toks with
    | none => some (s, badOp)
    | some c =>
      let (m', o) := cfgRun1 s.model (.reload c)
      let force' := inForce1 s.force (.reload c)
      let model := match m', o with
        | some st, some .stored => "changed tbl=" ++ dumpTable st.tbl
        | some st, some .unchanged => "unchanged tbl=" ++ dumpTable st.tbl
        | some st, _ => "err tbl=" ++ dumpTable st.tbl
        | none, _ => "nolh"
      let verdict := match force' with
        | none => expect "reload-table-mismatch" impl "nolh"
        | some f =>
          match impl.splitOn " tbl=" with
          | [status, dump] =>
            if dump != dumpSpec f then s!"bad reload-table-mismatch want-tbl={dumpSpec f}"
            else if cfgValid c then
              (if status == "changed" || status == "unchanged" then "ok" else s!"bad reload-status valid-config-answered-{status}")
            else
              (if status == "err" || status == "unchanged" then "ok" else s!"bad reload-status invalid-config-answered-{status}")
          | _ => s!"bad reload-table-mismatch want-tbl={dumpSpec f}"
      let same := match s.model with | some st => st.prev == c | none => false
      let stored := match o with | some .stored => true | _ => false
      some ({ s with model := m', force := force', poisoned := s.poisoned && !stored },
        { model := model, verdict := knownClass s.poisoned model impl verdict,
          tag := if s.model.isNone then "triv:reload:nolh" else
            "reload:" ++ (if s.poisoned then "after-failed:" else "") ++ (if same then "same:" else "") ++ cfgTag c })
  | ["probe", addr] =>
    match parseAddr addr with
    | none => some (s, badOp)
    | some a =>
      match s.model, s.force with
      | some st, some f =>
        let model := match addCalculatedRemotes s.myNet st.tbl a with
          | .panic => "panic"
          | .ok o => showAdd o
        let want := specAdd s.myNet (specCfg f) a
        let ok := derivable f a
        let stale := (answerRemotes impl).filter (fun r => !ok.contains r)
        let verdict :=
          if !stale.isEmpty then s!"bad stale-calculated-remotes not-from-the-configuration-in-force={",".intercalate stale}"
          else expect "add-range-splice" impl want
        let tag := match lpm (specCfg f) a with
          | none => if (specCfg f).isEmpty then "probe:unconfigured" else "probe:outside"
          | some _ => if want.endsWith "v4=- v6=-" then "probe:inside-nothing" else "probe:inside"
        some (s, { model := model, verdict := knownClass s.poisoned model impl verdict, tag := tag })
      | _, _ => some (s, { model := "nolh", verdict := expect "reload-table-mismatch" impl "nolh", tag := "triv:probe:nolh" })
  | _ => none

def step (s : St) (args : List String) (impl : String) : St × Out :=
  match cfgOps s args impl with
  | some r => r
  | none =>
  match args with
  | ["new", cidr, mask, port] =>
    match parsePrefix cidr, parsePrefix mask, intArg port with
    | some c, some m, some p =>
      let model := match newCalculatedRemote c m p with
        | .error e => errStr e
        | .ok cr => s!"ok {showPrefix cr.ipNet} {showPrefix cr.mask} {cr.port}"
      let want := match specNew c m p with
        | some e => e
        | none => s!"ok {showPrefix m} {showPrefix m.masked} {p}"
      (s, { model := model, verdict := expect "new-accepts-exactly" impl want,
            tag := match specNew c m p with | some e => "new:" ++ e | none => "new:ok" })
    | _, _, _ => (s, badOp)
  | [op, cidr, mask, port, addr] =>
    if op != "v4" && op != "v6" then (s, badOp) else
    match parsePrefix cidr, parsePrefix mask, intArg port, parseAddr addr with
    | some c, some m, some p, some a =>
      let is4 := op == "v4"
      let model := match newCalculatedRemote c m p with
        | .error e => errStr e
        | .ok cr =>
          if is4 then match applyV4 cr a with
            | .panic => "panic"
            | .ok r => s!"{r.1} {r.2}"
          else match applyV6 cr a with
            | .panic => "panic"
            | .ok r => s!"{r.1} {r.2.1} {r.2.2}"
      match specNew c m p with
      | some e => (s, { model := model, verdict := expect "new-accepts-exactly" impl e, tag := op ++ ":" ++ e })
      | none =>
        let fam := if is4 then Fam.v4 else Fam.v6
        if m.addr.fam == fam && a.fam == fam then
          let v := splice fam.bits m.len m.addr.val a.val
          let want := if is4 then s!"{v} {p}" else s!"{v / 2 ^ 64} {v % 2 ^ 64} {p}"
          (s, { model := model, verdict := expect (op ++ "-splice") impl want,
                tag := op ++ ":" ++ lenTag fam.bits m.len })
        else
          -- ApplyV4/V6 called across families: outside the property (addCalculatedRemotes never does it)
          (s, { model := model, verdict := "ok", tag := op ++ ":cross-family" })
    | _, _, _, _ => (s, badOp)
  | "add" :: myNet :: vpn :: n :: rest =>
    match parsePrefix myNet, parseAddr vpn, n.toNat? with
    | some my, some a, some n =>
      match parseEntries n (n + 1) rest with
      | none => (s, badOp)
      | some cfg =>
        match buildTable cfg with
        | none => (s, { model := "err:new", verdict := expect "new-accepts-exactly" impl "err:new", tag := "add:err" })
        | some tbl =>
          let model := match addCalculatedRemotes my (if n == 0 then none else some tbl) a with
            | .panic => "panic"
            | .ok o => showAdd o
          let want := specAdd my cfg a
          let tag := match lpm cfg a with
            | none => if n == 0 then "triv:add:unconfigured" else "add:outside"
            | some ms => if ms.length > 10 then "add:inside-gt10" else
                if want.endsWith "v4=- v6=-" then "add:inside-all-filtered" else "add:inside"
          (s, { model := model, verdict := expect "add-range-splice" impl want, tag := tag })
    | _, _, _ => (s, badOp)
  | _ => (s, badOp)

def main : IO Unit := runEngine ({} : St) step

end Nebula.Driver.CalcRemote
