/-
Line-protocol engine `connmgr` (C30).  Time is whole seconds of the virtual clock; tunnels are object ids handed out in
creation order; addresses are the last octet of 10.0.0.x.

ops:
  reset di to dinv my            drop_inactive, inactivity timeout (s), disconnect_invalid, own address   -> ok
  cfg di to dinv                 reload of the three settings                                            -> ok
  mycert g1 g2 iv                local v1 / v2 certificate := generation g1 / g2 (0 = none), pki.initiatingVersion -> ok
  add a li ri kind exp g ver pv  established tunnel to address a, local/remote index; kind 0 = no ConnectionState,
                                 2 = peer certificate (version pv) valid for exp more seconds; built with the local
                                 certificate of version ver, generation g.  A tunnel without peer certificate is only
                                 accepted alone on its address (refused otherwise: bad-op)                 -> new h;<dump>
  in h | out h | counter h n | block h | sleep n     (in: refused for a tunnel without ConnectionState)    -> ok
  relay h peer ty st v,v,…       AddRelay on tunnel h (crypto/rand = the stream)                          -> idx n|err:…;<dump>
  used i                         connectionManager.RelayUsed(i); refused while another relay index of the same tunnel
                                 is marked (keeps relay migration independent of Go's map iteration order)  -> ok
  decide li                      makeTrafficDecision(li, now)     -> d=<code> h=<id|nil> p=<id|nil> f=<in><out><pd>
  tick li v,v,…|-                doTrafficCheck(li, now) (stream for a relay migration's AddRelay)         -> <dump>
dump: H a:h,h… | I i:h… | V a… | F h:<in><out><pd>… | L i:h… | Q h:peer/type/state,… | U i…
(per-address lists primary first, Indexes, pending handshakes, flags of every indexed tunnel, Relays, relayForByAddr of
every indexed tunnel without the indexes, relayUsed)
-/
import Nebula.Driver.Common
import Nebula.Model.HostMap
import Nebula.Model.ConnMgr
import Nebula.Spec.ConnMgr
import Nebula.Driver.Hostmap

namespace Nebula.Driver.Connmgr
open Nebula.Driver Nebula.ConnMgr
open Nebula.HostMap (FMap)

structure Tun where
  addr : Nat
  lidx : Nat
  hasCS : Bool := true
  hasCert : Bool
  ver : Nat := 1            -- version of the local certificate the tunnel was built with
  pver : Nat := 1           -- version of the peer certificate
  expiry : Nat := 0
  blocked : Bool := false
  counter : Nat := 0
  gen : Nat := 0
  inF : Bool := false
  outF : Bool := true       -- unlockedAddHostInfo: hostinfo.out.Store(true)
  pd : Bool := false
  lastUsed : Option Nat := none
  deriving Inhabited

structure St where
  clock : Nat := 0
  dropInactive : Bool := false
  timeout : Nat := 600
  disconnectInvalid : Bool := false
  myAddr : Nat := 0
  v1gen : Nat := 0
  v2gen : Nat := 0
  initVer : Nat := 1
  used : List Nat := []     -- connectionManager.relayUsed
  tuns : FMap Tun := []
  hm : Nebula.HostMap.State := {}
  deriving Inhabited

def St.tun (s : St) (h : Nat) : Tun := (s.tuns.get h).getD default

/-- generation of the local certificate of version `v` (0 = none) -/
def St.certGen (s : St) (v : Nat) : Nat := if v == 1 then s.v1gen else if v == 2 then s.v2gen else 0

def never : Nat := 10 ^ 12     -- `now.Sub(time.Time{})` saturates far above any timeout

def inputs (s : St) (li : Nat) : In × Option Nat × Option Nat :=
  match s.hm.indexes.get li with
  | none => (⟨false, .none, false, false, 0, false, false, false, false, false, 0, 0, false⟩, none, none)
  | some h =>
    let t := s.tun h
    let cert : CertV := if !t.hasCert then .none else if t.blocked then .blocklisted
      else if s.clock > t.expiry then .invalid else .ok
    let primary := s.hm.hosts.get t.addr
    let isMain := match primary with | none => true | some p => p == h
    let idle := match t.lastUsed with | none => never | some u => s.clock - u
    let swap := shouldSwapPrimary (decide (t.addr < s.myAddr)) t.counter (s.certGen t.ver != 0) (t.gen == s.certGen t.ver)
    (⟨true, cert, s.disconnectInvalid, t.hasCS, t.counter, isMain, t.inF, t.outF, t.pd, s.dropInactive, idle, s.timeout, swap⟩,
      some h, primary)

/-- flag effects of `makeTrafficDecision` on the tunnel -/
def applyFlags (s : St) (h : Nat) (o : ConnMgr.Out) : St :=
  let t := s.tun h
  let t := if o.reset then
      { t with inF := false, outF := false, lastUsed := if t.inF || t.outF then some s.clock else t.lastUsed }
    else t
  { s with tuns := s.tuns.set h { t with pd := o.pd } }

def flagStr (t : Tun) : String := boolStr t.inF ++ boolStr t.outF ++ boolStr t.pd

def natList (l : List Nat) : String := if l.isEmpty then "-" else ",".intercalate (l.map toString)

def sortKeys {β : Type} (m : FMap β) : List (Nat × β) := m.mergeSort (fun a b => a.1 ≤ b.1)

def dump (s : St) : String :=
  let hs := (sortKeys s.hm.hosts).map fun (a, _) => s!" {a}:{natList (Nebula.HostMap.hostList s.hm a)}"
  let is := (sortKeys s.hm.indexes).map fun (i, h) => s!" {i}:{h}"
  let vs := (sortKeys s.hm.vpnIps).map fun (a, _) => s!" {a}"
  let live := (s.hm.indexes.map (·.2)).mergeSort (· ≤ ·)
  let fs := live.map fun h => s!" {h}:{flagStr (s.tun h)}"
  let ls := (sortKeys s.hm.relays).map fun (i, h) => s!" {i}:{h}"
  let qs := live.filterMap fun h =>
    let m := (s.hm.rstate h).byAddr
    if m.isEmpty then none else
    some (s!" {h}:" ++ ",".intercalate ((sortKeys m).map fun (a, r) => s!"{a}/{r.type}/{r.state}"))
  let us := (s.used.mergeSort (· ≤ ·)).map fun i => s!" {i}"
  "H" ++ String.join hs ++ "|I" ++ String.join is ++ "|V" ++ String.join vs ++ "|F" ++ String.join fs ++
    "|L" ++ String.join ls ++ "|Q" ++ String.join qs ++ "|U" ++ String.join us

def optStr : Option Nat → String
  | some h => toString h
  | none => "nil"

def decisionTag (i : In) (o : ConnMgr.Out) : String :=
  let d := match o.decision with
    | .doNothing => "nothing" | .deleteTunnel => "delete" | .closeTunnel => "close" | .swapPrimary => "swap"
    | .migrateRelays => "migrate" | .tryRehandshake => "rehandshake?" | .sendTestPacket => "test"
  if !i.found then "triv:not-found"
  else
    let why := if Spec.ConnMgr.certDemandsClose i.cert i.disconnectInvalid then (if i.cert == .blocklisted then ":blocklisted" else ":invalid")
      else if Spec.ConnMgr.exhausted i.hasCS i.counter then ":exhausted"
      else if i.inT then ":alive"
      else if i.pd then ":probe-unanswered"
      else if Spec.ConnMgr.inactive i then ":inactive"
      else if !i.hasCS then ":no-connection-state"
      else if !i.isMain then ":non-primary-silent"
      else if i.cert == .invalid then ":silent-invalid-kept" else ":silent"
    d ++ why

/-- `migrateRelayUsed(old, new)`: relays of `old` that were used and that `new` does not know are re-created on `new`
(`AddRelay` … `Requested`); at most one of them can be marked used (see `used`), so the result does not depend on the
map iteration order -/
def migrate (s : St) (old new : Nat) (st : List Nat) : St × Bool :=
  ((s.hm.rstate old).byIdx.map (·.2)).foldl (fun (acc : St × Bool) r =>
    let (s, any) := acc
    if ((s.hm.rstate new).byAddr.get r.peer).isSome then (s, any)
    else if !s.used.contains r.lidx then (s, any)
    else
      let (hm', _) := Nebula.HostMap.addRelay s.hm new { type := r.type, state := Nebula.Gen.hostmap_Requested, peer := r.peer } st
      ({ s with hm := hm' }, true)) (s, false)

/-- `resetRelayTrafficCheck(hostinfo)` -/
def resetUsed (s : St) (h : Nat) : St :=
  { s with used := s.used.filter fun i => !((s.hm.rstate h).byIdx.get i).isSome }

/-- the hostmap / handshake effects of `doTrafficCheck` for a decision on tunnel `h` -/
def effects (s : St) (h : Nat) (o : ConnMgr.Out) (primary : Option Nat) (st : List Nat) : St × String :=
  let t := s.tun h
  let (s', why) : St × String := match o.decision with
    | .deleteTunnel | .closeTunnel => ({ s with hm := (Nebula.HostMap.deleteHost s.hm h).1 }, "")
    | .swapPrimary =>
      if s.hm.hosts.get t.addr == primary then ({ s with hm := (Nebula.HostMap.makePrimary s.hm h).1 }, "") else (s, "")
    | .migrateRelays =>
      match primary with
      | some p => let (s', any) := migrate s h p st; (s', if any then ":relay-migrated" else "")
      | none => (s, "")
    | .tryRehandshake =>
      let present := s.certGen t.ver != 0
      let peerHigher := t.hasCert && decide (t.ver < t.pver)
      let haveHigher := s.certGen t.pver != 0
      let r := rehandshakes present peerHigher haveHigher (t.gen == s.certGen t.ver) (decide (t.ver < s.initVer)) t.counter
      if r then ({ s with hm := (Nebula.HostMap.startHandshake s.hm t.addr).1 },
        if !present then ":cert-removed" else if peerHigher && haveHigher then ":peer-version-higher"
        else if t.gen != s.certGen t.ver then (if peerHigher then ":cert-changed-mixed-versions" else ":cert-changed")
        else if t.ver < s.initVer then ":version" else (if peerHigher then ":counter-mixed-versions" else ":counter"))
      else (s, if peerHigher then ":no-cause-mixed-versions" else ":no-cause")
    | _ => (s, "")
  -- `resetRelayTrafficCheck` runs whenever makeTrafficDecision returned the hostinfo
  (if o.retHost then resetUsed s' h else s', why)

def ok (s : St) (impl : String) (tag : String) : St × Out :=
  (s, { model := "ok", verdict := expect "setup-op" impl "ok", tag := tag })

def step (s : St) (args : List String) (impl : String) : St × Out :=
  match args with
  | ["reset", di, to, dinv, my] =>
    match natArg di, natArg to, natArg dinv, natArg my with
    | some di, some to, some dinv, some my =>
      ok { dropInactive := di != 0, timeout := to, disconnectInvalid := dinv != 0, myAddr := my } impl "triv:reset"
    | _, _, _, _ => (s, badOp)
  | ["cfg", di, to, dinv] =>
    match natArg di, natArg to, natArg dinv with
    | some di, some to, some dinv =>
      ok { s with dropInactive := di != 0, timeout := to, disconnectInvalid := dinv != 0 } impl "triv:cfg"
    | _, _, _ => (s, badOp)
  | ["mycert", g, g2, iv] =>
    match natArg g, natArg g2, natArg iv with
    | some g, some g2, some iv => ok { s with v1gen := g, v2gen := g2, initVer := iv } impl "triv:mycert"
    | _, _, _ => (s, badOp)
  | ["add", a, li, ri, kind, exp, g, ver, pv] =>
    match natArg a, natArg li, natArg ri, natArg kind, natArg exp, natArg g, natArg ver, natArg pv with
    | some a, some li, some ri, some kind, some exp, some g, some ver, some pv =>
      if (s.hm.indexes.get li).isSome || li == 0 then (s, badOp) else
      -- tunnels without a peer certificate live alone on their address
      let lonely : Bool := (Nebula.HostMap.hostList s.hm a).all fun x => (s.tun x).hasCert
      if !(kind == 0 || kind == 2) || !(ver == 1 || ver == 2) || !(pv == 1 || pv == 2) then (s, badOp) else
      if !lonely || (kind != 2 && !(Nebula.HostMap.hostList s.hm a).isEmpty) then (s, badOp) else
      let h := s.hm.next
      let hm1 := { s.hm with objs := s.hm.objs.set h { addrs := [a], lidx := li, ridx := ri }, next := h + 1 }
      let hm2 := Nebula.HostMap.addHost hm1 h
      let t : Tun := { addr := a, lidx := li, hasCS := kind != 0, hasCert := kind == 2, ver := ver, pver := pv,
                       expiry := s.clock + exp, gen := g }
      let s' := { s with hm := hm2, tuns := s.tuns.set h t }
      let m := s!"new {h};" ++ dump s'
      (s', { model := m, verdict := expect "add-effect" impl m, tag := "triv:add" })
    | _, _, _, _, _, _, _, _ => (s, badOp)
  | ["in", h] =>
    match natArg h with
    | some h =>
      if (s.tuns.get h).isSome && !(s.tun h).hasCS then (s, badOp) else
      if (s.tuns.get h).isNone then ok s impl "triv:in" else
      ok { s with tuns := s.tuns.set h { s.tun h with inF := true } } impl "triv:in"
    | none => (s, badOp)
  | ["out", h] =>
    match natArg h with
    | some h =>
      if (s.tuns.get h).isNone then ok s impl "triv:out" else
      ok { s with tuns := s.tuns.set h { s.tun h with outF := true } } impl "triv:out"
    | none => (s, badOp)
  | ["counter", h, n] =>
    match natArg h, natArg n with
    | some h, some n =>
      if (s.tuns.get h).isNone then ok s impl "triv:counter" else
      ok { s with tuns := s.tuns.set h { s.tun h with counter := n } } impl "triv:counter"
    | _, _ => (s, badOp)
  | ["block", h] =>
    match natArg h with
    | some h =>
      if (s.tuns.get h).isNone then ok s impl "triv:block" else
      ok { s with tuns := s.tuns.set h { s.tun h with blocked := true } } impl "triv:block"
    | none => (s, badOp)
  | ["sleep", n] =>
    match natArg n with
    | some n => ok { s with clock := s.clock + n } impl "triv:sleep"
    | none => (s, badOp)
  | ["relay", h, peer, ty, rst, vs] =>
    match natArg h, natArg peer, natArg ty, natArg rst, Hostmap.streamArg vs with
    | some h, some peer, some ty, some rst, some st =>
      if !(s.tuns.get h).isSome || !(ty == 1 || ty == 2) then (s, badOp) else
      let (hm', r) := Nebula.HostMap.addRelay s.hm h { type := ty, state := rst, peer := peer } st
      let s' := { s with hm := hm' }
      let m := Hostmap.allocStr r ++ ";" ++ dump s'
      (s', { model := m, verdict := expect "relay-effect" impl m, tag := "triv:relay" })
    | _, _, _, _, _ => (s, badOp)
  | ["used", i] =>
    match natArg i with
    | some i =>
      let clash : Bool := match s.hm.relays.get i with
        | some h => s.used.any fun j => j != i && ((s.hm.rstate h).byIdx.get j).isSome
        | none => false
      if clash then (s, badOp) else
      ok { s with used := if s.used.contains i then s.used else s.used ++ [i] } impl "triv:used"
    | none => (s, badOp)
  | ["decide", li] =>
    match natArg li with
    | some li =>
      let (i, hh, primary) := inputs s li
      let o := trafficDecision i
      let s' := match hh with | some h => applyFlags s h o | none => s
      let fl := match hh with | some h => flagStr (s'.tun h) | none => "-"
      let line := fun (d : Decision) =>
        s!"d={d.code} h={if o.retHost then optStr hh else "nil"} p={if o.retPrimary then optStr primary else "nil"} f={fl}"
      -- the oracle: the action must be the one the policy prescribes
      let verdict :=
        if impl.startsWith s!"d={(Spec.ConnMgr.policy i).code} " then expect "decision-side-effects" impl (line (Spec.ConnMgr.policy i))
        else s!"bad decision-differs-from-policy want={(Spec.ConnMgr.policy i).code}"
      (s', { model := line o.decision, verdict := verdict, tag := if i.found then "decide:" ++ decisionTag i o else "triv:decide-not-found" })
    | none => (s, badOp)
  | ["tick", li, vs] =>
    match natArg li, (if vs == "-" then some [] else Hostmap.streamArg vs) with
    | some li, some st =>
      let (i, hh, primary) := inputs s li
      let o := trafficDecision i
      match hh with
      | none => let m := dump s; (s, { model := m, verdict := expect "tick-effect" impl m, tag := "triv:tick-not-found" })
      | some h =>
        let s1 := applyFlags s h o
        let (s2, why) := effects s1 h o primary st
        let m := dump s2
        -- the oracle: the hostmap after the check is what the policy's action yields
        let op := { o with decision := Spec.ConnMgr.policy i }
        let want := dump (effects (applyFlags s h op) h op primary st).1
        (s2, { model := m, verdict := expect "tick-effect" impl want, tag := "tick:" ++ decisionTag i o ++ why })
    | _, _ => (s, badOp)
  | _ => (s, badOp)

def main : IO Unit := runEngine ({} : St) step

end Nebula.Driver.Connmgr
