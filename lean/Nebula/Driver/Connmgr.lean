/-
Line-protocol engine `connmgr` (C30).  Time is whole seconds of the virtual clock; tunnels are object ids handed out in
creation order; addresses are the last octet of 10.0.0.x.

ops:
  reset di to dinv my            drop_inactive, inactivity timeout (s), disconnect_invalid, own address   -> ok
  cfg di to dinv                 reload of the three settings                                            -> ok
  mycert g iv                    local v1 certificate := generation g (0 = none), pki.initiatingVersion   -> ok
  add a li ri kind exp g         established tunnel to address a, local/remote index, kind 1 = no peer certificate,
                                 2 = peer certificate valid for exp more seconds; built with local cert generation g
                                                                                                         -> new h;<dump>
  in h | out h | counter h n | block h | sleep n                                                         -> ok
  decide li                      makeTrafficDecision(li, now)     -> d=<code> h=<id|nil> p=<id|nil> f=<in><out><pd>
  tick li                        doTrafficCheck(li, now)          -> <dump>
dump: H a:h,h… | I i:h… | V a… | F h:<in><out><pd>…   (per-address lists primary first, Indexes, pending handshakes,
flags of every indexed tunnel)
-/
import Nebula.Driver.Common
import Nebula.Model.HostMap
import Nebula.Model.ConnMgr
import Nebula.Spec.ConnMgr

namespace Nebula.Driver.Connmgr
open Nebula.Driver Nebula.ConnMgr
open Nebula.HostMap (FMap)

structure Tun where
  addr : Nat
  lidx : Nat
  hasCert : Bool
  expiry : Nat := 0
  blocked : Bool := false
  counter : Nat := 0
  gen : Nat := 0
  inF : Bool := false
  outF : Bool := true       -- unlockedAddHostInfo: hostinfo.out.Store(true)
  pd : Bool := false
  lastUsed : Option Nat := none
  deriving Inhabited

structure St where
  clock : Nat := 0
  dropInactive : Bool := false
  timeout : Nat := 600
  disconnectInvalid : Bool := false
  myAddr : Nat := 0
  v1gen : Nat := 0
  initVer : Nat := 1
  tuns : FMap Tun := []
  hm : Nebula.HostMap.State := {}
  deriving Inhabited

def St.tun (s : St) (h : Nat) : Tun := (s.tuns.get h).getD default

def never : Nat := 10 ^ 12     -- `now.Sub(time.Time{})` saturates far above any timeout

def inputs (s : St) (li : Nat) : In × Option Nat × Option Nat :=
  match s.hm.indexes.get li with
  | none => (⟨false, .none, false, false, 0, false, false, false, false, false, 0, 0, false⟩, none, none)
  | some h =>
    let t := s.tun h
    let cert : CertV := if !t.hasCert then .none else if t.blocked then .blocklisted
      else if s.clock > t.expiry then .invalid else .ok
    let primary := s.hm.hosts.get t.addr
    let isMain := match primary with | none => true | some p => p == h
    let idle := match t.lastUsed with | none => never | some u => s.clock - u
    let swap := shouldSwapPrimary (decide (t.addr < s.myAddr)) t.counter (s.v1gen != 0) (t.gen == s.v1gen)
    (⟨true, cert, s.disconnectInvalid, true, t.counter, isMain, t.inF, t.outF, t.pd, s.dropInactive, idle, s.timeout, swap⟩,
      some h, primary)

/-- flag effects of `makeTrafficDecision` on the tunnel -/
def applyFlags (s : St) (h : Nat) (o : ConnMgr.Out) : St :=
  let t := s.tun h
  let t := if o.reset then
      { t with inF := false, outF := false, lastUsed := if t.inF || t.outF then some s.clock else t.lastUsed }
    else t
  { s with tuns := s.tuns.set h { t with pd := o.pd } }

def flagStr (t : Tun) : String := boolStr t.inF ++ boolStr t.outF ++ boolStr t.pd

def natList (l : List Nat) : String := if l.isEmpty then "-" else ",".intercalate (l.map toString)

def sortKeys {β : Type} (m : FMap β) : List (Nat × β) := m.mergeSort (fun a b => a.1 ≤ b.1)

def dump (s : St) : String :=
  let hs := (sortKeys s.hm.hosts).map fun (a, _) => s!" {a}:{natList (Nebula.HostMap.hostList s.hm a)}"
  let is := (sortKeys s.hm.indexes).map fun (i, h) => s!" {i}:{h}"
  let vs := (sortKeys s.hm.vpnIps).map fun (a, _) => s!" {a}"
  let fs := ((s.hm.indexes.map (·.2)).mergeSort (· ≤ ·)).map fun h => s!" {h}:{flagStr (s.tun h)}"
  "H" ++ String.join hs ++ "|I" ++ String.join is ++ "|V" ++ String.join vs ++ "|F" ++ String.join fs

def optStr : Option Nat → String
  | some h => toString h
  | none => "nil"

def decisionTag (i : In) (o : ConnMgr.Out) : String :=
  let d := match o.decision with
    | .doNothing => "nothing" | .deleteTunnel => "delete" | .closeTunnel => "close" | .swapPrimary => "swap"
    | .migrateRelays => "migrate" | .tryRehandshake => "rehandshake?" | .sendTestPacket => "test"
  if !i.found then "triv:not-found"
  else
    let why := if Spec.ConnMgr.certDemandsClose i.cert i.disconnectInvalid then (if i.cert == .blocklisted then ":blocklisted" else ":invalid")
      else if Spec.ConnMgr.exhausted i.hasCS i.counter then ":exhausted"
      else if i.inT then ":alive"
      else if i.pd then ":probe-unanswered"
      else if Spec.ConnMgr.inactive i then ":inactive"
      else if !i.isMain then ":non-primary-silent"
      else if i.cert == .invalid then ":silent-invalid-kept" else ":silent"
    d ++ why

/-- the hostmap / handshake effects of `doTrafficCheck` for a decision on tunnel `h` -/
def effects (s : St) (h : Nat) (o : ConnMgr.Out) (primary : Option Nat) : St × String :=
  let t := s.tun h
  match o.decision with
  | .deleteTunnel | .closeTunnel => ({ s with hm := (Nebula.HostMap.deleteHost s.hm h).1 }, "")
  | .swapPrimary =>
    if s.hm.hosts.get t.addr == primary then ({ s with hm := (Nebula.HostMap.makePrimary s.hm h).1 }, "") else (s, "")
  | .tryRehandshake =>
    let r := rehandshakes (s.v1gen != 0) false false (t.gen == s.v1gen) (decide (1 < s.initVer)) t.counter
    if r then ({ s with hm := (Nebula.HostMap.startHandshake s.hm t.addr).1 },
      if s.v1gen == 0 then ":cert-removed" else if t.gen != s.v1gen then ":cert-changed"
      else if 1 < s.initVer then ":version" else ":counter")
    else (s, ":no-cause")
  | _ => (s, "")

def ok (s : St) (impl : String) (tag : String) : St × Out :=
  (s, { model := "ok", verdict := expect "setup-op" impl "ok", tag := tag })

def step (s : St) (args : List String) (impl : String) : St × Out :=
  match args with
  | ["reset", di, to, dinv, my] =>
    match natArg di, natArg to, natArg dinv, natArg my with
    | some di, some to, some dinv, some my =>
      ok { dropInactive := di != 0, timeout := to, disconnectInvalid := dinv != 0, myAddr := my } impl "triv:reset"
    | _, _, _, _ => (s, badOp)
  | ["cfg", di, to, dinv] =>
    match natArg di, natArg to, natArg dinv with
    | some di, some to, some dinv =>
      ok { s with dropInactive := di != 0, timeout := to, disconnectInvalid := dinv != 0 } impl "triv:cfg"
    | _, _, _ => (s, badOp)
  | ["mycert", g, iv] =>
    match natArg g, natArg iv with
    | some g, some iv => ok { s with v1gen := g, initVer := iv } impl "triv:mycert"
    | _, _ => (s, badOp)
  | ["add", a, li, ri, kind, exp, g] =>
    match natArg a, natArg li, natArg ri, natArg kind, natArg exp, natArg g with
    | some a, some li, some ri, some kind, some exp, some g =>
      if (s.hm.indexes.get li).isSome || li == 0 then (s, badOp) else
      let h := s.hm.next
      let hm1 := { s.hm with objs := s.hm.objs.set h { addrs := [a], lidx := li, ridx := ri }, next := h + 1 }
      let hm2 := Nebula.HostMap.addHost hm1 h
      let t : Tun := { addr := a, lidx := li, hasCert := kind == 2, expiry := s.clock + exp, gen := g }
      let s' := { s with hm := hm2, tuns := s.tuns.set h t }
      let m := s!"new {h};" ++ dump s'
      (s', { model := m, verdict := expect "add-effect" impl m, tag := "triv:add" })
    | _, _, _, _, _, _ => (s, badOp)
  | ["in", h] =>
    match natArg h with
    | some h => ok { s with tuns := s.tuns.set h { s.tun h with inF := true } } impl "triv:in"
    | none => (s, badOp)
  | ["out", h] =>
    match natArg h with
    | some h => ok { s with tuns := s.tuns.set h { s.tun h with outF := true } } impl "triv:out"
    | none => (s, badOp)
  | ["counter", h, n] =>
    match natArg h, natArg n with
    | some h, some n => ok { s with tuns := s.tuns.set h { s.tun h with counter := n } } impl "triv:counter"
    | _, _ => (s, badOp)
  | ["block", h] =>
    match natArg h with
    | some h => ok { s with tuns := s.tuns.set h { s.tun h with blocked := true } } impl "triv:block"
    | none => (s, badOp)
  | ["sleep", n] =>
    match natArg n with
    | some n => ok { s with clock := s.clock + n } impl "triv:sleep"
    | none => (s, badOp)
  | ["decide", li] =>
    match natArg li with
    | some li =>
      let (i, hh, primary) := inputs s li
      let o := trafficDecision i
      let s' := match hh with | some h => applyFlags s h o | none => s
      let fl := match hh with | some h => flagStr (s'.tun h) | none => "-"
      let line := fun (d : Decision) =>
        s!"d={d.code} h={if o.retHost then optStr hh else "nil"} p={if o.retPrimary then optStr primary else "nil"} f={fl}"
      -- the oracle: the action must be the one the policy prescribes
      let verdict :=
        if impl.startsWith s!"d={(Spec.ConnMgr.policy i).code} " then expect "decision-side-effects" impl (line (Spec.ConnMgr.policy i))
        else s!"bad decision-differs-from-policy want={(Spec.ConnMgr.policy i).code}"
      (s', { model := line o.decision, verdict := verdict, tag := if i.found then "decide:" ++ decisionTag i o else "triv:decide-not-found" })
    | none => (s, badOp)
  | ["tick", li] =>
    match natArg li with
    | some li =>
      let (i, hh, primary) := inputs s li
      let o := trafficDecision i
      match hh with
      | none => let m := dump s; (s, { model := m, verdict := expect "tick-effect" impl m, tag := "triv:tick-not-found" })
      | some h =>
        let s1 := applyFlags s h o
        let (s2, why) := effects s1 h o primary
        let m := dump s2
        -- the oracle: the hostmap after the check is what the policy's action yields
        let op := { o with decision := Spec.ConnMgr.policy i }
        let want := dump (effects (applyFlags s h op) h op primary).1
        (s2, { model := m, verdict := expect "tick-effect" impl want, tag := "tick:" ++ decisionTag i o ++ why })
    | none => (s, badOp)
  | _ => (s, badOp)

def main : IO Unit := runEngine ({} : St) step

end Nebula.Driver.Connmgr
