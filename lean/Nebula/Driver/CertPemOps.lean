/-
PEM ops of the line-protocol engine `certcodec` (C03): `Model/CertPem.lean` against encoding/pem and cert/pem.go.
No `main` here: `Driver/Certcodec.lean` hands every op it does not know to `pemStep`.

ops (all byte strings hex, `-` = empty):
  pemraw <text>                 -> block <type> <h0|h1> <bytes> <rest> | none <rest>            (pem.Decode)
  pemenc cert <ver> <std>       -> <MarshalPEM text> | undecodable | err:marshal
  pemenc pub|spub|priv|spriv <curve> <key>  -> <text> | nil
  pemdec <text>                 -> ok CERT <rest> | err:<kind> <rest>                           (UnmarshalCertificateFromPEM)
  pemkey pub|spub|priv|spriv <text> -> ok <curve> <key> <rest> | err:<kind> <rest|nil>
  pemrt <ver> <std> <suffix>    -> same|fields|fp|err:<kind> <rest>     property: `same` and rest = suffix
  pembundle <text>              -> <n> <ver:name>… end|err:<kind>
-/
import Nebula.Driver.CertArgs
import Nebula.Model.CertPem
import Nebula.Model.CertKeys

namespace Nebula.Driver.CertPemOps
open Nebula.Driver Nebula.Net Nebula.Cert Nebula.CertPem

def invStrP : InvErr → String
  | .name => "name" | .emptyGroup => "empty-group" | .publicKey => "public-key" | .noNetworks => "no-networks" | .invalidNetwork => "invalid-network"
  | .zeroAddress => "zero-address" | .fourInSix => "4in6" | .v1IPv6 => "v1-ipv6" | .duplicateNetwork => "duplicate"
  | .invalidUnsafe => "invalid-unsafe" | .v1IPv6Unsafe => "v1-ipv6-unsafe" | .unsafeNeedsV6 => "unsafe-needs-v6"
  | .unsafeNeedsV4 => "unsafe-needs-v4" | .duplicateUnsafe => "duplicate"

def pemErrStr : PemErr → String
  | .invalidPEMBlock => "err:invalid-pem" | .banner => "err:banner" | .panic => "PANIC"
  | .v2 .badFormat => "err:bad-format" | .v2 .pubkeyPresent => "err:pubkey-present"
  | .v2 (.invalid e) => "err:invalid:" ++ invStrP e | .v2 .other => "err:curve-mismatch"
  | .v1 .empty => "err:empty" | .v1 .proto => "err:proto" | .v1 .noDetails => "err:no-details" | .v1 .oddIps => "err:odd-ips"
  | .v1 .oddSubnets => "err:odd-subnets" | .v1 .pubkeyPresent => "err:pubkey-present"
  | .v1 (.invalid e) => "err:invalid:" ++ invStrP e | .v1 .other => "err:curve-mismatch"

def bannerStr (b : Bytes) : String := String.ofList (b.map (fun c => Char.ofNat c.toNat))

/-- decode the standard encoding of version `ver` (the harness wraps it in the version's PEM banner). -/
def decodeStd (ver : Nat) (b : Bytes) : Except PemErr Cert :=
  unmarshalCertificateBlock ⟨if ver == 1 then bannerV1 else if ver == 2 then bannerV2 else [63], false, b⟩

def fpBytesP (c : Cert) : Option Bytes :=
  if c.version == 2 then (V2.encodeDetails c).map (fun rd => V2.fingerprintBytes rd c.curve c.publicKey c.signature)
  else V1.marshal c c.publicKey

def keyBanner (fn : String) (curve : Nat) : Option String :=
  if fn == "pub" then CertKeys.publicKeyBanner curve
  else if fn == "spub" then CertKeys.signingPublicKeyBanner curve
  else if fn == "priv" then CertKeys.privateKeyBanner curve
  else CertKeys.signingPrivateKeyBanner curve

def keyErrStr : CertKeys.KeyErr → String
  | .banner => "err:banner" | .length => "err:length" | .encrypted => "err:encrypted"

def pemStep (args : List String) (impl : String) : Out :=
  match args with
  | ["pemraw", text] =>
    match hexToBytes text with
    | none => badOp
    | some t =>
      let (m, tag) := match pemDecode t with
        | .block b r => (s!"block {bytesToHex b.ty} h{boolStr b.hdr} {bytesToHex b.bytes} {bytesToHex r}", if b.hdr then "pemraw:block-headers" else "pemraw:block")
        | .noBlock r => (s!"none {bytesToHex r}", "pemraw:none")
        | .panic => ("PANIC", "pemraw:panic")
      let verdict := if impl.startsWith "PANIC" then "bad pem-decode-panic" else "ok"
      { model := m, verdict := verdict, tag := tag }
  | ["pemenc", "cert", ver, std] =>
    match natArg ver, hexToBytes std with
    | some ver, some b =>
      let m := match decodeStd ver b with
        | .error _ => "undecodable"
        | .ok c => match marshalPEM c with | some t => bytesToHex t | none => "err:marshal"
      { model := m, verdict := "ok", tag := if m == "undecodable" then "triv:pemenc-undecodable" else s!"pemenc:cert{ver}" }
    | _, _ => badOp
  | ["pemenc", fn, curve, key] =>
    match natArg curve, hexToBytes key with
    | some curve, some k =>
      let m := match keyBanner fn curve with
        | some b => bytesToHex (pemEncode (asBytes b) k)
        | none => "nil"
      { model := m, verdict := "ok", tag := s!"pemenc:{fn}:{if m == "nil" then "nil" else "ok"}" }
    | _, _ => badOp
  | ["pemdec", text] =>
    match hexToBytes text with
    | none => badOp
    | some t =>
      let (r, rest) := unmarshalCertificateFromPEM t
      let m := match r with
        | .ok c => s!"ok {showCert c} {bytesToHex rest}"
        | .error e => s!"{pemErrStr e} {bytesToHex rest}"
      let verdict := if impl.startsWith "PANIC" then "bad pem-decode-panic" else "ok"
      { model := m, verdict := verdict, tag := "pemdec:" ++ ((m.splitOn " ").headD "") }
  | ["pemkey", fn, text] =>
    match hexToBytes text with
    | none => badOp
    | some t =>
      let m := match pemDecode t with
        | .noBlock r => s!"err:invalid-pem {bytesToHex r}"
        | .panic => "PANIC"
        | .block b r =>
          let bn := bannerStr b.ty
          let res := if fn == "pub" then CertKeys.unmarshalPublicKey bn b.bytes
                     else if fn == "spub" then CertKeys.unmarshalSigningPublicKey bn b.bytes
                     else if fn == "priv" then CertKeys.unmarshalPrivateKey bn b.bytes
                     else CertKeys.unmarshalSigningPrivateKey bn b.bytes
          match res with
          | .ok (k, c) => s!"ok {c} {bytesToHex k} {bytesToHex r}"
          | .error .encrypted => "err:encrypted nil"      -- `return nil, nil, curve, ErrPrivateKeyEncrypted`
          | .error e => s!"{keyErrStr e} {bytesToHex r}"
      let verdict := if impl.startsWith "PANIC" then "bad pem-decode-panic" else "ok"
      { model := m, verdict := verdict, tag := s!"pemkey:{fn}:" ++ ((m.splitOn " ").headD "") }
  | ["pemrt", ver, std, suffix] =>
    match natArg ver, hexToBytes std, hexToBytes suffix with
    | some ver, some b, some sfx =>
      match decodeStd ver b with
      | .error _ => { model := "undecodable", verdict := "ok", tag := "triv:pemrt-undecodable" }
      | .ok c =>
        let m := match marshalPEM c with
          | none => "err:marshal"
          | some t =>
            let (r, rest) := unmarshalCertificateFromPEM (t ++ sfx)
            let v := match r with
              | .error e => pemErrStr e
              | .ok c' => if c' != c then "fields" else if fpBytesP c' != fpBytesP c then "fp" else "same"
            s!"{v} {bytesToHex rest}"
        -- property (C03): the PEM encoding of a certificate reads back as the same certificate, and whatever
        -- follows the block comes back untouched as the rest
        let verdict :=
          if impl.startsWith "PANIC" then "bad pem-decode-panic"
          else match impl.splitOn " " with
            | [v, rest] =>
              if v != "same" then s!"bad pem-roundtrip {v}"
              else if rest != bytesToHex sfx then "bad pem-rest-not-returned"
              else "ok"
            | _ => if impl == "err:marshal" then "ok" else "bad pem-roundtrip unparsable-answer"
        { model := m, verdict := verdict, tag := s!"pemrt:v{ver}:" ++ (if sfx.isEmpty then "no-rest" else "rest") }
    | _, _, _ => badOp
  | ["pembundle", text] =>
    match hexToBytes text with
    | none => badOp
    | some t =>
      let (cs, e) := readBundle (t.length + 1) t
      let items := cs.map (fun c => s!"{c.version}:{bytesToHex c.name}")
      let m := s!"{cs.length} " ++ " ".intercalate (items ++ [match e with | none => "end" | some e => pemErrStr e])
      let verdict := if impl.startsWith "PANIC" then "bad pem-decode-panic" else "ok"
      { model := m, verdict := verdict, tag := s!"pembundle:{min cs.length 3}:" ++ (match e with | none => "end" | some e => pemErrStr e) }
  | _ => badOp

end Nebula.Driver.CertPemOps
