/-
Line-protocol engine `counter` (C13).
ops (t = thread id):
  reset <ctr0> <lock 0|1> <aes|chacha>  -> ok
  add <t>      hot path `messageCounter.Add(1)`                  -> `<c>` | `skip`
  ctladd <t>   the `Add(1)` inside NextMessageCounter (split)     -> `<c>` | `skip`
  next <t>     the real NextMessageCounter() as one step          -> `<c> <0|1>` | `skip`
  fin <t>      rest of t's send: EncryptDanger(c) / Store(Reject) -> `sealed <nonce>` | `refused` | `pinned` | `skip`
  hotsend <t>  the real sendInsideEncrypt as one step             -> `sealed <nonce>` | `refused` | `skip`
  load                                                           -> `<counter>`
  callsites    AST scan of the repository: every call of EncryptDanger / NextMessageCounter / a mutating
               method of a `messageCounter` field, as sorted `<function>:<callee>` list
  lockrace <t> <rounds>  3·rounds real sendInsideEncrypt calls by contending goroutines (two senders,
               one held inside EncryptDanger while the other starts)  -> `ok sealed=<k> ctr=<counter>` | `skip`
               | `disorder <n> reached the cipher after <m>` (lock mode only; never produced by the model)
-/
import Nebula.Driver.Common
import Nebula.Model.Counter
import Nebula.Spec.Nonce

namespace Nebula.Driver.Counter
open Nebula.Driver Nebula.Counter Nebula.Spec

structure S where
  m : State := init 0#64
  h : Nonce.H := { ctr0 := 0, ceiling := 0, increasing := false }
  /-- an `Add` has wrapped the 64-bit counter (only reachable past the headroom) -/
  wrapped : Bool := false

def finStr : FinResult → String
  | .none => "skip"
  | .sealed c => s!"sealed {c.toNat}"
  | .refused _ => "refused"
  | .pinned _ => "pinned"

/-- verdict on an answer of the form `sealed <n>` / anything else, against the nonce history -/
def sealVerdict (s : S) (impl : String) : String :=
  match impl.splitOn " " with
  | ["sealed", n] =>
    match n.toNat? with
    | none => "bad sealed-unparsable"
    | some n =>
      match Nonce.violation s.h n with
      | none => "ok"
      | some cls =>
        if s.wrapped then s!"bad counter-wrap-past-headroom {cls} nonce={n}" else s!"bad {cls} nonce={n}"
  | _ => "ok"

def doAdd (s : S) (ctl : Bool) (t : Nat) : S :=
  let w := s.wrapped || (s.m.pend t).isNone && s.m.ctr == BitVec.allOnes 64
  { s with m := step s.m (.add ctl t), wrapped := w }

def doFin (s : S) (t : Nat) : S × FinResult :=
  let r := finResult s.m t
  let h := match r with
    | .sealed c => Nonce.record s.h c.toNat
    | _ => s.h
  ({ s with m := step s.m (.fin t), h := h }, r)

def phase (s : S) : String :=
  if s.m.ctr.toNat + 1 == reject.toNat then ":at-ceiling-1"
  else if s.m.ctr == reject then ":at-ceiling"
  else if reject < s.m.ctr then ":past-ceiling"
  else if s.m.ctr.toNat + 8 ≥ reject.toNat then ":near-ceiling"
  else ""

/-- every place in the repository that reserves a message counter or hands one to the cipher; the model
(`add` / `fin` steps; `ctl` = through NextMessageCounter) and the structural facts cover exactly these.
`newConnectionStateFromResult` seeds the counter with the handshake's message index before the tunnel
is shared (the start value `ctr0` of the model). -/
def knownCallSites : String :=
  ",".intercalate [
    "ConnectionState.NextMessageCounter:messageCounter.Add",
    "ConnectionState.NextMessageCounter:messageCounter.Store",
    "Interface.prepareSendVia:EncryptDanger",
    "Interface.prepareSendVia:NextMessageCounter",
    "Interface.sendInsideEncrypt:EncryptDanger",
    "Interface.sendInsideEncrypt:messageCounter.Add",
    "Interface.sendNoMetrics:EncryptDanger",
    "Interface.sendNoMetrics:NextMessageCounter",
    "newConnectionStateFromResult:messageCounter.Add"]

def step (s : S) (args : List String) (impl : String) : S × Out :=
  match args with
  | ["callsites"] =>
    (s, { model := knownCallSites, verdict := expect "unlisted-counter-callsite" impl knownCallSites,
          tag := "callsites" })
  | ["reset", c0, lock, _cipher] =>
    match natArg c0 with
    | some c0 =>
      if c0 ≥ 2 ^ 64 then (s, badOp) else
      ({ m := init (BitVec.ofNat 64 c0),
         h := { ctr0 := c0, ceiling := reject.toNat, increasing := lock == "1" }, wrapped := false },
       { model := "ok", tag := "triv:reset" })
    | none => (s, badOp)
  | "lockrace" :: t :: rounds :: rest =>
    match natArg t, natArg rounds with
    | some t, some rounds =>
      if (s.m.pend t).isSome then (s, { model := "skip", tag := "triv:skip" }) else
      -- which real send path each of the three sends of a round takes: h = sendInsideEncrypt,
      -- v = prepareSendVia, c = sendNoMetrics (the latter two reserve through NextMessageCounter)
      let pat := match rest with
        | [p] => if p.length == 3 then p.toList else ['h', 'h', 'h']
        | _ => ['h', 'h', 'h']
      let kinds := (List.replicate rounds pat).flatten
      -- whoever wins the lock, each send is one critical section: atomic sends
      let (s', k) := kinds.foldl (fun (a : S × Nat) kind =>
        let s1 := doAdd a.1 (kind != 'h') t
        let (s2, r) := doFin s1 t
        (s2, match r with | .sealed _ => a.2 + 1 | _ => a.2)) (s, 0)
      let verdict := if impl.startsWith "disorder" then s!"bad locked-not-monotone {impl}" else "ok"
      (s', { model := s!"ok sealed={k} ctr={s'.m.ctr.toNat}", verdict := verdict,
             tag := "lockrace:" ++ String.ofList pat ++ phase s })
    | _, _ => (s, badOp)
  | [op, t] =>
    match natArg t with
    | none => (s, badOp)
    | some t =>
      let busy := (s.m.pend t).isSome
      if op == "add" || op == "ctladd" then
        if busy then (s, { model := "skip", tag := "triv:skip" }) else
        let s' := doAdd s (op == "ctladd") t
        (s', { model := toString s'.m.ctr.toNat, tag := op ++ phase s })
      else if op == "next" then
        if busy then (s, { model := "skip", tag := "triv:skip" }) else
        let s1 := doAdd s true t
        let c := s1.m.ctr
        if reject ≤ c then
          let (s2, _) := doFin s1 t
          (s2, { model := s!"{c.toNat} 0", tag := "next:exhausted" ++ phase s })
        else (s1, { model := s!"{c.toNat} 1", tag := "next" ++ phase s })
      else if op == "fin" then
        let (s', r) := doFin s t
        let m := finStr r
        (s', { model := m, verdict := sealVerdict s impl,
               tag := match r with
                 | .none => "triv:skip"
                 | .sealed _ => "fin:sealed" ++ phase s
                 | .refused _ => "fin:refused" ++ phase s
                 | .pinned _ => "fin:pinned" ++ phase s })
      else if op == "hotsend" then
        if busy then (s, { model := "skip", tag := "triv:skip" }) else
        let s1 := doAdd s false t
        let (s2, r) := doFin s1 t
        (s2, { model := finStr r, verdict := sealVerdict s1 impl,
               tag := (match r with | .sealed _ => "hotsend:sealed" | _ => "hotsend:refused") ++ phase s })
      else (s, badOp)
  | ["load"] => (s, { model := toString s.m.ctr.toNat, tag := "load" ++ phase s })
  | _ => (s, badOp)

def main : IO Unit := runEngine ({} : S) step

end Nebula.Driver.Counter
