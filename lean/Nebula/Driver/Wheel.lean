/-
Line-protocol engine `wheel` (C33).  Stateful; a case starts with `reset`.
ops:
  reset <tick> <span>   -> `len=<wheelLen>`
  adv <now>             -> `<current> <lastTick> <#expired>`     (times: integer ns on a simulated clock)
  add <id> <timeout>    -> `<slot>`                              (slot chosen by findWheel)
  purge                 -> `<id>` | `none`
  drain                 -> `<id>,<id>,…` | `-`                   (Purge until empty)
The oracle (Spec.Wheel) keeps, per added id, the earliest/latest advance times between which it must be
handed out, and removes ids as the implementation returns them.
-/
import Nebula.Driver.Common
import Nebula.Model.Wheel
import Nebula.Spec.Wheel

namespace Nebula.Driver.Wheel
open Nebula.Driver Nebula.Wheel
open Nebula.Spec.Wheel (Pending mkPending)

structure St where
  tw : TW Nat
  tick : Int
  span : Int
  lastNow : Option Int          -- time of the latest Advance
  pending : List Pending        -- spec: added, not yet returned by the implementation
  done : List Nat               -- spec: ids already returned

def init : St := { tw := Wheel.new 1 1, tick := 1, span := 1, lastNow := none, pending := [], done := [] }

def drainModel (fuel : Nat) (tw : TW Nat) (acc : List Nat) : List Nat × TW Nat :=
  match fuel with
  | 0 => (acc.reverse, tw)
  | fuel + 1 =>
    match purge tw with
    | (none, tw) => (acc.reverse, tw)
    | (some v, tw) => drainModel fuel tw (v :: acc)

/-- oracle for ids the implementation handed out at (latest advance time) `now`. -/
def checkReturned (s : St) (ids : List Nat) : String × List Pending × List Nat :=
  let now := s.lastNow.getD 0
  ids.foldl (fun (acc : String × List Pending × List Nat) id =>
    let (v, pend, done) := acc
    match pend.find? (·.id == id) with
    | none =>
      let v' := if v != "ok" then v else
        if done.contains id then s!"bad wheel-returned-twice id={id}" else s!"bad wheel-returned-unknown id={id}"
      (v', pend, done)
    | some p =>
      let v' := if v != "ok" then v else
        if now ≤ p.earliest then s!"bad wheel-fired-early id={id} now={now} earliest>{p.earliest}" else "ok"
      (v', pend.filter (·.id != id), id :: done)) ("ok", s.pending, s.done)

/-- after everything expired has been drained (or a Purge found nothing): nothing overdue may remain. -/
def checkOverdue (now : Int) (pend : List Pending) : String :=
  match pend.find? (fun p => p.latest ≤ now) with
  | some p => s!"bad wheel-fired-late id={p.id} now={now} latest={p.latest}"
  | none => "ok"

def parseIds (impl : String) : Option (List Nat) :=
  if impl == "-" || impl == "none" then some [] else (impl.splitOn ",").mapM natArg

def step (s : St) (args : List String) (impl : String) : St × Out :=
  match args with
  | ["reset", tick, span] =>
    match intArg tick, intArg span with
    | some tick, some span =>
      if tick < 1 then (s, badOp) else
      let tw : TW Nat := Wheel.new tick span
      let want := s!"len={span / tick + 2}"
      ({ tw := tw, tick := tick, span := span, lastNow := none, pending := [], done := [] },
       { model := s!"len={tw.wheelLen}", verdict := expect "wheel-length" impl want,
         tag := if span % tick == 0 then "reset:span-multiple" else if span < tick then "reset:span-below-tick" else "reset:span-ragged" })
    | _, _ => (s, badOp)
  | ["adv", now] =>
    match intArg now with
    | some now =>
      let gap : Int := match s.tw.lastTick with | some l => (now - l) / s.tick | none => 0
      let tw := advance s.tw now
      let tag := if s.tw.lastTick.isNone then "adv:first" else
        if gap == 0 then "adv:within-tick" else if gap > s.tw.wheelLen then "adv:gt-revolution"
        else if gap == s.tw.wheelLen then "adv:eq-revolution" else "adv:ticks"
      ({ s with tw := tw, lastNow := some now },
       { model := s!"{tw.current} {tw.lastTick.getD 0} {tw.expired.length}", verdict := "ok", tag := tag })
    | none => (s, badOp)
  | ["add", id, t] =>
    match natArg id, intArg t with
    | some id, some t =>
      let slot := findWheel s.tw t
      match add s.tw id t with
      | none => (s, { model := "panic", verdict := if impl.startsWith "PANIC" then "bad wheel-add-panic" else "ok", tag := "add:panic" })
      | some tw =>
        let p := mkPending s.tick s.span (s.lastNow.getD 0) id t
        let tag := if t < s.tick then "add:below-tick" else if t > s.span then "add:above-span"
          else if t % s.tick == 0 then "add:whole-ticks" else "add:ragged"
        let tag := if slot == s.tw.current then tag ++ "-wraps-onto-current" else tag
        ({ s with tw := tw, pending := s.pending ++ [p] },
         { model := toString slot, verdict := if impl.startsWith "PANIC" then "bad wheel-add-panic" else "ok", tag := tag })
    | _, _ => (s, badOp)
  | ["purge"] =>
    let (r, tw) := purge s.tw
    let model := match r with | none => "none" | some v => toString v
    match parseIds impl with
    | none => ({ s with tw := tw }, { model := model, verdict := "bad wheel-unparsable", tag := "purge" })
    | some ids =>
      let (v, pend, done) := checkReturned s ids
      let v := if v != "ok" then v else if ids.isEmpty then checkOverdue (s.lastNow.getD 0) pend else "ok"
      ({ s with tw := tw, pending := pend, done := done },
       { model := model, verdict := v, tag := if r.isNone then "purge:none" else "purge:item" })
  | ["drain"] =>
    let (l, tw) := drainModel (s.tw.expired.length + 1) s.tw []
    let model := if l.isEmpty then "-" else ",".intercalate (l.map toString)
    match parseIds impl with
    | none => ({ s with tw := tw }, { model := model, verdict := "bad wheel-unparsable", tag := "drain" })
    | some ids =>
      let (v, pend, done) := checkReturned s ids
      let v := if v != "ok" then v else checkOverdue (s.lastNow.getD 0) pend
      ({ s with tw := tw, pending := pend, done := done },
       { model := model, verdict := v, tag := if l.isEmpty then "drain:empty" else if l.length == 1 then "drain:one" else "drain:many" })
  | _ => (s, badOp)

def main : IO Unit := runEngine init step

end Nebula.Driver.Wheel
