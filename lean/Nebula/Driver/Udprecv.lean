/-
Line-protocol engine `udprecv` (C27).
ops:
  consts                      -> `SizeofCmsghdr CmsgLen(0) CmsgSpace(4) SOL_UDP UDP_GRO udpGROCmsgPayload le|be`
  seg <hex> <segSize>         -> delivered pieces, hex, comma separated, then ` cap=1` (every piece has cap == len)
  segn <len> <segSize>        -> `off:len,…` of the delivered pieces inside the payload (payload[i] = (7 i + 3) mod 256)
  cmsg <hex>                  -> gso               (Control = the bytes, Controllen = their number)
  cmsgx <hex> <controllen>    -> gso               (Controllen smaller than the memory that follows Control)
  cmsgnil <controllen>        -> gso               (Control == nil)
  cmsgw lvl:typ:hex;…         -> gso               (buffer laid out by unix.CmsgSpace/CmsgLen from the messages)
 the real `StdConn.ListenOut` loop over loopback sockets (recvmmsg slot reuse across reads):
  reset listen <batch> <offloads> <gro> <gso>  -> `gro=<0|1> gso=<0|1>`  (fresh receiver running ListenOut + sender; the
                                                  last two arguments are what the generator's probe of the environment saw)
  lsend <size>…               -> `sent=<n>`        (one size: WriteTo, a plain datagram; several: one WriteBatch, a GSO
                                                  burst where the kernel supports it; datagram k has bytes (37k+7i+3) mod 256)
  lrecv                       -> `len:digest,…`    (what ListenOut's callback delivered since the last lrecv, in order;
                                                  `timeout …` when the bytes sent did not all arrive within the bounded wait)
-/
import Nebula.Driver.Common
import Nebula.Model.Udprecv
import Nebula.Model.UdprecvListen
import Nebula.Spec.Udprecv

namespace Nebula.Driver.Udprecv
open Nebula.Driver Nebula.Udprecv

def join (sep : String) (l : List String) : String := sep.intercalate l

def showPieces (ps : List (List UInt8)) : String := join "," (ps.map bytesToHex)

def parsePieces (s : String) : Option (List (List UInt8)) :=
  (s.splitOn ",").mapM hexToBytes

def showR : R → String
  | .gso g _ => toString g
  | .oob => "OOB"

def pat (n : Nat) : List UInt8 := (List.range n).map (fun i => UInt8.ofNat ((7 * i + 3) % 256))

def segTag (len : Nat) (seg : Int) : String :=
  if seg < 0 then "seg:bogus-neg" else if seg = 0 then "seg:bogus-zero"
  else if seg = len then "seg:bogus-eq" else if seg > len then "seg:bogus-gt"
  else if len % seg.toNat = 0 then "seg:split-even" else "seg:split-tail"

def cmsgTag (pre : String) (ctrl : List UInt8) (r : R) : String :=
  match r with
  | .oob => pre ++ ":oob"
  | .gso g n =>
    if ctrl.length < 16 then "triv:" ++ pre ++ "-short"
    else pre ++ ":it" ++ toString (min n 3) ++ (if g = 0 then ":zero" else if g < 0 then ":neg" else ":pos")

def cmsgVerdict (impl : String) : String :=
  if impl.startsWith "PANIC" then "bad cmsg-oob-read " ++ impl
  else if impl.toInt?.isNone then "bad cmsg-unparsable" else "ok"

/-- `off:len,…` → list of (off,len) -/
def parseOffLens (s : String) : Option (List (Nat × Nat)) :=
  (s.splitOn ",").mapM (fun t => match t.splitOn ":" with
    | [a, b] => match a.toNat?, b.toNat? with
      | some a, some b => some (a, b)
      | _, _ => none
    | _ => none)

def parseCmsgs (s : String) : Option (List Spec.Udprecv.Cmsg) :=
  if s == "-" then some [] else
  (s.splitOn ";").mapM (fun t => match t.splitOn ":" with
    | [l, ty, d] => match l.toNat?, ty.toNat?, hexToBytes d with
      | some l, some ty, some d => some { level := l, type := ty, data := d }
      | _, _, _ => none
    | _ => none)

/-- state of a listen case: the model's view of recvmmsg slot 0 (sequential sends land there), and what was
sent since the last `lrecv`. -/
structure St where
  slot : Slot := Slot.fresh
  gro : Bool := false
  gso : Bool := false
  seq : Nat := 0
  pending : List (List (List UInt8)) := []

def listenPayload (k n : Nat) : List UInt8 := (List.range n).map (fun i => UInt8.ofNat ((k * 37 + i * 7 + 3) % 256))

def pieceText (b : List UInt8) : String :=
  s!"{b.length}:{b.foldl (fun h x => (h * 31 + x.toNat) % 4294967296) 0}"

def piecesText (ps : List (List UInt8)) : String :=
  if ps.isEmpty then "-" else join "," (ps.map pieceText)

/-- the fills the kernel hands to the receiver for one `lsend`, if it coalesces as the sender planned: a
uniform burst (all segments of size g, the last one at most g) is one UDP_GRO superdatagram, anything else
arrives datagram by datagram.  (How the kernel really coalesces does not matter to the oracle — by
`listen_history_splits_exactly` the delivered sequence is the sent one either way.) -/
def fillsOf (coalesce : Bool) (burst : List (List UInt8)) : List Fill :=
  match burst with
  | d :: _ :: _ =>
    let g := d.length
    if coalesce ∧ 0 < g ∧ burst.dropLast.all (fun x => x.length == g) ∧
        (burst.getLast?.map (fun x => decide (x.length ≤ g))).getD false then
      [{ payload := burst.flatten, msgs := [{ level := 17, type := 104, data := Spec.Udprecv.leBytes 4 g }] }]
    else burst.map (fun p => { payload := p, msgs := [] })
  | _ => burst.map (fun p => { payload := p, msgs := [] })

/-- does the history contain the stale-size hazard: a plain datagram longer than the gso_size still sitting
in the slot's ancillary bytes? -/
def hazard (s : Slot) : List Fill → Bool
  | [] => false
  | f :: fs =>
    let stale := match parse false s.ctrl with
      | .gso g _ => decide (0 < g ∧ g < (f.payload.length : Int))
      | .oob => false
    (f.msgs.isEmpty && stale) || hazard (listenStep s f).1 fs

def isPrefix (a b : List String) : Bool :=
  match a, b with
  | [], _ => true
  | _, [] => false
  | x :: xs, y :: ys => x == y && isPrefix xs ys

def step (s : St) (args : List String) (impl : String) : St × Out :=
  match args with
  | ["reset", "listen", _batch, _off, gro, gso] =>
    -- whether the kernel grants UDP_GRO / UDP_SEGMENT is an observation of the environment, not behaviour under
    -- test: a well-formed report is taken as is (it only selects branch tags and the hypothetical fills below — the
    -- oracle of `lrecv` does not depend on it); the op's own values (the generator's probe) are the fallback
    let envs := ["gro=0 gso=0", "gro=0 gso=1", "gro=1 gso=0", "gro=1 gso=1"]
    let m := if envs.contains impl then impl else s!"gro={gro} gso={gso}"
    ({ gro := m.startsWith "gro=1", gso := m.endsWith "gso=1" },
     { model := m, verdict := "ok", tag := if m.startsWith "gro=1" then "triv:listen-open-gro" else "triv:listen-open-plain" })
  | "lsend" :: sizes =>
    match sizes.mapM natArg with
    | some ns =>
      if ns.isEmpty then (s, badOp) else
      let burst := (ns.zipIdx).map (fun (n, i) => listenPayload (s.seq + i) n)
      ({ s with seq := s.seq + ns.length, pending := s.pending ++ [burst] },
       { model := s!"sent={ns.length}", verdict := "ok", tag := if ns.length == 1 then "triv:lsend-plain" else "triv:lsend-burst" })
    | none => (s, badOp)
  | ["lrecv"] =>
    let sent := s.pending.flatten
    let fills := (s.pending.map (fillsOf (s.gro && s.gso))).flatten
    -- without GRO ListenOut runs with cmsgSpace = 0: segSize stays 0
    let r := if s.gro then listenRun s.slot fills else (s.slot, (fills.map (fun f => deliver f.payload 0)).flatten)
    let m := piecesText r.2
    let want := piecesText sent
    let tag :=
      if !s.gro then "triv:listen-nogro"
      else if hazard s.slot fills then "listen:plain-longer-than-stale-gso"
      else if fills.any (fun f => !f.msgs.isEmpty) then "listen:gro" else "listen:plain"
    let s' := { s with slot := r.1, pending := [] }
    if impl.startsWith "timeout " ∧ isPrefix (((impl.drop 8).toString.splitOn ",").filter (· ≠ "-")) (sent.map pieceText) then
      -- the environment did not deliver everything in time and what did arrive is an undamaged prefix: skip
      (s', { model := impl, verdict := "ok", tag := "triv:listen-timeout" })
    else
      (s', { model := m, verdict := if impl == want then "ok" else s!"bad recv-datagram-boundaries-changed sent={want.take 200}", tag := tag })
  | ["consts"] =>
    let m := s!"{sizeofCmsghdr} {cmsgLen 0} {cmsgSpace 4} {solUDP} {udpGRO} {Gen.urx_udpGROCmsgPayload} le"
    (s, { model := m, verdict := expect "layout-constants" impl m, tag := "consts" })
  | ["seg", hex, seg] =>
    match hexToBytes hex, intArg seg with
    | some p, some seg =>
      let m := showPieces (deliver p seg) ++ " cap=1"
      let verdict :=
        match impl.splitOn " " with
        | [ps, cap] =>
          match parsePieces ps with
          | none => "bad seg-unparsable"
          | some pieces =>
            match Spec.Udprecv.check p seg pieces with
            | some cls => "bad " ++ cls
            | none => if cap == "cap=1" then "ok" else "bad seg-capacity"
        | _ => if impl.startsWith "PANIC" then "bad seg-panic" else "bad seg-unparsable"
      (s, { model := m, verdict := verdict, tag := segTag p.length seg })
    | _, _ => (s, badOp)
  | ["segn", len, seg] =>
    match natArg len, intArg seg with
    | some len, some seg =>
      let p := pat len
      let ps := deliver p seg
      let offs := ps.foldl (fun (acc : List String × Nat) x => (s!"{acc.2}:{x.length}" :: acc.1, acc.2 + x.length)) ([], 0)
      let m := join "," offs.1.reverse
      let verdict :=
        match parseOffLens impl with
        | none => if impl.startsWith "PANIC" then "bad seg-panic" else "bad seg-unparsable"
        | some ol =>
          -- pieces must tile the payload in order: offsets are the running sum of the lengths
          let tiled := ol.foldl (fun (acc : Bool × Nat) x => (acc.1 && x.1 == acc.2, acc.2 + x.2)) (true, 0)
          if !tiled.1 then "bad seg-concat gap-or-overlap" else
          match Spec.Udprecv.check p seg (ol.map (fun x => (p.drop x.1).take x.2)) with
          | some cls => "bad " ++ cls
          | none => "ok"
      (s, { model := m, verdict := verdict, tag := segTag len seg ++ "-big" })
    | _, _ => (s, badOp)
  | ["cmsg", hex] =>
    match hexToBytes hex with
    | some c =>
      let r := parse false c
      (s, { model := showR r, verdict := cmsgVerdict impl, tag := cmsgTag "cmsg" c r })
    | none => (s, badOp)
  | ["cmsgx", hex, cl] =>
    match hexToBytes hex, natArg cl with
    | some c, some cl =>
      let c := c.take cl
      let r := parse false c
      (s, { model := showR r, verdict := cmsgVerdict impl, tag := cmsgTag "cmsgx" c r })
    | _, _ => (s, badOp)
  | ["cmsgnil", cl] =>
    match natArg cl with
    | some cl =>
      let r := parse true (List.replicate cl 0)
      (s, { model := showR r, verdict := expect "cmsg-nil-control" impl "0", tag := "cmsgnil" })
    | none => (s, badOp)
  | ["cmsgw", spec] =>
    match parseCmsgs spec with
    | some msgs =>
      let c := Spec.Udprecv.encode msgs
      let r := parse false c
      let want := toString (Spec.Udprecv.groOf msgs)
      let v := cmsgVerdict impl
      (s, { model := showR r, verdict := if v == "ok" && Spec.Udprecv.kernelFormed msgs then expect "cmsg-wrong-gso" impl want else v,
            tag := cmsgTag (if Spec.Udprecv.kernelFormed msgs then "cmsgw" else "cmsgw-shortgro") c r })
    | none => (s, badOp)
  | _ => (s, badOp)

def main : IO Unit := runEngine ({} : St) step

end Nebula.Driver.Udprecv
