/-
Line-protocol engine `udprecv` (C27).
ops:
  consts                      -> `SizeofCmsghdr CmsgLen(0) CmsgSpace(4) SOL_UDP UDP_GRO udpGROCmsgPayload le|be`
  seg <hex> <segSize>         -> delivered pieces, hex, comma separated, then ` cap=1` (every piece has cap == len)
  segn <len> <segSize>        -> `off:len,…` of the delivered pieces inside the payload (payload[i] = (7 i + 3) mod 256)
  cmsg <hex>                  -> gso               (Control = the bytes, Controllen = their number)
  cmsgx <hex> <controllen>    -> gso               (Controllen smaller than the memory that follows Control)
  cmsgnil <controllen>        -> gso               (Control == nil)
  cmsgw lvl:typ:hex;…         -> gso               (buffer laid out by unix.CmsgSpace/CmsgLen from the messages)
-/
import Nebula.Driver.Common
import Nebula.Model.Udprecv
import Nebula.Spec.Udprecv

namespace Nebula.Driver.Udprecv
open Nebula.Driver Nebula.Udprecv

def join (sep : String) (l : List String) : String := sep.intercalate l

def showPieces (ps : List (List UInt8)) : String := join "," (ps.map bytesToHex)

def parsePieces (s : String) : Option (List (List UInt8)) :=
  (s.splitOn ",").mapM hexToBytes

def showR : R → String
  | .gso g _ => toString g
  | .oob => "OOB"

def pat (n : Nat) : List UInt8 := (List.range n).map (fun i => UInt8.ofNat ((7 * i + 3) % 256))

def segTag (len : Nat) (seg : Int) : String :=
  if seg < 0 then "seg:bogus-neg" else if seg = 0 then "seg:bogus-zero"
  else if seg = len then "seg:bogus-eq" else if seg > len then "seg:bogus-gt"
  else if len % seg.toNat = 0 then "seg:split-even" else "seg:split-tail"

def cmsgTag (pre : String) (ctrl : List UInt8) (r : R) : String :=
  match r with
  | .oob => pre ++ ":oob"
  | .gso g n =>
    if ctrl.length < 16 then "triv:" ++ pre ++ "-short"
    else pre ++ ":it" ++ toString (min n 3) ++ (if g = 0 then ":zero" else if g < 0 then ":neg" else ":pos")

def cmsgVerdict (impl : String) : String :=
  if impl.startsWith "PANIC" then "bad cmsg-oob-read " ++ impl
  else if impl.toInt?.isNone then "bad cmsg-unparsable" else "ok"

/-- `off:len,…` → list of (off,len) -/
def parseOffLens (s : String) : Option (List (Nat × Nat)) :=
  (s.splitOn ",").mapM (fun t => match t.splitOn ":" with
    | [a, b] => match a.toNat?, b.toNat? with
      | some a, some b => some (a, b)
      | _, _ => none
    | _ => none)

def parseCmsgs (s : String) : Option (List Spec.Udprecv.Cmsg) :=
  if s == "-" then some [] else
  (s.splitOn ";").mapM (fun t => match t.splitOn ":" with
    | [l, ty, d] => match l.toNat?, ty.toNat?, hexToBytes d with
      | some l, some ty, some d => some { level := l, type := ty, data := d }
      | _, _, _ => none
    | _ => none)

def step (s : Unit) (args : List String) (impl : String) : Unit × Out :=
  match args with
  | ["consts"] =>
    let m := s!"{sizeofCmsghdr} {cmsgLen 0} {cmsgSpace 4} {solUDP} {udpGRO} {Gen.urx_udpGROCmsgPayload} le"
    (s, { model := m, verdict := expect "layout-constants" impl m, tag := "consts" })
  | ["seg", hex, seg] =>
    match hexToBytes hex, intArg seg with
    | some p, some seg =>
      let m := showPieces (deliver p seg) ++ " cap=1"
      let verdict :=
        match impl.splitOn " " with
        | [ps, cap] =>
          match parsePieces ps with
          | none => "bad seg-unparsable"
          | some pieces =>
            match Spec.Udprecv.check p seg pieces with
            | some cls => "bad " ++ cls
            | none => if cap == "cap=1" then "ok" else "bad seg-capacity"
        | _ => if impl.startsWith "PANIC" then "bad seg-panic" else "bad seg-unparsable"
      (s, { model := m, verdict := verdict, tag := segTag p.length seg })
    | _, _ => (s, badOp)
  | ["segn", len, seg] =>
    match natArg len, intArg seg with
    | some len, some seg =>
      let p := pat len
      let ps := deliver p seg
      let offs := ps.foldl (fun (acc : List String × Nat) x => (s!"{acc.2}:{x.length}" :: acc.1, acc.2 + x.length)) ([], 0)
      let m := join "," offs.1.reverse
      let verdict :=
        match parseOffLens impl with
        | none => if impl.startsWith "PANIC" then "bad seg-panic" else "bad seg-unparsable"
        | some ol =>
          -- pieces must tile the payload in order: offsets are the running sum of the lengths
          let tiled := ol.foldl (fun (acc : Bool × Nat) x => (acc.1 && x.1 == acc.2, acc.2 + x.2)) (true, 0)
          if !tiled.1 then "bad seg-concat gap-or-overlap" else
          match Spec.Udprecv.check p seg (ol.map (fun x => (p.drop x.1).take x.2)) with
          | some cls => "bad " ++ cls
          | none => "ok"
      (s, { model := m, verdict := verdict, tag := segTag len seg ++ "-big" })
    | _, _ => (s, badOp)
  | ["cmsg", hex] =>
    match hexToBytes hex with
    | some c =>
      let r := parse false c
      (s, { model := showR r, verdict := cmsgVerdict impl, tag := cmsgTag "cmsg" c r })
    | none => (s, badOp)
  | ["cmsgx", hex, cl] =>
    match hexToBytes hex, natArg cl with
    | some c, some cl =>
      let c := c.take cl
      let r := parse false c
      (s, { model := showR r, verdict := cmsgVerdict impl, tag := cmsgTag "cmsgx" c r })
    | _, _ => (s, badOp)
  | ["cmsgnil", cl] =>
    match natArg cl with
    | some cl =>
      let r := parse true (List.replicate cl 0)
      (s, { model := showR r, verdict := expect "cmsg-nil-control" impl "0", tag := "cmsgnil" })
    | none => (s, badOp)
  | ["cmsgw", spec] =>
    match parseCmsgs spec with
    | some msgs =>
      let c := Spec.Udprecv.encode msgs
      let r := parse false c
      let want := toString (Spec.Udprecv.groOf msgs)
      let v := cmsgVerdict impl
      (s, { model := showR r, verdict := if v == "ok" && Spec.Udprecv.kernelFormed msgs then expect "cmsg-wrong-gso" impl want else v,
            tag := cmsgTag (if Spec.Udprecv.kernelFormed msgs then "cmsgw" else "cmsgw-shortgro") c r })
    | none => (s, badOp)
  | _ => (s, badOp)

def main : IO Unit := runEngine () step

end Nebula.Driver.Udprecv
