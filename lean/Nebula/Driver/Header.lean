/-
Line-protocol engine `header` (C47).
ops:
  enc v t st ri c     -> hex of the 16 encoded bytes
  parse <hex>         -> `err` | `v t st reserved ri c`   (input is a prefix of a larger stale buffer)
  parsex <hex>        -> same, input in an exactly-sized allocation
  valid t s           -> 0|1
-/
import Nebula.Driver.Common
import Nebula.Model.Header
import Nebula.Spec.Header

namespace Nebula.Driver.Header
open Nebula.Driver Nebula.Header

def showH (h : H) : String :=
  s!"{h.version} {h.type} {h.subtype} {h.reserved} {h.remoteIndex} {h.counter}"

def toBytes (l : List Nat) : List UInt8 := l.map UInt8.ofNat

def step (s : Unit) (args : List String) (impl : String) : Unit × Out :=
  match args with
  | ["enc", v, t, st, ri, c] =>
    match natArg v, natArg t, natArg st, natArg ri, natArg c with
    | some v, some t, some st, some ri, some c =>
      let m := bytesToHex (toBytes (encode v t st ri c))
      -- property: parsing the implementation's bytes gives the fields back, reserved zero
      let verdict :=
        match hexToBytes impl with
        | none => "bad enc-unparsable"
        | some b =>
          if b.length != 16 then "bad enc-length" else
          match parse (b.map (·.toNat)) with
          | none => "bad enc-parse"
          | some h =>
            if h = { version := v % 16, type := t % 16, subtype := st, reserved := 0,
                     remoteIndex := ri, counter := c } then "ok"
            else s!"bad enc-roundtrip got={showH h}"
      (s, { model := m, verdict := verdict, tag := "enc" })
    | _, _, _, _, _ => (s, badOp)
  | [op, hex] =>
    if op != "parse" && op != "parsex" then (s, badOp) else
    match hexToBytes hex with
    | none => (s, badOp)
    | some b =>
      let m := match parse (b.map (·.toNat)) with
        | none => "err"
        | some h => showH h
      -- property: short input refused; otherwise the documented layout of the first 16 bytes
      (s, { model := m, verdict := expect "parse-layout" impl m,
            tag := if m == "err" then "parse:short" else "parse:ok" })
  | ["valid", t, st] =>
    match natArg t, natArg st with
    | some t, some st =>
      let want := Spec.Header.validSubType t st
      (s, { model := boolStr (isValidSubType t st), verdict := expect "valid-combination" impl (boolStr want),
            tag := if want then "valid:yes" else (if t < 8 ∧ st < 3 then "valid:near-miss" else "triv:valid-far") })
    | _, _ => (s, badOp)
  | _ => (s, badOp)

def main : IO Unit := runEngine () step

end Nebula.Driver.Header
