/-
Line-protocol engine `certcodec` (C03, C02): the v1 (protobuf) and v2 (DER) certificate codecs.

ops (CERT = 12-token descriptor, Driver/CertArgs.lean):
  dec <ver> <form std|hs> <curve> <pub hex|-|nil> <bytes hex|-|nil>
      -> ok CERT | err:<kind>        std = PEM block of that version; hs = Recombine(ver, bytes, pub, curve)
  issue <sig hex> <signer none|stub> TBS:CERT [SIGNER:CERT <signerfp>]
      -> err:<kind> | ok <Marshal hex> <MarshalForHandshakes hex> <rt std> <rt pem> <rt hs>
         SignWith with a signer lambda that returns <sig>; rt = same | fields | fp | err:<kind> (decode of the
         encoding compared with the issued certificate: fields, then fingerprint)
  norm <sig hex>  -> <IsNormalized 0|1|err> <Normalize hex|err> <Swap hex|err>
  copy <ver> <hex>  -> same | differs:<what> | undecodable <err:kind>     (Copy() of the decoded certificate)
  tamper <ver> <form std|hs> <orig hex> <altered hex> <ca ver> <ca hex> <now ns> <sig 0|1> <block 0|1>
      -> op-inconsistent | undecodable <err:kind> | <ok|err:kind> <same|changed> <sigsame|twin|othersig>
         the original and the CA must decode; the altered encoding is decoded (hs: Recombine with the original's key
         and curve) and verified against a pool holding the CA; `sig` = CheckSignature of the altered certificate
         under the CA key (observed); identity = everything but the signature; block = the original's
         fingerprint is blocklisted first.
  p256n | swap <sig hex> | lows <sig hex> | twinblock …      see Driver/P256Twin.lean
-/
import Nebula.Driver.CertArgs
import Nebula.Driver.Certsign
import Nebula.Model.CertV1
import Nebula.Model.CertV2
import Nebula.Model.P256Sig
import Nebula.Driver.Certverify
import Nebula.Driver.CertPemOps
import Nebula.Driver.P256Twin

namespace Nebula.Driver.Certcodec
open Nebula.Driver Nebula.Net Nebula.Cert Nebula.Driver.Certsign

def invStrC : InvErr → String
  | .duplicateNetwork => "duplicate" | .duplicateUnsafe => "duplicate" | e => invStr e

def v2ErrStr : V2.DecErr → String
  | .badFormat => "err:bad-format" | .pubkeyPresent => "err:pubkey-present"
  | .invalid e => "err:invalid:" ++ invStrC e | .other => "err:curve-mismatch"

def v1ErrStr : V1.DecErr → String
  | .empty => "err:empty" | .proto => "err:proto" | .noDetails => "err:no-details" | .oddIps => "err:odd-ips"
  | .oddSubnets => "err:odd-subnets" | .pubkeyPresent => "err:pubkey-present"
  | .invalid e => "err:invalid:" ++ invStrC e | .other => "err:curve-mismatch"

/-- bytes argument: `nil` is a nil slice. -/
def bytesArg (s : String) : Option (Option Bytes) :=
  if s == "nil" then some none else (hexToBytes s).map some

/-- decode either form; the result carries the raw details (v2). -/
def decode (ver : Nat) (hs : Bool) (curve : Nat) (pub : Option Bytes) (b : Option Bytes) : Except String (Cert × Bytes) :=
  if hs then
    match pub, b with
    | none, _ => .error "err:no-peer-static-key"
    | _, none => .error "err:no-payload"
    | some pub, some b =>
      if ver == 0 || ver == 1 then
        match V1.recombine b pub curve with
        | .ok c => .ok (c, [])
        | .error e => .error (v1ErrStr e)
      else if ver == 2 then
        match V2.recombine b pub curve with
        | .ok r => .ok r
        | .error e => .error (v2ErrStr e)
      else .error "err:unknown-version"
  else
    let b := b.getD []
    if ver == 1 then
      match V1.unmarshal b [] with
      | .ok c => .ok (c, [])
      | .error e => .error (v1ErrStr e)
    else if ver == 2 then
      match V2.unmarshal b [] curve25519 with
      | .ok r => .ok r
      | .error e => .error (v2ErrStr e)
    else .error "err:banner"

/-- the bytes whose SHA-256 is the fingerprint. -/
def fpBytes (c : Cert) (rawDetails : Bytes) : Option Bytes :=
  if c.version == 2 then some (V2.fingerprintBytes rawDetails c.curve c.publicKey c.signature)
  else V1.marshal c c.publicKey

def rtVerdict (orig : Cert) (origRaw : Bytes) (r : Except String (Cert × Bytes)) : String :=
  match r with
  | .error e => e
  | .ok (c, raw) =>
    if c != orig then "fields"
    else if fpBytes c raw != fpBytes orig origRaw then "fp" else "same"

/-- class of a failed round trip, by the input class that explains it (known findings are per class). -/
def rtClass (t : Cert) : String :=
  if t.version == 2 && t.name.isEmpty then "v2-empty-name"
  else if t.version == 2 && t.name.length > Gen.cert_MaxNameLength then "v2-name-too-long"
  else if t.version == 2 && t.groups.any (·.isEmpty) then "v2-empty-group"
  else if t.version == 2 && t.groups.any (·.length > Gen.cert_MaxNameLength) then "v2-long-group"
  else if t.notBefore % 1000000000 != 0 || t.notAfter % 1000000000 != 0 then "subsecond-validity"
  else "roundtrip"

def step (s : Unit) (args : List String) (impl : String) : Unit × Out :=
  match args with
  | ["dec", ver, form, curve, pub, hex] =>
    match natArg ver, natArg curve, bytesArg pub, bytesArg hex with
    | some ver, some curve, some pub, some b =>
      let m := match decode ver (form == "hs") curve pub b with
        | .ok (c, _) => "ok " ++ showCert c
        | .error e => e
      let kind := if m.startsWith "ok" then "ok" else m
      -- property (C03): decoding never panics; what it accepts obeys the structural rules of `validate`
      let verdict :=
        if impl.startsWith "PANIC" then "bad decode-panic"
        else if impl.startsWith "ok " then
          match parseCert ((impl.splitOn " ").drop 1) with
          | some (c, []) =>
            (match validateVersion c with
             | some (.ok c') => if c' == c then "ok" else "bad decoded-not-normalised"
             | _ => "bad decoded-violates-validate")
          | _ => "bad decode-answer-unparsable"
        else "ok"
      (s, { model := m, verdict := verdict, tag := s!"dec{ver}{form}:" ++ kind })
    | _, _, _, _ => (s, badOp)
  | "issue" :: sig :: signerTag :: rest =>
    match hexToBytes sig, parseCert rest with
    | some sig, some (t, rest) =>
      let signer : Option (Option (Cert × String)) :=
        if signerTag == "none" then (if rest.isEmpty then some none else none)
        else match parseCert rest with
          | some (ca, [fp]) => some (some (ca, fp))
          | _ => none
      match signer with
      | none => (s, badOp)
      | some signer =>
        let signerFp := match signer with | some (_, fp) => fp | none => ""
        let E : SignEnv :=
          { K := { fingerprint := fun _ => some signerFp, altFingerprint := fun _ => some "", checkSig := fun _ _ => true },
            tbsBytes := fun c => if c.version == 1 then V1.signedBytes c
                                 else (V2.encodeDetails c).map (fun rd => V2.signedBytes rd c.curve c.publicKey),
            sign := fun _ => some sig, normalize := P256.normalize, tooLarge := V2.tooLarge }
        let m := match signWith E (signer.map (·.1)) t.curve t with
          | .error e => signErrStr e
          | .ok c =>
            if c.version == 1 then
              match V1.marshal c c.publicKey, V1.marshal c [] with
              | some std, some hs =>
                let r1 := rtVerdict c [] (decode 1 false 0 none (some std))
                let r3 := rtVerdict c [] (decode 1 true c.curve (some c.publicKey) (some hs))
                s!"ok {bytesToHex std} {bytesToHex hs} {r1} {r1} {r3}"
              | _, _ => "err:marshal"
            else
              match V2.encodeDetails c with
              | none => "err:marshal"
              | some rd =>
                let std := V2.marshal rd c.curve (some c.publicKey) c.signature
                let hs := V2.marshalForHandshakes rd c.signature
                let r1 := rtVerdict c rd (decode 2 false 0 none (some std))
                let r3 := rtVerdict c rd (decode 2 true c.curve (some c.publicKey) (some hs))
                s!"ok {bytesToHex std} {bytesToHex hs} {r1} {r1} {r3}"
        -- property (C03): whatever the signing API issues decodes back to itself from all three encodings
        let verdict :=
          if impl.startsWith "ok " then
            match (impl.splitOn " ").drop 3 with
            | ["same", "same", "same"] => "ok"
            | l =>
              -- an issued encoding longer than the decoder's limit is its own class of input
              let stdLen := ((impl.splitOn " ").getD 1 "").length / 2
              let cls := if t.version == 2 && stdLen > Gen.cert_MaxCertificateSize then "v2-exceeds-max-certificate-size" else rtClass t
              s!"bad {cls} {" ".intercalate l}"
          else if impl.startsWith "err:" then "ok" else "bad issue-no-verdict"
        let tag := if m.startsWith "ok" then s!"issue{t.version}:" ++ " ".intercalate ((m.splitOn " ").drop 3) else "issue:" ++ m
        (s, { model := m, verdict := verdict, tag := tag })
    | _, _ => (s, badOp)
  | ["norm", hex] =>
    match hexToBytes hex with
    | none => (s, badOp)
    | some b =>
      let o (x : Option Bytes) := match x with | some y => bytesToHex y | none => "err"
      let n := match P256.isNormalized b with | some true => "1" | some false => "0" | none => "err"
      let m := s!"{n} {o (P256.normalize b)} {o (P256.swap b)}"
      (s, { model := m, verdict := expect "p256-normalize" impl m, tag := "norm:" ++ n })
  | ["tamper", ver, form, orig, alt, caver, cahex, now, sig, block] =>
    match natArg ver, hexToBytes orig, hexToBytes alt, natArg caver, hexToBytes cahex, intArg now with
    | some ver, some orig, some alt, some caver, some cab, some now =>
      match decode ver false 0 none (some orig), decode caver false 0 none (some cab) with
      | .ok (c0, rd0), .ok (ca, _) =>
        let r := if form == "hs" then decode ver true c0.curve (some c0.publicKey) (some alt)
                 else decode ver false 0 none (some alt)
        let blocked := block == "1"
        -- (model answer, the altered certificate is the original / the original's twin)
        let (m, isOrig, isTwin) := match r with
          | .error e => ("undecodable " ++ e, false, false)
          | .ok (c1, rd1) =>
            let same := { c1 with signature := [] } == { c0 with signature := [] }
            let sigrel := if c1.signature == c0.signature then "sigsame"
              else if P256.swap c0.signature == some c1.signature then "twin" else "othersig"
            -- same fingerprint preimage as the original / as the original's other signature form
            let isOrig := same && rd1 == rd0 && sigrel == "sigsame"
            let isTwin := same && rd1 == rd0 && sigrel == "twin"
            let K : Crypto :=
              { fingerprint := fun x => if x.isCA then some c0.issuer else (if isOrig then some "orig" else some "altered"),
                altFingerprint := fun _ => if isTwin then some "orig" else some "",
                checkSig := fun x _ => if x.isCA then true else sig == "1" }
            let p := (({} : Pool).addCA K now ca).1
            let p := if blocked then p.blocklist "orig" else p
            let v := match p.verifyCertificate K now c1 with
              | .ok _ => "ok"
              | .error e => Certverify.verrStr e
            (s!"{v} {if same then "same" else "changed"} {sigrel}", isOrig, isTwin)
        -- property (C02): an altered encoding that still decodes is rejected unless the identity is unchanged,
        -- the only other accepted signature for unchanged content is the P-256 twin, and blocklisting either
        -- twin's fingerprint rejects both
        let verdict :=
          if impl.startsWith "ok changed" then "bad tamper-accepted-identity-changed"
          else if impl.startsWith "ok same othersig" then "bad second-signature-accepted"
          else if blocked && impl.startsWith "ok" && isTwin then "bad twin-of-blocklisted-accepted"
          else if blocked && impl.startsWith "ok" && isOrig then "bad tamper-blocklisted-accepted"
          else "ok"
        let tag := if m.startsWith "undecodable" then "tamper:undecodable"
          else "tamper:" ++ m ++ (if blocked then " blocked" else "")
        (s, { model := m, verdict := verdict, tag := tag })
      | _, _ => (s, { model := "op-inconsistent", verdict := "ok", tag := "triv:op-inconsistent" })
    | _, _, _, _, _, _ => (s, badOp)
  | ["copy", ver, hex] =>
    match natArg ver, hexToBytes hex with
    | some ver, some b =>
      -- `Certificate.Copy()` of a decoded certificate: every accessor, every encoding and the fingerprint equal
      let m := match decode ver false 0 none (some b) with
        | .ok _ => "same"
        | .error e => "undecodable " ++ e
      let verdict := if impl.startsWith "differs" then s!"bad copy-differs {impl}" else "ok"
      (s, { model := m, verdict := verdict, tag := if m == "same" then "copy:same" else "triv:copy-undecodable" })
    | _, _ => (s, badOp)
  | _ =>
    -- p256n / swap / lows / twinblock: Driver/P256Twin.lean
    match P256Twin.step decode args impl with
    | some o => (s, o)
    | none => (s, CertPemOps.pemStep args impl)   -- the PEM layer: Driver/CertPemOps.lean

def main : IO Unit := runEngine () step

end Nebula.Driver.Certcodec
