/-
Line-protocol engine `hsmanager` (C09, C10, C31, C32). Ops: see harness/hsmanager/engine_test.go.
Answer: `<res> T[tx…] P[pending] PI[pending indexes] H[addr=li/li…] I[tunnels by local index] R[remote indexes]`
for the acting node (`ok` alone for ops without an acting node).
-/
import Nebula.Driver.Common
import Nebula.Model.HsNet
import Nebula.Model.HsNetVia
import Nebula.Spec.HsRetry
import Nebula.Spec.HsManager

namespace Nebula.Driver.Hsmanager
open Nebula.Driver Nebula.HsManager Nebula.HsNet Nebula.Spec

def sortStrs (l : List String) : List String := l.mergeSort (fun a b => a < b || a == b)
def sortByKey {α : Type} (l : List (Nat × α)) : List (Nat × α) := l.mergeSort (fun a b => a.1 ≤ b.1)
def join (sep : String) (l : List String) : String := sep.intercalate l

def pktName (w : Net) : Option Handle → String
  | none => "-"
  | some h => match w.pidOf h with | some p => toString p | none => "u"

def dumpNode (w : Net) (nd : Node) (relays : List (Nat × List Nat) := []) : String :=
  let pend := sortStrs (nd.p.vpnIps.map (fun (a, hh) =>
    s!"{a}:{hh.localIndex}:{hh.counter}:{if hh.ready then 1 else 0}:{hh.store.length}"))
  let pidx := sortStrs (nd.p.pindexes.map (fun (i, pid) =>
    s!"{i}>{match nd.p.pendingById pid with | some p => toString p.vpnAddr | none => "?"}"))
  let hosts := sortStrs (nd.main.hosts.map (fun (a, l) => s!"{a}=" ++ join "/" (l.map (fun h => toString h.localIndex))))
  let idx := (sortByKey nd.main.indexes).map (fun (k, h) =>
    s!"{k}:{h.localIndex}:{h.remoteIndex}:{h.hsTime}:" ++ join "+" (h.vpnAddrs.map toString) ++
    s!":{(if h.initiator then 10 else 0) + h.certVer}:{match h.remote with | some u => toString u | none => "-"}:{pktName w h.pkt0}:{pktName w h.pkt2}:{(if nd.pdl.contains h.id then 10 else 0) + h.myVer}:{match (alookup h.id relays).getD [] with | [] => "-" | rs => join "+" (rs.map toString)}")
  let ridx := (sortByKey nd.main.remoteIndexes).map (fun (k, h) => s!"{k}>{h.localIndex}")
  s!"P[{join "," pend}] PI[{join "," pidx}] H[{join "," hosts}] I[{join "," idx}] R[{join "," ridx}]"

/-- canonical transmissions -/
def txString (w : Net) (txs : List Tx) : String :=
  let items := txs.map (fun t => match t with
    | .hs h dsts => (s!"h{(w.pidOf h).getD 0}", dsts.map toString)
    | .msg len d => (s!"m{len}", [toString d])
    | .close d => ("c", [toString d]))
  let items := (HsManager.groupTx items).map (fun (n, d) => n ++ ">" ++ join "+" (sortStrs d))
  s!"T[{join "," items}]"

/-- canonical transmissions, relay transmissions included -/
def txStringX (w : Net) (txs : List TxX) : String :=
  let items := txs.map (fun t => match t with
    | .base (.hs h dsts) => (s!"h{(w.pidOf h).getD 0}", dsts.map toString)
    | .base (.msg len d) => (s!"m{len}", [toString d])
    | .base (.close d) => ("c", [toString d])
    | .hsVia h r ru => (s!"h{(w.pidOf h).getD 0}v{r}", [toString ru])
    | .msgVia len r ru => (s!"m{len}v{r}", [toString ru])
    | .closeVia r ru => (s!"cv{r}", [toString ru]))
  let items := (HsManager.groupTx items).map (fun (n, d) => n ++ ">" ++ join "+" (sortStrs d))
  s!"T[{join "," items}]"

def parseSpec (node : Nat) (retries : Int) (intervalMs : Nat) (s : String) : Option Cfg :=
  match s.splitOn ":" with
  | [v, as] =>
    let addrs := (as.splitOn ",").filterMap (·.toNat?)
    match v.toNat? with
    | some v =>
      if addrs.isEmpty || v < 1 || v > 3 then none else
      -- a v2 certificate stores its networks sorted
      -- (v1+v2 nodes: the v1 certificate holds the smallest address, the v2 one all of them)
      some { node := node, myAddrs := if v == 1 then addrs.take 1 else addrs.foldl (fun acc a => insertSorted a acc) [], hasV1 := v == 1 || v == 3, hasV2 := v == 2 || v == 3,
             retries := retries, interval := intervalMs * 1000000 }
    | none => none
  | _ => none

def parseOp (a : List String) : Option Op :=
  match a with
  | ["lh", n, x, m] => do pure (.lh (← n.toNat?) (← x.toNat?) (← m.toNat?))
  | ["hs", n, x] => do pure (.hs (← n.toNat?) (← x.toNat?))
  | ["rehs", n, x] => do pure (.rehs (← n.toNat?) (← x.toNat?))
  | ["tick", n] => do pure (.tick (← n.toNat?))
  | ["trig", n, x] => do pure (.trig (← n.toNat?) (← x.toNat?))
  | ["sleep", ms] => do pure (.sleep (← ms.toNat?))
  | ["deliver", k] => do pure (.deliver (← k.toNat?))
  | ["dto", k, m] => do pure (.dto (← k.toNat?) (← m.toNat?))
  | ["dl", j] => do pure (.dl (← j.toNat?))
  | ["dlto", j, m] => do pure (.dlto (← j.toNat?) (← m.toNat?))
  | ["dlm", j, r, c] => do pure (.dlm (← j.toNat?) (← r.toNat?) (← c.toNat?))
  | ["send", n, x, p, l] => do pure (.send (← n.toNat?) (← x.toNat?) (← p.toNat?) (← l.toNat?))
  | ["idx", n, v] => do pure (.idx (← n.toNat?) (← v.toNat?))
  | ["del", n, li] => do pure (.del (← n.toNat?) (← li.toNat?))
  | ["swap", n, li] => do pure (.swap (← n.toNat?) (← li.toNat?))
  | ["cmcheck", n, li, i, o] => do pure (.cmcheck (← n.toNat?) (← li.toNat?) (i == "1") (o == "1"))
  | ["block", n, m] => do pure (.block (← n.toNat?) (← m.toNat?))
  | _ => none

def parseOpX (a : List String) : Option OpX :=
  match a with
  | ["relay", n, r, p] => do pure (.relay (← n.toNat?) (← r.toNat?) (← p.toNat?))
  | ["rdto", k, m, r, p] => do pure (.rdto (← k.toNat?) (← m.toNat?) (← r.toNat?) (← p.toNat?))
  | ["rdl", j, m, r, p] => do pure (.rdl (← j.toNat?) (← m.toNat?) (← r.toNat?) (← p.toNat?))
  | _ => (parseOp a).map .base

/-- al<n>=u:b,…  /  ar<n>=a/u:b,… -/
def parseAllow (toks : List String) (n : Nat) : AllowCfg :=
  let ents := fun (pre : String) => (toks.filter (·.startsWith pre)).flatMap (fun t =>
    match (t.drop 2).toString.splitOn "=" with
    | [m, body] => if m.toNat? == some n then body.splitOn "," else []
    | _ => [])
  { base := (ents "al").filterMap (fun e => match e.splitOn ":" with
      | [u, b] => u.toNat?.map (fun u => (u, b == "1"))
      | _ => none),
    inside := (ents "ar").filterMap (fun e => match e.splitOn ":" with
      | [au, b] => match au.splitOn "/" with
        | [a, u] => do pure (← a.toNat?, ← u.toNat?, b == "1")
        | _ => none
      | _ => none) }

/-- a tunnel line of section I with the remote and the relays fields blanked -/
def blankVia (e : String) : String :=
  ":".intercalate ((e.splitOn ":").zipIdx.map (fun (f, i) => if i == 6 || i == 10 then "_" else f))

def fieldOf (e : String) (i : Nat) : String := ((e.splitOn ":")[i]?).getD ""

structure St where
  w : Net := {}
  ext : List Ext := []
  retry : List HsRetry.St := []          -- per node
  tainted : List (Nat × Nat) := []       -- (node, addr) that had more than one timer entry (class naming only)
  marked : List (Nat × Nat) := []        -- C31 spec: (node, tunnel identity) with a quiet check since the last inbound traffic
  removed : List (Nat × Nat × Nat) := [] -- ghost of C31: (node, local index, remote index) of tunnels a node deleted / evicted
  deriving Inhabited

/-- keep the retry specification's set of pending handshakes in step with the lifecycle (creation,
completion, abandonment for other reasons); the schedule and the counters are the specification's own -/
def syncRetry (r : HsRetry.St) (nd : Node) : HsRetry.St :=
  let live := nd.p.vpnIps.map (fun p => p.2.id)
  let r := { r with entries := r.entries.filter (fun e => live.contains e.obj) }
  nd.p.vpnIps.reverse.foldl (fun r (a, hh) => if r.entries.any (·.obj == hh.id) then r else r.start a hh.id) r

def sectionsOf (s : String) : List String := (s.splitOn " ").filter (· ≠ "")

def sect (pre : String) (secs : List String) : String := (secs.find? (·.startsWith pre)).getD ""

def inner (s : String) : List String :=
  -- "X[a,b]" -> ["a","b"]
  match s.splitOn "[" with
  | [_, rest] => ((rest.dropEnd 1).toString.splitOn ",").filter (· ≠ "")
  | _ => []

def step (s : St) (args : List String) (impl : String) : St × Out :=
  match args with
  | "reset" :: r :: iv :: toks =>
    let specs := toks.filter (fun t => !t.startsWith "rt" && !t.startsWith "al" && !t.startsWith "ar")
    -- rt<node>=<gateway>:<weight>,…
    let routes : List (Nat × List (Nat × Int)) := (toks.filter (·.startsWith "rt")).filterMap (fun t =>
      match (t.drop 2).toString.splitOn "=" with
      | [n, gws] => do
        let n ← n.toNat?
        let gs := (gws.splitOn ",").filterMap (fun g => match g.splitOn ":" with
          | [a, wgt] => do pure (← a.toNat?, ← wgt.toInt?)
          | _ => none)
        pure (n, gs)
      | _ => none)
    match r.toInt?, iv.toNat? with
    | some r, some iv =>
      if iv == 0 || specs.isEmpty then (s, badOp) else
      let cfgs := (List.range specs.length).zip specs |>.map (fun (i, sp) => parseSpec i r iv sp)
      if cfgs.any Option.isNone then (s, badOp) else
      let cfgs := (cfgs.filterMap id).map (fun c => { c with routes := (alookup c.node routes).getD [] })
      ({ w := { nodes := cfgs.map Node.init },
         ext := cfgs.map (fun c => { al := parseAllow toks c.node }),
         retry := cfgs.map (fun c => { retries := c.retries, interval := c.interval }) },
       { model := "ok", verdict := expect "reset" impl "ok", tag := "triv:reset" })
    | _, _ => (s, badOp)
  | _ =>
    match parseOpX args with
    | none => (s, badOp)
    | some opx =>
      let pre := s.w
      let nx : NetX := { w := s.w, ext := s.ext }
      let ropx := nx.resolve opx
      -- the base op the other properties' oracles look at (relay ops are none of their business)
      let op : Op := match opx with | .base o => o | _ => .sleep 0
      let (nx', actor, res, ox) := nx.step opx
      let w' := nx'.w
      match actor with
      | none =>
        (({ s with w := w', ext := nx'.ext } : St), { model := res, verdict := expect "no-actor" impl res, tag := s!"triv:{args.headD ""}:{res}" })
      | some n =>
        match w'.node? n, pre.node? n with
        | some nd', some nd =>
          let relaysOf := fun (e : List Ext) => ((e[n]?).map (·.relays)).getD []
          let model := s!"{res} {txStringX w' ox.tx} {dumpNode w' nd' (relaysOf nx'.ext)}"
          -- retry specification
          let r0 := s.retry.getD n default
          let r1 := match op with
            | .tick _ => r0.tick pre.now
            | .trig _ a => r0.trigger a
            | _ => r0
          let r1view := r1.view
          let r2 := syncRetry r1 nd'
          let gone := nd.main.indexes.filterMap (fun (li, h) =>
            if (alookup li nd'.main.indexes).map (·.id) == some h.id then none else some (n, li, h.remoteIndex))
          let marked' := match op with
            | .cmcheck _ li i _ => match alookup li nd.main.indexes with
              | some hi => if i then s.marked.filter (· != (n, hi.id)) else (n, hi.id) :: s.marked.filter (· != (n, hi.id))
              | none => s.marked
            | _ => s.marked
          let s' : St := { w := w', ext := nx'.ext, retry := s.retry.set n r2, removed := s.removed ++ gone, marked := marked',
                           tainted := ((s.tainted.filter (fun (m, a) => m != n ||
                                (nd'.p.vpnIps.any (·.1 == a) && (nd'.p.wheel.slots.flatten.filter (·.1 == a)).length > 0))) ++
                              (nd'.p.vpnIps.map (·.1)).filterMap (fun a =>
                              if (nd'.p.wheel.slots.flatten.filter (·.1 == a)).length > 1 then some (n, a) else none)).eraseDups }
          -- property oracles on the implementation's answer
          let secs := sectionsOf impl
          let preDump := sectionsOf (dumpNode pre nd (relaysOf s.ext))
          let ctx : HsManager.Ctx := {
            myAddrs := nd.cfg.myAddrs,
            certLists := pre.nodes.flatMap (fun x => [certAddrsOf x.cfg 1, certAddrsOf x.cfg 2]),
            preH := sect "H[" preDump, preI := sect "I[" preDump, preR := sect "R[" preDump, preP := inner (sect "P[" preDump),
            implT := sect "T[" secs, implP := inner (sect "P[" secs), implH := sect "H[" secs,
            implI := sect "I[" secs, implR := sect "R[" secs }
          -- what arrives, how: (packet, sender, receiver, relayed?) of a delivery
          let arrival : Option (Handle × Nat × Nat × Bool) := match ropx with
            | .base (.deliver k) => (pre.log[k]?).map (fun e => (e.1, e.2.1, e.2.2, false))
            | .base (.dto k m) => (pre.log[k]?).map (fun e => (e.1, e.2.1, m, false))
            | .rdto k m _ _ => if res == "norelay" then none else (pre.log[k]?).map (fun e => (e.1, e.2.1, m, true))
            | _ => none
          let relayedOp := match arrival with | some (_, _, _, true) => true | _ => false
          let kind0 := match arrival with
            | some (h, src, to, _) => HsManager.classifyDeliver pre h src to
            | none => HsManager.classify pre op
          -- remote allow list: why (if at all) the specification wants this direct delivery dropped
          let al := nx.alOf n
          let denied : Option String := match arrival with
            | some (h, src, _, false) =>
              match alookup h pre.pkts with
              | some (creator, .s1 _ _ _ ver) =>
                let cert := ((pre.node? creator).map (fun cn => certAddrsOf cn.cfg ver)).getD []
                if !al.unknown src then some "unknown"
                else if nd.blocked.contains (certIdOf creator ver) then none
                else if cert.isEmpty || cert.any (fun a => nd.cfg.myAddrs.contains a) then none
                else if !al.all cert src then some "cert" else none
              | some (_, .s2 _ _ initIdx _ _ _) =>
                if !al.unknown src then some "unknown" else
                match (alookup initIdx nd.p.pindexes).bind nd.p.pendingById with
                | some hh =>
                  -- the initiator's list check is about the dialled address only (what the model proves:
                  -- denied_underlay_installs_nothing_initiator); refusals for OTHER certificate addresses are outside C09
                  if !al.all [hh.vpnAddr] src then some "dialled" else none
                | none => none
              | none => none
            | _ => none
          let kind := if relayedOp || denied.isSome then HsManager.Kind.other else kind0
          let v09k := HsManager.c09 ctx kind0
          let unchanged := ctx.implH == ctx.preH && ctx.implI == ctx.preI && ctx.implR == ctx.preR &&
            sect "P[" secs == sect "P[" preDump && sect "PI[" secs == sect "PI[" preDump && ctx.implT == "T[]"
          let v09a := match denied with
            | some why => if unchanged then "ok" else s!"bad c09-installed-from-denied-underlay {why}"
            | none => "ok"
          -- relayed delivery: no underlay address recorded; same binding as the same message arriving directly
          let v09r :=
            if !relayedOp then "ok" else
            let remoteKept := (inner ctx.implI).all (fun e =>
              match (inner ctx.preI).find? (fun p => fieldOf p 0 == fieldOf e 0) with
              | some p => fieldOf p 6 == fieldOf e 6
              | none => fieldOf e 6 == "-")
            if !remoteKept then "bad c09-relayed-recorded-underlay" else
            match ropx with
            | .rdto k m _ _ =>
              let nxD : NetX := { nx with ext := nx.ext.modify m (fun e => { e with al := {} }) }
              let (nxD', _, _, _) := nxD.stepCore (.base (.dto k m))
              match nxD'.w.node? m with
              | some ndD =>
                let dD := sectionsOf (dumpNode nxD'.w ndD (((nxD'.ext[m]?).map (·.relays)).getD []))
                let same := sect "H[" dD == ctx.implH && sect "R[" dD == ctx.implR &&
                  sect "P[" dD == sect "P[" secs && sect "PI[" dD == sect "PI[" secs &&
                  (inner (sect "I[" dD)).map blankVia == (inner ctx.implI).map blankVia
                if same then "ok" else "bad c09-relayed-binding-differs"
              | none => "ok"
            | _ => "ok"
          let v09 := [v09a, v09r, v09k].foldl (fun acc v => if acc == "ok" then v else acc) "ok"
          let v10 := HsManager.c10 ctx kind (fun h => (w'.pidOf h).getD 0)
          let tainted := (nd.p.vpnIps.map (·.1) ++ nd'.p.vpnIps.map (·.1)).filter (fun a =>
            ((nd.p.wheel.slots.flatten.filter (·.1 == a)).length > 1) || ((nd'.p.wheel.slots.flatten.filter (·.1 == a)).length > 1) ||
            s.tainted.contains (n, a))
          let v32 := HsManager.c32 ctx kind nd.cfg (match op with | .tick _ => some r1view | .trig .. => some r1view | _ => none) tainted
            (match op with | .send .. => true | _ => false)
          let swapAllowed : Option Bool := match pre.resolve op with
            | .swap _ li => (alookup li nd.main.indexes).map (fun hi => decide (hi.vpnAddrs.headD 0 ≥ nd.cfg.myAddrs.headD 0))
            | _ => none
          let srcOf : Option Nat := match pre.resolve op with
            | .deliver k => (pre.log[k]?).map (fun e => e.2.1)
            | .dto k _ => (pre.log[k]?).map (fun e => e.2.1)
            | _ => none
          -- what the sender of the delivered message holds, or held and removed itself (Props.C31.usable_on_complete)
          let peerPairs : List (Nat × Nat) := match srcOf with
            | some src =>
              ((pre.node? src).map (fun p => p.main.indexes.map (fun (li, h) => (li, h.remoteIndex)))).getD [] ++
              (s.removed.filter (·.1 == src)).map (fun r => (r.2.1, r.2.2))
            | none => []
          -- connection-manager check: the specification's own mark (independent of the implementation's flag)
          let chk : Option (Nat × HostInfo × Bool) := match op with
            | .cmcheck _ li i _ => (alookup li nd.main.indexes).map (fun hi => (li, hi, i))
            | _ => none
          let v31c := match chk with
            | some (li, hi, inT) =>
              let wasMarked := s.marked.contains (n, hi.id)
              let allowed := (!inT && wasMarked) || nd.blocked.contains hi.certId
              let isPrim := (nd.main.primary (hi.vpnAddrs.headD 0)).map (·.id) == some hi.id
              let paired := isPrim && pre.nodes.any (fun q => q.cfg.node != n && q.cfg.myAddrs.contains (hi.vpnAddrs.headD 0) &&
                nd.cfg.myAddrs.any (fun a => match q.main.primary a with
                  | some ph => ph.localIndex == hi.remoteIndex && ph.remoteIndex == hi.localIndex
                  | none => false))
              HsManager.c31check ctx li allowed paired
            | none => "ok"
          let v31 := let v := HsManager.c31 ctx kind (secs.headD "") swapAllowed peerPairs; if v == "ok" then v31c else v
          let verdict := if secs.length != 7 then (if impl == model then "ok" else "bad malformed-answer") else
            [v09, v10, v32, v31].foldl (fun acc v => if acc == "ok" then v else acc) "ok"
          let tag0 := HsManager.tagOf kind0 op (match op with
              | .cmcheck _ li i o => (nd.trafficCheck li i o).2.1
              | _ => res)
          let tag := match opx, denied with
            | .relay .., _ => s!"relay-setup:{res}"
            | _, some why => s!"al:denied-{why}:{tag0}"
            | _, none => if relayedOp then s!"relayed:{tag0}" else if res == "norelay" then "triv:norelay" else tag0
          (s', { model := model, verdict := verdict, tag := tag })
        | _, _ => (s, badOp)

def main : IO Unit := runEngine ({} : St) step

end Nebula.Driver.Hsmanager
