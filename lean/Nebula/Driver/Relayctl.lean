/-
Line-protocol engine `relayctl` (C39; C15 ops are handled by `Relaye2e`).  A cluster of ≤ 5 nodes; node `i`
has overlay address 10.0.0.(i+1). Every node is a `Nebula.Relay.Node`; the index counter is shared (the
harness installs one counting `rand.Reader` for the whole process).

ops
  reset <base> <n> <amRelayMask>                 -> ok
  hs <a> <b>                                     -> `<ia> <ib>`   (a initiates a handshake with b)
  ctl <a> <b> <type> <init> <resp> <oldFrom> <oldTo> <from|nil> <to|nil>
                                                 -> `<dump b> | <outs>`    (a sends b this control message)
  deliver <0|1>                                  -> `<node> <dump> | <outs>`  (oldest / newest queued control message)
  drop <0|1>                                     -> dropped | empty
  down <a> <b>                                   -> dump a        (a closes its primary tunnel to b, locally)
  reload <r> <0|1>                               -> dump r        (config reload: relay.am_relay)
  remote <a> <b>                                 -> dump a        (a's tunnel to b loses its underlay address)
  fwd <s> <r> <idx>                              -> `fwd <node> <outIdx>` | none   (s sends r a relay packet on relay index idx)
  start <a> <t> <r>[,<r>…]                       -> `<dump a> | <outs>`   (a's handshake attempt towards t runs StartRelays with these relays)
  migrate <a> <b>                                -> `<dump a> | <outs>` | no-old-tunnel | skipped-multi
                                                    (a's connection manager migrates the used relays of its second-newest hostinfo for b to the primary)
  batchclose <a> <b> <type> <init> <resp> <oldFrom> <oldTo> <from|nil> <to|nil>
                                                 -> `<dump b> | <outs> | <relaysdump b>`  (a sends CloseTunnel and then this control
                                                    message on the same tunnel; b receives both in ONE receive batch, so the second
                                                    is handled on the cached, already deleted hostinfo)
  smigrate <a> <b> <0|1|2>                       -> `<dump a> | <outs> | <relaysdump a>` | no-old-tunnel | skipped-multi
                                                    (migrateRelayUsed(old, new) racing a teardown: pointers taken, then closeTunnel on
                                                    new (0) / old (1) / both (2), then the call with the kept pointers)
  sstart <a> <t> <r>                             -> `<dump a> | <outs> | <relaysdump a> | fired:<0|1>`  (StartRelays towards t with the
                                                    single relay r; r's tunnel is torn down between the lookup and AddRelay's lock)
  relaysdump <a>                                 -> `<relaysdump a>`
relaysdump: `x:<relay index>:<owner local index>:<owner in hostmap>:<index in owner's relay state>` sorted by index, `-` if empty
outs: `s:<node>` control message queued for node, `hs:<addr>` handshake started, `v:<node>:<idx>` handshake sent through a relay
dump (+ `u:<idx>` per connectionManager.relayUsed entry): `a:<amRelay> {h:<id>:<remoteId>:<remoteValid>:<addr,…>:<mapsAgree> {r:<idx>:<type>:<state>:<remoteIdx>:<peer>}} {m:<idx>:<hostId>}`
-/
import Nebula.Driver.Common
import Nebula.Driver.NetArgs
import Nebula.Model.Relay
import Nebula.Model.RelayStale
import Nebula.Spec.Relay

namespace Nebula.Driver.Relayctl
open Nebula.Driver Nebula.Relay Nebula.Gen

structure Queued where
  dest : Nat         -- node
  hostId : Nat       -- hostinfo (local index) at the destination
  msg : Ctl
  deriving Repr

structure Cl where
  nodes : List Node := []
  c : Nat := 0
  outbox : List Queued := []
  deriving Repr

def nodeAddr (i : Nat) : Addr := 0x0a000001 + i
def addrNode (a : Addr) : Option Nat := if 0x0a000001 ≤ a ∧ a < 0x0a000001 + 5 then some (a - 0x0a000001) else none

def natOfAddr (a : Nebula.Net.Addr) : Addr :=
  let u := a.unmap
  if u.is4 then u.val else 2 ^ 32 + u.val

def showA (a : Addr) : String :=
  if a < 2 ^ 32 then bytesToHex (natToBytes 4 a) else bytesToHex (natToBytes 16 (a - 2 ^ 32))

def parseOptAddr (s : String) : Option (Option Addr) :=
  if s == "nil" then some none else (parseAddr s).map (fun a => some (natOfAddr a))

def showRec (r : Relay) : String :=
  s!"r:{r.localIndex}:{r.type}:{r.state}:{r.remoteIndex}:{showA r.peerAddr}"

def insertBy {α : Type} (key : α → Nat) (x : α) : List α → List α
  | [] => [x]
  | y :: ys => if key x ≤ key y then x :: y :: ys else y :: insertBy key x ys

def sortBy {α : Type} (key : α → Nat) (l : List α) : List α := l.foldr (insertBy key) []

def showHost (h : Host) : String :=
  let hd := s!"h:{h.id}:{h.remoteId}:{boolStr h.remoteValid}:{",".intercalate (h.vpnAddrs.map showA)}:1"
  " ".intercalate (hd :: (sortBy (·.localIndex) h.recs).map showRec)

def dump (n : Node) : String :=
  " ".intercalate ([s!"a:{boolStr n.amRelay}"] ++ (sortBy (·.id) n.hosts).map showHost ++
    (sortBy (·.1) n.relays).map (fun p => s!"m:{p.1}:{p.2}") ++
    (sortBy id n.relayUsed).map (fun i => s!"u:{i}"))

-- ---- parsing a dump back (for the property oracle applied to the implementation's answer)

def splitColon (s : String) : List String := s.splitOn ":"

def parseDumpAux (myAddrs : List Addr) : List String → Node → Option Node
  | [], n => some { n with hosts := n.hosts.reverse, relays := n.relays.reverse }
  | tok :: rest, n =>
    match splitColon tok with
    | ["a", b] => parseDumpAux myAddrs rest { n with amRelay := b == "1" }
    | ["h", id, rid, v, addrs, _ok] =>
      match id.toNat?, rid.toNat? with
      | some id, some rid =>
        let as := (addrs.splitOn ",").filterMap (fun s => (parseAddr s).map natOfAddr)
        parseDumpAux myAddrs rest { n with hosts := { id := id, remoteId := rid, vpnAddrs := as, remoteValid := v == "1" } :: n.hosts }
      | _, _ => none
    | ["r", idx, ty, st, ri, peer] =>
      match idx.toNat?, ty.toNat?, st.toNat?, ri.toNat?, parseAddr peer, n.hosts with
      | some idx, some ty, some st, some ri, some peer, h :: hs =>
        let r : Relay := { type := ty, state := st, localIndex := idx, remoteIndex := ri, peerAddr := natOfAddr peer }
        parseDumpAux myAddrs rest { n with hosts := { h with recs := h.recs ++ [r] } :: hs }
      | _, _, _, _, _, _ => none
    | ["u", _] => parseDumpAux myAddrs rest n
    | ["m", idx, hid] =>
      match idx.toNat?, hid.toNat? with
      | some idx, some hid => parseDumpAux myAddrs rest { n with relays := (idx, hid) :: n.relays }
      | _, _ => none
    | _ => none

def mapsAgree (toks : List String) : Bool :=
  toks.all (fun t => match splitColon t with
    | ["h", _, _, _, _, ok] => ok == "1"
    | _ => true)

/-- the dump part of an answer: tokens before `|`. -/
def dumpTokens (s : String) : List String :=
  ((s.splitOn " |").headD "").splitOn " " |>.filter (· ≠ "")

def parseDump (myAddrs : List Addr) (toks : List String) : Option Node :=
  parseDumpAux myAddrs toks { myAddrs := myAddrs, amRelay := false }

/-- property oracle on a node state reported by the implementation, `before` being the spec state of
that node before the op. `deleted` = hostinfo closed by this op (if any). -/
def stateVerdictL (before : Node) (toks : List String) (deleted : List Nat) : String :=
  match parseDump before.myAddrs toks with
  | none => "bad dump-unparsable"
  | some n' =>
    if !mapsAgree toks then "bad relay-maps-disagree"
    else if !Spec.Relay.noSelfRecords n' then "bad fwd-record-to-self"
    else if !Spec.Relay.relayOwnersLive n' then "bad relay-index-outlives-tunnel"
    else if !Spec.Relay.relayIndexInOwnerState n' then "bad relay-index-not-in-owner-state"
    else if !Spec.Relay.relaysOwned n' then "bad relay-index-dangling"
    else if !Spec.Relay.stateIndexesRegistered n' then "bad relay-state-index-unregistered"
    else if !(deleted.all (fun hid => Spec.Relay.noIndexOf n' hid)) then "bad relay-index-outlives-owner"
    else if !Spec.Relay.newForwardingNeedsAmRelay before n' then "bad fwd-record-without-amrelay"
    else if !Spec.Relay.identityStable before n' then "bad record-identity-changed"
    else if !Spec.Relay.statesValid before n' then "bad record-state-invalid"
    else "ok"

def stateVerdict (before : Node) (toks : List String) (deleted : Option Nat) : String :=
  stateVerdictL before toks deleted.toList

-- ---- relaysdump (hm.Relays by pointer)

def relaysDumpToks (n : Node) : List String :=
  (sortBy (·.1) n.relays).map (fun p =>
    let o := n.findHost p.2
    s!"x:{p.1}:{p.2}:{boolStr o.isSome}:{boolStr (match o with | some h => (h.byIdx p.1).isSome | none => false)}")

def relaysDump (n : Node) : String :=
  let t := relaysDumpToks n
  if t.isEmpty then "-" else " ".intercalate t

/-- the k-th ` |`-separated segment of an answer, as tokens. -/
def segTokens (s : String) (k : Nat) : List String :=
  (((s.splitOn " |")[k]?).getD "").splitOn " " |>.filter (· ≠ "")

/-- property oracle on a relaysdump reported by the implementation: a key of `hm.Relays` whose owner is
not in the hostmap; a key that the owner's relay state does not list. -/
def relaysVerdict (toks : List String) : String :=
  toks.foldl (fun acc t =>
    if acc != "ok" then acc else
    match splitColon t with
    | ["x", idx, owner, live, inst] =>
      if live != "1" then s!"bad relay-index-outlives-tunnel index {idx} owner {owner}"
      else if inst != "1" then s!"bad relay-index-not-in-owner-state index {idx} owner {owner}"
      else "ok"
    | ["-"] => "ok"
    | _ => "bad relaysdump-unparsable") "ok"

def both (v1 v2 : String) : String := if v1 != "ok" then v1 else v2

-- ---- cluster plumbing

def getNode (cl : Cl) (i : Nat) : Option Node := cl.nodes[i]?
def setNode (cl : Cl) (i : Nat) (n : Node) : Cl := { cl with nodes := cl.nodes.set i n }

def addUsed (n : Node) (i : Nat) : Node := if n.relayUsed.contains i then n else { n with relayUsed := n.relayUsed ++ [i] }

/-- route what a handler emitted at node `i`; returns the new cluster and the `outs` tokens (queued control
messages in order, then newly pending handshakes by address, then handshakes sent through a relay). -/
def route (cl : Cl) (i : Nat) (pendingBefore : List Addr) (outs : List Relay.Out) (dead : List Host := []) : Cl × List String :=
  let r := outs.foldl (fun (acc : Cl × List String × List Addr × List String) o =>
    match o with
    | .send hid m =>
      -- SendMessageToHostInfo on a torn-down hostinfo object still seals with its keys and writes to its remote
      match ((getNode acc.1 i).bind (·.findHost hid)).orElse (fun _ => dead.find? (fun h => h.id == hid)) with
      | some h =>
        if h.remoteValid then
          match addrNode (h.vpnAddrs.headD 0) with
          | some d => ({ acc.1 with outbox := acc.1.outbox ++ [{ dest := d, hostId := h.remoteId, msg := m }] }, acc.2.1 ++ [s!"s:{d}"], acc.2.2)
          | none => acc
        else acc
      | none => acc
    | .handshake a =>
      -- f.Handshake(a) → GetOrHandshake: a pending handshake is started only when no tunnel to `a` exists
      if pendingBefore.contains a || acc.2.2.1.contains a || ((getNode acc.1 i).bind (·.queryVpnAddr a)).isSome then acc
      else (acc.1, acc.2.1, acc.2.2.1 ++ [a], acc.2.2.2)
    | .via hid outIdx =>
      match (getNode acc.1 i).bind (·.findHost hid) with
      | some h =>
        let d : String := if !h.remoteValid then "-1" else match addrNode (h.vpnAddrs.headD 0) with | some d => toString d | none => "-1"
        (acc.1, acc.2.1, acc.2.2.1, acc.2.2.2 ++ [s!"v:{d}:{outIdx}"])
      | none => acc) (cl, [], [], [])
  (r.1, r.2.1 ++ (sortBy id r.2.2.1).map (fun a => s!"hs:{showA a}") ++ r.2.2.2)

/-- deliver a control message to hostinfo `hid` of node `i`. -/
def deliverTo (cl : Cl) (i hid : Nat) (m : Ctl) : Cl × String × Option Node :=
  match getNode cl i with
  | none => (cl, "bad-op", none)
  | some n =>
    match n.findHost hid with
    | none => (cl, dump n ++ " |", some n)         -- no such index: dropped (send_recv_error: never)
    | some _ =>
      -- an authenticated packet on a tunnel without a current underlay address roams it back (handleHostRoaming)
      let n := n.modHost hid (fun h => { h with remoteValid := true })
      let (n', c', outs) := handleControl n cl.c hid m
      let cl1 := { setNode cl i n' with c := c' }
      let (cl2, toks) := route cl1 i n.pending outs
      (cl2, dump n' ++ " |" ++ String.join (toks.map (" " ++ ·)), some n)

def tagCtl (n : Node) (hid : Nat) (m : Ctl) : String :=
  let (_, frm, to) := m.norm
  if m.type == nebula_NebulaControl_CreateRelayRequest then
    match frm, to with
    | some f, some t =>
      if n.myAddrs.contains f then "ctl:req-from-me"
      else if n.myAddrs.contains t then
        match (n.findHost hid).bind (·.byAddr f) with
        | some ex => s!"ctl:req-terminal-existing-{ex.state}"
        | none => "ctl:req-terminal-new"
      else if !n.amRelay then "ctl:req-not-relay"
      else match n.queryVpnAddr t with
        | none => "ctl:req-fwd-no-peer"
        | some p => if !p.remoteValid then "ctl:req-fwd-peer-unreachable"
                    else if (p.byAddr f).isSome then "ctl:req-fwd-existing" else "ctl:req-fwd-new"
    | _, _ => "ctl:req-nil-addr"
  else if m.type == nebula_NebulaControl_CreateRelayResponse then
    match frm, to with
    | some _, some _ =>
      match (n.findHost hid).bind (·.byIdx m.initIdx) with
      | none => "ctl:resp-unknown-index"
      | some r => if r.type == nebula_TerminalType then "ctl:resp-terminal" else s!"ctl:resp-forwarding-{r.state}"
    | _, _ => "ctl:resp-nil-addr"
  else "triv:ctl-other-type"

def step (cl : Cl) (args : List String) (impl : String) : Cl × Driver.Out :=
  match args with
  | ["reset", base, n, mask] =>
    match base.toNat?, n.toNat?, mask.toNat? with
    | some base, some n, some mask =>
      let nodes := (List.range n).map (fun i => init [nodeAddr i] ((mask >>> i) % 2 == 1))
      ({ nodes := nodes, c := base }, { model := "ok", verdict := expect "reset" impl "ok", tag := "triv:reset" })
    | _, _, _ => (cl, badOp)
  | ["hs", a, b] =>
    match a.toNat?, b.toNat? with
    | some a, some b =>
      match getNode cl a, getNode cl b with
      | some na, some nb =>
        if a == b then (cl, { model := "self", tag := "triv:hs-self" }) else
        let ia := cl.c + 1
        let ib := cl.c + 2
        let na' := tunnelUp na ia ib [nodeAddr b]
        let nb' := tunnelUp nb ib ia [nodeAddr a]
        let na' := { na' with pending := na'.pending.filter (· != nodeAddr b) }
        let cl' := { setNode (setNode cl a na') b nb' with c := cl.c + 2 }
        (cl', { model := s!"{ia} {ib}", tag := if (na.queryVpnAddr (nodeAddr b)).isSome then "hs:again" else "hs:new" })
      | _, _ => (cl, badOp)
    | _, _ => (cl, badOp)
  | ["ctl", a, b, ty, ini, rsp, oldF, oldT, frm, to] =>
    match a.toNat?, b.toNat?, ty.toNat?, ini.toNat?, rsp.toNat?, oldF.toNat?, oldT.toNat?, parseOptAddr frm, parseOptAddr to with
    | some a, some b, some ty, some ini, some rsp, some oldF, some oldT, some frm, some to =>
      match getNode cl a, getNode cl b with
      | some na, some nb =>
        let m : Ctl := { type := ty, initIdx := ini, respIdx := rsp, oldFrom := oldF, oldTo := oldT, frm := frm, to := to }
        match na.queryVpnAddr (nodeAddr b) with
        | none => (cl, { model := "no-tunnel", tag := "triv:ctl-no-tunnel" })
        | some ha =>
          if !ha.remoteValid then (cl, { model := "no-tunnel", tag := "triv:ctl-no-remote" }) else
          let (cl', ans, before) := deliverTo cl b ha.remoteId m
          let tag := if (nb.findHost ha.remoteId).isSome then tagCtl nb ha.remoteId m else "ctl:stale-tunnel"
          (cl', { model := ans, tag := tag,
                  verdict := match before with
                    | some nb0 => stateVerdict nb0 (dumpTokens impl) none
                    | none => "ok" })
      | _, _ => (cl, badOp)
    | _, _, _, _, _, _, _, _, _ => (cl, badOp)
  | ["deliver", k] =>
    let pick : Option (Queued × List Queued) :=
      if k == "0" then (match cl.outbox with | q :: r => some (q, r) | [] => none)
      else (match cl.outbox.reverse with | q :: r => some (q, r.reverse) | [] => none)
    match pick with
    | none => (cl, { model := "empty", tag := "triv:deliver-empty" })
    | some (q, rest) =>
      let cl0 := { cl with outbox := rest }
      let (cl', ans, before) := deliverTo cl0 q.dest q.hostId q.msg
      let tag := match getNode cl q.dest with
        | some nd => if (nd.findHost q.hostId).isSome then "deliver:" ++ tagCtl nd q.hostId q.msg else "deliver:stale-tunnel"
        | none => "deliver"
      (cl', { model := s!"{q.dest} {ans}", tag := tag,
              verdict := match before with
                | some nb0 => stateVerdict nb0 ((dumpTokens impl).drop 1) none
                | none => "ok" })
  | ["drop", k] =>
    match cl.outbox with
    | [] => (cl, { model := "empty", tag := "triv:drop-empty" })
    | _ => ({ cl with outbox := if k == "0" then cl.outbox.drop 1 else cl.outbox.dropLast }, { model := "dropped", tag := "drop" })
  | ["down", a, b] =>
    match a.toNat?, b.toNat? with
    | some a, some b =>
      match getNode cl a with
      | some na =>
        match na.queryVpnAddr (nodeAddr b) with
        | none => (cl, { model := "no-tunnel", tag := "triv:down-no-tunnel" })
        | some h =>
          let na' := deleteHost na h.id
          (setNode cl a na', { model := dump na', verdict := stateVerdict na (dumpTokens impl) (some h.id),
                               tag := if h.recs.isEmpty then "down:plain" else "down:with-relays" })
      | none => (cl, badOp)
    | _, _ => (cl, badOp)
  | ["reload", r, v] =>
    match r.toNat? with
    | some r =>
      match getNode cl r with
      | some n =>
        let n' := { n with amRelay := v == "1" }
        (setNode cl r n', { model := dump n', verdict := stateVerdict n (dumpTokens impl) none, tag := "reload:" ++ v })
      | none => (cl, badOp)
    | none => (cl, badOp)
  | ["remote", a, b] =>
    match a.toNat?, b.toNat? with
    | some a, some b =>
      match getNode cl a with
      | some na =>
        match na.queryVpnAddr (nodeAddr b) with
        | none => (cl, { model := "no-tunnel", tag := "triv:remote-no-tunnel" })
        | some h =>
          let na' := na.modHost h.id (fun h => { h with remoteValid := false })
          (setNode cl a na', { model := dump na', verdict := stateVerdict na (dumpTokens impl) none, tag := "remote" })
      | none => (cl, badOp)
    | _, _ => (cl, badOp)
  | ["start", a, t, rl] =>
    match a.toNat?, t.toNat? with
    | some a, some t =>
      match getNode cl a with
      | some na =>
        -- RemoteList.unlockedSort de-duplicates the relay list and sorts it by address
        let relays := sortBy id ((rl.splitOn ",").filterMap (fun x => x.toNat?.map nodeAddr)).eraseDups
        let (na', c', outs) := startRelays na cl.c (nodeAddr t) false relays
        let cl1 := { setNode cl a na' with c := c' }
        let (cl2, toks) := route cl1 a na.pending outs
        let tag :=
          if !(na.useRelaysCfg && !na.amRelay) then "start:relays-disabled"
          else match relays.head?.bind (fun r => (na.queryVpnAddr r).bind (fun rh => if rh.remoteValid then some (rh.byAddr (nodeAddr t)) else none)) with
            | none => "start:no-relay-tunnel"
            | some none => "start:new-request"
            | some (some ex) => s!"start:existing-{ex.state}"
        (cl2, { model := dump na' ++ " |" ++ String.join (toks.map (" " ++ ·)),
                verdict := stateVerdict na (dumpTokens impl) none, tag := tag })
      | none => (cl, badOp)
    | _, _ => (cl, badOp)
  | ["migrate", a, b] =>
    match a.toNat?, b.toNat? with
    | some a, some b =>
      match getNode cl a with
      | some na =>
        match na.hostsFor (nodeAddr b) with
        | nw :: old :: _ =>
          -- records migrateRelayUsed would act on (Go iterates a map: more than one ⇒ unspecified order)
          let acting := old.recs.filter (fun r =>
            !(r.type == nebula_ForwardingType && !na.amRelay) &&
            (match nw.byAddr r.peerAddr with
              | some ex => ex.state == nebula_Requested
              | none => na.relayUsed.contains r.localIndex))
          if acting.length > 1 then (cl, { model := "skipped-multi", tag := "triv:migrate-multi" }) else
          let (na', c', outs) := migrateRelayUsed na cl.c old.id nw.id false
          let cl1 := { setNode cl a na' with c := c' }
          let (cl2, toks) := route cl1 a na.pending outs
          let tag := if acting.isEmpty then
              (if old.recs.any (fun r => r.type == nebula_ForwardingType && !na.amRelay) then "migrate:forwarding-skipped-not-relay" else "migrate:nothing")
            else s!"migrate:type-{(acting.headD default).type}"
          (cl2, { model := dump na' ++ " |" ++ String.join (toks.map (" " ++ ·)),
                  verdict := stateVerdict na (dumpTokens impl) none, tag := tag })
        | _ => (cl, { model := "no-old-tunnel", tag := "triv:migrate-no-old" })
      | none => (cl, badOp)
    | _, _ => (cl, badOp)
  | ["relaysdump", a] =>
    match a.toNat?.bind (getNode cl) with
    | some na => (cl, { model := relaysDump na, verdict := relaysVerdict (segTokens impl 0), tag := "triv:relaysdump" })
    | none => (cl, badOp)
  | ["batchclose", a, b, ty, ini, rsp, oldF, oldT, frm, to] =>
    match a.toNat?, b.toNat?, ty.toNat?, ini.toNat?, rsp.toNat?, oldF.toNat?, oldT.toNat?, parseOptAddr frm, parseOptAddr to with
    | some a, some b, some ty, some ini, some rsp, some oldF, some oldT, some frm, some to =>
      match getNode cl a, getNode cl b with
      | some na, some nb =>
        let m : Ctl := { type := ty, initIdx := ini, respIdx := rsp, oldFrom := oldF, oldTo := oldT, frm := frm, to := to }
        match na.queryVpnAddr (nodeAddr b) with
        | none => (cl, { model := "no-tunnel", tag := "triv:batch-no-tunnel" })
        | some ha =>
          if !ha.remoteValid then (cl, { model := "no-tunnel", tag := "triv:batch-no-remote" }) else
          match nb.findHost ha.remoteId with
          | none =>
            -- no such index at b: both datagrams are dropped
            (cl, { model := dump nb ++ " | | " ++ relaysDump nb, tag := "batch:stale-tunnel",
                   verdict := both (relaysVerdict (segTokens impl 2)) (stateVerdictL nb (dumpTokens impl) []) })
          | some hb =>
            -- datagram 1 (CloseTunnel): roams, then closeTunnel; datagram 2: HandleControlMsg on the cached pointer
            let d0 : Host := { hb with remoteValid := true }
            let nb1 := deleteHost nb hb.id
            let (nb2, d1, c', outs) := staleHandleControl nb1 cl.c d0 m
            let cl1 := { setNode cl b nb2 with c := c' }
            let (cl2, toks) := route cl1 b nb.pending outs [d1]
            (cl2, { model := dump nb2 ++ " |" ++ String.join (toks.map (" " ++ ·)) ++ " | " ++ relaysDump nb2,
                    tag := "batch:" ++ tagCtl nb hb.id m,
                    verdict := both (relaysVerdict (segTokens impl 2)) (stateVerdictL nb (dumpTokens impl) [hb.id]) })
      | _, _ => (cl, badOp)
    | _, _, _, _, _, _, _, _, _ => (cl, badOp)
  | ["smigrate", a, b, w] =>
    match a.toNat?, b.toNat?, w.toNat? with
    | some a, some b, some w =>
      match getNode cl a with
      | some na =>
        match na.hostsFor (nodeAddr b) with
        | nw :: old :: _ =>
          let acting := old.recs.filter (fun r =>
            !(r.type == nebula_ForwardingType && !na.amRelay) &&
            (match nw.byAddr r.peerAddr with
              | some ex => ex.state == nebula_Requested
              | none => na.relayUsed.contains r.localIndex))
          if acting.length > 1 then (cl, { model := "skipped-multi", tag := "triv:smigrate-multi" }) else
          let s0 : SNode := { node := na }
          let s1 := if w == 1 || w == 2 then sDelete s0 old.id else s0
          let s2 := if w == 0 || w == 2 then sDelete s1 nw.id else s1
          let (s3, c', outs) := sMigrate s2 cl.c old.id nw.id false
          let cl1 := { setNode cl a s3.node with c := c' }
          let (cl2, toks) := route cl1 a na.pending outs s3.dead
          let tag := s!"smigrate:{w}:" ++ (if acting.isEmpty then "nothing" else
            s!"type-{(acting.headD default).type}-" ++ (if (nw.byAddr (acting.headD default).peerAddr).isSome then "resend" else "add"))
          (cl2, { model := dump s3.node ++ " |" ++ String.join (toks.map (" " ++ ·)) ++ " | " ++ relaysDump s3.node,
                  tag := tag,
                  verdict := both (relaysVerdict (segTokens impl 2))
                    (stateVerdictL na (dumpTokens impl) ((if w == 1 || w == 2 then [old.id] else []) ++ (if w == 0 || w == 2 then [nw.id] else []))) })
        | _ => (cl, { model := "no-old-tunnel", tag := "triv:smigrate-no-old" })
      | none => (cl, badOp)
    | _, _, _ => (cl, badOp)
  | ["sstart", a, t, r] =>
    match a.toNat?, t.toNat?, r.toNat? with
    | some a, some t, some r =>
      match getNode cl a with
      | some na =>
        let (s', c', outs, fired) := raceStart { node := na } cl.c (nodeAddr t) false (nodeAddr r)
        let cl1 := { setNode cl a s'.node with c := c' }
        let (cl2, toks) := route cl1 a na.pending outs s'.dead
        (cl2, { model := dump s'.node ++ " |" ++ String.join (toks.map (" " ++ ·)) ++ " | " ++ relaysDump s'.node ++ " | fired:" ++ boolStr fired,
                tag := if fired then "sstart:teardown-before-addrelay" else "sstart:no-addrelay",
                verdict := both (relaysVerdict (segTokens impl 2)) (stateVerdictL na (dumpTokens impl) (s'.dead.map (·.id))) })
      | none => (cl, badOp)
    | _, _, _ => (cl, badOp)
  | ["fwd", s, r, idx] =>
    match s.toNat?, r.toNat?, idx.toNat? with
    | some s, some r, some idx =>
      match getNode cl s, getNode cl r with
      | some ns, some nr =>
        match ns.queryVpnAddr (nodeAddr r) with
        | none => (cl, { model := "no-tunnel", tag := "triv:fwd-no-tunnel" })
        | some hs =>
          if !hs.remoteValid then (cl, { model := "no-tunnel", tag := "triv:fwd-no-remote" }) else
          -- the AEAD oracle, by construction: the packet verifies only under the key of the tunnel it
          -- was sealed on, i.e. when hm.Relays[idx] is the receiving end of the sending tunnel
          let authentic := nr.relayOwner idx == some hs.remoteId && (nr.findHost hs.remoteId).isSome
          let nr := if authentic then addUsed (nr.modHost hs.remoteId (fun h => { h with remoteValid := true })) idx else nr
          let res := if authentic then relayPacket nr idx else Fwd.drop "unauthenticated"
          -- prepareSendVia marks the onward relay record as used
          let nr := match res with
            | .forward tid outIdx =>
              match (nr.findHost tid).bind (fun t => t.recs.find? (fun tr => tr.remoteIndex == outIdx && tr.state == nebula_Established && hs.remoteId != 0 &&
                  ((nr.findHost hs.remoteId).map (fun sh => sh.vpnAddrs.contains tr.peerAddr)).getD false)) with
              | some tr => addUsed nr tr.localIndex
              | none => nr
            | _ => nr
          -- the sender's SendVia (hook SendViaRaw, relay object without a local index) marks index 0 as used
          let cl := setNode cl s (addUsed ns 0)
          let cl := if authentic then setNode cl r nr else cl
          let (model, tag) := match res with
            | .forward tid outIdx =>
              match nr.findHost tid with
              | some t =>
                -- SendVia writes to the next hop's current underlay address; a tunnel that lost it
                -- (no valid remote) gets the datagram written to the invalid address, i.e. nowhere
                if !t.remoteValid then (s!"fwd -1 {outIdx}", "fwd:forwarded-no-underlay")
                else match addrNode (t.vpnAddrs.headD 0) with
                  | some d => (s!"fwd {d} {outIdx}", "fwd:forwarded")
                  | none => ("none", "fwd:forwarded-nowhere")
              | none => ("none", "fwd:forwarded-nowhere")
            | .terminal _ => ("none", "fwd:terminal")
            | .drop why => ("none", "fwd:drop-" ++ why)
          -- property oracle on the implementation's answer
          let verdict := match impl.splitOn " " with
            | ["fwd", d, oi] =>
              match d.toInt?, oi.toNat? with
              | some d, some oi =>
                if !authentic then "bad fwd-unauthenticated"
                else if !nr.amRelay then "bad fwd-while-not-relay"
                else if d < 0 then
                  -- written to an invalid underlay address: the pair must still be the right one
                  (if nr.hosts.any (fun t => !t.remoteValid && Spec.Relay.okForward nr hs.remoteId idx t.id oi) then "ok" else "bad fwd-wrong-pair")
                else if nr.hosts.any (fun t => t.vpnAddrs.contains (nodeAddr d.toNat) && Spec.Relay.okForward nr hs.remoteId idx t.id oi) then "ok"
                else "bad fwd-wrong-pair"
              | _, _ => "bad fwd-unparsable"
            | _ => "ok"
          (cl, { model := model, verdict := verdict, tag := tag })
      | _, _ => (cl, badOp)
    | _, _, _ => (cl, badOp)
  | _ => (cl, badOp)

def main : IO Unit := runEngine ({} : Cl) step

end Nebula.Driver.Relayctl
