/-
Line-protocol engine `sshpath` (C45). Strings are hex of their bytes (`-` = empty).
ops:
  san <sandbox> <path>   -> ok <result> | err:self | err:outside
  clean <path>           -> <cleaned>          (ties the lexical model to Go's filepath.Clean)
  join <a> <b>           -> <joined>           (… filepath.Join)
  isabs <path>           -> 0|1                (… filepath.IsAbs)
-/
import Nebula.Driver.Common
import Nebula.Model.SshPath
import Nebula.Spec.SshPath

namespace Nebula.Driver.SshPath
open Nebula.Driver Nebula.SshPath

def toPath (bs : List UInt8) : Path := bs.map (fun b => Char.ofNat b.toNat)
def ofPath (p : Path) : List UInt8 := p.map (fun c => UInt8.ofNat c.toNat)
def pathArg (s : String) : Option Path := (hexToBytes s).map toPath
def showPath (p : Path) : String := bytesToHex (ofPath p)

def showRes : Res → String
  | .ok p => "ok " ++ showPath p
  | .errSelf => "err:self"
  | .errOutside => "err:outside"

def parseRes (s : String) : Option Res :=
  match (s.splitOn " ").filter (· ≠ "") with
  | ["err:self"] => some .errSelf
  | ["err:outside"] => some .errOutside
  | ["ok", h] => (pathArg h).map .ok
  | _ => none

def step (s : Unit) (args : List String) (impl : String) : Unit × Out :=
  match args with
  | ["san", sb, fp] =>
    match pathArg sb, pathArg fp with
    | some sb, some fp =>
      let m := sanitize sb fp
      let sl := resolve sb
      let verdict :=
        if sb = [] then "ok" else
        match parseRes impl with
        | none => "bad san-unparsable-answer"
        | some r =>
          if Spec.SshPath.acceptable sb fp r then "ok"
          else if !sl.abs ∧ sl.comps = [] ∧ sl.ups > 0 then "bad accepted-above-dotdot-sandbox"
          else "bad accepted-not-strictly-inside"
      let inside : Bool := Spec.SshPath.strictlyInside sl (resolve (Spec.SshPath.target sb fp))
      let tag :=
        if sb = [] then "triv:san:no-sandbox" else
        match m with
        | .ok _ => if isAbs fp then "san:ok-abs" else "san:ok-rel"
        | .errSelf => "san:self"
        | .errOutside =>
          if inside then "san:outside-but-inside-degenerate-sandbox"
          else if (clean sb ++ ['/']).isPrefixOf (clean (Spec.SshPath.target sb fp)) then "san:outside-climb"
          else if (clean sb).isPrefixOf (clean (Spec.SshPath.target sb fp)) then "san:outside-sibling-prefix"
          else "san:outside"
      (s, { model := showRes m, verdict := verdict, tag := tag })
    | _, _ => (s, badOp)
  | ["clean", p] =>
    match pathArg p with
    | some p =>
      let l := resolve p
      (s, { model := showPath (clean p),
            tag := if p.length ≤ 1 then "triv:clean-short" else if l.abs then "clean:abs" else if l.ups > 0 then "clean:rel-up" else "clean:rel" })
    | none => (s, badOp)
  | ["join", a, b] =>
    match pathArg a, pathArg b with
    | some a, some b =>
      (s, { model := showPath (join2 a b), tag := if a = [] ∨ b = [] then "join:empty-elem" else "join" })
    | _, _ => (s, badOp)
  | ["isabs", p] =>
    match pathArg p with
    | some p => (s, { model := boolStr (isAbs p), tag := "isabs" })
    | none => (s, badOp)
  | _ => (s, badOp)

def main : IO Unit := runEngine () step

end Nebula.Driver.SshPath
