import Nebula.Lemmas.WritebatchDrain
namespace Nebula.Lemmas.Writebatch
open Nebula.Writebatch List
variable {δ : Type} [DecidableEq δ]

theorem pairwise_take_getElem {α : Type} {R : α → α → Prop} (l : List α) (hp : l.Pairwise R) (j : Nat) (hj : j < l.length)
    (e : α) (he : e ∈ l.take j) : R e l[j] := by
  have hd : l.drop j = l[j] :: l.drop (j + 1) := List.drop_eq_getElem_cons hj
  have hp' : (l.take j ++ l.drop j).Pairwise R := by rw [List.take_append_drop]; exact hp
  rw [List.pairwise_append] at hp'
  exact hp'.2.2 e he l[j] (by rw [hd]; exact List.mem_cons_self)

/-- what holds of every entry offered to `sendFn` -/
def Offered (c : Cfg δ) (gso : Bool) (pk : List (Pkt δ)) (e : Entry) : Prop :=
  RunShape c.maxSeg pk e ∧ (∀ p, pk[e.start]? = some p → c.routable p.dst = true) ∧ (gso = false → e.cnt = 1)

theorem run_spec (c : Cfg δ) (kern : Nat → Nat → Outcome) (hk : KernOK kern) (pk : List (Pkt δ)) (gso : Bool)
    (i k : Nat) (ctl : Ctl) (hi : i ≤ pk.length) :
    let r := run c kern pk gso i k ctl
    (accepted r.calls).Pairwise Before ∧ (∀ e ∈ accepted r.calls, i ≤ e.start ∧ e.start + e.cnt ≤ pk.length) ∧
    r.written = sumCnt (accepted r.calls) ∧
    (∀ call ∈ r.calls, call.ents ≠ [] ∧ call.done + call.ents.length ≤ c.n ∧ ∀ e ∈ call.ents, Offered c gso pk e) ∧
    r.overrun = false := by
  fun_induction run c kern pk gso i k ctl with
  | case1 gso i k ctl h p hp => simp [accepted, sumCnt]
  | case2 gso i k ctl h p hp d hd r ih =>
    have ps := pack_spec c gso pk i 0 0 ctl hi
    simp only at ps
    rw [show pack c gso pk i 0 0 ctl = p from rfl] at ps
    obtain ⟨p1, p2, p3, p4, p5⟩ := ps
    have ds := drain_spec kern hk gso p.ents p.ctl 0 k
    simp only at ds
    rw [show drain kern gso p.ents p.ctl 0 k = d from rfl] at ds
    obtain ⟨d1, d2, d3, d4, d5⟩ := ds
    have ih := ih p2
    rw [show run c kern pk gso p.next (k + d.calls.length) p.ctl = r from rfl] at ih
    obtain ⟨r1, r2, r3, r4, r5⟩ := ih
    simp only [List.drop_zero] at d4
    refine ⟨?_, ?_, ?_, ?_, r5⟩
    · simp only [accepted_append]
      rw [List.pairwise_append]
      refine ⟨p4.sublist d4, r1, ?_⟩
      intro a ha b hb
      have := (p3 a (d4.subset ha)).2.1
      have := (r2 b hb).1
      simp only [Before]; omega
    · simp only [accepted_append]
      intro e he
      rcases List.mem_append.mp he with he | he
      · have := p3 e (d4.subset he); exact ⟨this.1, by have := this.2.1; omega⟩
      · have := r2 e he; exact ⟨by omega, this.2⟩
    · simp only [accepted_append, sumCnt_append, d2, r3]
    · intro call hc
      rcases List.mem_append.mp hc with hc | hc
      · obtain ⟨j, hj, hje, hjd⟩ := d3 call hc
        refine ⟨?_, ?_, ?_⟩
        · rw [hje]; intro h0; have := congrArg List.length h0; simp at this; omega
        · rw [hje, hjd]; simp; omega
        · intro e he
          rw [hje] at he
          have := p3 e (List.mem_of_mem_drop he)
          exact ⟨this.2.2.1, this.2.2.2.1, this.2.2.2.2⟩
      · exact r4 call hc
  | case3 gso i k ctl h p hp d i' hd r ih =>
    have ps := pack_spec c gso pk i 0 0 ctl hi
    simp only at ps
    rw [show pack c gso pk i 0 0 ctl = p from rfl] at ps
    obtain ⟨p1, p2, p3, p4, p5⟩ := ps
    have ds := drain_spec kern hk gso p.ents p.ctl 0 k
    simp only at ds
    rw [show drain kern gso p.ents p.ctl 0 k = d from rfl] at ds
    obtain ⟨d1, d2, d3, d4, d5⟩ := ds
    obtain ⟨j, hj, _, hij, hc2, hsub⟩ := d5 i' hd
    simp only [List.drop_zero, Nat.sub_zero] at hsub d4
    have gj := p3 p.ents[j] (List.getElem_mem hj)
    have hi' : i' ≤ pk.length := by rw [hij]; have := gj.2.1; omega
    have ih := ih hi'
    rw [show run c kern pk false i' (k + d.calls.length) p.ctl = r from rfl] at ih
    obtain ⟨r1, r2, r3, r4, r5⟩ := ih
    refine ⟨?_, ?_, ?_, ?_, r5⟩
    · simp only [accepted_append]
      rw [List.pairwise_append]
      refine ⟨p4.sublist d4, r1, ?_⟩
      intro a ha b hb
      have h1 : Before a p.ents[j] := pairwise_take_getElem p.ents p4 j hj a (hsub.subset ha)
      have := (r2 b hb).1
      simp only [Before] at *; omega
    · simp only [accepted_append]
      intro e he
      rcases List.mem_append.mp he with he | he
      · have := p3 e (d4.subset he); exact ⟨this.1, by have := this.2.1; omega⟩
      · have := r2 e he; exact ⟨by have := gj.1; omega, this.2⟩
    · simp only [accepted_append, sumCnt_append, d2, r3]
    · intro call hc
      rcases List.mem_append.mp hc with hc | hc
      · obtain ⟨j, hj, hje, hjd⟩ := d3 call hc
        refine ⟨?_, ?_, ?_⟩
        · rw [hje]; intro h0; have := congrArg List.length h0; simp at this; omega
        · rw [hje, hjd]; simp; omega
        · intro e he
          rw [hje] at he
          have := p3 e (List.mem_of_mem_drop he)
          exact ⟨this.2.2.1, this.2.2.2.1, this.2.2.2.2⟩
      · obtain ⟨q1, q2, q3⟩ := r4 call hc
        refine ⟨q1, q2, fun e he => ?_⟩
        have := q3 e he
        exact ⟨this.1, this.2.1, fun hg => this.2.2 rfl⟩
  | case4 gso i k ctl h p hp d hd =>
    have ps := pack_spec c gso pk i 0 0 ctl hi
    simp only at ps
    rw [show pack c gso pk i 0 0 ctl = p from rfl] at ps
    obtain ⟨p1, p2, p3, p4, p5⟩ := ps
    have ds := drain_spec kern hk gso p.ents p.ctl 0 k
    simp only at ds
    rw [show drain kern gso p.ents p.ctl 0 k = d from rfl] at ds
    obtain ⟨d1, d2, d3, d4, d5⟩ := ds
    simp only [List.drop_zero] at d4
    refine ⟨p4.sublist d4, ?_, d2, ?_, rfl⟩
    · intro e he
      have := p3 e (d4.subset he); exact ⟨this.1, by have := this.2.1; omega⟩
    · intro call hc
      obtain ⟨j, hj, hje, hjd⟩ := d3 call hc
      refine ⟨?_, ?_, ?_⟩
      · rw [hje]; intro h0; have := congrArg List.length h0; simp at this; omega
      · rw [hje, hjd]; simp; omega
      · intro e he
        rw [hje] at he
        have := p3 e (List.mem_of_mem_drop he)
        exact ⟨this.2.2.1, this.2.2.2.1, this.2.2.2.2⟩
  | case5 gso i k ctl h p hp d hd =>
    exfalso
    have ds := drain_spec kern hk gso p.ents p.ctl 0 k
    simp only at ds
    rw [show drain kern gso p.ents p.ctl 0 k = d from rfl] at ds
    exact ds.1 hd
  | case6 gso i k ctl h => simp [accepted, sumCnt]

theorem idxs_sorted (es : List Entry) (h : es.Pairwise Before) :
    (es.flatMap Entry.idxs).Pairwise (· < ·) := by
  rw [List.pairwise_flatMap]
  refine ⟨fun e _ => ?_, h.imp ?_⟩
  · simp only [Entry.idxs]; exact List.pairwise_lt_range'
  · intro a b hab x hx y hy
    simp only [Entry.idxs, List.mem_range'_1] at hx hy
    simp only [Before] at hab; omega

theorem idxs_length (es : List Entry) : (es.flatMap Entry.idxs).length = sumCnt es := by
  induction es with
  | nil => simp [sumCnt]
  | cons e es ih => simp [sumCnt, Entry.idxs] at *

end Nebula.Lemmas.Writebatch
