/-
Authentication and key secrecy in the symbolic IX model.
-/
import Nebula.Lemmas.NoiseIX

namespace Nebula.Spec.NoiseIX
open Term

/-- Initiator authentication of the responder (injective agreement on the whole transcript). -/
theorem initiator_auth (W : World) (hp : W.payloadsPublic) (i : InitSession) (he : W.Secret i.e)
    (m : Term) (rs : Nat) (p2 : Term) (hk : Knows W m) (ha : InitiatorAccepts i m rs p2) :
    ¬ W.Secret rs ∨
    ∃ r, W.resps r ∧ r.s = rs ∧ r.x = i.e ∧ r.y = i.s ∧ r.p1 = i.p1 ∧ r.p2 = p2 ∧
      m = msg2 r.x r.y r.p1 r.e r.s r.p2 := by
  obtain ⟨re, C1, C2, hm, hC1, hC2⟩ := ha
  subst hm
  have hC2k : Knows W C2 := Knows.snd _ _ (Knows.snd _ _ hk)
  have hpub := knows_pub W hp _ hC2k
  rw [hC2] at hpub
  obtain ⟨_, hkey | henc⟩ := hpub
  · -- the adversary could compute the key himself: one exponent of DH(rs, e) is his
    left
    have : Pub W (dhT rs i.e) := hkey.2
    rcases (pub_dhT W rs i.e).mp this with h | h
    · exact h
    · exact absurd he h
  · -- an honest responder produced exactly this encryption
    obtain ⟨r, hr, h | h⟩ := henc
    · -- a static-key encryption (key after `se`) can never be a payload key (key after `es`)
      exfalso
      obtain ⟨hk', _, _⟩ := h
      simp [k3, k2, ck2, ck1, ck0] at hk'
    · right
      obtain ⟨hk', had, hpt⟩ := h
      simp only [k3, key.injEq, ck2, kdf.injEq, ck1] at hk'
      obtain ⟨⟨⟨_, hee⟩, hse⟩, hes⟩ := hk'
      simp only [h3, mix.injEq, h2, h1, pub.injEq] at had
      obtain ⟨⟨⟨⟨⟨_, hx⟩, hy⟩, hp1⟩, hre⟩, hc1⟩ := had
      have hrs : rs = r.s := by
        rw [← hx] at hes
        rcases dhT_eq hes with ⟨a, _⟩ | ⟨a, b⟩
        · exact a
        · omega
      refine ⟨r, hr, hrs.symm, hx.symm, hy.symm, hp1.symm, hpt.symm, ?_⟩
      subst hrs
      rw [hC2, hC1, hpt, ← hx, ← hy, ← hp1, ← hre]
      rfl

/-- Session-key secrecy for the initiator: nobody but the holder of the responder static key the
initiator accepted can know the final chaining key (hence the transport keys). -/
theorem initiator_key_secrecy (W : World) (hp : W.payloadsPublic) (ie is re rs : Nat)
    (he : W.Secret ie) (hrs : W.Secret rs) : ¬ Knows W (ck3 ie is re rs) := by
  intro h
  have := knows_pub W hp _ h
  have h2 : Pub W (dhT rs ie) := this.2
  rcases (pub_dhT W rs ie).mp h2 with h | h
  · exact h hrs
  · exact h he

/-- Session-key secrecy for the responder (implicit authentication of the initiator): a responder
whose ephemeral is secret, having read a message 1 that names the static key `pub is`, derives a
chaining key that nobody can know unless the private key `is` is in the adversary's hands. -/
theorem responder_key_secrecy (W : World) (hp : W.payloadsPublic) (ie is re rs : Nat)
    (he : W.Secret re) (his : W.Secret is) : ¬ Knows W (ck3 ie is re rs) := by
  intro h
  have := knows_pub W hp _ h
  have h2 : Pub W (dhT re is) := this.1.2
  rcases (pub_dhT W re is).mp h2 with h | h
  · exact h he
  · exact h his

theorem transport_keys_secret_of_ck3 (W : World) (hp : W.payloadsPublic) (ie is re rs : Nat)
    (h : ¬ Pub W (ck3 ie is re rs)) :
    ¬ Knows W (transportKeys ie is re rs).1 ∧ ¬ Knows W (transportKeys ie is re rs).2 := by
  constructor <;> (intro hk; exact h (knows_pub W hp _ hk).1)

/-- What IX does NOT give: a responder has no explicit authentication of the initiator when it
completes (after reading message 1).  Anybody can present any static public key in message 1: the
adversary knows a well-formed message 1 naming the key of a secret name, with no honest session at all. -/
theorem responder_completion_is_not_explicit_auth (W : World) (a x : Nat) (p : Term)
    (hpk : Knows W p) : Knows W (msg1 x a p) :=
  Knows.pair _ _ (Knows.pub x) (Knows.pair _ _ (Knows.pub a) hpk)

end Nebula.Spec.NoiseIX
