/-
v2 (DER) certificate round trip: field lemmas (prefix, list of networks, list of groups, optional fields), the
details structure and the envelope, standard and handshake form.
-/
import Nebula.Model.CertV2
import Nebula.Lemmas.DerInt
import Nebula.Lemmas.CertV2
import Nebula.Lemmas.CertV1RT

namespace Nebula.Lemmas.CertV2RT
open Nebula.Net Nebula.Cert Nebula.Der Nebula.Cert.V2 Nebula.Lemmas.Der Nebula.Lemmas.DerRT Nebula.Lemmas.DerInt

/-! ### tags -/

theorem tag_ok :
    (¬ tagCertDetails &&& 0x1f = 0x1f) ∧ (¬ tagCertCurve &&& 0x1f = 0x1f) ∧ (¬ tagCertPublicKey &&& 0x1f = 0x1f) ∧
    (¬ tagCertSignature &&& 0x1f = 0x1f) ∧ (¬ tagName &&& 0x1f = 0x1f) ∧ (¬ tagNetworks &&& 0x1f = 0x1f) ∧
    (¬ tagUnsafe &&& 0x1f = 0x1f) ∧ (¬ tagGroups &&& 0x1f = 0x1f) ∧ (¬ tagIsCA &&& 0x1f = 0x1f) ∧
    (¬ tagNotBefore &&& 0x1f = 0x1f) ∧ (¬ tagNotAfter &&& 0x1f = 0x1f) ∧ (¬ tagIssuer &&& 0x1f = 0x1f) ∧
    (¬ tagSequence &&& 0x1f = 0x1f) ∧ (¬ tagOctetString &&& 0x1f = 0x1f) ∧ (¬ tagUTF8String &&& 0x1f = 0x1f) := by
  decide

theorem encTLV_length (t : UInt8) (c : List UInt8) :
    (encTLV t c).length = 1 + (encLen c.length).length + c.length := by
  unfold encTLV; simp only [List.length_cons, List.length_append]; omega

theorem encTLV_length_ge (t : UInt8) (c : List UInt8) : c.length + 2 ≤ (encTLV t c).length := by
  rw [encTLV_length]
  have : 1 ≤ (encLen c.length).length := by
    unfold encLen
    repeat' split
    all_goals simp
  omega

theorem encTLV_isEmpty (t : UInt8) (c r : List UInt8) : (encTLV t c ++ r).isEmpty = false := by
  simp [encTLV]

/-! ### one prefix -/

/-- a prefix as `validate` accepts it: value inside the family, length ≤ family bits. -/
def PfxWF (p : Prefix) : Prop := p.addr.val < 2 ^ p.addr.fam.bits ∧ p.len ≤ p.addr.fam.bits

theorem encPrefix_length (p : Prefix) : (encPrefix p).length = p.addr.fam.bits / 8 + 1 := by
  unfold encPrefix; simp [beBytes_length]

theorem decPrefix_encPrefix (p : Prefix) (h : PfxWF p) : decPrefix (encPrefix p) = some p := by
  obtain ⟨⟨f, v⟩, l⟩ := p
  obtain ⟨h1, h2⟩ := h
  simp only at h1 h2
  unfold decPrefix encPrefix
  simp only [List.dropLast_concat, List.getLast?_concat, Option.getD_some, beBytes_length]
  have hl : (UInt8.ofNat l).toNat = l := by
    simp only [UInt8.toNat_ofNat']
    cases f <;> simp only [Fam.bits] at h2 <;> omega
  cases f
  · simp only [Fam.bits] at h1 ⊢
    have : beNat (beBytes (32 / 8) v) = v := beNat_beBytes _ _ (by simpa using h1)
    simp [this, hl]
  · simp only [Fam.bits] at h1 ⊢
    have : beNat (beBytes (128 / 8) v) = v := beNat_beBytes _ _ (by simpa using h1)
    simp [this, hl]

/-! ### SEQUENCE OF OCTET STRING (networks) and SEQUENCE OF UTF8String (groups) -/

def netBytes (ps : List Prefix) : List UInt8 := ps.flatMap (fun p => encTLV tagOctetString (encPrefix p))

theorem decNetworks_netBytes (ps : List Prefix) (h : ∀ p ∈ ps, PfxWF p) :
    ∀ fuel, (netBytes ps).length ≤ fuel → decNetworks fuel (netBytes ps) = some ps := by
  induction ps with
  | nil => intro fuel _; cases fuel <;> simp [netBytes, decNetworks]
  | cons p rest ih =>
    intro fuel hf
    have hp := h p (by simp)
    have hlen := encPrefix_length p
    have hb : p.addr.fam.bits / 8 + 1 ≤ 17 := by cases p.addr.fam <;> decide
    have hb1 : 1 ≤ p.addr.fam.bits / 8 + 1 := by omega
    simp only [netBytes, List.flatMap_cons] at hf ⊢
    have hge := encTLV_length_ge tagOctetString (encPrefix p)
    simp only [List.length_append] at hf
    cases fuel with
    | zero => omega
    | succ f =>
      rw [decNetworks, encTLV_isEmpty]
      simp only [Bool.false_eq_true, if_false]
      rw [readASN1_encTLV _ _ _ tag_ok.2.2.2.2.2.2.2.2.2.2.2.2.2.1 (by omega)]
      have e1 : (encPrefix p).isEmpty = false := by
        cases hx : encPrefix p with
        | nil => rw [hx] at hlen; simp at hlen
        | cons a l => rfl
      have e2 : ¬ (encPrefix p).length > Gen.cert_MaxNetworkLength := by
        rw [hlen]; show ¬ _ > 17; omega
      simp only [e1, e2, Bool.false_or, decide_false, Bool.false_eq_true, if_false, decPrefix_encPrefix p hp]
      have := ih (fun q hq => h q (by simp [hq])) f (by simp only [netBytes]; omega)
      simp only [netBytes] at this
      rw [this]

def groupBytes (gs : List (List UInt8)) : List UInt8 := gs.flatMap (fun g => encTLV tagUTF8String g)

theorem decGroups_groupBytes (gs : List (List UInt8)) (h : ∀ g ∈ gs, g ≠ [] ∧ g.length + 6 < 2 ^ 32) :
    ∀ fuel, (groupBytes gs).length ≤ fuel → decGroups fuel (groupBytes gs) = some gs := by
  induction gs with
  | nil => intro fuel _; cases fuel <;> simp [groupBytes, decGroups]
  | cons g rest ih =>
    intro fuel hf
    obtain ⟨hne, hl⟩ := h g (by simp)
    simp only [groupBytes, List.flatMap_cons] at hf ⊢
    have hge := encTLV_length_ge tagUTF8String g
    simp only [List.length_append] at hf
    cases fuel with
    | zero => omega
    | succ f =>
      rw [decGroups, encTLV_isEmpty]
      simp only [Bool.false_eq_true, if_false]
      rw [readASN1_encTLV _ _ _ tag_ok.2.2.2.2.2.2.2.2.2.2.2.2.2.2 hl]
      have e1 : g.isEmpty = false := by cases g <;> simp_all
      simp only [e1, Bool.false_eq_true, if_false]
      have := ih (fun q hq => h q (by simp [hq])) f (by simp only [groupBytes]; omega)
      simp only [groupBytes] at this
      rw [this]

end Nebula.Lemmas.CertV2RT

namespace Nebula.Lemmas.CertV2RT
open Nebula.Net Nebula.Cert Nebula.Der Nebula.Cert.V2 Nebula.Lemmas.Der Nebula.Lemmas.DerRT Nebula.Lemmas.DerInt

/-! ### optional fields -/

theorem peek_cons (t b : UInt8) (l : List UInt8) : peekTag t (b :: l) = (b == t) := rfl

theorem peek_tlv (t t' : UInt8) (c r : List UInt8) : peekTag t (encTLV t' c ++ r) = (t' == t) := by
  simp [peekTag, encTLV]

/-- networks / unsafe networks: present iff the list is non-empty; either way the list is read back. -/
theorem opt_nets (t : UInt8) (ht : ¬ t &&& 0x1f = 0x1f) (ps : List Prefix) (rest : List UInt8)
    (hp : ∀ p ∈ ps, PfxWF p) (hpeek : peekTag t rest = false) (hl : (netBytes ps).length + 6 < 2 ^ 32) :
    readOptNets t (encNetworks t ps ++ rest) = some (ps, rest) := by
  unfold readOptNets encNetworks
  by_cases c : ps.length > 0
  · simp only [c, if_true]
    have hr := readOptional_present t _ rest ht hl
    have hd := decNetworks_netBytes ps hp _ (Nat.le_refl _)
    simp only [netBytes] at hr hd
    rw [hr]
    simp only []
    rw [hd]
  · simp only [c, if_false, List.nil_append]
    rw [readOptional_absent t rest hpeek]
    have : ps = [] := by cases ps <;> simp_all
    simp [this]

theorem opt_groups (gs : List (List UInt8)) (rest : List UInt8)
    (hg : ∀ g ∈ gs, g ≠ [] ∧ g.length + 6 < 2 ^ 32) (hpeek : peekTag tagGroups rest = false)
    (hl : (groupBytes gs).length + 6 < 2 ^ 32) :
    readOptGroups (encGroups gs ++ rest) = some (gs, rest) := by
  unfold readOptGroups encGroups
  by_cases c : gs.length > 0
  · simp only [c, if_true]
    have hr := readOptional_present _ _ rest tag_ok.2.2.2.2.2.2.2.1 hl
    have hd := decGroups_groupBytes gs hg _ (Nat.le_refl _)
    simp only [groupBytes] at hr hd
    rw [hr]
    simp only []
    rw [hd]
  · simp only [c, if_false, List.nil_append]
    rw [readOptional_absent _ rest hpeek]
    have : gs = [] := by cases gs <;> simp_all
    simp [this]

theorem opt_bool (b : Bool) (rest : List UInt8) (hpeek : peekTag tagIsCA rest = false) :
    readOptionalBool tagIsCA ((if b then encTLV tagIsCA [0xff] else []) ++ rest) = some (b, rest) := by
  unfold readOptionalBool
  cases b
  · simp only [Bool.false_eq_true, if_false, List.nil_append, readOptional_absent _ rest hpeek]
  · simp only [if_true, readOptional_present tagIsCA [0xff] rest tag_ok.2.2.2.2.2.2.2.2.1 (by decide)]
    have : decide ((0xff : UInt8) > 0) = true := by decide
    simp [this]

theorem hexEnc_eq_empty (ib : List UInt8) (h : hexEnc ib = "") : ib = [] := by
  unfold hexEnc at h
  have : (String.ofList (hexChars ib)).toList = ("" : String).toList := by rw [h]
  rw [String.toList_ofList] at this
  cases ib with
  | nil => rfl
  | cons x r => simp [hexChars] at this

end Nebula.Lemmas.CertV2RT

namespace Nebula.Lemmas.CertV2RT
open Nebula.Net Nebula.Cert Nebula.Der Nebula.Cert.V2 Nebula.Lemmas.Der Nebula.Lemmas.DerRT Nebula.Lemmas.DerInt
  Nebula.Lemmas.CertV1RT

theorem validateV2_facts (x c : Cert) (h : validateV2 x = .ok c) :
    1 ≤ c.name.length ∧ c.name.length ≤ Gen.cert_MaxNameLength ∧ (∀ g ∈ c.groups, g ≠ []) ∧ c.publicKey ≠ [] := by
  unfold validateV2 at h
  simp only at h
  repeat' split at h
  all_goals try (cases h; done)
  simp only [Except.ok.injEq] at h
  subst h
  rename_i h1 h2 h3 h4 _ _ _ _ _ _
  simp only [Bool.or_eq_true, beq_iff_eq, decide_eq_true_eq, not_or, Nat.not_lt] at h1
  dsimp only
  refine ⟨by omega, by omega, ?_, ?_⟩
  · intro g hg hge
    apply h2
    simp only [List.any_eq_true]
    exact ⟨g, hg, by simp [hge]⟩
  · intro he; apply h3; simp [he]

/-- A v2 certificate as the decoder and the signer produce it: a fixed point of `validate`, well-formed
prefixes, whole-second bounds inside int64 seconds, a hex issuer, a one-byte curve, a non-empty signature. -/
structure V2OK (c : Cert) : Prop where
  valid : validateV2 c = .ok c
  version : c.version = 2
  nets : ∀ p ∈ c.networks, PfxWF p
  unsafe_nets : ∀ p ∈ c.unsafeNetworks, PfxWF p
  nb : ∃ k : Int, c.notBefore = k * nsPerSec ∧ -9223372036854775808 ≤ k ∧ k < 9223372036854775808
  na : ∃ k : Int, c.notAfter = k * nsPerSec ∧ -9223372036854775808 ≤ k ∧ k < 9223372036854775808
  issuer : ∃ ib : List UInt8, c.issuer = hexEnc ib
  curve : c.curve < 256
  sig_ne : c.signature ≠ []

/-- the record `unmarshalDetails` returns. -/
def mkDetails (name : List UInt8) (nets uns : List Prefix) (groups : List (List UInt8)) (isCA : Bool) (kb ka : Int)
    (iss : Option (List UInt8)) : Cert :=
  { version := 2, curve := 0, name := name, networks := nets, unsafeNetworks := uns, groups := groups, isCA := isCA, notBefore := kb * V2.nsPerSec, notAfter := ka * V2.nsPerSec, issuer := hexEnc (iss.getD []), publicKey := [], signature := [] }

/-- the part of the certificate that lives in the details. -/
def detailsOf (c : Cert) : Cert := { c with curve := 0, publicKey := [], signature := [] }

theorem flatMap_mem_length {α : Type} (l : List α) (f : α → List UInt8) (x : α) (hx : x ∈ l) :
    (f x).length ≤ (l.flatMap f).length := by
  induction l with
  | nil => cases hx
  | cons a t ih =>
    simp only [List.flatMap_cons, List.length_append]
    rcases List.mem_cons.mp hx with rfl | h
    · omega
    · have := ih h; omega

/-- **Details round trip**: `unmarshalDetails (details.Marshal()) = details`. -/
theorem unmarshalDetails_encodeDetails (c : Cert) (h : V2OK c) (rd : List UInt8) (he : encodeDetails c = some rd)
    (hsz : rd.length ≤ 65536) : unmarshalDetails rd = some (detailsOf c) := by
  obtain ⟨n1, n2, hgne, -⟩ := validateV2_facts c c h.valid
  obtain ⟨kb, hkb, b1, b2⟩ := h.nb
  obtain ⟨ka, hka, a1, a2⟩ := h.na
  obtain ⟨ib, hib⟩ := h.issuer
  have eb : unixSec c.notBefore = kb := by unfold unixSec; rw [hkb]; unfold V2.nsPerSec; omega
  have ea : unixSec c.notAfter = ka := by unfold unixSec; rw [hka]; unfold V2.nsPerSec; omega
  -- the issuer field
  unfold encodeDetails at he
  dsimp only at he
  split at he
  · cases he
  rename_i issBytes hie
  have hicase : issBytes = [] ∧ ib = [] ∨ issBytes = encTLV tagIssuer ib ∧ ib ≠ [] := by
    by_cases ci : c.issuer = ""
    · rw [if_pos ci] at hie
      left; exact ⟨(Option.some.inj hie).symm, hexEnc_eq_empty ib (hib ▸ ci)⟩
    · rw [if_neg ci, hib, hexDec_hexEnc] at hie
      right; refine ⟨(Option.some.inj hie).symm, ?_⟩
      intro hnil; apply ci; rw [hib, hnil]; rfl
  simp only [Option.some.injEq] at he
  subst he
  rw [eb, ea] at hsz ⊢
  -- sizes
  have hbody := encTLV_length_ge tagCertDetails
    (encTLV tagName c.name ++ encNetworks tagNetworks c.networks ++ encNetworks tagUnsafe c.unsafeNetworks ++
      encGroups c.groups ++ (if c.isCA = true then encTLV tagIsCA [255] else []) ++ encInt64 tagNotBefore kb ++
      encInt64 tagNotAfter ka ++ issBytes)
  simp only [List.append_assoc] at hbody hsz ⊢
  simp only [List.length_append] at hbody
  have hnamege := encTLV_length_ge tagName c.name
  have hnetsl : (netBytes c.networks).length + 2 ≤ (encNetworks tagNetworks c.networks).length ∨ c.networks = [] := by
    unfold encNetworks
    by_cases cc : c.networks.length > 0
    · left; simp only [cc, if_true]; exact encTLV_length_ge _ _
    · right; cases hx : c.networks <;> simp_all
  have hunsl : (netBytes c.unsafeNetworks).length + 2 ≤ (encNetworks tagUnsafe c.unsafeNetworks).length ∨ c.unsafeNetworks = [] := by
    unfold encNetworks
    by_cases cc : c.unsafeNetworks.length > 0
    · left; simp only [cc, if_true]; exact encTLV_length_ge _ _
    · right; cases hx : c.unsafeNetworks <;> simp_all
  have hgrpl : (groupBytes c.groups).length + 2 ≤ (encGroups c.groups).length ∨ c.groups = [] := by
    unfold encGroups
    by_cases cc : c.groups.length > 0
    · left; simp only [cc, if_true]; exact encTLV_length_ge _ _
    · right; cases hx : c.groups <;> simp_all
  have hnetsz : (netBytes c.networks).length + 6 < 2 ^ 32 := by
    rcases hnetsl with h1 | h1
    · omega
    · rw [h1]; decide
  have hunsz : (netBytes c.unsafeNetworks).length + 6 < 2 ^ 32 := by
    rcases hunsl with h1 | h1
    · omega
    · rw [h1]; decide
  have hgrpsz : (groupBytes c.groups).length + 6 < 2 ^ 32 := by
    rcases hgrpl with h1 | h1
    · omega
    · rw [h1]; decide
  have hgs : ∀ g ∈ c.groups, g ≠ [] ∧ g.length + 6 < 2 ^ 32 := by
    intro g hg
    refine ⟨hgne g hg, ?_⟩
    have h1 : (encTLV tagUTF8String g).length ≤ (groupBytes c.groups).length :=
      flatMap_mem_length c.groups (fun g => encTLV tagUTF8String g) g hg
    have h2 := encTLV_length_ge tagUTF8String g
    omega
  have hib_sz : ib.length + 6 < 2 ^ 32 := by
    rcases hicase with ⟨-, rfl⟩ | ⟨rfl, -⟩
    · decide
    · have := encTLV_length_ge tagIssuer ib; omega
  -- read the outer element
  unfold unmarshalDetails
  rw [← List.append_nil (encTLV tagCertDetails _), readASN1_encTLV _ _ _ tag_ok.1 (by simp only [List.length_append]; omega)]
  simp only [encTLV_isEmpty, Bool.false_eq_true, if_false]
  -- name
  rw [readASN1_encTLV _ _ _ tag_ok.2.2.2.2.1 (by omega)]
  have hname : (c.name.isEmpty || decide (c.name.length > Gen.cert_MaxNameLength)) = false := by
    have : c.name ≠ [] := by intro hh; rw [hh] at n1; simp at n1
    simp only [Bool.or_eq_false_iff, List.isEmpty_eq_false_iff, decide_eq_false_iff_not]
    exact ⟨this, by omega⟩
  simp only [hname, Bool.false_eq_true, if_false]
  -- the tail after the optional lists starts with NotBefore; the issuer is last
  have pk_nb : ∀ (t : UInt8) (r : List UInt8), t ≠ tagNotBefore → peekTag t (encInt64 tagNotBefore kb ++ r) = false := by
    intro t r ht
    unfold encInt64
    rw [peek_tlv]
    simp only [beq_eq_false_iff_ne, ne_eq]
    exact fun hh => ht hh.symm
  have pk_ca : ∀ (t : UInt8) (r : List UInt8), t ≠ tagNotBefore → t ≠ tagIsCA →
      peekTag t ((if c.isCA = true then encTLV tagIsCA [255] else []) ++ (encInt64 tagNotBefore kb ++ r)) = false := by
    intro t r h1 h2
    cases c.isCA
    · simp only [Bool.false_eq_true, if_false, List.nil_append]; exact pk_nb t r h1
    · simp only [if_true]; rw [peek_tlv]; simp only [beq_eq_false_iff_ne, ne_eq]; exact fun hh => h2 hh.symm
  have pk_grp : ∀ (t : UInt8) (r : List UInt8), t ≠ tagNotBefore → t ≠ tagIsCA → t ≠ tagGroups →
      peekTag t (encGroups c.groups ++ ((if c.isCA = true then encTLV tagIsCA [255] else []) ++ (encInt64 tagNotBefore kb ++ r))) = false := by
    intro t r h1 h2 h3
    unfold encGroups
    by_cases cc : c.groups.length > 0
    · simp only [cc, if_true]; rw [peek_tlv]; simp only [beq_eq_false_iff_ne, ne_eq]; exact fun hh => h3 hh.symm
    · simp only [cc, if_false, List.nil_append]; exact pk_ca t r h1 h2
  have pk_uns : ∀ (t : UInt8) (r : List UInt8), t ≠ tagNotBefore → t ≠ tagIsCA → t ≠ tagGroups → t ≠ tagUnsafe →
      peekTag t (encNetworks tagUnsafe c.unsafeNetworks ++ (encGroups c.groups ++
        ((if c.isCA = true then encTLV tagIsCA [255] else []) ++ (encInt64 tagNotBefore kb ++ r)))) = false := by
    intro t r h1 h2 h3 h4
    unfold encNetworks
    by_cases cc : c.unsafeNetworks.length > 0
    · simp only [cc, if_true]; rw [peek_tlv]; simp only [beq_eq_false_iff_ne, ne_eq]; exact fun hh => h4 hh.symm
    · simp only [cc, if_false, List.nil_append]; exact pk_grp t r h1 h2 h3
  -- networks
  rw [opt_nets tagNetworks tag_ok.2.2.2.2.2.1 c.networks _ h.nets
    (pk_uns tagNetworks _ (by decide) (by decide) (by decide) (by decide)) hnetsz]
  simp only []
  -- unsafe networks
  rw [opt_nets tagUnsafe tag_ok.2.2.2.2.2.2.1 c.unsafeNetworks _ h.unsafe_nets
    (pk_grp tagUnsafe _ (by decide) (by decide) (by decide)) hunsz]
  simp only []
  -- groups
  rw [opt_groups c.groups _ hgs (pk_ca tagGroups _ (by decide) (by decide)) hgrpsz]
  simp only []
  -- isCA, the two times
  rw [opt_bool c.isCA _ (pk_nb tagIsCA _ (by decide))]
  simp only []
  rw [readInt64_encInt64 _ _ _ tag_ok.2.2.2.2.2.2.2.2.2.1 b1 b2]
  simp only []
  rw [readInt64_encInt64 _ _ _ tag_ok.2.2.2.2.2.2.2.2.2.2.1 a1 a2]
  simp only []
  -- issuer
  have hfin : ∀ o, readOptionalASN1 tagIssuer issBytes = some (o, []) → hexEnc (o.getD []) = c.issuer →
      (match readOptionalASN1 tagIssuer issBytes with
        | none => none
        | some (iss, _) => some (mkDetails c.name c.networks c.unsafeNetworks c.groups c.isCA kb ka iss)) =
        some (detailsOf c) := by
    intro o ho hi
    rw [ho]
    simp only [mkDetails, hi, detailsOf, ← hkb, ← hka, ← h.version]
  show (match readOptionalASN1 tagIssuer issBytes with
        | none => none
        | some (iss, _) => some (mkDetails c.name c.networks c.unsafeNetworks c.groups c.isCA kb ka iss)) = _
  rcases hicase with ⟨rfl, rfl⟩ | ⟨rfl, hne⟩
  · exact hfin none (readOptional_absent _ _ rfl) (by rw [hib]; rfl)
  · have := readOptional_present tagIssuer ib [] tag_ok.2.2.2.2.2.2.2.2.2.2.2.1 hib_sz
    rw [List.append_nil] at this
    exact hfin (some ib) this (by rw [hib]; rfl)

end Nebula.Lemmas.CertV2RT

namespace Nebula.Lemmas.CertV2RT
open Nebula.Net Nebula.Cert Nebula.Der Nebula.Cert.V2 Nebula.Lemmas.Der Nebula.Lemmas.DerRT Nebula.Lemmas.DerInt
  Nebula.Lemmas.CertV1RT

/-! ### the envelope -/

theorem encodeDetails_form (c : Cert) (rd : List UInt8) (he : encodeDetails c = some rd) :
    ∃ body, rd = encTLV tagCertDetails body := by
  unfold encodeDetails at he
  dsimp only at he
  split at he
  · cases he
  · simp only [Option.some.injEq] at he
    exact ⟨_, he.symm⟩

theorem readOptionalByte_present (t d b : UInt8) (rest : List UInt8) (ht : ¬ t &&& 0x1f = 0x1f) :
    readOptionalByte t d (encTLV t [b] ++ rest) = some (b, rest) := by
  unfold readOptionalByte
  rw [readOptional_present t [b] rest ht (by simp)]

theorem readOptionalByte_absent (t d : UInt8) (s : List UInt8) (h : peekTag t s = false) :
    readOptionalByte t d s = some (d, s) := by
  unfold readOptionalByte
  rw [readOptional_absent t s h]

theorem detailsOf_restore (c : Cert) :
    ({ detailsOf c with curve := c.curve, publicKey := c.publicKey, signature := c.signature } : Cert) = c := by
  cases c; rfl

/-- **v2 round trip, standard form.** -/
theorem unmarshal_marshal (c : Cert) (h : V2OK c) (rd : List UInt8) (he : encodeDetails c = some rd)
    (hsz : (marshal rd c.curve (some c.publicKey) c.signature).length ≤ 65536) :
    unmarshal (marshal rd c.curve (some c.publicKey) c.signature) [] 0 = .ok (c, rd) := by
  obtain ⟨-, -, -, hpk⟩ := validateV2_facts c c h.valid
  obtain ⟨body, hrd⟩ := encodeDetails_form c rd he
  have hcur := h.curve
  have hsig := h.sig_ne
  unfold marshal at hsz ⊢
  have hin := encTLV_length_ge tagSequence
    (rd ++ (if c.curve ≠ curve25519 then encTLV tagCertCurve [UInt8.ofNat c.curve] else []) ++
      encTLV tagCertPublicKey c.publicKey ++ encTLV tagCertSignature c.signature)
  simp only [List.append_assoc] at hin hsz ⊢
  simp only [List.length_append] at hin
  have hpkl := encTLV_length_ge tagCertPublicKey c.publicKey
  have hsgl := encTLV_length_ge tagCertSignature c.signature
  have hrdl : rd.length ≤ 65536 := by omega
  have hdet := unmarshalDetails_encodeDetails c h rd he hrdl
  unfold unmarshal
  obtain ⟨inner, hinner⟩ : ∃ inner, inner = rd ++ ((if c.curve ≠ curve25519 then encTLV tagCertCurve [UInt8.ofNat c.curve] else []) ++
      (encTLV tagCertPublicKey c.publicKey ++ encTLV tagCertSignature c.signature)) := ⟨_, rfl⟩
  rw [← hinner] at hsz hin ⊢
  have hz : ((encTLV tagSequence inner).length == 0 ||
      decide ((encTLV tagSequence inner).length > Gen.cert_MaxCertificateSize)) = false := by
    simp only [Bool.or_eq_false_iff, beq_eq_false_iff_ne, decide_eq_false_iff_not]
    refine ⟨by omega, ?_⟩
    show ¬ _ > 65536
    omega
  rw [hz]
  simp only [Bool.false_eq_true, if_false]
  have hil : inner.length + 6 < 2 ^ 32 := by
    have := encTLV_length_ge tagSequence inner; omega
  rw [← List.append_nil (encTLV tagSequence inner), readASN1_encTLV _ _ _ tag_ok.2.2.2.2.2.2.2.2.2.2.2.2.1 hil]
  simp only []
  rw [hinner]
  have hne : (rd ++ ((if c.curve ≠ curve25519 then encTLV tagCertCurve [UInt8.ofNat c.curve] else []) ++
      (encTLV tagCertPublicKey c.publicKey ++ encTLV tagCertSignature c.signature))).isEmpty = false := by
    rw [hrd]; exact encTLV_isEmpty _ _ _
  rw [hne]
  simp only [Bool.false_eq_true, if_false]
  have hbl : body.length + 6 < 2 ^ 32 := by
    have := encTLV_length_ge tagCertDetails body; rw [← hrd] at this; omega
  rw [hrd, readASN1Element_encTLV _ _ _ tag_ok.1 hbl, ← hrd]
  simp only []
  have hrne : rd.isEmpty = false := by rw [hrd]; simp [encTLV]
  rw [hrne]
  simp only [Bool.false_eq_true, if_false]
  -- curve
  have hcurve : readOptionalByte tagCertCurve (UInt8.ofNat 0)
      ((if c.curve ≠ curve25519 then encTLV tagCertCurve [UInt8.ofNat c.curve] else []) ++
        (encTLV tagCertPublicKey c.publicKey ++ encTLV tagCertSignature c.signature)) =
      some (UInt8.ofNat c.curve, encTLV tagCertPublicKey c.publicKey ++ encTLV tagCertSignature c.signature) := by
    by_cases cc : c.curve = curve25519
    · simp only [cc, ne_eq, not_true_eq_false, if_false, List.nil_append]
      rw [readOptionalByte_absent _ _ _ (by rw [peek_tlv]; decide)]
      rfl
    · simp only [cc, ne_eq, not_false_eq_true, if_true]
      exact readOptionalByte_present _ _ _ _ tag_ok.2.1
  rw [hcurve]
  simp only [List.length_nil, Nat.lt_irrefl, gt_iff_lt, if_false]
  rw [readOptional_present _ _ _ tag_ok.2.2.1 (by omega)]
  simp only [Option.getD_some]
  have hpk0 : (c.publicKey.length == 0) = false := by
    simp only [beq_eq_false_iff_ne, ne_eq, List.length_eq_zero_iff]; exact hpk
  rw [hpk0]
  simp only [Bool.false_eq_true, if_false]
  rw [← List.append_nil (encTLV tagCertSignature c.signature), readASN1_encTLV _ _ _ tag_ok.2.2.2.1 (by omega)]
  simp only []
  have hs0 : c.signature.isEmpty = false := by cases hx : c.signature <;> simp_all
  rw [hs0]
  simp only [Bool.false_eq_true, if_false, hdet]
  have hto : (UInt8.ofNat c.curve).toNat = c.curve := by simp only [UInt8.toNat_ofNat']; omega
  rw [hto, detailsOf_restore, h.valid]

end Nebula.Lemmas.CertV2RT

namespace Nebula.Lemmas.CertV2RT
open Nebula.Net Nebula.Cert Nebula.Der Nebula.Cert.V2 Nebula.Lemmas.Der Nebula.Lemmas.DerRT Nebula.Lemmas.DerInt
  Nebula.Lemmas.CertV1RT

/-- **v2 round trip, handshake form**: `Recombine(Version2, MarshalForHandshakes(c), c.PublicKey(), c.Curve())`. -/
theorem recombine_marshalForHandshakes (c : Cert) (h : V2OK c) (rd : List UInt8) (he : encodeDetails c = some rd)
    (hsz : (marshalForHandshakes rd c.signature).length ≤ 65536) :
    recombine (marshalForHandshakes rd c.signature) c.publicKey c.curve = .ok (c, rd) := by
  obtain ⟨-, -, -, hpk⟩ := validateV2_facts c c h.valid
  obtain ⟨body, hrd⟩ := encodeDetails_form c rd he
  have hcur := h.curve
  have hsig := h.sig_ne
  unfold marshalForHandshakes at hsz ⊢
  have hin := encTLV_length_ge tagSequence (rd ++ encTLV tagCertSignature c.signature)
  simp only [List.length_append] at hin
  have hsgl := encTLV_length_ge tagCertSignature c.signature
  have hrdl : rd.length ≤ 65536 := by omega
  have hdet := unmarshalDetails_encodeDetails c h rd he hrdl
  unfold recombine unmarshal
  obtain ⟨inner, hinner⟩ : ∃ inner, inner = rd ++ encTLV tagCertSignature c.signature := ⟨_, rfl⟩
  rw [← hinner] at hsz hin ⊢
  have hz : ((encTLV tagSequence inner).length == 0 ||
      decide ((encTLV tagSequence inner).length > Gen.cert_MaxCertificateSize)) = false := by
    simp only [Bool.or_eq_false_iff, beq_eq_false_iff_ne, decide_eq_false_iff_not]
    refine ⟨by omega, ?_⟩
    show ¬ _ > 65536
    omega
  rw [hz]
  simp only [Bool.false_eq_true, if_false]
  have hil : inner.length + 6 < 2 ^ 32 := by
    have := encTLV_length_ge tagSequence inner; omega
  rw [← List.append_nil (encTLV tagSequence inner), readASN1_encTLV _ _ _ tag_ok.2.2.2.2.2.2.2.2.2.2.2.2.1 hil]
  simp only []
  rw [hinner]
  have hne : (rd ++ encTLV tagCertSignature c.signature).isEmpty = false := by
    rw [hrd]; exact encTLV_isEmpty _ _ _
  rw [hne]
  simp only [Bool.false_eq_true, if_false]
  have hbl : body.length + 6 < 2 ^ 32 := by
    have := encTLV_length_ge tagCertDetails body; rw [← hrd] at this; omega
  rw [hrd, readASN1Element_encTLV _ _ _ tag_ok.1 hbl, ← hrd]
  simp only []
  have hrne : rd.isEmpty = false := by rw [hrd]; simp [encTLV]
  rw [hrne]
  simp only [Bool.false_eq_true, if_false]
  rw [readOptionalByte_absent _ _ _ (by rw [← List.append_nil (encTLV _ _), peek_tlv]; decide)]
  simp only []
  have hpkpos : c.publicKey.length > 0 := by
    cases hx : c.publicKey with
    | nil => exact absurd hx hpk
    | cons a l => simp
  have hpeek : peekTag tagCertPublicKey (encTLV tagCertSignature c.signature) = false := by
    rw [← List.append_nil (encTLV _ _), peek_tlv]; decide
  simp only [hpkpos, if_true, hpeek, Bool.false_eq_true, if_false]
  have hpk0 : (c.publicKey.length == 0) = false := by
    simp only [beq_eq_false_iff_ne, ne_eq]; omega
  rw [hpk0]
  simp only [Bool.false_eq_true, if_false]
  rw [← List.append_nil (encTLV tagCertSignature c.signature), readASN1_encTLV _ _ _ tag_ok.2.2.2.1 (by omega)]
  simp only []
  have hs0 : c.signature.isEmpty = false := by cases hx : c.signature <;> simp_all
  rw [hs0]
  simp only [Bool.false_eq_true, if_false, hdet]
  have hto : (UInt8.ofNat c.curve).toNat = c.curve := by simp only [UInt8.toNat_ofNat']; omega
  rw [hto, detailsOf_restore, h.valid]
  simp

end Nebula.Lemmas.CertV2RT
