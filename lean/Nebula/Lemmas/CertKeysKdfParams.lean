/-
Concrete data for the non-vacuity examples of `Props/C43KdfParams.lean`: a lawful toy crypto under which the
binding hypothesis of `open_binds_params` holds on concrete altered parameters.
-/
import Nebula.Model.CertKeysKdfParams

namespace Nebula.Lemmas.CertKeysKdfParams
open Nebula.CertKeys

/-- a toy AEAD whose 16-byte tag is the beginning of key ‖ nonce (zero padded): lawful, and binding for keys and
nonces that differ in their first bytes. -/
def tagOf (k n : Bytes) : Bytes := ((k ++ n).take 16) ++ List.replicate (16 - (k ++ n).length) 0

theorem tagOf_length (k n : Bytes) : (tagOf k n).length = 16 := by
  unfold tagOf; simp only [List.length_append, List.length_take, List.length_replicate]; omega

def bindToy : LawfulKeyCrypto where
  kdf p a := (encArgon a).drop 2 ++ p
  aeadSeal k n m := m ++ tagOf k n
  aeadOpen k n c := if 16 ≤ c.length ∧ c.drop (c.length - 16) = tagOf k n then some (c.take (c.length - 16)) else none
  open_of_seal := by
    intro k n m
    have := tagOf_length k n
    simp [this]
  seal_length := by intro k n m; simp [tagOf_length]

def exArgon : Argon := { version := 0x13, memory := 8, parallelism := 4, iterations := 1, salt := List.replicate 16 5 }
def exNonce : Bytes := List.replicate 12 9
def exKey : Bytes := List.replicate 32 7
def exBody (a : Argon) (nonce : Bytes) : Bytes :=
  encEncData { metadata := some { algorithm := algAES, argon := some a },
               ciphertext := nonce ++ bindToy.aeadSeal (bindToy.kdf [1] exArgon) exNonce exKey }

end Nebula.Lemmas.CertKeysKdfParams
