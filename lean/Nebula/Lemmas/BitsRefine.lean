/-
Refinement of the `bits.go` model by the unbounded-naturals window of `Spec/Window.lean` (C11).

Abstraction relation `R b L w`: the `BitVec 64` cursor is the highest accepted counter, and ring position
`c % L` holds the status of the unique counter `c ≡ p (mod L)` in `(current − L, current]`; during
warm-up the positions above `current` are still clear. `update_refines` / `check_refines` hold for every
`uint64` counter — no hypothesis on the distance to 2^64.
-/
import Nebula.Lemmas.BitsBitmap
import Nebula.Spec.Window

namespace Nebula.Lemmas.Bits
open Nebula.Bits Nebula.Spec

/-! ### arithmetic on ring positions -/

theorem mod_inj (L a b : Nat) (hL : 0 < L) (h : a % L = b % L) (hab : a ≤ b) (hlt : b < a + L) : a = b := by
  have e1 : ((b - a) % L + a % L) % L = b % L := by
    rw [← Nat.add_mod]; congr 1; omega
  have he : (b - a) % L < L := Nat.mod_lt _ hL
  have ha : a % L < L := Nat.mod_lt _ hL
  have h2 : (b - a) % L = b - a := Nat.mod_eq_of_lt (by omega)
  rcases mod_cases L ((b - a) % L + a % L) hL (by omega) with ⟨_, e⟩ | ⟨_, e⟩ <;> rw [e] at e1 <;> omega

theorem mod_ne (L a b : Nat) (hL : 0 < L) (hab : a < b) (hlt : b < a + L) : a % L ≠ b % L := by
  intro h
  have := mod_inj L a b hL h (by omega) hlt
  omega

theorem inCirc_mod (L x y n : Nat) (hL : 0 < L) (hxy : x ≤ y + L) :
    InCirc L (x % L) n (y % L) ↔ (y + L - x) % L < n := by
  have e1 : ((y + L - x) % L + x % L) % L = y % L := by
    rw [← Nat.add_mod]
    have : y + L - x + x = y + L := by omega
    rw [this, Nat.add_mod_right]
  have he := Nat.mod_lt (y + L - x) hL
  have hx := Nat.mod_lt x hL
  have hy := Nat.mod_lt y hL
  unfold InCirc
  rcases mod_cases L ((y + L - x) % L + x % L) hL (by omega) with ⟨_, e⟩ | ⟨_, e⟩ <;> rw [e] at e1 <;> omega

/-! ### the specification side -/

theorem hi_cons (i : Nat) (w : Window.W) : Window.hi (i :: w) = max i (Window.hi w) := by
  simp [Window.hi]

theorem le_hi (w : Window.W) : ∀ c ∈ w, c ≤ Window.hi w := by
  induction w with
  | nil => intro c h; cases h
  | cons a w ih =>
    intro c h
    rw [hi_cons]
    simp only [List.mem_cons] at h
    rcases h with rfl | h
    · omega
    · have := ih c h; omega

theorem accepts_eq (L : Nat) (w : Window.W) (i : Nat) :
    Window.accepts L w i = (!w.contains i && decide (Window.hi w < i + L)) := by
  unfold Window.accepts
  congr 1
  rw [Bool.eq_iff_iff]
  simp only [Bool.or_eq_true, Bool.and_eq_true, decide_eq_true_eq]
  omega

theorem step_nodup (L : Nat) (w : Window.W) (i : Nat) (h : w.Nodup) : (Window.step L w i).1.Nodup := by
  unfold Window.step
  split
  · rename_i ha
    rw [accepts_eq] at ha
    simp only [Bool.and_eq_true, Bool.not_eq_true', decide_eq_true_eq] at ha
    refine List.nodup_cons.mpr ⟨?_, h⟩
    intro hm
    have := List.contains_iff_mem.mpr hm
    rw [this] at ha
    exact absurd ha.1 (by simp)
  · exact h

theorem step_mono (L : Nat) (w : Window.W) (i c : Nat) (h : c ∈ w) : c ∈ (Window.step L w i).1 := by
  unfold Window.step
  split
  · exact List.mem_cons_of_mem _ h
  · exact h

/-! ### the abstraction relation -/

structure R (b : Bits) (L : Nat) (w : Window.W) : Prop where
  wf : WF b L
  cur : b.current.toNat = Window.hi w
  curMem : b.current.toNat ∈ w
  /-- position `c % L` holds the status of counter `c`, for the `L` counters ending at `current` -/
  win : ∀ c, c ≤ b.current.toNat → b.current.toNat < c + L → bitAt b.bits (c % L) = w.contains c
  /-- warm-up: positions above `current` have not been used yet -/
  warm : b.current.toNat < L → ∀ p, b.current.toNat < p → p < L → bitAt b.bits p = false

theorem WF.of_eq {b b' : Bits} {L : Nat} (h : WF b L) (hl : b'.length = b.length)
    (hm : b'.lengthMask = b.lengthMask) (hs : b'.bits.size = b.bits.size) : WF b' L :=
  ⟨by rw [hl]; exact h.len, by rw [hm]; exact h.mask, by rw [hs]; exact h.geo⟩

theorem sww_spec {b : Bits} {L : Nat} (h : WF b L) (i : U64) (hle : i.toNat ≤ b.current.toNat) :
    strictlyWithinWindow b i = decide (b.current.toNat < i.toNat + L) := by
  have hl := h.len
  have h63 := h.geo.le
  unfold strictlyWithinWindow Gen.bits_strictlyWithinWindow
  simp only [BitVec.ult_eq_decide]
  by_cases hw : b.current.toNat < L
  · have h1 : i.toNat < b.length.toNat := by omega
    have h2 : b.current.toNat < b.length.toNat := by omega
    simp only [h1, h2, decide_true, Bool.and_self, if_true]
    symm; rw [decide_eq_true_eq]; omega
  · have h2 : ¬ b.current.toNat < b.length.toNat := by omega
    simp only [h2, decide_false, Bool.and_false, Bool.false_eq_true, if_false]
    have hsub : (b.current - b.length).toNat = b.current.toNat - L := by bv_omega
    simp only [hsub]
    by_cases hc : b.current.toNat - L < i.toNat
    · simp only [hc, decide_true, if_true]; symm; rw [decide_eq_true_eq]; omega
    · simp only [hc, decide_false, Bool.false_eq_true, if_false]; symm; rw [decide_eq_false_iff_not]; omega

/-- the duplicate test `w & mask != 0` inlined in `updateSlow` is `get` -/
theorem inline_get (b : Bits) (i : U64) :
    ((wordAt b.bits ((i &&& b.lengthMask) >>> 6) &&& (1#64 <<< ((i &&& b.lengthMask) &&& 63#64).toNat)) != 0#64)
      = Nebula.Bits.get b i := rfl

theorem check_refines {b : Bits} {L : Nat} {w : Window.W} (r : R b L w) (i : U64) :
    check b i = Window.accepts L w i.toNat := by
  rw [accepts_eq]
  unfold check
  have hcur := r.cur
  by_cases hlt : b.current < i
  · have hlt' : b.current.toNat < i.toNat := BitVec.lt_def.mp hlt
    simp only [hlt, if_true]
    have hc : w.contains i.toNat = false := by
      rw [Bool.eq_false_iff]; intro hc
      have := le_hi w _ (List.contains_iff_mem.mp hc); omega
    rw [hc]
    symm; simp only [Bool.not_false, Bool.true_and, decide_eq_true_eq]; omega
  · have hle : i.toNat ≤ b.current.toNat := by
      have : ¬ b.current.toNat < i.toNat := fun h => hlt (BitVec.lt_def.mpr h)
      omega
    simp only [hlt, if_false]
    rw [sww_spec r.wf i hle, ← hcur]
    by_cases hin : b.current.toNat < i.toNat + L
    · simp only [hin, decide_true, if_true, Bool.and_true]
      rw [get_spec r.wf, r.win _ hle hin]
    · simp [hin]

theorem update_refines {b : Bits} {L : Nat} {w : Window.W} (r : R b L w) (i : U64) :
    (update b i).2 = (Window.step L w i.toNat).2 ∧ R (update b i).1 L (Window.step L w i.toNat).1 := by
  have hcur := r.cur
  have hL := r.wf.geo.pos
  have h63 := r.wf.geo.le
  have hlen := r.wf.len
  have hI := i.isLt
  have hC := b.current.isLt
  unfold Window.step
  rw [accepts_eq]
  by_cases hlt : b.current < i
  · -- a counter above the cursor: always fresh, always accepted
    have hlt' : b.current.toNat < i.toNat := BitVec.lt_def.mp hlt
    have hc : w.contains i.toNat = false := by
      rw [Bool.eq_false_iff]; intro hc
      have := le_hi w _ (List.contains_iff_mem.mp hc); omega
    have hacc : (!w.contains i.toNat && decide (Window.hi w < i.toNat + L)) = true := by
      rw [hc]; simp only [Bool.not_false, Bool.true_and, decide_eq_true_eq]; omega
    simp only [hacc, if_true]
    have hnotmem : ∀ c, b.current.toNat < c → w.contains c = false := by
      intro c hcgt
      rw [Bool.eq_false_iff]; intro hc'
      have := le_hi w _ (List.contains_iff_mem.mp hc'); omega
    have hmodI : i.toNat < L → i.toNat % L = i.toNat := fun h => Nat.mod_eq_of_lt h
    unfold update
    by_cases hone : i - b.current == 1#64
    · -- fast path
      have hI1 : i.toNat = b.current.toNat + 1 := by
        have := eq_of_beq hone; bv_omega
      simp only [hlt, hone, decide_true, Bool.and_self, if_true]
      refine ⟨trivial, ?_⟩
      have hbit := setBit_spec r.wf i
      refine ⟨r.wf.of_eq rfl rfl (by simp), ?_, ?_, ?_, ?_⟩
      · simp only []; rw [hi_cons]; omega
      · simp
      · intro c hcle hcw
        simp only [] at hcle hcw ⊢
        rw [hbit, List.contains_cons]
        by_cases hci : c = i.toNat
        · subst hci; simp
        · have hne : c % L ≠ i.toNat % L := mod_ne L c i.toNat hL (by omega) hcw
          have hbeq : (c == i.toNat) = false := by simpa using hci
          rw [hbeq, decide_eq_false hne, r.win c (by omega) (by omega)]
          simp
      · intro hw p hp hpL
        simp only [] at hw hp ⊢
        rw [hbit, r.warm (by omega) p (by omega) hpL, hmodI hw]
        simp; omega
    · -- jump: clear the slots between the old and the new cursor, then mark `i`
      have hI2 : b.current.toNat + 2 ≤ i.toNat := by
        have : ¬ (i - b.current = 1#64) := fun e => hone (by rw [e]; rfl)
        have : (i - b.current).toNat ≠ 1 := fun e => this (BitVec.eq_of_toNat_eq (by rw [e]; rfl))
        bv_omega
      have hcond : (decide (b.current < i) && (i - b.current == 1#64)) = false := by
        simp [hlt]; exact fun e => hone (by rw [e]; rfl)
      simp only [hcond, Bool.false_eq_true, if_false]
      unfold updateSlow
      simp only [hlt, if_true]
      refine ⟨trivial, ?_⟩
      -- count and start position as naturals
      have hcnt : ((if b.length < i - b.current then b.current + b.length else i) - b.current).toNat
          = min (i.toNat - b.current.toNat) L := by
        split <;> bv_omega
      generalize (if b.length < i - b.current then b.current + b.length else i) - b.current = cnt at hcnt ⊢
      have hstart : ((b.current + 1#64) &&& b.lengthMask).toNat = (b.current.toNat + 1) % L := by
        rw [r.wf.mask]; congr 1; bv_omega
      generalize (b.current + 1#64) &&& b.lengthMask = start at hstart ⊢
      have hsL : start.toNat < L := by rw [hstart]; exact Nat.mod_lt _ hL
      obtain ⟨c1, c2, c3, c4, cbit⟩ := clearRange_spec r.wf start cnt hsL
      have wf1 : WF (clearRange b start cnt) L := r.wf.of_eq c1 c2 c4
      obtain ⟨s1, s2, s3, s4⟩ := set_fields (clearRange b start cnt) i
      have hbit : ∀ q, q < L → bitAt (Nebula.Bits.set (clearRange b start cnt) i).bits q =
          ((bitAt b.bits q && !decide (InCirc L ((b.current.toNat + 1) % L) (min (i.toNat - b.current.toNat) L) q))
            || decide (q = i.toNat % L)) := by
        intro q hq
        rw [set_spec wf1, cbit q hq, hstart, hcnt]
        have : min (min (i.toNat - b.current.toNat) L) L = min (i.toNat - b.current.toNat) L := by omega
        rw [this]
      refine ⟨?_, ?_, ?_, ?_, ?_⟩
      · exact WF.of_eq wf1 s1 s2 s4
      · simp only []; rw [hi_cons]; omega
      · simp
      · intro c hcle hcw
        simp only [] at hcle hcw ⊢
        rw [hbit _ (Nat.mod_lt _ hL), List.contains_cons]
        by_cases hci : c = i.toNat
        · subst hci; simp
        · have hne : c % L ≠ i.toNat % L := mod_ne L c i.toNat hL (by omega) hcw
          have hbeq : (c == i.toNat) = false := by simpa using hci
          rw [hbeq, decide_eq_false hne, Bool.or_false, Bool.false_or]
          have hcirc := inCirc_mod L (b.current.toNat + 1) c (min (i.toNat - b.current.toNat) L) hL (by omega)
          by_cases hold : c ≤ b.current.toNat
          · -- an old counter that stays in the window: its slot is not touched
            have hm : (c + L - (b.current.toNat + 1)) % L = c + L - (b.current.toNat + 1) :=
              Nat.mod_eq_of_lt (by omega)
            have hnot : ¬ InCirc L ((b.current.toNat + 1) % L) (min (i.toNat - b.current.toNat) L) (c % L) := by
              rw [hcirc, hm]; omega
            rw [decide_eq_false hnot, r.win c hold (by omega)]
            simp
          · -- a skipped counter: its slot is cleared
            have hin : InCirc L ((b.current.toNat + 1) % L) (min (i.toNat - b.current.toNat) L) (c % L) := by
              rw [hcirc]
              have hlt2 := Nat.mod_lt (c + L - (b.current.toNat + 1)) hL
              by_cases hbig : L ≤ i.toNat - b.current.toNat
              · omega
              · have e : c + L - (b.current.toNat + 1) = (c - (b.current.toNat + 1)) + L := by omega
                rw [e, Nat.add_mod_right, Nat.mod_eq_of_lt (by omega)]
                omega
            rw [decide_eq_true hin, hnotmem c (by omega)]
            simp
      · intro hw p hp hpL
        simp only [] at hw hp ⊢
        rw [hbit p hpL, r.warm (by omega) p (by omega) hpL, hmodI hw]
        simp; omega
  · -- a counter at or below the cursor
    have hle : i.toNat ≤ b.current.toNat := by
      have : ¬ b.current.toNat < i.toNat := fun h => hlt (BitVec.lt_def.mpr h)
      omega
    have hcond : (decide (b.current < i) && (i - b.current == 1#64)) = false := by simp [hlt]
    unfold update
    simp only [hcond, Bool.false_eq_true, if_false]
    unfold updateSlow
    simp only [hlt, if_false]
    rw [sww_spec r.wf i hle, ← hcur]
    by_cases hin : b.current.toNat < i.toNat + L
    · simp only [hin, decide_true, if_true, Bool.and_true]
      rw [inline_get, get_spec r.wf, r.win _ hle hin]
      by_cases hdup : (b.current == i || w.contains i.toNat) = true
      · -- duplicate
        have hc : w.contains i.toNat = true := by
          rcases Bool.or_eq_true _ _ |>.mp hdup with h | h
          · have : b.current = i := eq_of_beq h
            rw [← this]; exact List.contains_iff_mem.mpr r.curMem
          · exact h
        rw [if_pos hdup]
        have hs : (!w.contains i.toNat) = false := by rw [hc]; rfl
        simp only [hs, Bool.false_eq_true, if_false]
        first | exact ⟨trivial, r⟩ | exact ⟨rfl, r⟩
      · -- backfill
        have hdup' : (b.current == i || w.contains i.toNat) = false := by simpa using hdup
        obtain ⟨hne, hc⟩ := Bool.or_eq_false_iff.mp hdup'
        have hneq : b.current.toNat ≠ i.toNat := by
          intro e; have : b.current = i := BitVec.eq_of_toNat_eq e
          rw [this] at hne; simp at hne
        rw [if_neg hdup]
        have hs : (!w.contains i.toNat) = true := by rw [hc]; rfl
        simp only [hs, if_true]
        refine ⟨by first | trivial | rfl, ?_⟩
        have hbit := setBit_spec r.wf i
        refine ⟨r.wf.of_eq rfl rfl (by simp), ?_, ?_, ?_, ?_⟩
        · simp only []; rw [hi_cons]; omega
        · exact List.mem_cons_of_mem _ r.curMem
        · intro c hcle hcw
          simp only [] at hcle hcw ⊢
          rw [hbit, List.contains_cons, r.win c hcle hcw]
          by_cases hci : c = i.toNat
          · subst hci; simp
          · have hne' : c % L ≠ i.toNat % L := by
              rcases Nat.lt_or_gt_of_ne hci with h | h
              · exact mod_ne L c i.toNat hL h (by omega)
              · exact fun e => mod_ne L i.toNat c hL h (by omega) e.symm
            have hbeq : (c == i.toNat) = false := by simpa using hci
            rw [hbeq, decide_eq_false hne']
            simp
        · intro hw p hp hpL
          simp only [] at hw hp ⊢
          rw [hbit, r.warm hw p hp hpL, Nat.mod_eq_of_lt (by omega : i.toNat < L)]
          simp; omega
    · -- too old
      simp only [hin, decide_false, Bool.false_eq_true, if_false, Bool.and_false]
      exact ⟨trivial, r⟩

/-! ### the initial window -/

theorem newBits_R (k : Nat) (hk : k ≤ 63) :
    ∃ b, newBits (BitVec.ofNat 64 (2 ^ k)) = some b ∧ R b (2 ^ k) Window.init := by
  have hp : 2 ^ k < 2 ^ 64 := Nat.pow_lt_pow_right (by decide) (by omega)
  have hp63 : 2 ^ k ≤ 2 ^ 63 := Nat.pow_le_pow_right (by decide) hk
  have hpos : 1 ≤ 2 ^ k := Nat.one_le_two_pow
  have htn : (BitVec.ofNat 64 (2 ^ k)).toNat = 2 ^ k := by
    rw [BitVec.toNat_ofNat, Nat.mod_eq_of_lt hp]
  generalize hlen : BitVec.ofNat 64 (2 ^ k) = len at htn
  have hm1 : (len - 1#64).toNat = 2 ^ k - 1 := by bv_omega
  have hne0 : (len == 0#64) = false := by
    rw [beq_eq_false_iff_ne]; intro e; rw [e] at htn; simp at htn; omega
  have hand : (len &&& (len - 1#64)) = 0#64 := by
    apply BitVec.eq_of_toNat_eq
    rw [BitVec.toNat_and, hm1, Nat.and_two_pow_sub_one_eq_mod, htn, Nat.mod_self]; rfl
  unfold newBits
  simp only [hne0, hand, bne_self_eq_false, Bool.or_self, Bool.false_eq_true, if_false]
  refine ⟨_, rfl, ?_⟩
  have hbpw : (BitVec.ofNat 64 Gen.nebula_bitsPerWord : U64) = 64#64 := by decide
  rw [hbpw]
  have hdiv : (len / 64#64).toNat = 2 ^ k / 64 := by
    rw [BitVec.toNat_udiv, htn]; rfl
  -- number of words
  have hsize : (if (len / 64#64 == 0#64) = true then 1#64 else len / 64#64).toNat =
      if 2 ^ k < 64 then 1 else 2 ^ k / 64 := by
    by_cases hz : len / 64#64 = 0#64
    · have : (len / 64#64).toNat = 0 := by rw [hz]; rfl
      have hlt : 2 ^ k < 64 := by omega
      simp [hz, hlt]
    · have : (len / 64#64).toNat ≠ 0 := fun e => hz (BitVec.eq_of_toNat_eq (by rw [e]; rfl))
      have hge : ¬ 2 ^ k < 64 := by omega
      have hz' : (len / 64#64 == 0#64) = false := by rw [beq_eq_false_iff_ne]; exact hz
      simp only [hz', Bool.false_eq_true, if_false, hge]
      exact hdiv
  generalize (if (len / 64#64 == 0#64) = true then 1#64 else len / 64#64) = nW at hsize ⊢
  have hgeo : Geo (2 ^ k) nW.toNat := by
    refine ⟨hpos, hp63, ?_⟩
    by_cases hlt : 2 ^ k < 64
    · left; rw [hsize]; simp [hlt]
    · right
      rw [hsize]; simp only [hlt, if_false]
      have h6 : 6 ≤ k := by
        apply Classical.byContradiction; intro hn
        have : 2 ^ k ≤ 2 ^ 5 := Nat.pow_le_pow_right (by decide) (by omega)
        omega
      have e : 2 ^ k = 64 * 2 ^ (k - 6) := by
        have : k = 6 + (k - 6) := by omega
        rw [this, Nat.pow_add]; simp
      rw [e, Nat.mul_div_cancel_left _ (by decide : 0 < 64)]
  have hW : 0 < nW.toNat := by rcases hgeo.shape with ⟨_, h⟩ | h <;> omega
  have hsz : ((Array.replicate nW.toNat (0#64 : U64)).setIfInBounds 0 1#64).size = nW.toNat := by simp
  have hb0 : ∀ p, bitAt ((Array.replicate nW.toNat (0#64 : U64)).setIfInBounds 0 1#64) p = decide (p = 0) := by
    intro p
    rw [bitAt_setWord _ _ _ _ (by simpa using hW)]
    by_cases h : p / 64 = 0
    · simp only [h, if_true]
      rw [BitVec.getLsbD_one]
      simp; omega
    · simp only [h, if_false, bitAt_replicate_zero]
      symm; rw [decide_eq_false_iff_not]; omega
  refine ⟨⟨htn, ?_, by rw [hsz]; exact hgeo⟩, ?_, ?_, ?_, ?_⟩
  · intro x; exact toNat_andMask x _ k hm1
  · simp [Window.init, Window.hi]
  · simp [Window.init]
  · intro c hc _
    simp only [BitVec.toNat_ofNat, Nat.zero_mod, Nat.le_zero_eq] at hc
    subst hc
    rw [hb0]; simp [Window.init]
  · intro _ p hp hpL
    simp only [BitVec.toNat_ofNat, Nat.zero_mod] at hp
    rw [hb0]; simp; omega

/-! ### histories -/

/-- answers of `Update` along a history -/
def runBits (b : Bits) : List U64 → List Bool
  | [] => []
  | c :: cs => (update b c).2 :: runBits (update b c).1 cs

/-- window after a history of `Update`s -/
def after (b : Bits) (cs : List U64) : Bits := cs.foldl (fun b c => (update b c).1) b

/-- spec state after a history -/
def afterSpec (L : Nat) (w : Window.W) (cs : List Nat) : Window.W := cs.foldl (fun w c => (Window.step L w c).1) w

theorem run_refines {L : Nat} (cs : List U64) : ∀ {b : Bits} {w : Window.W}, R b L w →
    runBits b cs = Window.run L w (cs.map (·.toNat)) ∧ R (after b cs) L (afterSpec L w (cs.map (·.toNat))) := by
  induction cs with
  | nil => intro b w r; exact ⟨rfl, r⟩
  | cons c cs ih =>
    intro b w r
    obtain ⟨h1, h2⟩ := update_refines r c
    obtain ⟨i1, i2⟩ := ih h2
    refine ⟨?_, ?_⟩
    · simp only [runBits, List.map_cons, Window.run]
      rw [h1, i1]
    · simpa [after, afterSpec] using i2

theorem afterSpec_mono (L : Nat) (cs : List Nat) : ∀ (w : Window.W) (c : Nat), c ∈ w → c ∈ afterSpec L w cs := by
  induction cs with
  | nil => intro w c h; exact h
  | cons a cs ih =>
    intro w c h
    simp only [afterSpec, List.foldl_cons]
    exact ih _ c (step_mono L w a c h)

end Nebula.Lemmas.Bits
