/-
History level: the pending-side invariant holds after every history of a node, and no pending handshake's
queue is released twice.
-/
import Nebula.Lemmas.HsPendingNode

namespace Nebula.Lemmas.HsPending
open Nebula.HsManager Nebula.Lemmas.HsWheel Nebula.Lemmas.HsManager Nebula.Gen

/-- configurations NewTimerWheel is meaningful for: positive try interval, non-negative wheel span
(`hsTimeout(retries, interval)` as translated from the source, read as int64) -/
def Cfg.sane (c : Cfg) : Prop :=
  0 < c.interval ∧ 0 ≤ BitVec.toInt (hsm_hsTimeout (BitVec.ofInt 64 c.retries) (BitVec.ofNat 64 c.interval))

theorem init_pinv (c : Cfg) (h : Cfg.sane c) : PInv (Node.init c).p := by
  have hv : (Node.init c).p.vpnIps = [] := rfl
  refine ⟨new_wf _ _ h.1 h.2, ?_, ?_, ?_, ?_, ?_, ?_, ?_, ?_⟩
  · intro a hh hm; rw [hv] at hm; simp at hm
  · rw [hv]; simp
  · rw [hv]; simp
  · intro a hh hm; rw [hv] at hm; simp at hm
  · intro it hi
    rcases hi with hi | hi
    · exact absurd hi (new_empty _ _ it)
    · simp at hi
  · intro a hh it hm; rw [hv] at hm; simp at hm
  · intro a hh hm; rw [hv] at hm; simp at hm
  · intro a hh hm; rw [hv] at hm; simp at hm

theorem run_pinv (n : Node) (evs : List Ev) (h : PInv n.p) : PInv (n.run evs).p := by
  induction evs generalizing n with
  | nil => exact h
  | cons e es ih => exact ih (n.step e).1 (step_pinv n e h).1

/-- the queues released along a history, in order: (identity of the completed pending handshake, packets) -/
def flushLog (n : Node) : List Ev → List (Nat × List Cached)
  | [] => []
  | e :: es => (n.step e).2.flushed ++ flushLog (n.step e).1 es

/-- released identities are dead: below the allocation counter and not pending -/
def Dead (n : Node) (F : List Nat) : Prop := ∀ id ∈ F, id < n.p.nextObj ∧ id ∉ idsOf n.p

theorem flushLog_nodup (n : Node) (evs : List Ev) (F : List Nat) (h : PInv n.p) (hF : F.Nodup) (hd : Dead n F) :
    (F ++ (flushLog n evs).map (·.1)).Nodup := by
  induction evs generalizing n F with
  | nil => simpa [flushLog] using hF
  | cons e es ih =>
    obtain ⟨h', g, fl⟩ := step_pinv n e h
    simp only [flushLog, List.map_append]
    have dead' : Dead (n.step e).1 F := by
      intro id hid
      refine ⟨Nat.lt_of_lt_of_le (hd id hid).1 g.next, fun hm => ?_⟩
      rcases g.ids id hm with h1 | h1
      · exact (hd id hid).2 h1
      · have := (hd id hid).1; omega
    rcases fl with e0 | ⟨a, hh, hm, e1, gone⟩
    · rw [e0]; simpa using ih (n.step e).1 F h' hF dead'
    · rw [e1]
      have hidm : hh.id ∈ idsOf n.p := List.mem_map.mpr ⟨(a, hh), hm, rfl⟩
      have hnotF : hh.id ∉ F := fun hi => (hd _ hi).2 hidm
      have := ih (n.step e).1 (F ++ [hh.id]) h'
        (by rw [List.nodup_append]; exact ⟨hF, by simp, by intro x hx y hy; simp at hy; subst hy; exact fun e => hnotF (e ▸ hx)⟩)
        (by
          intro id hid
          rcases List.mem_append.mp hid with h1 | h1
          · exact dead' id h1
          · simp at h1; subst h1
            refine ⟨Nat.lt_of_lt_of_le (h.idsLt a hh hm) g.next, fun hm' => ?_⟩
            obtain ⟨x, hx, ex⟩ := List.mem_map.mp hm'
            exact gone x.1 x.2 hx ex)
      simpa [List.append_assoc] using this

end Nebula.Lemmas.HsPending
