/-
Helper lemmas for C35 / C36 (lighthouse handler): owner-cache updates, list store, handler case analysis.
-/
import Nebula.Model.Lighthouse
import Nebula.Spec.Lighthouse
import Nebula.Lemmas.RemoteList

namespace Nebula.Lemmas.Lighthouse
open Nebula.Net Nebula.RemoteList Nebula.Lighthouse

/-! ### owner cache -/

theorem getOwner_updOwner_ne (c : List (Addr × OwnerCache)) (o o' : Addr) (f : OwnerCache → OwnerCache)
    (h : o' ≠ o) : getOwner (updOwner c o f) o' = getOwner c o' := by
  induction c with
  | nil => simp [updOwner, getOwner, List.find?, Ne.symm h]
  | cons e rest ih =>
    obtain ⟨k, v⟩ := e
    simp only [updOwner]
    by_cases hk : k = o
    · subst hk
      simp [getOwner, List.find?, Ne.symm h]
    · simp only [hk, if_false]
      simp only [getOwner, List.find?] at ih ⊢
      by_cases hk' : k = o'
      · simp [hk']
      · simp [hk']; exact ih

theorem getOwner_updOwner_eq (c : List (Addr × OwnerCache)) (o : Addr) (f : OwnerCache → OwnerCache) :
    getOwner (updOwner c o f) o = some (f ((getOwner c o).getD {})) := by
  induction c with
  | nil => simp [updOwner, getOwner, List.find?]
  | cons e rest ih =>
    obtain ⟨k, v⟩ := e
    simp only [updOwner]
    by_cases hk : k = o
    · subst hk; simp [getOwner, List.find?]
    · simp only [hk, if_false]
      simp only [getOwner, List.find?] at ih ⊢
      simpa [hk] using ih

/-- the three setters under owner `o` leave every other owner's entry alone. -/
theorem report_other_owner (rl : RL) (o o' : Addr) (l4 l6 : List AP) (rel : List Addr) (chk : Addr → Bool)
    (h : o' ≠ o) :
    getOwner (setRelay (setV6 (setV4 rl o l4 chk) o l6 chk) o rel).cache o' = getOwner rl.cache o' := by
  simp only [setRelay, setV6, setV4]
  rw [getOwner_updOwner_ne _ _ _ _ h, getOwner_updOwner_ne _ _ _ _ h, getOwner_updOwner_ne _ _ _ _ h]

/-- what the three setters leave under owner `o`. -/
theorem report_owner (rl : RL) (o : Addr) (l4 l6 : List AP) (rel : List Addr) (chk : Addr → Bool) :
    ∃ oc, getOwner (setRelay (setV6 (setV4 rl o l4 chk) o l6 chk) o rel).cache o = some oc ∧
      oc.v4r = (l4.take maxRemotes).filter (fun a => chk a.addr) ∧
      oc.v6r = (l6.take maxRemotes).filter (fun a => chk a.out.addr) ∧
      oc.relay = rel.take maxRemotes := by
  simp only [setRelay, setV6, setV4]
  rw [getOwner_updOwner_eq, getOwner_updOwner_eq, getOwner_updOwner_eq]
  exact ⟨_, rfl, rfl, rfl, rfl⟩

/-! ### the list store -/

theorem getList_setList (s : LH) (id id' : Nat) (r : RL) :
    (s.setList id r).getList id' = if id' = id then (s.getList id).map (fun _ => r) else s.getList id' := by
  simp only [LH.setList, LH.getList]
  induction s.lists with
  | nil => simp
  | cons e rest ih =>
    obtain ⟨k, v⟩ := e
    by_cases hk : k = id <;> by_cases h2 : k = id' <;> by_cases h3 : id' = id <;>
      simp_all [List.find?_cons]

/-- `unlockedGetRemoteList` never touches an existing list; a new list starts with an empty cache. -/
theorem getList_getRemoteList (s : LH) (all : List Addr) (id : Nat) :
    (getRemoteList s all).1.getList id = s.getList id ∨
      (s.getList id = none ∧ ∃ rl, (getRemoteList s all).1.getList id = some rl ∧ rl.cache = []) := by
  unfold getRemoteList
  split
  · split <;> exact Or.inl rfl
  · simp only [LH.getList]
    cases hf : s.lists.find? (fun e => e.1 = id) with
    | some e => left; simp [List.find?_append, hf]
    | none =>
      by_cases hid : s.nextId = id
      · right; exact ⟨by simp, ⟨{ vpnAddrs := all }, by simp [List.find?_append, hf, hid], rfl⟩⟩
      · left; simp [List.find?_append, hf, hid]

/-- the list `unlockedGetRemoteList` returns exists afterwards. -/
theorem recordReport_other_owner (c : Cfg) (s : LH) (id : Nat) (owner vpn : Addr) (d : Details)
    (id' : Nat) (rl' : RL) (o : Addr) (ho : o ≠ owner)
    (h : (recordReport c s id owner vpn d).getList id' = some rl') :
    ∃ rl, s.getList id' = some rl ∧ getOwner rl'.cache o = getOwner rl.cache o := by
  unfold recordReport at h
  cases hg : s.getList id with
  | none => rw [hg] at h; exact ⟨rl', h, rfl⟩
  | some rl =>
    rw [hg] at h
    simp only at h
    rw [getList_setList] at h
    by_cases hid : id' = id
    · subst hid
      simp only [if_true, hg, Option.map_some, Option.some.injEq] at h
      subst h
      exact ⟨rl, hg, report_other_owner rl owner o _ _ _ _ ho⟩
    · simp only [hid, if_false] at h
      exact ⟨rl', h, rfl⟩


/-! ### handler facts -/

theorem query_keeps_state (c : Cfg) (s : LH) (f : List Addr) (d : Details) :
    (handleHostQuery c s f d).1 = s ∧ (handleHostQuery c s f d).2.punches = [] ∧
      (handleHostQuery c s f d).2.trigger = none := by
  unfold handleHostQuery
  repeat' split
  all_goals exact ⟨rfl, rfl, rfl⟩

theorem punch_keeps_state (c : Cfg) (s : LH) (f : List Addr) (d : Details) :
    (handleHostPunchNotification c s f d).1 = s := by
  unfold handleHostPunchNotification
  repeat' split
  all_goals rfl

theorem update_no_punch (c : Cfg) (s : LH) (f : List Addr) (d : Details) :
    (handleHostUpdateNotification c s f d).2.punches = [] ∧ (handleHostUpdateNotification c s f d).2.trigger = none := by
  unfold handleHostUpdateNotification
  split <;> exact ⟨rfl, rfl⟩

/-- a host update whose filled-in address is not one of the sender's authenticated addresses is dropped. -/
theorem update_spoofed_dropped (c : Cfg) (s : LH) (f : List Addr) (d : Details) (a : Addr)
    (ha : (updDetailsVpn d).1 = some a) (hf : memB f a = false) :
    handleHostUpdateNotification c s f d = (s, {}) := by
  simp [handleHostUpdateNotification, updateAccepted, ha, hf]

theorem update_not_lighthouse (c : Cfg) (s : LH) (f : List Addr) (d : Details) (h : c.amLighthouse = false) :
    handleHostUpdateNotification c s f d = (s, {}) := by
  simp [handleHostUpdateNotification, updateAccepted, h]

/-- owner entries other than the sender's primary address are untouched by a host update … -/
theorem update_other_owner (c : Cfg) (s : LH) (f : List Addr) (d : Details) (id : Nat) (rl' : RL) (o : Addr)
    (ho : o ≠ f.headD ⟨.v4, 0⟩) (h : (handleHostUpdateNotification c s f d).1.getList id = some rl') :
    getOwner rl'.cache o = ((s.getList id).map (fun rl => getOwner rl.cache o)).getD none := by
  unfold handleHostUpdateNotification at h
  split at h
  · simp only at h; rw [h]; rfl
  · simp only at h
    obtain ⟨rl, hrl, heq⟩ := recordReport_other_owner c _ _ _ _ d id rl' o ho h
    rcases getList_getRemoteList s f id with h1 | ⟨h1, rl0, h2, h3⟩
    · rw [h1] at hrl; rw [hrl, heq]; rfl
    · rw [h2] at hrl; cases hrl
      rw [h1, heq, h3]; rfl

/-- … and by a query reply (recorded under the answering lighthouse's primary address). -/
theorem reply_other_owner (c : Cfg) (s : LH) (f : List Addr) (d : Details) (id : Nat) (rl' : RL) (o : Addr)
    (ho : o ≠ f.headD ⟨.v4, 0⟩) (h : (handleHostQueryReply c s f d).1.getList id = some rl') :
    getOwner rl'.cache o = ((s.getList id).map (fun rl => getOwner rl.cache o)).getD none := by
  unfold handleHostQueryReply at h
  split at h
  · simp only at h; rw [h]; rfl
  · split at h
    · simp only at h; rw [h]; rfl
    · rename_i certVpnAddr _ _
      simp only at h
      obtain ⟨rl, hrl, heq⟩ := recordReport_other_owner c _ _ _ _ d id rl' o ho h
      rcases getList_getRemoteList s [certVpnAddr] id with h1 | ⟨h1, rl0, h2, h3⟩
      · rw [h1] at hrl; rw [hrl, heq]; rfl
      · rw [h2] at hrl; cases hrl
        rw [h1, heq, h3]; rfl


/-! ### C36 -/

open Nebula.Spec.Lighthouse (usable usableGlobal)

theorem shouldAddOne_eq_usable (c : Cfg) (v u : Addr) : shouldAddOne c v u = usable c v u := by
  simp only [shouldAddOne, usable]
  cases c.ral.allow v u <;> cases inMyNets c u <;> rfl

theorem shouldAddAll_usableGlobal (c : Cfg) (vs : List Addr) (u : Addr) (h : shouldAddAll c vs u = true) :
    usableGlobal c u = true := by
  simp only [shouldAddAll, AllowList.Remote.allowAll] at h
  simp only [usableGlobal]
  cases hg : AllowList.allow c.ral.allowList u <;> cases hn : inMyNets c u <;> simp_all

theorem usable_usableGlobal (c : Cfg) (v u : Addr) (h : usable c v u = true) : usableGlobal c u = true := by
  simp only [usable, AllowList.Remote.allow, Bool.and_eq_true] at h
  simp only [usableGlobal, Bool.and_eq_true]
  refine ⟨h.1, ?_⟩
  have h2 := h.2
  split at h2
  · cases h2
  · exact h2

theorem punch_targets (c : Cfg) (s : LH) (f : List Addr) (d : Details) :
    ∀ p ∈ (handleHostPunchNotification c s f d).2.punches, ∀ t, p.target = some t → usable c p.vpn t.addr = true := by
  unfold handleHostPunchNotification
  split
  · intro p hp; simp at hp
  · split
    · intro p hp; simp at hp
    · intro p hp t ht
      simp only [List.mem_append, List.mem_map, List.mem_filter, List.mem_singleton] at hp
      rcases hp with (⟨a, ⟨_, ha⟩, rfl⟩ | ⟨a, ⟨_, ha⟩, rfl⟩) | rfl
      · simp only [Option.some.injEq] at ht; subst ht
        rw [← shouldAddOne_eq_usable]; exact ha
      · simp only [Option.some.injEq] at ht; subst ht
        rw [← shouldAddOne_eq_usable]; exact ha
      · cases ht

/-- what a report leaves under its owner passed the filter and is capped. -/
theorem recordReport_owner (c : Cfg) (s : LH) (id : Nat) (owner vpn : Addr) (d : Details) (rl : RL)
    (hg : s.getList id = some rl) :
    ∃ rl' oc, (recordReport c s id owner vpn d).getList id = some rl' ∧ getOwner rl'.cache owner = some oc ∧
      (∀ a ∈ oc.v4r, usable c vpn a.addr = true) ∧ (∀ a ∈ oc.v6r, usable c vpn a.out.addr = true) ∧
      oc.v4r.length ≤ maxRemotes ∧ oc.v6r.length ≤ maxRemotes ∧ oc.relay.length ≤ maxRemotes := by
  obtain ⟨oc, h1, h4, h6, hr⟩ := report_owner rl owner d.v4 d.v6 (getRelays d) (fun u => shouldAddOne c vpn u)
  refine ⟨_, oc, ?_, h1, ?_, ?_, ?_, ?_, ?_⟩
  · simp only [recordReport, hg, getList_setList, if_true, Option.map_some]
  · intro a ha; rw [h4] at ha; rw [← shouldAddOne_eq_usable]; exact (List.mem_filter.mp ha).2
  · intro a ha; rw [h6] at ha; rw [← shouldAddOne_eq_usable]; exact (List.mem_filter.mp ha).2
  · rw [h4]; exact Nat.le_trans (List.length_filter_le _ _) (by simp [List.length_take]; omega)
  · rw [h6]; exact Nat.le_trans (List.length_filter_le _ _) (by simp [List.length_take]; omega)
  · rw [hr]; simp [List.length_take]; omega

end Nebula.Lemmas.Lighthouse
