/-
Canonical encodings: `MarshalPayload` writes exactly the schema's canonical encoding, the canonical
records are well-formed and conforming, and the schema tokeniser reads well-formed records back.
-/
import Nebula.Lemmas.PayloadRT

namespace Nebula.Payload
open Nebula.Wire
open Nebula.Spec.HandshakeSchema

def opt (c : Prop) [Decidable c] (t : Tok) : List Tok := if c then [t] else []

/-- The records of the canonical encoding of a `NebulaHandshakeDetails`. -/
def canonToks (d : Details) : List Tok :=
  opt (d.cert ≠ []) ⟨1, .bytes d.cert⟩ ++ (opt (d.initiatorIndex ≠ 0) ⟨2, .varint d.initiatorIndex⟩ ++
  (opt (d.responderIndex ≠ 0) ⟨3, .varint d.responderIndex⟩ ++ (opt (d.cookie ≠ 0) ⟨4, .varint d.cookie⟩ ++
  (opt (d.time ≠ 0) ⟨5, .varint d.time⟩ ++ opt (d.certVersion ≠ 0) ⟨8, .varint d.certVersion⟩))))

theorem encodeToks_append (a b : List Tok) : encodeToks (a ++ b) = encodeToks a ++ encodeToks b := by
  simp [encodeToks]

theorem encodeToks_opt (c : Prop) [Decidable c] (t : Tok) :
    encodeToks (opt c t) = if c then t.encode else [] := by
  unfold opt; split <;> simp [encodeToks]

theorem encodeDetails_eq (d : Details) : encodeDetails d = encodeToks (canonToks d) := by
  simp only [canonToks, encodeToks_append, encodeToks_opt, encodeDetails, Tok.encode, Val.typ, Val.encode,
    List.append_assoc]

theorem marshalDetails_eq (p : Payload) : marshalDetails p = encodeDetails (ofPayload p) := by
  have h : (p.cert.length > 0) ↔ p.cert ≠ [] := by
    cases p.cert <;> simp
  simp only [marshalDetails, encodeDetails, ofPayload, fieldCert, fieldInitiatorIndex, fieldResponderIndex,
    fieldTime, fieldCertVersion, Gen.handshake_fieldCert, Gen.handshake_fieldInitiatorIndex,
    Gen.handshake_fieldResponderIndex, Gen.handshake_fieldTime, Gen.handshake_fieldCertVersion, h, ne_eq]
  simp
  by_cases c1 : p.cert = [] <;> by_cases c2 : p.initiatorIndex = 0 <;> by_cases c3 : p.responderIndex = 0 <;>
    by_cases c4 : p.time = 0 <;> by_cases c5 : p.certVersion = 0 <;> simp [c1, c2, c3, c4, c5]

theorem canonToks_ok (d : Details) (h : d.inRange) : ∀ t ∈ canonToks d, t.wf ∧ t.conforms := by
  obtain ⟨h1, h2, h3, h4, h5, h6⟩ := h
  intro t ht
  simp only [canonToks, opt, List.mem_append] at ht
  have two : (2 : Nat) ^ 32 < 2 ^ 64 := by decide
  rcases ht with ht | ht | ht | ht | ht | ht <;> (split at ht <;> simp at ht) <;> subst ht <;>
    simp [Tok.wf, Tok.conforms, maxValidNumber] <;> omega

theorem foldl_opt (c : Prop) [Decidable c] (t : Tok) (d : Details) :
    (opt c t).foldl applyDetails d = if c then applyDetails d t else d := by
  unfold opt; split <;> simp

theorem foldl_canonToks (d : Details) (h : d.inRange) : (canonToks d).foldl applyDetails {} = d := by
  obtain ⟨h1, h2, h3, h4, h5, h6⟩ := h
  simp only [canonToks, List.foldl_append, foldl_opt]
  cases d with
  | mk cert ii ri ck tm cv =>
  simp only at h2 h3 h6
  by_cases c1 : cert = [] <;> by_cases c2 : ii = 0 <;> by_cases c3 : ri = 0 <;> by_cases c4 : ck = 0 <;>
    by_cases c5 : tm = 0 <;> by_cases c6 : cv = 0 <;>
    simp [c1, c2, c3, c4, c5, c6, applyDetails, Nat.mod_eq_of_lt h2, Nat.mod_eq_of_lt h3, Nat.mod_eq_of_lt h6]

theorem fieldTok_tok (num : Nat) (val : Val) (rest : Bytes) (hwf : Tok.wf ⟨num, val⟩) :
    fieldTok num val.typ (val.encode ++ rest) = some (val, val.encode.length) := by
  obtain ⟨_, _, h3⟩ := hwf
  cases val with
  | varint v =>
    have h3' : v < 2 ^ 64 := h3
    simp [fieldTok, Val.typ, Val.encode, consumeVarint_append _ _ h3']
  | bytes b =>
    have h3' : b.length < 2 ^ 64 := h3
    simp [fieldTok, Val.typ, Val.encode, consumeBytes_append _ _ h3', BytesType, VarintType]
  | fixed32 b =>
    have h3' : b.length = 4 := h3
    have := cfv_fixed32 num b rest h3'
    have this' : consumeFieldValue num 5 (b ++ rest) = .ok 4 := by rw [← h3']; exact this
    have htk : (b ++ rest).take 4 = b := List.take_left' h3'
    simp [fieldTok, Val.typ, Val.encode, this', BytesType, VarintType, Fixed32Type, h3', htk]
  | fixed64 b =>
    have h3' : b.length = 8 := h3
    have := cfv_fixed64 num b rest h3'
    have this' : consumeFieldValue num 1 (b ++ rest) = .ok 8 := by rw [← h3']; exact this
    have htk : (b ++ rest).take 8 = b := List.take_left' h3'
    simp [fieldTok, Val.typ, Val.encode, this', BytesType, VarintType, Fixed32Type, Fixed64Type, h3', htk]
  | group => exact absurd h3 (by simp)

/-- The schema tokeniser reads any sequence of well-formed records back. -/
theorem tokenize_toks : ∀ (ts : List Tok) (fuel : Nat), (∀ t ∈ ts, t.wf) → (encodeToks ts).length < fuel →
    tokenize fuel (encodeToks ts) = some ts := by
  intro ts
  induction ts with
  | nil => intro fuel _ h; cases fuel with
    | zero => omega
    | succ f => simp [tokenize, encodeToks]
  | cons t ts ih =>
    intro fuel hall hlen
    have hwf := hall t (by simp)
    obtain ⟨num, val⟩ := t
    have hwf' := hwf
    obtain ⟨h1, h2, _⟩ := hwf'
    simp only at h1 h2
    have h2' : num < 2 ^ 31 := by unfold maxValidNumber at h2; omega
    have hpos := appendTag_length_pos num val.typ
    cases fuel with
    | zero => omega
    | succ f =>
      have hlen' : (encodeToks ts).length < f := by
        rw [encodeToks_cons, Tok.encode] at hlen
        simp only [List.length_append] at hlen
        omega
      have ihh := ih f (fun t' ht' => hall t' (by simp [ht'])) hlen'
      have hne : (appendTag num val.typ ++ (val.encode ++ encodeToks ts)).isEmpty = false := by
        cases hh : appendTag num val.typ with
        | nil => rw [hh] at hpos; simp at hpos
        | cons a as => simp
      rw [encodeToks_cons, Tok.encode, List.append_assoc, tokenize]
      have hnum : ¬ num > maxValidNumber := by omega
      simp only [hne, consumeTag_append _ _ _ h1 h2' (Val.typ_lt _), List.drop_left', hnum, if_false,
        fieldTok_tok num val _ hwf, ihh, Bool.false_eq_true, Option.map_some]

end Nebula.Payload
