/-
The executable oracle of `Spec/HostMap.lean` decides exactly the Prop-level invariant: `invCheck s = none ↔ Inv s`.
-/
import Nebula.Spec.HostMap
import Nebula.Lemmas.HostMapRun

namespace Nebula.HostMap
open FMap Nebula.Spec.HostMap

theorem allEntries_iff {β : Type} (m : FMap β) (p : Nat → β → Bool) :
    allEntries m p = true ↔ ∀ k v, m.get k = some v → p k v = true := by
  unfold allEntries
  rw [List.all_eq_true]
  constructor
  · intro h k v hg
    have := h k (mem_keys_of_get hg)
    simpa [hg] using this
  · intro h k _
    cases hg : m.get k with
    | none => rfl
    | some v => exact h k v hg

theorem firstFailing_none (l : List (Bool × String)) : firstFailing l = none ↔ ∀ p ∈ l, p.1 = true := by
  unfold firstFailing
  cases hf : l.find? (fun p => !p.1) with
  | none =>
    simp only [true_iff]
    intro p hp
    have := List.find?_eq_none.mp hf p hp
    simpa using this
  | some q =>
    simp only [reduceCtorEq, false_iff]
    intro h
    have h1 := List.find?_some hf
    have h2 := h q (List.mem_of_find?_eq_some hf)
    simp [h2] at h1

theorem mem_addrsOf_of_mem {s : State} {a x : Nat} (hx : x ∈ hostList s a) : a ∈ addrsOf s := by
  unfold addrsOf
  cases hm : s.more.get a with
  | some l => exact List.mem_append_right _ (mem_keys_of_get hm)
  | none =>
    cases hh : s.hosts.get a with
    | some h => exact List.mem_append_left _ (mem_keys_of_get hh)
    | none => simp [hostList, hm, hh] at hx

theorem hostList_nil_of_not_addr {s : State} {a : Nat} (ha : a ∉ addrsOf s) : hostList s a = [] := by
  cases hl : hostList s a with
  | nil => rfl
  | cons x t => exact absurd (mem_addrsOf_of_mem (by rw [hl]; exact List.mem_cons_self)) ha

theorem live_iff (s : State) (h : Nat) : live s h = true ↔ Live s h := by
  simp [live, Live]

theorem cRep_iff (s : State) : cRep s = true ↔ Rep s := by
  unfold cRep Rep
  rw [allEntries_iff]
  constructor
  · intro h a l hm; simpa using h a l hm
  · intro h a l hm; simpa using h a l hm

theorem cListOk_iff (s : State) :
    cListOk s = true ↔ ∀ a h, h ∈ hostList s a → (some h = (none : Option Nat) ∨ Live s h) ∧ a ∈ (s.obj h).addrs := by
  unfold cListOk
  simp only [List.all_eq_true, Bool.and_eq_true, live_iff, List.contains_iff_mem]
  constructor
  · intro h a x hx; exact ⟨Or.inr (h a (mem_addrsOf_of_mem hx) x hx).1, (h a (mem_addrsOf_of_mem hx) x hx).2⟩
  · intro h a _ x hx; exact ⟨(h a x hx).1.resolve_left (by simp), (h a x hx).2⟩

theorem cNodup_iff (s : State) : cNodup s = true ↔ ∀ a, (hostList s a).Nodup := by
  unfold cNodup
  simp only [List.all_eq_true, decide_eq_true_eq]
  constructor
  · intro h a
    by_cases ha : a ∈ addrsOf s
    · exact h a ha
    · rw [hostList_nil_of_not_addr ha]; exact List.nodup_nil
  · intro h a _; exact h a

theorem cCap_iff (s : State) : cCap s = true ↔ Cap s := by
  unfold cCap Cap
  simp only [List.all_eq_true, decide_eq_true_eq]
  constructor
  · intro h a
    by_cases ha : a ∈ addrsOf s
    · exact h a ha
    · rw [hostList_nil_of_not_addr ha]; simp
  · intro h a _; exact h a

theorem cIdx_iff (s : State) :
    cIdx s = true ↔ ∀ i h, s.indexes.get i = some h → (s.obj h).lidx = i ∧ i ≠ 0 := by
  unfold cIdx; rw [allEntries_iff]
  constructor
  · intro h i x hx; simpa using h i x hx
  · intro h i x hx; simpa using h i x hx

theorem cReach_iff (s : State) :
    cReach s = true ↔ ∀ i h, s.indexes.get i = some h → ∀ a ∈ (s.obj h).addrs, h ∈ hostList s a := by
  unfold cReach; rw [allEntries_iff]
  constructor
  · intro h i x hx a ha
    have := h i x hx
    simp only [List.all_eq_true, List.contains_iff_mem] at this
    exact this a ha
  · intro h i x hx
    simp only [List.all_eq_true, List.contains_iff_mem]
    exact h i x hx

theorem cRidx_iff (s : State) :
    cRidx s = true ↔ ∀ r h, s.rindexes.get r = some h → Live s h ∧ (s.obj h).ridx = r := by
  unfold cRidx; rw [allEntries_iff]
  constructor
  · intro h r x hx; simpa [live_iff] using h r x hx
  · intro h r x hx; simpa [live_iff] using h r x hx

theorem cRel_iff (s : State) :
    cRel s = true ↔ ∀ i h, s.relays.get i = some h → Live s h ∧ ((s.rstate h).byIdx.get i).isSome = true ∧ i ≠ 0 := by
  unfold cRel; rw [allEntries_iff]
  constructor
  · intro h i x hx; simpa [live_iff, and_assoc] using h i x hx
  · intro h i x hx; simpa [live_iff, and_assoc] using h i x hx

theorem isSome_iff_exists {β : Type} (o : Option β) : o.isSome = true ↔ ∃ v, o = some v := by
  cases o <;> simp

theorem cRelOwn_iff (s : State) (hidx : ∀ i h, s.indexes.get i = some h → (s.obj h).lidx = i ∧ i ≠ 0) :
    cRelOwn s = true ↔ ∀ h i, Live s h → ((s.rstate h).byIdx.get i).isSome = true → s.relays.get i = some h := by
  unfold cRelOwn; rw [allEntries_iff]
  constructor
  · intro h x i hl hk
    have := h (s.obj x).lidx x hl
    simp only [Bool.or_eq_true, Bool.not_eq_true', allEntries_iff] at this
    rcases this with e | e
    · have := (live_iff s x).mpr hl; rw [e] at this; cases this
    · obtain ⟨v, hv⟩ := (isSome_iff_exists _).mp hk
      simpa using e i v hv
  · intro h k x hx
    simp only [Bool.or_eq_true, Bool.not_eq_true', allEntries_iff]
    by_cases hl : Live s x
    · right; intro i v hv
      simpa using h x i hl (by simp [hv])
    · left
      cases hb : live s x with
      | false => rfl
      | true => exact absurd ((live_iff s x).mp hb) hl

theorem rstate_of_get {s : State} {h : Nat} {r : RelayState} (hg : s.rs.get h = some r) : s.rstate h = r := by
  simp [State.rstate, hg]

theorem rstate_default_of_none {s : State} {h : Nat} (hg : s.rs.get h = none) : s.rstate h = {} := by
  simp [State.rstate, hg]

theorem cAgree_iff (s : State) : (cAgreeA s = true ∧ cAgreeI s = true) ↔ ∀ h, ROk (s.rstate h) := by
  unfold cAgreeA cAgreeI
  simp only [allEntries_iff]
  constructor
  · rintro ⟨hA, hI⟩ h
    cases hg : s.rs.get h with
    | none => rw [rstate_default_of_none hg]; exact rok_default
    | some r =>
      rw [rstate_of_get hg]
      constructor
      · intro a rel hr; simpa using hA h r hg a rel hr
      · intro i rel hr; simpa using hI h r hg i rel hr
  · intro h
    constructor
    · intro x r hg a rel hr
      have := (h x).1; rw [rstate_of_get hg] at this
      simpa using this a rel hr
    · intro x r hg i rel hr
      have := (h x).2; rw [rstate_of_get hg] at this
      simpa using this i rel hr

theorem cRsPend_iff (s : State) :
    cRsPend s = true ↔ ∀ h i, ((s.rstate h).byIdx.get i).isSome = true →
      h < s.next ∧ (∀ j, s.pidx.get j ≠ some h) ∧ (∀ a, s.vpnIps.get a ≠ some h) ∧ some h ≠ (none : Option Nat) := by
  unfold cRsPend
  simp only [allEntries_iff, Bool.and_eq_true, decide_eq_true_eq, bne_iff_ne, ne_eq]
  constructor
  · intro h x i hk
    cases hg : s.rs.get x with
    | none => rw [rstate_default_of_none hg] at hk; simp at hk
    | some r =>
      rw [rstate_of_get hg] at hk
      obtain ⟨v, hv⟩ := (isSome_iff_exists _).mp hk
      obtain ⟨⟨p1, p2⟩, p3⟩ := h x r hg i v hv
      exact ⟨p1, fun j e => p2 j x e rfl, fun a e => p3 a x e rfl, by simp⟩
  · intro h x r hg i v hv
    have hk : ((s.rstate x).byIdx.get i).isSome = true := by rw [rstate_of_get hg]; simp [hv]
    obtain ⟨p1, p2, p3, _⟩ := h x i hk
    exact ⟨⟨p1, fun j y e ey => p2 j (ey ▸ e)⟩, fun a y e ey => p3 a (ey ▸ e)⟩

theorem cPidx_iff (s : State) :
    cPidx s = true ↔ ∀ i h, s.pidx.get i = some h →
      (s.obj h).lidx = i ∧ i ≠ 0 ∧ s.indexes.get i = none ∧ (s.obj h).ready = true := by
  unfold cPidx; rw [allEntries_iff]
  constructor
  · intro h i x hx; simpa [and_assoc] using h i x hx
  · intro h i x hx; simpa [and_assoc] using h i x hx

theorem cVpn_iff (s : State) :
    cVpn s = true ↔ ∀ a h, s.vpnIps.get a = some h →
      (s.obj h).addrs = [a] ∧ ¬ Live s h ∧ some h ≠ (none : Option Nat) := by
  unfold cVpn; rw [allEntries_iff]
  constructor
  · intro h a x hx
    have := h a x hx
    simp only [Bool.and_eq_true, beq_iff_eq, Bool.not_eq_true'] at this
    refine ⟨this.1, fun hl => ?_, by simp⟩
    have hb := (live_iff s x).mpr hl; rw [this.2] at hb; cases hb
  · intro h a x hx
    obtain ⟨p1, p2, _⟩ := h a x hx
    simp only [Bool.and_eq_true, beq_iff_eq, Bool.not_eq_true']
    refine ⟨p1, ?_⟩
    cases hb : live s x with
    | false => rfl
    | true => exact absurd ((live_iff s x).mp hb) p2

theorem cFresh_iff (s : State) : cFresh s = true ↔ ∀ h, s.next ≤ h → s.objs.get h = none := by
  unfold cFresh
  simp only [List.all_eq_true, decide_eq_true_eq]
  constructor
  · intro h x hx
    cases hg : s.objs.get x with
    | none => rfl
    | some v => have := h x (mem_keys_of_get hg); omega
  · intro h x hx
    apply Nat.lt_of_not_le; intro hle
    have := h x hle
    have := (mem_keys_iff s.objs x).mp hx
    simp_all

theorem cVpnReady_iff (s : State) :
    cVpnReady s = true ↔ ∀ a h, s.vpnIps.get a = some h → (s.obj h).ready = true →
      s.pidx.get (s.obj h).lidx = some h := by
  unfold cVpnReady; rw [allEntries_iff]
  constructor
  · intro h a x hx hr
    have := h a x hx
    simpa [hr] using this
  · intro h a x hx
    cases hr : (s.obj x).ready with
    | false => simp
    | true => simpa using h a x hx hr

/-- **the run-time oracle decides the invariant** -/
theorem invCheck_iff_Inv (s : State) : invCheck s = none ↔ Inv s := by
  unfold invCheck
  rw [firstFailing_none]
  simp only [invClauses, List.mem_cons, List.not_mem_nil, or_false, forall_eq_or_imp, forall_eq]
  constructor
  · rintro ⟨h1, h2, h3, h4, h5, h6, h7, h8, h9, h10, h11, h12, h13, h14, h15, h16⟩
    have hidx := (cIdx_iff s).mp h5
    exact ⟨⟨(cRep_iff s).mp h1, (cListOk_iff s).mp h2, (cNodup_iff s).mp h3, hidx, (cReach_iff s).mp h6,
      (cRidx_iff s).mp h7, (cRel_iff s).mp h8, (cRelOwn_iff s hidx).mp h9, (cAgree_iff s).mp ⟨h10, h11⟩,
      (cRsPend_iff s).mp h12, (cPidx_iff s).mp h13, (cVpn_iff s).mp h14, (cFresh_iff s).mp h15,
      (cVpnReady_iff s).mp h16⟩, (cCap_iff s).mp h4⟩
  · rintro ⟨c, cap⟩
    have hag := (cAgree_iff s).mpr c.rok
    exact ⟨(cRep_iff s).mpr c.rep, (cListOk_iff s).mpr c.listOk, (cNodup_iff s).mpr c.nodup, (cCap_iff s).mpr cap,
      (cIdx_iff s).mpr c.idx, (cReach_iff s).mpr c.reach, (cRidx_iff s).mpr c.ridx, (cRel_iff s).mpr c.rel,
      (cRelOwn_iff s c.idx).mpr c.relOwn, hag.1, hag.2, (cRsPend_iff s).mpr c.rsPend, (cPidx_iff s).mpr c.pidx,
      (cVpn_iff s).mpr c.vpn, (cFresh_iff s).mpr c.fresh, (cVpnReady_iff s).mpr c.vpnReady⟩

end Nebula.HostMap

namespace Nebula.HostMap
open FMap Nebula.Spec.HostMap

/-! ### the step relation -/

/-- `h` is referenced from some map of the main hostmap -/
def MainRef (s : State) (h : Nat) : Prop :=
  (∃ a, h ∈ hostList s a) ∨ (∃ i, s.indexes.get i = some h) ∨ (∃ i, s.rindexes.get i = some h) ∨
  (∃ i, s.relays.get i = some h)

/-- `h` is referenced from the pending side of the handshake manager -/
def PendRef (s : State) (h : Nat) : Prop := (∃ a, s.vpnIps.get a = some h) ∨ (∃ i, s.pidx.get i = some h)

/-- What every operation must respect (C28 "never brought back", C29 "only released by the owner"); `fresh` are the
tunnels the operation is allowed to bring into the main hostmap. -/
structure Step (pre post : State) (fresh : List Nat) : Prop where
  noRes : ∀ h, MainRef post h → MainRef pre h ∨ h ∈ fresh
  idx : ∀ i h, pre.indexes.get i = some h → post.indexes.get i = some h ∨ ¬ MainRef post h
  rel : ∀ i h, pre.relays.get i = some h → post.relays.get i = some h ∨ ¬ MainRef post h
  pidx : ∀ i h, pre.pidx.get i = some h →
    post.pidx.get i = some h ∨ post.indexes.get i = some h ∨ ¬ (MainRef post h ∨ PendRef post h)
  ridx : ∀ r h, pre.rindexes.get r = some h →
    post.rindexes.get r = some h ∨ ¬ MainRef post h ∨ ∃ h', post.rindexes.get r = some h' ∧ h' ∈ fresh

theorem mem_valsG_iff {β : Type} (m : FMap β) (v : β) : v ∈ valsG m ↔ ∃ k, m.get k = some v := by
  unfold valsG
  simp only [List.mem_filterMap]
  constructor
  · rintro ⟨k, _, hk⟩; exact ⟨k, hk⟩
  · rintro ⟨k, hk⟩; exact ⟨k, mem_keys_of_get hk, hk⟩

theorem mem_mainRefs_iff (s : State) (h : Nat) : h ∈ mainRefs s ↔ MainRef s h := by
  unfold mainRefs MainRef
  simp only [List.mem_append, List.mem_flatMap, mem_valsG_iff, or_assoc]
  constructor
  · rintro (⟨a, _, ha⟩ | r)
    · exact Or.inl ⟨a, ha⟩
    · exact Or.inr r
  · rintro (⟨a, ha⟩ | r)
    · exact Or.inl ⟨a, mem_addrsOf_of_mem ha, ha⟩
    · exact Or.inr r

theorem mem_pendingRefs_iff (s : State) (h : Nat) : h ∈ pendingRefs s ↔ PendRef s h := by
  unfold pendingRefs PendRef
  simp only [List.mem_append, mem_valsG_iff]

/-- **the run-time transition oracle decides the step relation** -/
theorem stepCheck_iff_Step (pre post : State) (fresh : List Nat) :
    stepCheck pre post fresh = none ↔ Step pre post fresh := by
  unfold stepCheck
  rw [firstFailing_none]
  simp only [stepClauses, List.mem_cons, List.not_mem_nil, or_false, forall_eq_or_imp, forall_eq]
  unfold sNoResurrect sIdx sRel sPidx sRidx
  simp only [allEntries_iff, List.all_eq_true, Bool.or_eq_true, List.contains_iff_mem, beq_iff_eq, Bool.not_eq_true',
    mem_mainRefs_iff]
  constructor
  · rintro ⟨h1, h2, h3, h4, h5⟩
    refine ⟨fun h hm => h1 h hm, fun i h e => ?_, fun i h e => ?_, fun i h e => ?_, fun r h e => ?_⟩
    · rcases h2 i h e with p | p
      · exact Or.inl p
      · right; intro hm
        have := (mem_mainRefs_iff post h).mpr hm
        simp [List.contains_iff_mem, this] at p
    · rcases h3 i h e with p | p
      · exact Or.inl p
      · right; intro hm
        have := (mem_mainRefs_iff post h).mpr hm
        simp [List.contains_iff_mem, this] at p
    · rcases h4 i h e with (p | p) | p
      · exact Or.inl p
      · exact Or.inr (Or.inl p)
      · right; right; intro hm
        have : h ∈ mainRefs post ++ pendingRefs post := by
          rw [List.mem_append, mem_mainRefs_iff, mem_pendingRefs_iff]; exact hm
        simp [List.contains_iff_mem, this] at p
    · rcases h5 r h e with (p | p) | p
      · exact Or.inl p
      · right; left; intro hm
        have := (mem_mainRefs_iff post h).mpr hm
        simp [List.contains_iff_mem, this] at p
      · right; right
        cases hg : post.rindexes.get r with
        | none => simp [hg] at p
        | some h' => exact ⟨h', rfl, by simpa [hg] using p⟩
  · intro st
    refine ⟨fun h hm => st.noRes h hm, fun i h e => ?_, fun i h e => ?_, fun i h e => ?_, fun r h e => ?_⟩
    · rcases st.idx i h e with p | p
      · exact Or.inl p
      · right
        cases hc : (mainRefs post).contains h with
        | false => rfl
        | true => exact absurd ((mem_mainRefs_iff post h).mp (List.contains_iff_mem.mp hc)) p
    · rcases st.rel i h e with p | p
      · exact Or.inl p
      · right
        cases hc : (mainRefs post).contains h with
        | false => rfl
        | true => exact absurd ((mem_mainRefs_iff post h).mp (List.contains_iff_mem.mp hc)) p
    · rcases st.pidx i h e with p | p | p
      · exact Or.inl (Or.inl p)
      · exact Or.inl (Or.inr p)
      · right
        cases hc : (mainRefs post ++ pendingRefs post).contains h with
        | false => rfl
        | true =>
          have := List.contains_iff_mem.mp hc
          rw [List.mem_append, mem_mainRefs_iff, mem_pendingRefs_iff] at this
          exact absurd this p
    · rcases st.ridx r h e with p | p | ⟨h', p1, p2⟩
      · exact Or.inl (Or.inl p)
      · left; right
        cases hc : (mainRefs post).contains h with
        | false => rfl
        | true => exact absurd ((mem_mainRefs_iff post h).mp (List.contains_iff_mem.mp hc)) p
      · right; simp [p1, p2]

end Nebula.HostMap
