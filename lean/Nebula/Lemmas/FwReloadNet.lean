/-
Lemmas for C17 / C19 (seeded C19-5): the local-address check of `Firewall.Drop` precedes the conntrack fast
path, so a tuple whose local address is not in `routableNetworks` of the firewall *in force* is refused whatever
conntrack / the routine cache hold — in particular after a reload whose certificate lost an unsafe network.
-/
import Nebula.Lemmas.FwConn

namespace Nebula.Lemmas.Fw
open Nebula.Net Nebula.Fw

/-- a local address outside `routable`: `Drop` answers with an address error and touches nothing. -/
theorem drop_unroutable (fw : Fw) (ct : Conntrack) (now : Nat) (cache : Cache) (p : Packet) (incoming : Bool)
    (h : HostInfo) (hl : anyContains fw.routable p.localAddr = false) :
    (drop fw ct now cache p incoming h).1 ≠ .pass ∧ (drop fw ct now cache p incoming h).2 = (ct, cache) := by
  rw [drop_eq]
  cases hac : addrCheck fw.routable h.host p with
  | some v =>
    refine ⟨?_, rfl⟩
    intro hv
    exact addrCheck_ne_pass fw.routable h.host p (by rw [hac]; exact congrArg some hv)
  | none =>
    exfalso
    unfold addrCheck at hac
    cases hr : remoteCheck h.host p with
    | some v => simp [hr] at hac
    | none => simp [hr, hl] at hac

/-- is the op a reload? -/
def Op.isReload : Op → Bool
  | .reload _ => true
  | _ => false

theorem step_fw_of_not_reload (s : Sys) (op : Op) (h : Op.isReload op = false) : (s.step op).1.fw = s.fw := by
  cases op with
  | sleep d => rfl
  | packet p i hh => rfl
  | reload f => cases h

/-- every event of a step is judged by the firewall in force before the step, and passes only with a routable
local address. -/
theorem step_event_routable (s : Sys) (op : Op) (x : Event) (hx : (s.step op).2 = some x) :
    x.fw = s.fw ∧ (x.verdict = .pass → anyContains x.fw.routable x.pkt.localAddr = true) := by
  cases op with
  | sleep d => simp [Sys.step] at hx
  | reload f => simp [Sys.step] at hx
  | packet p incoming h =>
    simp only [Sys.step, Option.some.injEq] at hx
    subst hx
    refine ⟨rfl, ?_⟩
    intro hp
    cases hl : anyContains s.fw.routable p.localAddr with
    | true => rfl
    | false =>
      exfalso
      exact (drop_unroutable s.fw s.ct s.now (s.ticker.get s.now).2 p incoming h hl).1 hp

/-- histories: every event beyond the ones already collected satisfies `P`, if `P` holds of the events of every
step from a state satisfying the invariant `I`. -/
theorem runFrom_events (I : Sys → Prop) (P : Event → Prop)
    (hI : ∀ s op, I s → (∀ x, (s.step op).2 = some x → P x))
    (ops : List Op) (hkeep : ∀ s op, op ∈ ops → I s → I (s.step op).1) :
    ∀ (s : Sys) (evs : List Event), I s → (∀ e ∈ evs, P e) → ∀ e ∈ (Sys.runFrom (s, evs) ops).2, P e := by
  induction ops with
  | nil => intro s evs _ hev e he; exact hev e he
  | cons op ops ih =>
    intro s evs hs hev e he
    simp only [Sys.runFrom] at he
    refine ih (fun s o ho => hkeep s o (List.mem_cons_of_mem _ ho)) (s.step op).1 _
      (hkeep s op (List.mem_cons_self) hs) ?_ e he
    intro y hy
    rcases List.mem_append.mp hy with hy | hy
    · cases hso : (s.step op).2 with
      | none => simp [hso] at hy
      | some x =>
        simp only [hso, Option.toList, List.mem_singleton] at hy
        rw [hy]
        exact hI s op hs x hso
    · exact hev y hy

/-- in every history from any state (any conntrack content, any number of reloads): a packet passes only if its
local address is routable for the firewall that judged it. -/
theorem run_pass_routable (s : Sys) (ops : List Op) :
    ∀ e ∈ (s.run ops).2, e.verdict = .pass → anyContains e.fw.routable e.pkt.localAddr = true := by
  refine runFrom_events (fun _ => True) (fun e => e.verdict = .pass → anyContains e.fw.routable e.pkt.localAddr = true)
    (fun s op _ x hx => (step_event_routable s op x hx).2) ops (fun _ _ _ _ => trivial) s [] trivial ?_
  intro e he; cases he

/-- in a history without reloads every event is judged by the firewall the history started with. -/
theorem run_fw_const (s : Sys) (ops : List Op) (hnr : ∀ op ∈ ops, Op.isReload op = false) :
    ∀ e ∈ (s.run ops).2, e.fw = s.fw := by
  refine runFrom_events (fun t => t.fw = s.fw) (fun e => e.fw = s.fw)
    (fun t op ht x hx => by rw [(step_event_routable t op x hx).1, ht]) ops
    (fun t op ho ht => by rw [step_fw_of_not_reload t op (hnr op ho), ht]) s [] rfl ?_
  intro e he; cases he

theorem reload_routable (s : Sys) (newFw : Fw) : (s.reload newFw).fw.routable = newFw.routable := by
  unfold Sys.reload
  by_cases hv : (s.fw.rulesVersion + 1) % 65536 = 0 <;> simp [hv]

end Nebula.Lemmas.Fw
