/-
Step lemmas about `Model/Machine` (handshake.Machine): what a step can do to the completion flags,
the failed flag, and what a completion rests on.
-/
import Nebula.Model.Machine
import Nebula.Spec.Handshake

namespace Nebula.Machine
open Nebula.Wire Nebula.Spec.Handshake

theorem requireComplete_ok {s s' : St} (h : requireComplete s = (s', none)) :
    s' = s ∧ s.payloadSet = true ∧ s.remoteCertSet = true := by
  unfold requireComplete at h
  split at h
  · simp at h
  · rename_i hc
    simp at h hc
    exact ⟨h.symm, hc.1, hc.2⟩

/-- `validateCert` succeeds only through an accepted certificate bound to `peerStatic`. -/
theorem validateCert_ok {c : Cfg} {s s' : St} {ps : Bytes} {co : CertOut}
    (h : validateCert c s ps co = (s', none)) :
    ∃ pub ver cert, co.recombine = some (pub, ver) ∧ pub = ps ∧ co.verify = some cert ∧
      s'.remoteCert = some cert ∧ s'.remoteCertSet = true ∧ s'.failed = s.failed ∧
      s'.payloadSet = s.payloadSet ∧ s'.remoteIndex = s.remoteIndex ∧ s'.msgIdx = s.msgIdx ∧
      s'.localIndex = s.localIndex ∧ s'.indexAllocated = s.indexAllocated ∧ s'.handshakeTime = s.handshakeTime := by
  unfold validateCert at h
  split at h
  · simp at h
  · split at h
    · simp at h
    · rename_i pub ver hrc
      split at h
      · simp at h
      · rename_i hpub
        simp only at h
        split at h
        · simp at h
        · rename_i v hv
          simp at h hpub
          subst h
          refine ⟨pub, ver, v, hrc, hpub, hv, rfl, rfl, ?_, ?_, ?_, ?_, ?_, ?_, ?_⟩ <;> (simp only; split <;> rfl)

/-- an error from `validateCert` always marks the Machine failed. -/
theorem validateCert_err {c : Cfg} {s s' : St} {ps : Bytes} {co : CertOut} {e : Err}
    (h : validateCert c s ps co = (s', some e)) : s'.failed = true := by
  unfold validateCert at h
  split at h
  · simp [fail] at h; rw [← h.1]
  · split at h
    · simp [fail] at h; rw [← h.1]
    · split at h
      · simp [fail] at h; rw [← h.1]
      · simp only at h
        split at h
        · simp [fail] at h; rw [← h.1]
        · simp at h

/-- The certificate fields of the state after a step are either untouched or come from an accepted
certificate bound to `ps`. -/
def CertStep (s s' : St) (ps : Bytes) (co : CertOut) : Prop :=
  (s'.remoteCertSet = s.remoteCertSet ∧ (s'.remoteCert, s'.remoteKey) = (s.remoteCert, s.remoteKey)) ∨
  (∃ pub ver cert, co.recombine = some (pub, ver) ∧ pub = ps ∧ co.verify = some cert ∧
    (s'.remoteCert, s'.remoteKey) = (some cert, ps))

theorem validateCert_certStep (c : Cfg) (s : St) (ps : Bytes) (co : CertOut) :
    CertStep s (validateCert c s ps co).1 ps co := by
  unfold validateCert
  split
  · left; simp [fail]
  · split
    · left; simp [fail]
    · rename_i pub ver hrc
      split
      · left; simp [fail]
      · rename_i hpub
        simp only
        split
        · left; simp only [fail]; split <;> simp
        · rename_i v hv
          right
          simp at hpub
          exact ⟨pub, ver, v, hrc, hpub, hv, by simp [hpub]⟩

theorem processIndex_cert (c : Cfg) (s : St) (p : Payload.Payload) (fl : MsgFlags) :
    (processIndex c s p fl).1.remoteCertSet = s.remoteCertSet ∧
    ((processIndex c s p fl).1.remoteCert, (processIndex c s p fl).1.remoteKey) = (s.remoteCert, s.remoteKey) := by
  unfold processIndex
  split
  · simp only; split <;> (split <;> simp [fail])
  · simp

theorem CertStep.of_eq {s s1 s2 : St} {ps : Bytes} {co : CertOut}
    (h1 : s1.remoteCertSet = s.remoteCertSet ∧ (s1.remoteCert, s1.remoteKey) = (s.remoteCert, s.remoteKey))
    (h2 : CertStep s1 s2 ps co) :
    CertStep s s2 ps co := by
  rcases h2 with ⟨a, b⟩ | h
  · left; exact ⟨a.trans h1.1, b.trans h1.2⟩
  · right; exact h

theorem processPayload_certStep (c : Cfg) (s : St) (msg : Bytes) (fl : MsgFlags) (ps : Bytes) (co : CertOut) :
    CertStep s (processPayload c s msg fl ps co).1 ps co := by
  unfold processPayload
  split
  · split <;> (left; simp [fail])
  · split
    · rename_i p hp
      simp only
      split
      · left; simp [fail]
      · split
        · left; simp [fail]
        · have hi := processIndex_cert c s p fl
          split
          · rename_i s1 e heq
            rw [heq] at hi
            left; exact hi
          · rename_i s1 heq
            rw [heq] at hi
            split
            · exact CertStep.of_eq hi (validateCert_certStep c s1 ps co)
            · left; exact hi
    · left; simp [fail]

theorem processIndex_err {c : Cfg} {s s' : St} {p : Payload.Payload} {fl : MsgFlags} {e : Err}
    (h : processIndex c s p fl = (s', some e)) : s'.failed = true := by
  unfold processIndex at h
  split at h
  · simp only at h
    by_cases hz : (if c.initiator then p.responderIndex else p.initiatorIndex) = 0
    · simp only [hz, if_true, fail, Prod.mk.injEq] at h; rw [← h.1]
    · simp only [hz, if_false, Prod.mk.injEq] at h; simp at h
  · simp at h

/-- every error of `processPayload` marks the Machine failed. -/
theorem processPayload_err {c : Cfg} {s s' : St} {msg : Bytes} {fl : MsgFlags} {ps : Bytes} {co : CertOut} {e : Err}
    (h : processPayload c s msg fl ps co = (s', some e)) : s'.failed = true := by
  unfold processPayload at h
  split at h
  · split at h
    · simp [fail] at h; rw [← h.1]
    · simp at h
  · split at h
    · simp only at h
      split at h
      · simp [fail] at h; rw [← h.1]
      · split at h
        · simp [fail] at h; rw [← h.1]
        · split at h
          · rename_i s1 e1 heq
            simp at h
            rw [← h.1]
            exact processIndex_err heq
          · split at h
            · exact validateCert_err h
            · simp at h
    · simp [fail] at h; rw [← h.1]

theorem processIndex_ok_failed {c : Cfg} {s s' : St} {p : Payload.Payload} {fl : MsgFlags}
    (h : processIndex c s p fl = (s', none)) : s'.failed = s.failed := by
  unfold processIndex at h
  split at h
  · simp only at h
    by_cases hz : (if c.initiator then p.responderIndex else p.initiatorIndex) = 0
    · simp only [hz, if_true, fail, Prod.mk.injEq] at h; simp at h
    · simp only [hz, if_false, Prod.mk.injEq] at h; rw [← h.1]
  · simp at h; rw [h]

/-- a successful `processPayload` does not touch the failed flag. -/
theorem processPayload_ok_failed {c : Cfg} {s s' : St} {msg : Bytes} {fl : MsgFlags} {ps : Bytes} {co : CertOut}
    (h : processPayload c s msg fl ps co = (s', none)) : s'.failed = s.failed := by
  unfold processPayload at h
  split at h
  · split at h
    · simp at h
    · simp at h; rw [h]
  · split at h
    · simp only at h
      split at h
      · simp at h
      · split at h
        · simp at h
        · split at h
          · simp at h
          · rename_i s1 heq
            have h1 := processIndex_ok_failed heq
            split at h
            · obtain ⟨_, _, _, _, _, _, _, _, hf, _⟩ := validateCert_ok h
              rw [hf, h1]
            · simp at h; rw [← h, h1]
    · simp at h

theorem buildResponse_fields {c : Cfg} {s s' : St} {now : Nat} {wr : WriteOut} {sent : Sent} {a b : Bool}
    (h : buildResponse c s now wr = .ok (s', sent, a, b)) :
    s'.remoteCertSet = s.remoteCertSet ∧ (s'.remoteCert, s'.remoteKey) = (s.remoteCert, s.remoteKey) ∧ s'.payloadSet = s.payloadSet ∧
    s'.failed = s.failed ∧ s'.remoteIndex = s.remoteIndex ∧ s'.msgIdx = s.msgIdx + 1 ∧ wr = .ok a b := by
  unfold buildResponse at h
  split at h
  · simp at h
  · rename_i s1 sent1 hm
    simp only at h
    split at h
    · simp at h
    · rename_i k1 k2
      simp at h
      obtain ⟨h1, _, h3, h4⟩ := h
      subst h1 h3 h4
      -- marshalOutgoing only touches localIndex / indexAllocated
      unfold marshalOutgoing at hm
      split at hm
      · simp at hm; obtain ⟨rfl, _⟩ := hm; simp
      · simp only at hm
        split at hm
        · simp at hm
        · rename_i s2 hs2
          have hs : s2.remoteCertSet = s.remoteCertSet ∧ (s2.remoteCert, s2.remoteKey) = (s.remoteCert, s.remoteKey) ∧ s2.payloadSet = s.payloadSet ∧
              s2.failed = s.failed ∧ s2.remoteIndex = s.remoteIndex ∧ s2.msgIdx = s.msgIdx := by
            split at hs2
            · split at hs2
              · split at hs2
                · simp at hs2
                · simp at hs2; subst hs2; simp
              · simp at hs2; subst hs2; simp
            · simp at hs2; subst hs2; simp
          split at hm
          · split at hm
            · simp at hm
            · simp at hm; obtain ⟨rfl, _⟩ := hm; simp [hs]
          · simp at hm; obtain ⟨rfl, _⟩ := hm; simp [hs]

end Nebula.Machine
