/-
Read-back of the fields the segmenter writes (C24): IP lengths, IPv4 ID, TCP sequence number and flags.
-/
import Nebula.Lemmas.SegmentValid

namespace Nebula.Lemmas.SegmentFields
open Nebula.Csum Nebula.Segment Nebula.Gen Nebula.Lemmas.Segment Nebula.Lemmas.SegmentList
open Nebula.Lemmas.SegmentNF Nebula.Lemmas.SegmentInv

/-- what `patchIP` leaves in the IPv4 total-length and ID fields. -/
theorem patchIP_v4_fields (X : List UInt8) (hdrLen spl origID baseIP i : Nat) (h12 : 12 ≤ X.length) :
    be16 (patchIP X true hdrLen spl origID baseIP i) 2 = (hdrLen + spl) % 65536 ∧
    be16 (patchIP X true hdrLen spl origID baseIP i) 4 = (origID + i % 65536) % 65536 := by
  unfold patchIP
  simp only [virtio_ipv4TotalLenOff, virtio_ipv4IDOff, virtio_ipv4ChecksumOff, if_true]
  have l1 := set16_length X 2 ((hdrLen + spl) % 65536) (by omega)
  have k1 := be16_set16_same X 2 ((hdrLen + spl) % 65536) (by omega) (by omega)
  generalize set16 X 2 ((hdrLen + spl) % 65536) = X1 at *
  have l2 := set16_length X1 4 ((origID + i % 65536) % 65536) (by omega)
  have k2 := be16_set16_same X1 4 ((origID + i % 65536) % 65536) (by omega) (by omega)
  have k2' := be16_set16_other X1 4 ((origID + i % 65536) % 65536) 2 (by omega) (by omega)
  generalize set16 X1 4 ((origID + i % 65536) % 65536) = X2 at *
  constructor
  · rw [be16_set16_other _ 10 _ 2 (by omega) (by omega), k2', k1]
  · rw [be16_set16_other _ 10 _ 4 (by omega) (by omega), k2]

/-- what `patchIP` leaves in the IPv6 payload-length field. -/
theorem patchIP_v6_field (X : List UInt8) (hdrLen spl origID baseIP i : Nat) (h12 : 12 ≤ X.length)
    (h40 : 40 ≤ hdrLen) (hfit : hdrLen - 40 + spl ≤ 65535) :
    be16 (patchIP X false hdrLen spl origID baseIP i) 4 = hdrLen - 40 + spl := by
  unfold patchIP
  simp only [virtio_ipv6PayloadLenOff, virtio_ipv6FixedLen, Bool.false_eq_true, if_false]
  have e : (((hdrLen : Int) - (40 : Nat) + (spl : Nat)) % 65536).toNat = hdrLen - 40 + spl := by omega
  rw [e, be16_set16_same _ 4 _ (by omega) (by omega)]

/-- what the TCP writes leave in the sequence-number and flags fields. -/
theorem tcpL4_fields (T : List UInt8) (seq fl tck : Nat) (hT : 18 ≤ T.length) (hseq : seq < 4294967296)
    (hfl : fl < 256) :
    be16 (tcpL4 T seq fl tck) 4 * 65536 + be16 (tcpL4 T seq fl tck) 6 = seq ∧
    byteAt (tcpL4 T seq fl tck) 13 = fl := by
  unfold tcpL4 set32
  simp only [Nat.reduceAdd]
  have hhi : seq / 65536 % 65536 = seq / 65536 := by omega
  rw [hhi]
  have l1 := set16_length T 4 (seq / 65536) (by omega)
  have k1 := be16_set16_same T 4 (seq / 65536) (by omega) (by omega)
  generalize set16 T 4 (seq / 65536) = T1 at *
  have l2 := set16_length T1 6 (seq % 65536) (by omega)
  have k2 := be16_set16_same T1 6 (seq % 65536) (by omega) (by omega)
  have k2' := be16_set16_other T1 6 (seq % 65536) 4 (by omega) (by omega)
  generalize set16 T1 6 (seq % 65536) = T2 at *
  have l3 := set8_length T2 13 fl (by omega)
  have k3 := be16_set8_other T2 13 fl 4 (by omega) (by omega)
  have k3' := be16_set8_other T2 13 fl 6 (by omega) (by omega)
  have d3 := getD_set8 T2 13 fl 13 (by omega)
  generalize set8 T2 13 fl = T3 at *
  constructor
  · rw [be16_set16_other _ 16 _ 4 (by omega) (by omega), be16_set16_other _ 16 _ 6 (by omega) (by omega),
      k3, k3', k2, k2', k1]
    omega
  · unfold byteAt
    rw [getD_set16 _ _ _ _ (by omega)]
    simp only [show (13 : Nat) ≠ 16 by decide, show (13 : Nat) ≠ 16 + 1 by decide, if_false, d3, if_true]
    simp [UInt8.toNat_ofNat']; omega

end Nebula.Lemmas.SegmentFields
