/-
Helper lemmas for C39: every control-message handler only *extends* the relay state (`Ext`): records keep
their identity, new Forwarding records appear only while `am_relay` and never point at the node itself,
and every `hm.Relays` entry stays owned.
-/
import Nebula.Model.Relay
import Nebula.Spec.Relay
import Nebula.Lemmas.RelayFwd

namespace Nebula.Lemmas.Relay
open Nebula.Relay Nebula.Gen Nebula.Spec.Relay

/-- an update that keeps a record's identity (type, peer address, local index). -/
def KeyPres (f : Relay → Relay) : Prop :=
  ∀ r, (f r).type = r.type ∧ (f r).peerAddr = r.peerAddr ∧ (f r).localIndex = r.localIndex

theorem keyPres_setState (a : Addr) (st : Nat) : KeyPres (setStateF a st) := by
  intro r; unfold setStateF; split <;> simp

theorem keyPres_completeIp (a : Addr) (i : Nat) : KeyPres (completeIpF a i) := by
  intro r; unfold completeIpF; split <;> simp

theorem keyPres_completeIdx (a i : Nat) : KeyPres (completeIdxF a i) := by
  intro r; unfold completeIdxF; split <;> simp

/-- `m` extends `n` (`am` = the value of `am_relay` under which new Forwarding records may appear). -/
structure Ext (am : Bool) (n m : Node) : Prop where
  my : m.myAddrs = n.myAddrs
  amr : m.amRelay = n.amRelay
  back : ∀ h' ∈ m.hosts, ∀ r' ∈ h'.recs,
    (∃ h ∈ n.hosts, h.id = h'.id ∧ ∃ r ∈ h.recs, r.type = r'.type ∧ r.peerAddr = r'.peerAddr ∧ r.localIndex = r'.localIndex)
    ∨ r'.type ≠ nebula_ForwardingType ∨ (am = true ∧ n.myAddrs.contains r'.peerAddr = false)
  fwd : ∀ h ∈ n.hosts, ∃ h' ∈ m.hosts, h'.id = h.id ∧ ∀ r ∈ h.recs, ∃ r' ∈ h'.recs, r'.localIndex = r.localIndex
  rel : ∀ p ∈ m.relays, p ∈ n.relays ∨ ∃ h' ∈ m.hosts, h'.id = p.2 ∧ ∃ r' ∈ h'.recs, r'.localIndex = p.1

theorem Ext.refl (am : Bool) (n : Node) : Ext am n n :=
  { my := rfl, amr := rfl
    back := fun h' hh' r' hr' => Or.inl ⟨h', hh', rfl, r', hr', rfl, rfl, rfl⟩
    fwd := fun h hh => ⟨h, hh, rfl, fun r hr => ⟨r, hr, rfl⟩⟩
    rel := fun p hp => Or.inl hp }

/-- a per-host update `g` that keeps the id and either keeps the records or maps them with a
key-preserving function. -/
theorem ext_mapHosts {am : Bool} {n m : Node} (g : Host → Host) (f : Relay → Relay) (hf : KeyPres f)
    (hg : ∀ h, (g h).id = h.id ∧ ((g h).recs = h.recs ∨ (g h).recs = h.recs.map f)) (e : Ext am n m) :
    Ext am n { m with hosts := m.hosts.map g } := by
  have gid : ∀ h, (g h).id = h.id := fun h => (hg h).1
  have keep : ∀ h, ∀ r ∈ h.recs, ∃ r' ∈ (g h).recs, r'.localIndex = r.localIndex := by
    intro h r hr
    rcases (hg h).2 with h2 | h2
    · rw [h2]; exact ⟨r, hr, rfl⟩
    · rw [h2]; exact ⟨f r, List.mem_map.mpr ⟨r, hr, rfl⟩, (hf r).2.2⟩
  refine { my := e.my, amr := e.amr, back := ?_, fwd := ?_, rel := ?_ }
  · intro h' hh' r' hr'
    simp only [List.mem_map] at hh'
    obtain ⟨h0, hh0, rfl⟩ := hh'
    rw [gid]
    rcases (hg h0).2 with h1 | h1
    · rw [h1] at hr'; exact e.back h0 hh0 r' hr'
    · rw [h1] at hr'
      simp only [List.mem_map] at hr'
      obtain ⟨r0, hr0, rfl⟩ := hr'
      have k := hf r0
      rw [k.1, k.2.1, k.2.2]
      exact e.back h0 hh0 r0 hr0
  · intro h hh
    obtain ⟨h1, hh1, hid, hrec⟩ := e.fwd h hh
    refine ⟨g h1, List.mem_map.mpr ⟨h1, hh1, rfl⟩, by rw [gid]; exact hid, ?_⟩
    intro r hr
    obtain ⟨r1, hr1, hi⟩ := hrec r hr
    obtain ⟨r2, hr2, hi2⟩ := keep h1 r1 hr1
    exact ⟨r2, hr2, by rw [hi2]; exact hi⟩
  · intro p hp
    rcases e.rel p hp with h1 | ⟨h1, hh1, hid, r1, hr1, hi⟩
    · exact Or.inl h1
    · obtain ⟨r2, hr2, hi2⟩ := keep h1 r1 hr1
      exact Or.inr ⟨g h1, List.mem_map.mpr ⟨h1, hh1, rfl⟩, by rw [gid]; exact hid, r2, hr2, by rw [hi2]; exact hi⟩

theorem ext_modHost_map {am : Bool} {n m : Node} (hid : Nat) (f : Relay → Relay) (hf : KeyPres f)
    (e : Ext am n m) : Ext am n (m.modHost hid (·.mapRecs f)) := by
  unfold Node.modHost
  exact ext_mapHosts _ f hf (fun h => by
    cases c : (h.id == hid)
    · simp [c]
    · simp [c, Host.mapRecs]) e

theorem ext_modHostsFor_map {am : Bool} {n m : Node} (a : Addr) (f : Relay → Relay) (hf : KeyPres f)
    (e : Ext am n m) : Ext am n (m.modHostsFor a (·.mapRecs f)) := by
  unfold Node.modHostsFor
  exact ext_mapHosts _ f hf (fun h => by
    cases c : h.vpnAddrs.contains a
    · simp [c]
    · simp [c, Host.mapRecs]) e

/-- a per-host update that does not touch relay records at all (e.g. the underlay address). -/
theorem ext_modHost_other {am : Bool} {n m : Node} (hid : Nat) (g : Host → Host)
    (hg : ∀ h, (g h).id = h.id ∧ (g h).recs = h.recs) (e : Ext am n m) : Ext am n (m.modHost hid g) := by
  unfold Node.modHost
  exact ext_mapHosts _ id (fun r => ⟨rfl, rfl, rfl⟩) (fun h => by
    cases c : (h.id == hid)
    · simp [c]
    · simp [c, hg h]) e

/-- a re-ordering of the host list. -/
theorem ext_perm {am : Bool} {n m : Node} (l : List Host) (hl : ∀ h, h ∈ l ↔ h ∈ m.hosts) (e : Ext am n m) :
    Ext am n { m with hosts := l } :=
  { my := e.my, amr := e.amr
    back := fun h' hh' => e.back h' ((hl h').mp hh')
    fwd := fun h hh => by
      obtain ⟨h1, hh1, r⟩ := e.fwd h hh
      exact ⟨h1, (hl h1).mpr hh1, r⟩
    rel := fun p hp => by
      rcases e.rel p hp with h1 | ⟨h1, hh1, r⟩
      · exact Or.inl h1
      · exact Or.inr ⟨h1, (hl h1).mpr hh1, r⟩ }

theorem ext_toFront {am : Bool} {n m : Node} (hid : Nat) (e : Ext am n m) : Ext am n (m.toFront hid) := by
  unfold Node.toFront
  apply ext_perm _ _ e
  intro h
  simp only [List.mem_append, List.mem_filter]
  by_cases c : (h.id == hid) = true <;> simp [c]

theorem ext_pending {am : Bool} {n m : Node} (_p : List Addr) (e : Ext am n m) : Ext am n { m with pending := _p } :=
  { my := e.my, amr := e.amr, back := e.back, fwd := e.fwd, rel := e.rel }

/-- `AddRelay`: a new record on the hostinfo `hid` and a new, owned `hm.Relays` entry. -/
theorem ext_addRelay {am : Bool} {n m m1 : Node} {c c' hid peer ri ty st i : Nat}
    (h : addRelay m c hid peer ri ty st = (some (m1, i), c'))
    (ok : ty ≠ nebula_ForwardingType ∨ (am = true ∧ n.myAddrs.contains peer = false))
    (e : Ext am n m) : Ext am n m1 := by
  unfold addRelay at h
  split at h
  · simp at h
  · rename_i idx c1 _
    split at h
    · simp at h
    · rename_i h0 hfind
      simp only [Prod.mk.injEq, Option.some.injEq] at h
      obtain ⟨⟨rfl, rfl⟩, rfl⟩ := h
      have hf0 := findHost_some hfind
      -- the modified host list, before re-ordering
      let r : Relay := { type := ty, state := st, localIndex := idx, remoteIndex := ri, peerAddr := peer }
      let g : Host → Host := fun h => if h.id == hid then { h with recs := h.recs ++ [r] } else h
      have gid : ∀ h, (g h).id = h.id := by intro h; simp only [g]; split <;> rfl
      have e1 : Ext am n { m with hosts := m.hosts.map g } := by
        refine { my := e.my, amr := e.amr, back := ?_, fwd := ?_, rel := ?_ }
        · intro h' hh' r' hr'
          simp only [List.mem_map] at hh'
          obtain ⟨h1, hh1, rfl⟩ := hh'
          rw [gid]
          simp only [g] at hr'
          split at hr'
          · simp only [List.mem_append, List.mem_singleton] at hr'
            rcases hr' with hr' | rfl
            · exact e.back h1 hh1 r' hr'
            · exact Or.inr ok
          · exact e.back h1 hh1 r' hr'
        · intro h hh
          obtain ⟨h1, hh1, hid1, hrec⟩ := e.fwd h hh
          refine ⟨g h1, List.mem_map.mpr ⟨h1, hh1, rfl⟩, by rw [gid]; exact hid1, ?_⟩
          intro r0 hr0
          obtain ⟨r1, hr1, hi⟩ := hrec r0 hr0
          refine ⟨r1, ?_, hi⟩
          simp only [g]; split
          · exact List.mem_append_left _ hr1
          · exact hr1
        · intro p hp
          rcases e.rel p hp with h1 | ⟨h1, hh1, hid1, r1, hr1, hi⟩
          · exact Or.inl h1
          · refine Or.inr ⟨g h1, List.mem_map.mpr ⟨h1, hh1, rfl⟩, by rw [gid]; exact hid1, r1, ?_, hi⟩
            simp only [g]; split
            · exact List.mem_append_left _ hr1
            · exact hr1
      have e2 := ext_toFront hid e1
      refine { my := e2.my, amr := e2.amr, back := e2.back, fwd := e2.fwd, rel := ?_ }
      intro p hp
      simp only [List.mem_cons, List.mem_filter] at hp
      rcases hp with rfl | ⟨hp, _⟩
      · -- the new entry is owned by the host it was added to
        refine Or.inr ⟨g h0, ?_, by rw [gid]; exact hf0.2, r, ?_, rfl⟩
        · show g h0 ∈ (Node.toFront { m with hosts := m.hosts.map g } hid).hosts
          unfold Node.toFront
          simp only [List.mem_append, List.mem_filter, List.mem_map]
          exact Or.inl ⟨⟨h0, hf0.1, rfl⟩, by rw [gid, hf0.2]; simp⟩
        · simp only [g, hf0.2, beq_self_eq_true, if_true, List.mem_append, List.mem_singleton, or_true]
      · exact e2.rel p hp

-- ---- consequences of `Ext`

def NS (n : Node) : Prop :=
  ∀ h ∈ n.hosts, ∀ r ∈ h.recs, r.type = nebula_ForwardingType → n.myAddrs.contains r.peerAddr = false

def RO (n : Node) : Prop :=
  ∀ p ∈ n.relays, ∃ h ∈ n.hosts, h.id = p.2 ∧ ∃ r ∈ h.recs, r.localIndex = p.1

theorem Ext.ns {am : Bool} {n m : Node} (e : Ext am n m) (h : NS n) : NS m := by
  intro h' hh' r' hr' hty
  rw [e.my]
  rcases e.back h' hh' r' hr' with ⟨h0, hh0, _, r0, hr0, k1, k2, _⟩ | h1 | h1
  · rw [← k2]; exact h h0 hh0 r0 hr0 (by rw [k1]; exact hty)
  · exact absurd hty h1
  · exact h1.2

theorem Ext.ro {am : Bool} {n m : Node} (e : Ext am n m) (h : RO n) : RO m := by
  intro p hp
  rcases e.rel p hp with h1 | h1
  · obtain ⟨h0, hh0, hid, r0, hr0, hi⟩ := h p h1
    obtain ⟨h', hh', hid', hrec⟩ := e.fwd h0 hh0
    obtain ⟨r', hr', hi'⟩ := hrec r0 hr0
    exact ⟨h', hh', by rw [hid']; exact hid, r', hr', by rw [hi']; exact hi⟩
  · exact h1

theorem ns_iff (n : Node) : noSelfRecords n = true ↔ NS n := by
  unfold noSelfRecords NS
  simp only [List.all_eq_true, Bool.or_eq_true, Bool.not_eq_true', beq_eq_false_iff_ne, ne_eq]
  constructor
  · intro h x hx r hr hty
    rcases h x hx r hr with h1 | h1
    · exact absurd (by simpa using hty) h1
    · exact h1
  · intro h x hx r hr
    by_cases c : r.type = nebula_ForwardingType
    · exact Or.inr (h x hx r hr c)
    · exact Or.inl (by simpa using c)

theorem ro_iff (n : Node) : relaysOwned n = true ↔ RO n := by
  unfold relaysOwned RO
  simp only [List.all_eq_true, List.any_eq_true, Bool.and_eq_true, beq_iff_eq]

end Nebula.Lemmas.Relay
